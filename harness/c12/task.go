package c12

import (
	"fmt"
	"os"
	"os/exec"
	"path/filepath"
	"runtime"
	"sort"
	"strconv"
	"strings"
	"sync"
	"time"

	imodels "github.com/influxdata/influxdb/models"
	"github.com/influxdata/kapacitor"
	"github.com/influxdata/kapacitor/edge"
	"github.com/influxdata/kapacitor/models"
	"github.com/influxdata/kapacitor/pipeline"

	"verifharness/kit"
)

// A real task: `task new kind=join|union n=.. [join cfg] dims=..` then `task w <src> <time> tags= fields=`
// lines in the order the points are WRITTEN to the TaskMaster (the parents `stream|from().measurement('m<i>')`
// are read by the multiConsumer goroutines of the join/union node: the write order only biases the
// arrival interleaving), then `task run`: start, write, Drain (parents end, Finish flushes), Wait, read sink.
type taskRun struct {
	spec   int      // joinon: the parent grouped by more dimensions than on()
	win    int64    // joinb: window period = every (ns)
	inputs []string // joinb: `task bin` lines: the batches that entered the join, parent by parent
	kind   string
	cfg    joinCfg
	dims   []string
	rename string
	writes []taskWrite
}

type taskWrite struct {
	src    int
	t      int64
	tags   map[string]string
	fields map[string]interface{}
}

func (t *taskRun) close() {}

func (t *taskRun) script() string {
	var b strings.Builder
	gb := ""
	if len(t.dims) > 0 {
		var ds []string
		for _, d := range t.dims {
			ds = append(ds, tickStr(d))
		}
		gb = ".groupBy(" + strings.Join(ds, ",") + ")"
	}
	for i := 0; i < t.cfg.n; i++ {
		if t.kind == "joinon" {
			// join.on('h'): the specific parent is grouped by cpu AND host, the others by host only
			g := ".groupBy('h')"
			if i == t.spec {
				g = ".groupBy('c', 'h')"
			}
			fmt.Fprintf(&b, "var p%d = stream|from().measurement('m%d')%s\n", i, i, g)
			continue
		}
		if t.kind == "joinb" {
			// batch join: both parents window the stream; a sink in front of the join records what enters it
			fmt.Fprintf(&b, "var p%d = stream|from().measurement('m%d')%s|window().period(%du).every(%du).align()@bsink()\n", i, i, gb, t.win/1000, t.win/1000)
		} else {
			fmt.Fprintf(&b, "var p%d = stream|from().measurement('m%d')%s\n", i, i, gb)
		}
	}
	if t.kind == "union" {
		fmt.Fprintf(&b, "p0|union(%s)", others(t.cfg.n))
		if t.rename != "" {
			fmt.Fprintf(&b, ".rename(%s)", tickStr(t.rename))
		}
		b.WriteString("@sink()\n")
		return b.String()
	}
	s := t.cfg.script()
	s = s[strings.Index(s, "p0|join("):]
	b.WriteString(s)
	fmt.Fprintf(&b, "\n  .tolerance(%du)", t.cfg.tol/1000)
	if t.kind == "joinb" {
		b.WriteString("\n  @bsink()\n")
	} else {
		b.WriteString("\n  @sink()\n")
	}
	return b.String()
}

func (r *runner) taskOp(t []string) string {
	switch t[1] {
	case "new":
		m := kv(t[2:])
		tr := &taskRun{kind: m["kind"], cfg: parseJoinCfg(t[2:]), rename: un(m["rename"]), win: atoi(m["win"]), spec: int(atoi(m["spec"]))}
		for _, d := range splitList(m["dims"]) {
			tr.dims = append(tr.dims, un(d))
		}
		r.tasks = tr
		return "ok"
	case "w":
		if r.tasks == nil || len(t) < 4 {
			return "nonew"
		}
		m := kv(t[4:])
		w := taskWrite{src: int(atoi(t[2])), t: atoi(t[3]), tags: parseTags(m["tags"]), fields: parseFields(m["fields"])}
		r.tasks.writes = append(r.tasks.writes, w)
		return ""
	case "run":
		if r.tasks == nil {
			return "nonew"
		}
		return r.tasks.run()
	}
	return "badop"
}

var taskSeq int

// runLive: the real node's own runF (edge.multiConsumer) on channel edges; one feeder goroutine per parent
// delivers that parent's points in order, yielding at seeded random places, then closes its edge.
func (t *taskRun) runLive() string {
	var l *kapacitor.VerifLive
	var err error
	if t.kind == "liveunion" {
		s := parentsScript(t.cfg.n, false) + fmt.Sprintf("p0|union(%s)", others(t.cfg.n))
		if t.rename != "" {
			s += ".rename(" + tickStr(t.rename) + ")"
		}
		p, e := mkPipeline(s+"\n", false)
		if e != nil {
			return "err:pipeline"
		}
		var u *pipeline.UnionNode
		p.Walk(func(n pipeline.Node) error {
			if x, ok := n.(*pipeline.UnionNode); ok {
				u = x
			}
			return nil
		})
		l, err = kapacitor.VerifLiveUnion(u, t.cfg.n)
	} else {
		p, e := mkPipeline(t.cfg.script()+"\n", false)
		if e != nil {
			return "err:pipeline"
		}
		var jn *pipeline.JoinNode
		p.Walk(func(n pipeline.Node) error {
			if x, ok := n.(*pipeline.JoinNode); ok {
				jn = x
			}
			return nil
		})
		jn.Tolerance = time.Duration(t.cfg.tol)
		l, err = kapacitor.VerifLiveJoin(jn, t.cfg.n)
	}
	if err != nil {
		return "err:node"
	}
	per := make([][]edge.PointMessage, t.cfg.n)
	seed := uint64(len(t.writes))
	for _, w := range t.writes {
		var dims []string
		dims = append(dims, t.dims...)
		per[w.src] = append(per[w.src], edge.NewPointMessage(fmt.Sprintf("m%d", w.src), "db", "rp", models.Dimensions{TagNames: dims},
			models.Fields(w.fields), models.Tags(w.tags), time.Unix(0, w.t).UTC()))
		seed = seed*31 + uint64(w.t) + uint64(w.src)
	}
	var wg sync.WaitGroup
	for i := range per {
		wg.Add(1)
		go func(i int, r *kit.Rand) {
			defer wg.Done()
			for _, p := range per[i] {
				for k := r.Intn(4); k > 0; k-- {
					runtime.Gosched()
				}
				if r.Chance(1, 6) {
					time.Sleep(time.Duration(r.Intn(200)) * time.Microsecond)
				}
				l.In(i).Collect(p)
			}
			l.In(i).Close()
		}(i, kit.NewRand(seed+uint64(i)))
	}
	wg.Wait()
	type res struct {
		ms  []edge.Message
		err error
	}
	rc := make(chan res, 1)
	go func() { ms, err := l.Wait(); rc <- res{ms, err} }()
	var out res
	select {
	case out = <-rc:
	case <-time.After(20 * time.Second):
		return "timeout"
	}
	if out.err != nil {
		return "err:node"
	}
	var es []string
	for _, m := range out.ms {
		if _, ok := m.(edge.PointMessage); ok {
			es = append(es, renderMsg(m))
		}
	}
	if t.kind != "liveunion" {
		sort.Strings(es)
	}
	return strings.Join(append([]string{strconv.Itoa(len(es))}, es...), " ")
}

func (t *taskRun) run() string {
	if strings.HasPrefix(t.kind, "live") {
		return t.runLive()
	}
	tm, err := kit.NewTM(kit.TMOpts{})
	if err != nil {
		fmt.Fprintln(os.Stderr, "c12: cannot build TaskMaster:", err)
		return "err:tm"
	}
	defer tm.Close()
	taskSeq++
	id := fmt.Sprintf("c12t%d", taskSeq)
	et, err := tm.StartStream(id, t.script(), []kapacitor.DBRP{{Database: "db", RetentionPolicy: "rp"}})
	if err != nil {
		if os.Getenv("VERIF_LOG") != "" {
			fmt.Fprintln(os.Stderr, "task:", err, "\n", t.script())
		}
		return "err:start"
	}
	var pts []imodels.Point
	for _, w := range t.writes {
		p, err := imodels.NewPoint(fmt.Sprintf("m%d", w.src), imodels.NewTags(w.tags), imodels.Fields(w.fields), time.Unix(0, w.t).UTC())
		if err != nil {
			return "err:point"
		}
		pts = append(pts, p)
	}
	// several calls of varying size: the parents' edges fill and drain at different moments
	for i := 0; i < len(pts); {
		n := 1 + (i*7+len(pts))%5
		if i+n > len(pts) {
			n = len(pts) - i
		}
		if err := tm.TM.WritePoints("db", "rp", imodels.ConsistencyLevelAll, pts[i:i+n]); err != nil {
			return "err:write"
		}
		i += n
	}
	tm.TM.Drain()
	done := make(chan error, 1)
	go func() { done <- et.Wait() }()
	select {
	case err := <-done:
		if err != nil {
			return "err:task"
		}
	case <-time.After(20 * time.Second):
		return "timeout"
	}
	var keys []string
	for _, k := range tm.Rec.Keys() {
		if strings.HasPrefix(k, id+"/") {
			keys = append(keys, k)
		}
	}
	if t.kind == "joinb" {
		return t.batchResult(tm, keys)
	}
	if len(keys) > 1 {
		return "err:sink" + strconv.Itoa(len(keys))
	}
	var es []string
	if len(keys) == 1 { // no key: the sink never received a message
		for _, m := range tm.Rec.Get(keys[0]) {
			if _, ok := m.(edge.PointMessage); ok {
				es = append(es, renderMsg(m))
			}
		}
	}
	if t.kind == "join" || t.kind == "joinon" {
		sort.Strings(es) // a multiset: the emission order depends on the schedule
	}
	return strings.Join(append([]string{strconv.Itoa(len(es))}, es...), " ")
}

// batchResult: the sinks are named bsink<nodeID>; node IDs grow in script order, so the first n sinks (by ID)
// are the parents' windows and the last one is the join's output. A sink that never received a batch has no key.
func (t *taskRun) batchResult(tm *kit.TM, keys []string) string {
	type sk struct {
		id  int
		key string
	}
	var sks []sk
	for _, k := range keys {
		i := strings.LastIndex(k, "bsink")
		if i < 0 {
			return "err:sinkname"
		}
		id, _ := strconv.Atoi(k[i+5:])
		sks = append(sks, sk{id, k})
	}
	sort.Slice(sks, func(a, b int) bool { return sks[a].id < sks[b].id })
	// node IDs (stream source = 0): parent i's from/window/bsink = 3i+1..3i+3, the join = 3n+1 (+1 for its as()/UDF bookkeeping), the output sink = 3n+3
	t.inputs = nil
	var es []string
	for _, s := range sks {
		switch {
		case s.id > 3*t.cfg.n: // the only sink behind the join
			for _, m := range tm.Rec.Get(s.key) {
				if _, ok := m.(edge.BufferedBatchMessage); ok {
					es = append(es, renderMsg(m))
				}
			}
		case s.id%3 == 0 && s.id/3 >= 1 && s.id/3 <= t.cfg.n:
			src := s.id/3 - 1
			for _, m := range tm.Rec.Get(s.key) {
				b, ok := m.(edge.BufferedBatchMessage)
				if !ok {
					continue
				}
				var ps []string
				for _, p := range b.Points() {
					ps = append(ps, fmt.Sprintf("%d^%s", p.Time().UnixNano(), kit.FieldsStr(p.Fields())))
				}
				pts := "-"
				if len(ps) > 0 {
					pts = strings.Join(ps, "!")
				}
				bn := "0"
				if b.Dimensions().ByName {
					bn = "1"
				}
				t.inputs = append(t.inputs, fmt.Sprintf("task bin %d %d name=%s byname=%s tags=%s pts=%s grp=%s", src, b.Time().UnixNano(),
					kit.Esc(b.Name()), bn, kit.TagsStr(b.Tags()), pts, kit.Esc(string(b.GroupID()))))
			}
		default:
			return "err:sinkid" + strconv.Itoa(s.id)
		}
	}
	sort.Strings(es)
	return strings.Join(append([]string{strconv.Itoa(len(es))}, es...), " ")
}

// ---- generator ----

func genTask(r *kit.Rand) []string {
	return genTaskKind(r, kit.Pick(r, []string{"join", "join", "union", "joinb", "joinon", "livejoin", "liveunion"}))
}

func genTaskKind(r *kit.Rand, kind string) []string {
	if kind == "joinon" {
		return genTaskOn(r)
	}
	n := kit.Pick(r, []int{2, 2, 3})
	ms := int64(1000000)
	tol := kit.Pick(r, []int64{0, 0, 10 * ms, 1000 * ms})
	fill := kit.Pick(r, []string{"none", "null", "i:0", "f:" + kit.F64(2.5)})
	names := []string{"a", "b", "c"}[:n]
	grouped := r.Chance(1, 2)
	dims := "-"
	hosts := []string{"x"}
	if grouped {
		dims, hosts = "h", []string{"x", "y"}
	}
	unit := ms
	if tol == 1000*ms {
		unit = 400 * ms
	}
	type item struct {
		t            int64
		tags, fields string
	}
	seqs := make([][]item, n)
	id := 1
	lagging := -1
	if r.Chance(1, 3) {
		lagging = r.Intn(n)
	}
	t := int64(1700000000) * 1000 * ms
	slots := 3 + r.Intn(8)
	if kind == "joinb" {
		slots = 8 + r.Intn(12) // long enough to close several windows
	}
	for slot := 0; slot < slots; slot++ {
		if kind == "joinb" {
			t += int64(kit.Pick(r, []int{0, 2, 3, 5, 8, 12})) * unit
		} else {
			t += int64(kit.Pick(r, []int{0, 1, 1, 2, 5, 30})) * unit
		}
		for _, h := range hosts {
			for i := 0; i < n; i++ {
				cnt := kit.Pick(r, []int{0, 1, 1, 1, 2})
				if i == lagging && r.Chance(2, 3) {
					cnt = 0
				}
				for k := 0; k < cnt; k++ {
					tt := t
					if tol > 0 && r.Chance(1, 2) {
						tt += (int64(r.Intn(int(tol/ms))) - tol/ms/2) * ms
					}
					tags := "h=" + h
					if r.Chance(1, 3) {
						tags += ",z=q"
					}
					seqs[i] = append(seqs[i], item{tt, tags, fmt.Sprintf("id=i:%d", id)})
					id++
				}
			}
		}
	}
	lens := make([]int, n)
	for i := range seqs {
		sort.SliceStable(seqs[i], func(a, b int) bool { return seqs[i][a].t < seqs[i][b].t })
		lens[i] = len(seqs[i])
	}
	cfg := fmt.Sprintf("kind=%s n=%d tol=%d names=%s fill=%s dims=%s", kind, n, tol, strings.Join(names, ","), fill, dims)
	if kind == "joinb" {
		cfg += fmt.Sprintf(" edge=batch win=%d", 10*unit)
	}
	if kind == "union" || kind == "liveunion" {
		cfg = fmt.Sprintf("kind="+kind+" n=%d tol=0 names=%s dims=%s rename=%s", n, strings.Join(names, ","), dims, kit.Pick(r, []string{"%", "%", "u"}))
	}
	var ops []string
	for _, pat := range []int{r.Intn(2), 2 + r.Intn(3)} {
		ops = append(ops, "task new "+cfg)
		for _, a := range merge(r, lens, pat) {
			it := seqs[a[0]][a[1]]
			ops = append(ops, fmt.Sprintf("task w %d %d tags=%s fields=%s", a[0], it.t, it.tags, it.fields))
		}
		ops = append(ops, "task run")
	}
	return ops
}

// genTaskOn: a real task `p0|join(p1).on('h')` with one parent grouped by cpu and host, the other by host.
func genTaskOn(r *kit.Rand) []string {
	ms := int64(1000000)
	fill := kit.Pick(r, []string{"none", "null", "i:0"})
	spec := r.Intn(2)
	type item struct {
		t            int64
		tags, fields string
	}
	seqs := make([][]item, 2)
	id := 1
	t := int64(1700000000) * 1000 * ms
	lagging := -1
	if r.Chance(1, 3) {
		lagging = r.Intn(2)
	}
	for slot := 0; slot < 3+r.Intn(7); slot++ {
		t += int64(kit.Pick(r, []int{1, 2, 5, 30})) * ms
		for _, h := range []string{"x", "y"} {
			for i := 0; i < 2; i++ {
				if i == lagging && r.Chance(1, 2) {
					continue
				}
				if i == spec {
					for _, c := range []string{"1", "2"} {
						for k := kit.Pick(r, []int{0, 1, 1, 2}); k > 0; k-- {
							seqs[i] = append(seqs[i], item{t, "h=" + h + ",c=" + c, fmt.Sprintf("id=i:%d", id)})
							id++
						}
					}
				} else if r.Chance(3, 4) {
					seqs[i] = append(seqs[i], item{t, "h=" + h, fmt.Sprintf("id=i:%d", id)})
					id++
				}
			}
		}
	}
	lens := []int{len(seqs[0]), len(seqs[1])}
	cfg := fmt.Sprintf("kind=joinon n=2 tol=0 names=a,b fill=%s on=h spec=%d dims=h", fill, spec)
	var ops []string
	for _, pat := range []int{r.Intn(2), 2 + r.Intn(3)} {
		ops = append(ops, "task new "+cfg)
		for _, a := range merge(r, lens, pat) {
			it := seqs[a[0]][a[1]]
			ops = append(ops, fmt.Sprintf("task w %d %d tags=%s fields=%s", a[0], it.t, it.tags, it.fields))
		}
		ops = append(ops, "task run")
	}
	return ops
}

func genTasks(out *kit.Out, r *kit.Rand, n int, tier string) {
	k := n / 8
	if k < 6 {
		k = 6
	}
	prefix := "t"
	if tier == "racechild" {
		prefix, k = "rt", n
	}
	for i := 0; i < k; i++ {
		emit(out, fmt.Sprintf("%s%d", prefix, i), execCase(genTask(r.Fork())))
		out.Flush()
	}
	// cheap: the node's own goroutines on channel edges, many more schedules than through a TaskMaster
	for i := 0; i < 2*k; i++ {
		emit(out, fmt.Sprintf("%sl%d", prefix, i), execCase(genTaskKind(r.Fork(), kit.Pick(r, []string{"livejoin", "liveunion"}))))
	}
	out.Flush()
}

// raceTasks (thorough tier): rebuild this harness with the Go race detector and repeat real-task cases
// under it. Only one of the parallel seed jobs of a check run does it (lock file in the run's scratch dir).
// The child's cases are copied to the output (judged like every other case); a final case reports how
// many data races the detector printed.
func raceTasks(out *kit.Out, seed uint64, n int) {
	scratch := os.Getenv("VERIF_SCRATCH")
	if scratch == "" {
		d, err := os.MkdirTemp("", "c12-race-")
		if err != nil {
			return
		}
		defer os.RemoveAll(d)
		scratch = d
	}
	lock, err := os.OpenFile(filepath.Join(scratch, "c12-race.lock"), os.O_CREATE|os.O_EXCL|os.O_WRONLY, 0o644)
	if err != nil {
		return // another seed job of this run does it
	}
	lock.Close()
	exe, err := os.Executable()
	if err != nil {
		emit(out, "race", []string{"race check tasks=0 => err:exe"})
		return
	}
	hdir := filepath.Join(filepath.Dir(exe), "..", "harness")
	bin := filepath.Join(scratch, "vh-c12-race")
	build := exec.Command("go", "build", "-race", "-tags", "verif", "-o", bin, "./cmd/c12")
	build.Dir = hdir
	build.Env = append(os.Environ(), "GOFLAGS=-mod=mod", "GOPROXY=off", "CGO_ENABLED=1")
	if msg, err := build.CombinedOutput(); err != nil {
		fmt.Fprintln(os.Stderr, "c12: race build failed:", err, string(msg))
		emit(out, "race", []string{"race check tasks=0 => err:build"})
		return
	}
	defer os.Remove(bin)
	k := n / 100
	if k < 10 {
		k = 10
	}
	if k > 60 {
		k = 60
	}
	child := exec.Command(bin, "-seed", strconv.FormatUint(seed, 10), "-n", strconv.Itoa(k), "-tier", "racechild")
	child.Env = append(os.Environ(), "GORACE=exitcode=0")
	var so, se strings.Builder
	child.Stdout, child.Stderr = &so, &se
	if err := child.Run(); err != nil {
		fmt.Fprintln(os.Stderr, "c12: race child failed:", err, se.String())
		emit(out, "race", []string{fmt.Sprintf("race check tasks=%d => err:run", k)})
		return
	}
	for _, l := range strings.Split(so.String(), "\n") {
		if strings.TrimSpace(l) != "" {
			out.Line(l)
		}
	}
	races := strings.Count(se.String(), "WARNING: DATA RACE")
	if races > 0 {
		fmt.Fprintln(os.Stderr, se.String())
	}
	emit(out, "race", []string{fmt.Sprintf("race check tasks=%d => %d", k, races)})
}
