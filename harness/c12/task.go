package c12

import (
	"verifharness/kit"
)

type taskRun struct{}

func (t *taskRun) close() {}

func (r *runner) taskOp(t []string) string { return "unsupported" }

func genTasks(out *kit.Out, r *kit.Rand, n int, tier string) {}
