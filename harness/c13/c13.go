// Package c13 is the harness for property C13 (runs the real kapacitor code, prints op lines).
package c13

import (
	"fmt"
	"os"
)

// Run is replaced by the property's harness.
func Run(args []string) int {
	fmt.Fprintln(os.Stderr, "c13: harness not implemented yet")
	return 3
}
