// Package c13 is the harness for property C13 (formatting / re-serialising a TICKscript never changes the
// task it defines). It runs the REAL tick/ast parser, Node.Format, the JSON (un)marshalling of AST nodes,
// pipeline.CreatePipeline, pipeline JSON and pipeline/tick in-process and prints, per case, the op lines
// together with what the implementation answered.
//
// A case is a little register machine over (cur = current AST, txt = current text):
//
//	parse <src>      cur := ast.ParseLambda(src).Expression            => ok <dump> | err | panic
//	build <dump>     cur := the tree spelled out by <dump> (built with struct literals, as pipeline/tick,
//	                 ValueToLiteralNode or the JSON decoder would)      => ok
//	fmt              txt := Format(cur)                                  => <text> | panic
//	reparse          cur := ast.ParseLambda(txt).Expression             => ok <dump> | err | panic
//	json             cur := Unmarshal(Marshal(lambda(cur))).Expression  => ok <dump> | err | panic
//	script <src>     cur := ast.Parse(src); txt := src                  => ok <dump> | err | panic
//	sfmt             txt := ast.Format(cur)                              => <text> | panic
//	sreparse         cur := ast.Parse(txt)                               => ok <dump> | err | panic
//	dot <edge>       pipeline.CreatePipeline(txt, edge) → DOT + canonical pipeline JSON
//	                                                                     => ok <dot> <json> | err | panic
//	ptick <edge>     txt := Format(pipeline/tick.AST.Build(CreatePipeline(txt)))   => <text> | err | panic
//	pjson <edge>     p := CreatePipeline(txt); q := Unmarshal(Marshal(p)) → DOT + canonical JSON of q
//	                                                                     => ok <dot> <json> | err | panic
//	pnodes <edge>    the nodes of CreatePipeline(txt) in Walk order, each with the names of its parents and a
//	                 reflective dump of its exported fields (see dumpVal)  => ok <n> {node <GoType> <name> <k> <parent>*k <val>} | err | panic
//
// Dumps are prefix token lists (see dumpNode); every string is %XX-escaped.
package c13

import (
	"bytes"
	"encoding/json"
	"fmt"
	"math"
	"math/big"
	"os"
	"reflect"
	"regexp"
	"sort"
	"strconv"
	"strings"
	"time"

	"github.com/influxdata/kapacitor"
	"github.com/influxdata/kapacitor/pipeline"
	ptick "github.com/influxdata/kapacitor/pipeline/tick"
	"github.com/influxdata/kapacitor/tick/ast"

	"verifharness/kit"
)

// ---------------------------------------------------------------------------------------------
// dumps

func fmtFloat(f float64) string {
	s := strconv.FormatFloat(f, 'f', -1, 64)
	if !strings.ContainsRune(s, '.') {
		s += ".0"
	}
	return s
}

func dumpNode(n ast.Node, out *[]string) {
	add := func(t ...string) { *out = append(*out, t...) }
	switch x := n.(type) {
	case nil:
		add("nil")
	case *ast.NumberNode:
		if x.IsInt {
			add("num", "i", strconv.Itoa(x.Base), strconv.FormatInt(x.Int64, 10))
		} else {
			add("num", "f", fmtFloat(x.Float64))
		}
	case *ast.DurationNode:
		add("dur", strconv.FormatInt(int64(x.Dur), 10), kit.Esc(x.Literal))
	case *ast.BoolNode:
		if x.Bool {
			add("bool", "1")
		} else {
			add("bool", "0")
		}
	case *ast.StringNode:
		t := "0"
		if x.TripleQuotes {
			t = "1"
		}
		add("str", t, kit.Esc(x.Literal))
	case *ast.RegexNode:
		re := ""
		if x.Regex != nil {
			re = x.Regex.String()
		}
		add("rx", kit.Esc(re), kit.Esc(x.Literal))
	case *ast.ReferenceNode:
		add("ref", kit.Esc(x.Reference))
	case *ast.IdentifierNode:
		add("id", kit.Esc(x.Ident))
	case *ast.StarNode:
		add("star")
	case *ast.UnaryNode:
		add("un", kit.Esc(x.Operator.String()))
		dumpNode(x.Node, out)
	case *ast.BinaryNode:
		p := "0"
		if x.Parens {
			p = "1"
		}
		add("bin", kit.Esc(x.Operator.String()), p)
		dumpNode(x.Left, out)
		dumpNode(x.Right, out)
	case *ast.FunctionNode:
		if x.Type == ast.GlobalFunc {
			add("call", kit.Esc(x.Func), strconv.Itoa(len(x.Args)))
		} else {
			add("func", x.Type.String(), kit.Esc(x.Func), strconv.Itoa(len(x.Args)))
		}
		for _, a := range x.Args {
			dumpNode(a, out)
		}
	case *ast.LambdaNode:
		add("lambda")
		if x == nil {
			add("nil")
		} else {
			dumpNode(x.Expression, out)
		}
	case *ast.ListNode:
		add("list", strconv.Itoa(len(x.Nodes)))
		for _, a := range x.Nodes {
			dumpNode(a, out)
		}
	case *ast.ChainNode:
		add("chain", kit.Esc(x.Operator.String()))
		dumpNode(x.Left, out)
		dumpNode(x.Right, out)
	case *ast.DeclarationNode:
		add("decl")
		dumpNode(x.Left, out)
		dumpNode(x.Right, out)
	case *ast.TypeDeclarationNode:
		add("typedecl")
		dumpNode(x.Node, out)
		dumpNode(x.Type, out)
	case *ast.DBRPNode:
		add("dbrp")
		dumpNode(x.DB, out)
		dumpNode(x.RP, out)
	case *ast.CommentNode:
		add("comment")
	case *ast.ProgramNode:
		add("program", strconv.Itoa(len(x.Nodes)))
		for _, a := range x.Nodes {
			dumpNode(a, out)
		}
	default:
		add("unknown")
	}
}

func dump(n ast.Node) string {
	var out []string
	dumpNode(n, &out)
	return strings.Join(out, " ")
}

// buildNode constructs a tree from an expression dump the way code that does not go through the parser
// does (struct literals; no positions, no comments).
func buildNode(t []string, i *int) (ast.Node, error) {
	next := func() (string, error) {
		if *i >= len(t) {
			return "", fmt.Errorf("short dump")
		}
		s := t[*i]
		*i++
		return s, nil
	}
	str := func() (string, error) {
		s, err := next()
		if err != nil {
			return "", err
		}
		return kit.Unesc(s)
	}
	k, err := next()
	if err != nil {
		return nil, err
	}
	switch k {
	case "num":
		kind, _ := next()
		if kind == "i" {
			b, _ := next()
			v, _ := next()
			base, _ := strconv.Atoi(b)
			iv, err := strconv.ParseInt(v, 10, 64)
			if err != nil {
				return nil, err
			}
			return &ast.NumberNode{IsInt: true, Int64: iv, Base: base}, nil
		}
		v, _ := next()
		f, err := strconv.ParseFloat(v, 64)
		if err != nil {
			return nil, err
		}
		return &ast.NumberNode{IsFloat: true, Float64: f}, nil
	case "dur":
		v, _ := next()
		lit, err := str()
		if err != nil {
			return nil, err
		}
		d, err := strconv.ParseInt(v, 10, 64)
		if err != nil {
			return nil, err
		}
		return &ast.DurationNode{Dur: time.Duration(d), Literal: lit}, nil
	case "bool":
		v, _ := next()
		return &ast.BoolNode{Bool: v == "1"}, nil
	case "str":
		tq, _ := next()
		lit, err := str()
		if err != nil {
			return nil, err
		}
		return &ast.StringNode{Literal: lit, TripleQuotes: tq == "1"}, nil
	case "rx":
		re, err := str()
		if err != nil {
			return nil, err
		}
		lit, err := str()
		if err != nil {
			return nil, err
		}
		r, err := regexp.Compile(re)
		if err != nil {
			return nil, err
		}
		return &ast.RegexNode{Regex: r, Literal: lit}, nil
	case "ref":
		s, err := str()
		if err != nil {
			return nil, err
		}
		return &ast.ReferenceNode{Reference: s}, nil
	case "id":
		s, err := str()
		if err != nil {
			return nil, err
		}
		return &ast.IdentifierNode{Ident: s}, nil
	case "star":
		return &ast.StarNode{}, nil
	case "un":
		ops, err := str()
		if err != nil {
			return nil, err
		}
		op, err := ast.NewTokenType(ops)
		if err != nil {
			return nil, err
		}
		c, err := buildNode(t, i)
		if err != nil {
			return nil, err
		}
		return &ast.UnaryNode{Operator: op, Node: c}, nil
	case "bin":
		ops, err := str()
		if err != nil {
			return nil, err
		}
		p, _ := next()
		op, err := ast.NewTokenType(ops)
		if err != nil {
			return nil, err
		}
		l, err := buildNode(t, i)
		if err != nil {
			return nil, err
		}
		r, err := buildNode(t, i)
		if err != nil {
			return nil, err
		}
		return &ast.BinaryNode{Operator: op, Left: l, Right: r, Parens: p == "1"}, nil
	case "call":
		name, err := str()
		if err != nil {
			return nil, err
		}
		ns, _ := next()
		n, err := strconv.Atoi(ns)
		if err != nil || n < 0 || n > 64 {
			return nil, fmt.Errorf("bad arity")
		}
		args := make([]ast.Node, 0, n)
		for j := 0; j < n; j++ {
			a, err := buildNode(t, i)
			if err != nil {
				return nil, err
			}
			args = append(args, a)
		}
		return &ast.FunctionNode{Type: ast.GlobalFunc, Func: name, Args: args}, nil
	}
	return nil, fmt.Errorf("unknown dump tag %q", k)
}

// ---------------------------------------------------------------------------------------------
// pipelines

type deadman struct{}

func (deadman) Interval() time.Duration { return 10 * time.Second }
func (deadman) Threshold() float64      { return 0 }
func (deadman) Id() string              { return "deadman" }
func (deadman) Message() string         { return "msg" }
func (deadman) Global() bool            { return false }

func edgeOf(s string) pipeline.EdgeType {
	if s == "batch" {
		return pipeline.BatchEdge
	}
	return pipeline.StreamEdge
}

func mkPipeline(script, edge string) (*pipeline.Pipeline, error) {
	p, err := pipeline.CreatePipeline(script, edgeOf(edge), (&kapacitor.TaskMaster{}).CreateTICKScope(), deadman{}, nil)
	if err != nil && os.Getenv("VERIF_LOG") != "" {
		fmt.Fprintf(os.Stderr, "CreatePipeline: %v\n--- script:\n%s\n---\n", err, script)
	}
	return p, err
}

// canonGraph renders a pipeline independent of node numbering and of nil-versus-empty lists: every node
// becomes "typeOf{properties without id}<-[signatures of its parents in order]", the graph is the sorted
// list of these signatures. Equal graphs = identical pipeline graph and node properties.
func canonGraph(p *pipeline.Pipeline) (string, error) {
	b, err := json.Marshal(p)
	if err != nil {
		return "", err
	}
	var doc struct {
		Nodes []map[string]interface{} `json:"nodes"`
		Edges []struct {
			Parent string `json:"parent"`
			Child  string `json:"child"`
		} `json:"edges"`
	}
	dec := json.NewDecoder(bytes.NewReader(b))
	dec.UseNumber()
	if err := dec.Decode(&doc); err != nil {
		return "", err
	}
	var norm func(v interface{}) interface{}
	norm = func(v interface{}) interface{} {
		switch x := v.(type) {
		case nil:
			return []interface{}{}
		case []interface{}:
			for i := range x {
				x[i] = norm(x[i])
			}
			return x
		case map[string]interface{}:
			for k := range x {
				x[k] = norm(x[k])
			}
			return x
		}
		return v
	}
	props := map[string]string{}
	parents := map[string][]string{}
	var ids []string
	for _, n := range doc.Nodes {
		id, _ := n["id"].(string)
		delete(n, "id")
		c, err := json.Marshal(norm(n))
		if err != nil {
			return "", err
		}
		props[id] = string(c)
		ids = append(ids, id)
	}
	for _, e := range doc.Edges {
		parents[e.Child] = append(parents[e.Child], e.Parent)
	}
	memo := map[string]string{}
	var sig func(id string, depth int) string
	sig = func(id string, depth int) string {
		if s, ok := memo[id]; ok {
			return s
		}
		if depth > 64 {
			return "cycle"
		}
		var ps []string
		for _, q := range parents[id] {
			ps = append(ps, sig(q, depth+1))
		}
		if strings.Contains(props[id], `"typeOf":"union"`) {
			sort.Strings(ps) // the order of the parents of a union means nothing
		}
		s := props[id] + "<-[" + strings.Join(ps, ";") + "]"
		memo[id] = s
		return s
	}
	var sigs []string
	for _, id := range ids {
		sigs = append(sigs, sig(id, 0))
	}
	sort.Strings(sigs)
	return strings.Join(sigs, "\n"), nil
}

func pipeObs(p *pipeline.Pipeline) string {
	g, err := canonGraph(p)
	if err != nil {
		return "err:json"
	}
	return "ok " + kit.Esc(strconv.Itoa(strings.Count(string(p.Dot("t")), "->"))) + " " + kit.Esc(g)
}

// ---------------------------------------------------------------------------------------------
// reflective dump of a pipeline node: the VALUES pipeline/tick renders (model: Kap/Model/C13Tick.lean, Val)
//
//	s <esc> | i <int64> | f <float> | b 0|1 | d <ns> | lam <k> <k dump tokens> | lamnil | star | starnil
//	ilist <n> v*n ([]interface{}) | slice <n> v*n (any other slice) | map <n> (<esc key> v)*n sorted by key
//	struct <n> (<Field> v)*n (exported fields, embedded structs flattened) | nil | other

var (
	tDuration = reflect.TypeOf(time.Duration(0))
	tLambda   = reflect.TypeOf((*ast.LambdaNode)(nil))
	tStar     = reflect.TypeOf((*ast.StarNode)(nil))
	tIfaces   = reflect.TypeOf([]interface{}(nil))
)

func structFields(v reflect.Value, depth int, out *[][]string) {
	t := v.Type()
	for i := 0; i < t.NumField(); i++ {
		f := t.Field(i)
		if f.PkgPath != "" && !f.Anonymous { // unexported (the graph pointers of the embedded node)
			continue
		}
		fv := v.Field(i)
		if f.Anonymous {
			// embedded structs are flattened - also the unexported chainnode / node, whose exported fields
			// (QuietFlag) are promoted to the pipeline node
			ev := fv
			for ev.Kind() == reflect.Ptr && !ev.IsNil() {
				ev = ev.Elem()
			}
			if ev.Kind() == reflect.Struct {
				structFields(ev, depth, out)
				continue
			}
			if f.PkgPath != "" {
				continue
			}
		}
		var toks []string
		dumpVal(fv, depth+1, &toks)
		*out = append(*out, append([]string{f.Name}, toks...))
	}
}

func dumpVal(v reflect.Value, depth int, out *[]string) {
	add := func(t ...string) { *out = append(*out, t...) }
	if depth > 8 || !v.IsValid() {
		add("other")
		return
	}
	switch v.Type() {
	case tDuration:
		add("d", strconv.FormatInt(v.Int(), 10))
		return
	case tLambda:
		if v.IsNil() {
			add("lamnil")
			return
		}
		if !v.CanInterface() {
			add("other")
			return
		}
		var d []string
		dumpNode(v.Interface().(*ast.LambdaNode).Expression, &d)
		add("lam", strconv.Itoa(len(d)))
		add(d...)
		return
	case tStar:
		if v.IsNil() {
			add("starnil")
		} else {
			add("star")
		}
		return
	}
	switch v.Kind() {
	case reflect.String:
		add("s", kit.Esc(v.String()))
	case reflect.Int64:
		add("i", strconv.FormatInt(v.Int(), 10))
	case reflect.Float64:
		add("f", fmtFloat(v.Float()))
	case reflect.Bool:
		if v.Bool() {
			add("b", "1")
		} else {
			add("b", "0")
		}
	case reflect.Interface:
		if v.IsNil() {
			add("nil")
		} else {
			dumpVal(v.Elem(), depth, out)
		}
	case reflect.Ptr:
		if v.IsNil() {
			add("nil")
		} else if v.Elem().Kind() == reflect.Struct {
			dumpVal(v.Elem(), depth, out)
		} else {
			add("other")
		}
	case reflect.Slice:
		tag := "slice"
		if v.Type() == tIfaces {
			tag = "ilist"
		}
		add(tag, strconv.Itoa(v.Len()))
		for i := 0; i < v.Len(); i++ {
			dumpVal(v.Index(i), depth+1, out)
		}
	case reflect.Map:
		if v.Type().Key().Kind() != reflect.String {
			add("other")
			return
		}
		keys := make([]string, 0, v.Len())
		for _, k := range v.MapKeys() {
			keys = append(keys, k.String())
		}
		sort.Strings(keys)
		add("map", strconv.Itoa(len(keys)))
		for _, k := range keys {
			add(kit.Esc(k))
			dumpVal(v.MapIndex(reflect.ValueOf(k).Convert(v.Type().Key())), depth+1, out)
		}
	case reflect.Struct:
		var fs [][]string
		structFields(v, depth, &fs)
		add("struct", strconv.Itoa(len(fs)))
		for _, f := range fs {
			add(f...)
		}
	default:
		add("other")
	}
}

// ---------------------------------------------------------------------------------------------
// executing a case

func execCase(ops []string) (out []string) {
	var cur ast.Node
	txt := ""
	guard := func(line string, f func() string) {
		defer func() {
			if r := recover(); r != nil {
				if os.Getenv("VERIF_LOG") != "" {
					fmt.Fprintln(os.Stderr, "panic:", r)
				}
				out = append(out, line+" => panic")
			}
		}()
		obs := f()
		out = append(out, line+" => "+obs)
	}
	for _, raw := range ops {
		line := raw
		if i := strings.Index(line, " => "); i >= 0 {
			line = line[:i]
		}
		t := strings.Fields(line)
		if len(t) == 0 {
			continue
		}
		arg := func(i int) string {
			if i < len(t) {
				v, _ := kit.Unesc(t[i])
				return v
			}
			return ""
		}
		switch t[0] {
		case "parse":
			guard(line, func() string {
				cur = nil
				l, err := ast.ParseLambda(arg(1))
				if err != nil {
					return "err"
				}
				cur = l.Expression
				return "ok " + dump(cur)
			})
		case "build":
			guard(line, func() string {
				cur = nil
				i := 1
				n, err := buildNode(t, &i)
				if err != nil || i != len(t) {
					return "err"
				}
				cur = n
				return "ok"
			})
		case "fmt":
			guard(line, func() string {
				if cur == nil {
					return "none"
				}
				var buf bytes.Buffer
				cur.Format(&buf, "", false)
				txt = buf.String()
				return kit.Esc(txt)
			})
		case "reparse":
			guard(line, func() string {
				cur = nil
				l, err := ast.ParseLambda(txt)
				if err != nil {
					return "err"
				}
				cur = l.Expression
				return "ok " + dump(cur)
			})
		case "json":
			guard(line, func() string {
				if cur == nil {
					return "none"
				}
				in := &ast.LambdaNode{Expression: cur}
				cur = nil
				b, err := json.Marshal(in)
				if err != nil {
					return "err"
				}
				var l ast.LambdaNode
				if err := json.Unmarshal(b, &l); err != nil {
					return "err"
				}
				cur = l.Expression
				return "ok " + dump(cur)
			})
		case "script":
			guard(line, func() string {
				cur = nil
				txt = arg(1)
				n, err := ast.Parse(txt)
				if err != nil {
					return "err"
				}
				cur = n
				return "ok " + dump(cur)
			})
		case "sfmt":
			guard(line, func() string {
				if cur == nil {
					return "none"
				}
				txt = ast.Format(cur)
				return kit.Esc(txt)
			})
		case "sreparse":
			guard(line, func() string {
				cur = nil
				n, err := ast.Parse(txt)
				if err != nil {
					return "err"
				}
				cur = n
				return "ok " + dump(cur)
			})
		case "dot":
			guard(line, func() string {
				p, err := mkPipeline(txt, arg(1))
				if err != nil {
					return "err"
				}
				return pipeObs(p)
			})
		case "ptick":
			guard(line, func() string {
				p, err := mkPipeline(txt, arg(1))
				if err != nil {
					return "err"
				}
				a := ptick.AST{}
				if err := a.Build(p); err != nil {
					return "err:build"
				}
				var buf bytes.Buffer
				a.Program.Format(&buf, "", false)
				txt = buf.String()
				return kit.Esc(txt)
			})
		case "pnodes":
			guard(line, func() string {
				p, err := mkPipeline(txt, arg(1))
				if err != nil {
					return "err"
				}
				var toks []string
				n := 0
				p.Walk(func(node pipeline.Node) error {
					n++
					toks = append(toks, "node", reflect.TypeOf(node).Elem().Name(), kit.Esc(node.Name()), strconv.Itoa(len(node.Parents())))
					for _, q := range node.Parents() {
						toks = append(toks, kit.Esc(q.Name()))
					}
					dumpVal(reflect.ValueOf(node), 0, &toks)
					return nil
				})
				return "ok " + strconv.Itoa(n) + " " + strings.Join(toks, " ")
			})
		case "pjson":
			guard(line, func() string {
				p, err := mkPipeline(txt, arg(1))
				if err != nil {
					return "err"
				}
				b, err := json.Marshal(p)
				if err != nil {
					return "err:marshal"
				}
				q := &pipeline.Pipeline{}
				if err := q.Unmarshal(b); err != nil {
					if os.Getenv("VERIF_LOG") != "" {
						fmt.Fprintf(os.Stderr, "pipeline Unmarshal: %v\n", err)
					}
					return "err:unmarshal"
				}
				return pipeObs(q)
			})
		default:
			out = append(out, line+" => badop")
		}
	}
	return out
}

func emit(out *kit.Out, id string, lines []string) {
	out.Line("case", id)
	for _, l := range lines {
		out.Line(l)
	}
	out.Line("end")
}

// ---------------------------------------------------------------------------------------------
// generators

var binOps = []string{"+", "-", "*", "/", "%", "AND", "OR", "==", "!=", "<", ">", "<=", ">=", "=~", "!~"}

var numPool = []string{"0", "1", "42", "007", "010", "0777", "00", "9007199254740993", "9223372036854775807", "1.0", "1.50", "0.25", ".5", "3.", "100.125", "00.50", "123456789.125"}
// Number literals of the value classes newNumber / NumberNode.Format / the JSON codec treat differently. Source
// spelling is `digits.digits` (TICKscript has no exponent form): whole floats at and beyond 2^63 (where an int64
// conversion overflows) up to the largest finite binary64, floats that need 16 / 17 significant digits, literals
// with more digits than a binary64 holds (rounding, ties), very small fractions down to the smallest subnormal,
// integers at the int64 boundaries in decimal and octal.
var maxFloatDigits = new(big.Float).SetFloat64(math.MaxFloat64).Text('f', 0)

var hugeFloatPool = []string{
	"10000000000000000000.0",            // 1e19
	"9223372036854775808.0",             // 2^63
	"9223372036854775807.0",             // rounds to 2^63
	"9223372036854774784.0",             // the binary64 below 2^63
	"9223372036854777856.0",             // the binary64 above 2^63
	"18446744073709551616.0",            // 2^64
	"18446744073709551615.0",            // rounds to 2^64
	"1000000000000000000000000000000.0", // 1e30
	"100000000000000000000000.0",        // 1e23 (shortest text is not the nearest 1-digit decimal)
	"123456789012345678901234567890.5",
	"340282366920938463463374607431768211456.0", // 2^128
	maxFloatDigits + ".0",
	maxFloatDigits + ".",
	"9" + maxFloatDigits[1:] + ".0", // beyond the largest finite binary64: rejected (value out of range)
}
var digitFloatPool = []string{
	"4611686018427387904.0", // 2^62: the int64 conversion is still exact
	"9007199254740993.0",    // 2^53+1: tie, rounds to even
	"9007199254740992.0", "9007199254740994.0", "4503599627370497.5", "4503599627370496.5",
	"0.1", "0.30000000000000004", "0.1000000000000000055511151231257827", "2.2250738585072014", "1.7976931348623157",
	"5e-324-in-digits", "0.000001", "0.0000001", "0.000000000000000000001", "0.00000000000000000000000000000123456789012345678",
	"123456.7890123456789", "1.0000000000000002", "0.99999999999999989", "72057594037927945.0", "0.", "0.000",
}
var intEdgePool = []string{"9223372036854775807", "9223372036854775806", "4611686018427387904", "9007199254740993",
	"0777777777777777777777", "0400000000000000000000", "00000000000000000000000007", "1000000000000000000"}

func exactDigits(f float64) string {
	s := new(big.Float).SetFloat64(f).Text('f', 1100)
	if strings.Contains(s, ".") {
		s = strings.TrimRight(s, "0")
		if strings.HasSuffix(s, ".") {
			s += "0"
		}
	}
	return s
}

// hardFloat: a non-negative float literal of one of the hard classes, as source text
func hardFloat(r *kit.Rand) string {
	spell := func(f float64) string {
		if r.Chance(1, 3) {
			return exactDigits(f) // every digit of the binary value
		}
		return fmtFloat(f) // the shortest spelling
	}
	switch r.Intn(8) {
	case 0, 1:
		return kit.Pick(r, hugeFloatPool)
	case 2:
		s := kit.Pick(r, digitFloatPool)
		if s == "5e-324-in-digits" {
			s = exactDigits(math.SmallestNonzeroFloat64)
			if r.Bool() {
				s = fmtFloat(math.SmallestNonzeroFloat64)
			}
		}
		return s
	case 3:
		// a random whole binary64 in [2^63, 2^120)
		return spell(math.Ldexp(float64(uint64(1)<<52|r.U64()>>12), 11+r.Intn(57)))
	case 4:
		// a random binary64 around 1 with a full mantissa: 16 or 17 significant digits
		return spell(math.Ldexp(float64(uint64(1)<<52|r.U64()>>12), -52-r.Intn(8)+r.Intn(8)))
	case 5:
		// a random small fraction, down to the subnormals
		e := -60 - r.Intn(40)
		if r.Chance(1, 4) {
			e = -1074 + r.Intn(60)
		}
		return fmtFloat(math.Ldexp(float64(uint64(1)<<52|r.U64()>>12), e-52))
	case 6:
		// a whole float between 2^53 and 2^63: digits beyond the mantissa, int64 still holds it
		return spell(math.Ldexp(float64(uint64(1)<<52|r.U64()>>12), 1+r.Intn(10)))
	default:
		// a decimal with more digits than a binary64 keeps
		n := 16 + r.Intn(12)
		b := make([]byte, n)
		for i := range b {
			b[i] = byte('0' + r.Intn(10))
		}
		if b[0] == '0' {
			b[0] = '1'
		}
		k := r.Intn(n + 1)
		return string(b[:k]) + "." + string(b[k:])
	}
}

func hardNum(r *kit.Rand) string {
	if r.Chance(1, 4) {
		return kit.Pick(r, intEdgePool)
	}
	return hardFloat(r)
}

var durPool = []string{"1s", "10ms", "5m", "2h", "1d", "3w", "7u", "9µ", "0s", "90m", "1500ms"}
var strBodies = []string{"", "a", "cpu", "it's", "a b", "a\\b", "a\\\\b", "tab\there", "é", "x/y", "a\"b", "100%", "'", "\\'", "a''b", "line1\nline2"}
var tripleBodies = []string{"a", "it's", "a\\", "a\\b", "say 'hi' there", "x\ny", "a''b", "\\"}
var rxBodies = []string{"a", "^cpu.*$", "a\\/b", "x|y", "[0-9]+", "\\d+\\.\\d+", "a b", "\\/"}
var refBodies = []string{"a", "value", "cpu usage", "a\\\"b", "x.y", "it's", "a/b", "é", "a\\b"}
var identPool = []string{"a", "b", "x1", "host", "lambda", "sigma", "f_1", "TRUEx", "ANDy"}
var funcPool = []string{"sigma", "abs", "count", "f", "if", "int", "strLength"}

type exprGen struct {
	r *kit.Rand
}

func (g *exprGen) atom() string {
	r := g.r
	switch r.Intn(9) {
	case 0:
		return kit.Pick(r, numPool)
	case 1:
		return kit.Pick(r, durPool)
	case 2:
		if r.Bool() {
			return "TRUE"
		}
		return "FALSE"
	case 3:
		if r.Chance(1, 3) {
			return "'''" + kit.Pick(r, tripleBodies) + "'''"
		}
		b := kit.Pick(r, strBodies)
		// source spelling of a single-quoted literal: escape quotes; a trailing backslash cannot be written
		b = strings.ReplaceAll(b, "'", "\\'")
		if strings.HasSuffix(b, "\\") {
			b += "x"
		}
		return "'" + b + "'"
	case 4, 5:
		return "\"" + kit.Pick(r, refBodies) + "\""
	case 6:
		return kit.Pick(r, identPool)
	case 7:
		return hardNum(r)
	default:
		return "\"" + kit.Pick(r, refBodies) + "\""
	}
}

func (g *exprGen) sp() string {
	switch g.r.Intn(6) {
	case 0:
		return ""
	case 1:
		return "  "
	default:
		return " "
	}
}

func (g *exprGen) primary(d int) string {
	r := g.r
	k := r.Intn(10)
	if d <= 0 && k >= 5 {
		k = 0
	}
	switch {
	case k < 5:
		return g.atom()
	case k < 7:
		return "(" + g.sp() + g.expr(d-1) + g.sp() + ")"
	case k < 8:
		op := "-"
		if r.Bool() {
			op = "!"
		}
		return op + g.primary(d-1)
	default:
		n := r.Intn(4)
		var args []string
		for i := 0; i < n; i++ {
			args = append(args, g.expr(d-1))
		}
		s := kit.Pick(r, funcPool) + "(" + strings.Join(args, ","+g.sp())
		if n > 0 && r.Chance(1, 10) {
			s += ","
		}
		return s + ")"
	}
}

func (g *exprGen) expr(d int) string {
	r := g.r
	s := g.primary(d)
	n := 0
	switch k := r.Intn(10); {
	case k < 3:
		n = 0
	case k < 6:
		n = 1
	case k < 8:
		n = 2
	default:
		n = 3 + r.Intn(3)
	}
	if d <= 0 && n > 1 {
		n = 1
	}
	for i := 0; i < n; i++ {
		op := kit.Pick(r, binOps)
		rhs := g.primary(d)
		if (op == "=~" || op == "!~") && r.Chance(4, 5) {
			rhs = "/" + kit.Pick(r, rxBodies) + "/"
		}
		// operators need a space before them only where the lexer would otherwise glue (identifier AND)
		a, b := g.sp(), g.sp()
		if op == "AND" || op == "OR" {
			a, b = " ", " "
		}
		s += a + op + b + rhs
	}
	return s
}

// random tree that did NOT come from the parser (dump form). Only trees that TICKscript can express:
// a regex stands to the right of =~ / !~ or as a call argument (the lexer accepts no operator after a regex),
// durations are whole microseconds, references do not end in a backslash.
func (g *exprGen) tree(d int, rxOK bool, out *[]string) {
	r := g.r
	add := func(t ...string) { *out = append(*out, t...) }
	k := r.Intn(10)
	if d <= 0 {
		k = r.Intn(4)
	}
	switch {
	case k < 4:
		a := r.Intn(9)
		if a == 5 && !rxOK {
			a = 6
		}
		switch a {
		case 0:
			add("num", "i", "10", kit.Pick(r, []string{"0", "5", "-5", "-1", "9007199254740993", "-9223372036854775807", "123", "9223372036854775807", "-9007199254740993", "9223372036854775806", "4611686018427387904"}))
		case 1:
			if r.Bool() {
				add("num", "f", kit.Pick(r, []string{"1.5", "-2.5", "0.0", "3.0", "100.125", "-0.0"}))
			} else {
				// a float VALUE of a hard class (as pipeline/tick and the JSON decoder hand them to Format), in the
				// canonical spelling the dumps use; negative ones and negative zero included
				f, err := strconv.ParseFloat(hardFloat(r), 64)
				for err != nil { // the out-of-range literal of the pool is not a value
					f, err = strconv.ParseFloat(hardFloat(r), 64)
				}
				if r.Chance(1, 3) {
					f = -f
				}
				if r.Chance(1, 12) {
					f = math.Copysign(0, -1)
				}
				add("num", "f", fmtFloat(f))
			}
		case 2:
			add("dur", kit.Pick(r, []string{"1000000000", "0", "-60000000000", "1500000", "1000", "3600000000000", "90000000000", "604800000000000"}), "%")
		case 3:
			add("bool", kit.Pick(r, []string{"0", "1"}))
		case 4:
			add("str", "0", kit.Esc(kit.Pick(r, []string{"a", "", "it's", "a\\", "C:\\dir\\", "a\\'", "it's\\", "\\", "é", "a\\b"})))
		case 5:
			re := kit.Pick(r, []string{"a", "a/b", "^x.*$", "a\\/b", "/", "x|y"})
			lit := "%"
			if r.Bool() {
				lit = kit.Esc(strings.ReplaceAll(re, "/", "\\/"))
			}
			add("rx", kit.Esc(re), lit)
		case 6:
			add("ref", kit.Esc(kit.Pick(r, []string{"a", "a\"b", "cpu usage", "a\\b", "é"})))
		case 7:
			add("id", kit.Pick(r, identPool))
		default:
			add("ref", kit.Esc(kit.Pick(r, []string{"value", "b"})))
		}
	case k < 5:
		add("un", kit.Esc(kit.Pick(r, []string{"-", "!"})))
		g.tree(d-1, false, out)
	case k < 9:
		p := "0"
		if r.Chance(1, 4) {
			p = "1"
		}
		op := kit.Pick(r, binOps)
		add("bin", kit.Esc(op), p)
		g.tree(d-1, false, out)
		g.tree(d-1, op == "=~" || op == "!~", out)
	default:
		n := r.Intn(3)
		add("call", kit.Pick(r, funcPool), strconv.Itoa(n))
		for i := 0; i < n; i++ {
			g.tree(d-1, true, out)
		}
	}
}

func genExprCase(r *kit.Rand, i int) []string {
	g := &exprGen{r: r}
	tail := []string{"fmt", "reparse", "fmt", "reparse", "fmt"}
	if i%4 == 3 {
		var t []string
		g.tree(1+r.Intn(3), false, &t)
		ops := []string{"build " + strings.Join(t, " ")}
		if r.Bool() {
			ops = append(ops, "json")
		}
		return append(ops, tail...)
	}
	src := g.expr(1 + r.Intn(3))
	if i%12 == 5 {
		// damaged input: the parser must reject (or read something else) exactly as the model says
		switch r.Intn(4) {
		case 0:
			src += kit.Pick(r, []string{")", "(", " +", " '", " \"", " /", ",", " 08", " 1.2.3", " !", " 9223372036854775808", " * *"})
		case 1:
			if len(src) > 1 {
				k := r.Intn(len(src))
				if src[k] < 0x80 && (k+1 >= len(src) || src[k+1] < 0x80) {
					src = src[:k] + src[k+1:]
				}
			}
		case 2:
			src = kit.Pick(r, []string{"(", "f(", "-", "a +", "a OR", "f(a,,b)", "()", "f(,)"}) + " " + src
		default:
			src = "* " + kit.Pick(r, binOps) + " " + src
		}
	}
	if i%12 == 7 || i%12 == 2 {
		// line breaks at random places: layout (MultiLine) is judged by the spec only (stability, meaning)
		b := []byte(src)
		for k := range b {
			if b[k] == ' ' && r.Chance(1, 4) {
				b[k] = '\n'
			}
		}
		src = string(b)
		return append([]string{"parse " + kit.Esc(src)}, "fmt", "reparse", "fmt", "reparse", "fmt", "reparse", "fmt")
	}
	ops := []string{"parse " + kit.Esc(src)}
	if i%2 == 1 {
		ops = append(ops, "json")
	}
	return append(ops, tail...)
}

// exhaustive small expressions: all operator pairs / triples with every parenthesisation
func exhaustiveOps(out *kit.Out, triples bool) {
	n := 0
	one := func(src string) {
		emit(out, fmt.Sprintf("x%d", n), execCase([]string{"parse " + kit.Esc(src), "fmt", "reparse", "fmt"}))
		n++
		emit(out, fmt.Sprintf("x%d", n), execCase([]string{"parse " + kit.Esc(src), "json", "fmt", "reparse", "fmt"}))
		n++
	}
	for _, o1 := range binOps {
		for _, o2 := range binOps {
			one(fmt.Sprintf("a %s b %s c", o1, o2))
			one(fmt.Sprintf("(a %s b) %s c", o1, o2))
			one(fmt.Sprintf("a %s (b %s c)", o1, o2))
			one(fmt.Sprintf("-(a %s b) %s !c", o1, o2))
		}
	}
	if triples {
		for _, o1 := range binOps {
			for _, o2 := range binOps {
				for _, o3 := range binOps {
					one(fmt.Sprintf("a %s b %s c %s d", o1, o2, o3))
					one(fmt.Sprintf("a %s (b %s c) %s d", o1, o2, o3))
					one(fmt.Sprintf("(a %s b %s c) %s d", o1, o2, o3))
					one(fmt.Sprintf("a %s (b %s c %s d)", o1, o2, o3))
				}
			}
		}
	}
}

// Run: `vh-c13 -seed S -n N [-tier thorough]` generates; `vh-c13 -ops file` re-executes the cases of a file.
func Run(args []string) int {
	f := kit.ParseFlags(args)
	out := kit.NewOut()
	defer out.Flush()
	if f.Ops != "" {
		lines, err := kit.ReadLines(f.Ops)
		if err != nil {
			fmt.Fprintln(os.Stderr, err)
			return 2
		}
		var cur []string
		id := ""
		for _, l := range lines {
			t := strings.Fields(l)
			switch {
			case len(t) == 2 && t[0] == "case":
				id, cur = t[1], nil
			case len(t) == 1 && t[0] == "end":
				emit(out, id, execCase(cur))
			default:
				cur = append(cur, l)
			}
		}
		return 0
	}
	r := kit.NewRand(f.Seed)
	for i := 0; i < f.N; i++ {
		emit(out, fmt.Sprintf("e%d", i), execCase(genExprCase(r.Fork(), i)))
	}
	ns := f.N / 4
	for i := 0; i < ns; i++ {
		emit(out, fmt.Sprintf("s%d", i), execCase(genScriptCase(r.Fork(), i)))
	}
	exhaustiveOps(out, f.Tier == "thorough")
	return 0
}

