package main

import (
	"encoding/json"
	"fmt"

	"github.com/influxdata/kapacitor/tick"
	"github.com/influxdata/kapacitor/tick/ast"
)

func try(name string, f func()) {
	defer func() {
		if r := recover(); r != nil {
			fmt.Println(name, "PANIC", r)
		}
	}()
	f()
}

func lam(src string) {
	try(src, func() {
		l, err := ast.ParseLambda(src)
		if err != nil {
			fmt.Printf("%q parse err %v\n", src, err)
			return
		}
		f := ast.Format(l)
		l2, err2 := ast.ParseLambda(f[len("lambda: "):])
		eq := err2 == nil && l.Equal(l2)
		b, _ := json.Marshal(l)
		var l3 ast.LambdaNode
		err3 := json.Unmarshal(b, &l3)
		fj := ""
		eqj := false
		var err4 error
		if err3 == nil {
			try("fmtjson", func() {
				fj = ast.Format(&l3)
				var l4 *ast.LambdaNode
				l4, err4 = ast.ParseLambda(fj[len("lambda: "):])
				eqj = err4 == nil && l.Equal(l4)
			})
		}
		fmt.Printf("%q -> %q reparse=%v eq=%v | json=%s err=%v treeeq=%v fmt=%q reparse-eq=%v err4=%v\n", src, f, err2, eq, b, err3, err3 == nil && l.Equal(&l3), fj, eqj, err4)
	})
}

func script(src string) {
	try(src, func() {
		f, err := tick.Format(src)
		if err != nil {
			fmt.Printf("%q format err %v\n", src, err)
			return
		}
		f2, err2 := tick.Format(f)
		n1, _ := ast.Parse(src)
		n2, e2 := ast.Parse(f)
		fmt.Printf("%q -> %q second=%q err2=%v stable=%v eq=%v\n", src, f, f2, err2, f == f2, e2 == nil && n1.Equal(n2))
	})
}

func main() {
	lam(`("a" + "b") * "c"`)
	lam(`-("a" + "b")`)
	lam(`sigma("x") > 3.0`)
	lam(`"h" =~ /a\/b/`)
	lam(`"h" == '''a\'''`)
	lam(`"h" == '''it's'''`)
	lam(`"x" > 9007199254740993`)
	lam(`"x" > 1h`)
	lam(`"x" > 010`)
	lam(`"x" > 1.50`)
	lam(`"a" - -1`)
	lam(`"a" - (-1)`)
	lam(`!("a" AND "b")`)
	lam(`"a" - ("b" - "c")`)
	lam(`("a" - "b") - "c"`)
	lam(`"a\"b" > 1`)
	lam(`"a\\" > 1`)
	lam(`'a\\'b' == 'x'`)
	script("var x = 'a\\\\'\nstream|from()")
	script("stream\n|from()\n.groupBy(// c\n\n /x/)")
	script("stream\n    |where(lambda: \"a\" > 1 // c\n AND \"b\" < 2)")
	script("var x = '''a\\'''\nstream|from().measurement(x)")
	script("var x = '''a''\\''''\nstream|from().measurement(x)")
}
