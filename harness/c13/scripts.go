package c13

import (
	"fmt"
	"strings"

	"verifharness/kit"
)

// Grammar-directed generator of complete task scripts (stream and batch): var declarations of every literal
// type, chains of nodes with property methods of every argument type, lambdas from the expression grammar
// (restricted to well-typed shapes so that the pipeline can be built), comments in every position the
// parser attaches them, single-line and multi-line layouts.

type scriptGen struct {
	r     *kit.Rand
	e     *exprGen
	vars  []string
	edge  string
	lines []string
}

func (g *scriptGen) comment(indent string) string {
	if !g.r.Chance(1, 4) {
		return ""
	}
	c := kit.Pick(g.r, []string{"// c", "//c", "// two\n" + indent + "// lines", "// a 'quote' and /slash/", "//", "// x = 1"})
	if g.r.Chance(1, 6) {
		c += "\n"
	}
	return c + "\n" + indent
}

func (g *scriptGen) str() string {
	if g.r.Chance(1, 5) {
		return "'''" + kit.Pick(g.r, []string{"a", "it's", "dir\\", "say 'hi' there"}) + "'''"
	}
	return "'" + kit.Pick(g.r, []string{"a", "cpu", "usage idle", "it\\'s", "x/y", "a\\\\b", "é"}) + "'"
}

func (g *scriptGen) field() string {
	return "'" + kit.Pick(g.r, []string{"value", "usage", "f1", "a b"}) + "'"
}

func (g *scriptGen) dur() string { return kit.Pick(g.r, []string{"1s", "10s", "5m", "1h", "500ms", "2d", "1w", "90m"}) }

// boolean lambda over references with every operator class
func (g *scriptGen) boolLambda() string {
	r := g.r
	num := func() string {
		s := kit.Pick(r, []string{"\"value\"", "\"usage\"", "1", "2.5", "010", "sigma(\"value\")", "abs(\"value\" - 1.0)", "-\"value\"", "(\"value\" + 1) * 2", "\"a\" % 3", "count()", "1 - (2 - 3)", "1 - 2 - 3", "2 * (3 + 4)", "(2 * 3) + 4", "2 / (3 / 4)"})
		if r.Chance(1, 5) {
			// number literals of the hard classes (huge whole floats, 17 digits, tiny fractions, int64 edges)
			s = hardNum(r)
			if r.Chance(1, 4) {
				s = "-" + s
			}
		}
		if r.Chance(1, 3) {
			s += " " + kit.Pick(r, []string{"+", "-", "*", "/"}) + " " + kit.Pick(r, []string{"\"other\"", "3", "(1 + \"x\")", "-2"})
		}
		return s
	}
	cmp := func() string {
		switch r.Intn(6) {
		case 0:
			return "\"host\" =~ /" + kit.Pick(r, rxBodies) + "/"
		case 1:
			return "\"host\" !~ /" + kit.Pick(r, rxBodies) + "/"
		case 2:
			return "\"host\" " + kit.Pick(r, []string{"==", "!="}) + " " + g.str()
		case 3:
			return "!(" + num() + " > " + num() + ")"
		case 4:
			return "isPresent(\"x\")"
		default:
			return num() + " " + kit.Pick(r, []string{"<", ">", "<=", ">=", "==", "!="}) + " " + num()
		}
	}
	s := cmp()
	for i := r.Intn(3); i > 0; i-- {
		op := kit.Pick(r, []string{"AND", "OR"})
		rhs := cmp()
		switch r.Intn(4) {
		case 0:
			s = "(" + s + ") " + op + " " + rhs
		case 1:
			s = s + " " + op + " (" + rhs + " " + kit.Pick(r, []string{"AND", "OR"}) + " " + cmp() + ")"
		case 2:
			s = s + " " + op + "\n        " + rhs
		default:
			s = s + " " + op + " " + rhs
		}
	}
	return "lambda: " + s
}

func (g *scriptGen) numLambda() string {
	if g.r.Chance(1, 5) {
		return "lambda: " + kit.Pick(g.r, []string{"\"value\" * ", "\"value\" / ", "float(\"usage\") + ", "\"value\" - -"}) + hardFloat(g.r)
	}
	return "lambda: " + kit.Pick(g.r, []string{"\"value\" * 2", "(\"value\" + \"usage\") / 2.0", "\"value\" - (\"usage\" - 1)", "float(\"value\") / (float(\"usage\") * 2.0)", "-(\"value\" + 1)", "if(\"value\" > 1, 'a', 'b')", "1 + 2 * 3", "(1 + 2) * 3", "\"value\" / 1h", "sigma(\"value\")"})
}

type nodeSpec struct {
	call  func(g *scriptGen) string
	props []func(g *scriptGen) string
	out   string // "stream" | "batch" | "same"
	in    string // "stream" | "batch" | "any"
}

func lit(s string) func(*scriptGen) string { return func(*scriptGen) string { return s } }

var chainNodes = []nodeSpec{
	{call: func(g *scriptGen) string { return "where(" + g.boolLambda() + ")" }, in: "any", out: "same"},
	{call: lit("window()"), in: "stream", out: "batch", props: []func(*scriptGen) string{
		func(g *scriptGen) string { return "period(" + g.dur() + ")" },
		func(g *scriptGen) string { return "every(" + g.dur() + ")" },
		lit("align()"),
	}},
	{call: func(g *scriptGen) string {
		n := 1 + g.r.Intn(2)
		var ls, as []string
		for i := 0; i < n; i++ {
			ls = append(ls, g.numLambda())
			as = append(as, fmt.Sprintf("'e%d'", i))
		}
		sep := ", "
		if g.r.Chance(1, 3) {
			sep = ",\n        "
		}
		return "eval(" + strings.Join(ls, sep) + ")\n        .as(" + strings.Join(as, ", ") + ")"
	}, in: "any", out: "same", props: []func(*scriptGen) string{
		lit("keep()"), lit("keep('value', 'e0')"), lit("quiet()"), lit("tags('e0')"),
	}},
	{call: func(g *scriptGen) string {
		return kit.Pick(g.r, []string{"mean", "sum", "count", "max", "min", "first", "last", "median", "spread", "stddev"}) + "(" + g.field() + ")"
	}, in: "any", out: "same", props: []func(*scriptGen) string{
		func(g *scriptGen) string { return "as(" + g.str() + ")" }, lit("usePointTimes()"),
	}},
	{call: func(g *scriptGen) string { return "percentile(" + g.field() + ", " + kit.Pick(g.r, []string{"95.0", "50.0", "99.9"}) + ")" }, in: "any", out: "same"},
	{call: func(g *scriptGen) string { return "top(" + kit.Pick(g.r, []string{"3", "10"}) + ", " + g.field() + ", 'host')" }, in: "any", out: "same"},
	{call: func(g *scriptGen) string { return "derivative(" + g.field() + ")" }, in: "any", out: "same", props: []func(*scriptGen) string{
		func(g *scriptGen) string { return "unit(" + g.dur() + ")" }, lit("nonNegative()"), func(g *scriptGen) string { return "as(" + g.str() + ")" },
	}},
	{call: lit("alert()"), in: "any", out: "same", props: []func(*scriptGen) string{
		func(g *scriptGen) string { return "id(" + g.str() + ")" },
		func(g *scriptGen) string { return "message(" + g.str() + ")" },
		func(g *scriptGen) string { return "info(" + g.boolLambda() + ")" },
		func(g *scriptGen) string { return "warn(" + g.boolLambda() + ")" },
		func(g *scriptGen) string { return "crit(" + g.boolLambda() + ")" },
		func(g *scriptGen) string { return "critReset(" + g.boolLambda() + ")" },
		lit("stateChangesOnly()"),
		func(g *scriptGen) string { return "stateChangesOnly(" + g.dur() + ")" },
		lit("flapping(0.25, 0.5)"), lit("history(21)"), lit("all()"), lit("noRecoveries()"),
		func(g *scriptGen) string { return "log(" + kit.Pick(g.r, []string{"'/tmp/a.log'", "'''C:\\logs\\'''", "'/tmp/it\\'s.log'"}) + ")" },
		func(g *scriptGen) string { return "topic(" + g.str() + ")" },
		lit("slack()\n        .channel('#alerts')"),
		lit("email('a@b.c', 'd@e.f')"),
		lit("post('http://x/y')\n        .header('a', 'b')"),
		lit("inhibit('cat', 'host', 'dc')"),
	}},
	{call: func(g *scriptGen) string { return "httpOut(" + g.str() + ")" }, in: "any", out: "same"},
	{call: lit("log()"), in: "any", out: "same", props: []func(*scriptGen) string{
		func(g *scriptGen) string { return "prefix(" + g.str() + ")" }, lit("level('DEBUG')"),
	}},
	{call: func(g *scriptGen) string { return "shift(" + kit.Pick(g.r, []string{"1m", "-1m", "10s", "-500ms"}) + ")" }, in: "any", out: "same"},
	{call: lit("default()"), in: "any", out: "same", props: []func(*scriptGen) string{
		lit("field('f', 1.0)"), lit("field('g', 2)"),
		func(g *scriptGen) string { return "field('hf', " + hardFloat(g.r) + ")" },
		func(g *scriptGen) string { return "field('nhf', -" + hardFloat(g.r) + ")" },
		// integer defaults at the int64 boundaries: beyond 2^53 the pipeline JSON round trip changes them (recorded
		// finding default-int-field: KNOWN, exactly when nothing else differs)
		func(g *scriptGen) string { return "field('hi', " + kit.Pick(g.r, intEdgePool) + ")" },
		func(g *scriptGen) string { return "field('nhi', -" + kit.Pick(g.r, intEdgePool) + ")" },
		// zero defaults of every type (pipeline/tick dropped them before aaa5b64)
		lit("field('z', 0.0)"), lit("field('nz', -0.000)"), lit("field('zi', 0)"), lit("field('zb', FALSE)"), lit("field('zs', '')"), lit("tag('zt', '')"),
		lit("field('h', 'x')"), lit("field('b', TRUE)"), lit("tag('t', 'v')"), lit("field('n', -1.5)"), lit("field('m', -3)"),
	}},
	{call: lit("delete()"), in: "any", out: "same", props: []func(*scriptGen) string{lit("field('x')"), lit("tag('y')")}},
	{call: func(g *scriptGen) string { return "sample(" + kit.Pick(g.r, []string{"3", "10s", "1m"}) + ")" }, in: "any", out: "same"},
	{call: lit("flatten()"), in: "any", out: "same", props: []func(*scriptGen) string{
		lit("on('a', 'b')"), lit("delimiter(':')"), func(g *scriptGen) string { return "tolerance(" + g.dur() + ")" }, lit("dropOriginalFieldName()"),
	}},
	{call: func(g *scriptGen) string { return "stateDuration(" + g.boolLambda() + ")" }, in: "any", out: "same", props: []func(*scriptGen) string{
		func(g *scriptGen) string { return "unit(" + g.dur() + ")" }, lit("as('sd')"),
	}},
	{call: func(g *scriptGen) string { return "stateCount(" + g.boolLambda() + ")" }, in: "any", out: "same", props: []func(*scriptGen) string{lit("as('sc')")}},
	{call: lit("influxDBOut()"), in: "any", out: "end", props: []func(*scriptGen) string{
		lit("database('db')"), lit("retentionPolicy('rp')"), lit("measurement('m')"), lit("tag('k', 'v')"), lit("precision('s')"), lit("buffer(100)"), func(g *scriptGen) string { return "flushInterval(" + g.dur() + ")" }, lit("create()"),
	}},
	{call: func(g *scriptGen) string {
		return "groupBy(" + kit.Pick(g.r, []string{"'host'", "'host', 'dc'", "*", "'a b'"}) + ")"
	}, in: "any", out: "same", props: []func(*scriptGen) string{lit("byMeasurement()")}},
	{call: func(g *scriptGen) string { return "barrier()\n        .idle(" + g.dur() + ")" }, in: "stream", out: "same", props: []func(*scriptGen) string{lit("delete(TRUE)")}},
	{call: func(g *scriptGen) string { return "changeDetect(" + g.field() + ")" }, in: "any", out: "same"},
	{call: func(g *scriptGen) string { return "elapsed(" + g.field() + ", " + g.dur() + ")" }, in: "any", out: "same"},
	{call: func(g *scriptGen) string { return "movingAverage(" + g.field() + ", 5)" }, in: "any", out: "same"},
	{call: func(g *scriptGen) string { return "holtWinters(" + g.field() + ", 3, 0, " + g.dur() + ")" }, in: "batch", out: "same"},
	{call: lit("last('value')\n        .as('value')"), in: "any", out: "same"},
	{call: lit("trickle()"), in: "batch", out: "stream"},
}

func (g *scriptGen) source() (string, string) {
	r := g.r
	if g.edge == "batch" {
		q := kit.Pick(r, []string{"'SELECT mean(value) FROM \"db\".\"rp\".\"cpu\"'", "'''SELECT value FROM \"db\".\"rp\".\"cpu\" WHERE \"host\" = 'a' '''", "'SELECT * FROM \"db\".\"rp\".\"m\" WHERE x = \\'y\\''"})
		s := "batch\n    " + g.comment("    ") + "|query(" + q + ")"
		for _, p := range []string{"period(" + g.dur() + ")", "every(" + g.dur() + ")", "groupBy(time(1m), 'host')", "groupBy(time(10s, 1s), *)", "fill(0.0)", "fill('null')", "align()", "offset(" + g.dur() + ")", "cluster('c')", "cron('*/5 * * * *')"} {
			if r.Chance(1, 3) {
				if strings.HasPrefix(p, "cron") && strings.Contains(s, ".every(") {
					continue
				}
				s += "\n        " + g.comment("        ") + "." + p
			}
		}
		return s, "batch"
	}
	s := "stream\n    " + g.comment("    ") + "|from()"
	props := []string{"measurement(" + g.str() + ")", "database('db')", "retentionPolicy('rp')", "where(" + g.boolLambda() + ")", "where(" + g.boolLambda() + ")", "groupBy('host')", "groupBy(*)", "groupBy('a', 'b')", "truncate(" + g.dur() + ")", "round(" + g.dur() + ")", "groupByMeasurement()"}
	for _, p := range props {
		if r.Chance(1, 4) {
			if len(g.vars) > 0 && strings.HasPrefix(p, "measurement") && r.Bool() {
				p = "measurement(" + g.vars[0] + ")"
			}
			s += "\n        " + g.comment("        ") + "." + p
		}
	}
	return s, "stream"
}

func (g *scriptGen) chain(kind string, n int) string {
	r := g.r
	s := ""
	for i := 0; i < n; i++ {
		var cand []nodeSpec
		for _, ns := range chainNodes {
			if ns.in == "any" || ns.in == kind {
				cand = append(cand, ns)
			}
		}
		ns := kit.Pick(r, cand)
		s += "\n    " + g.comment("    ") + "|" + ns.call(g)
		used := map[int]bool{}
		for j := r.Intn(4); j > 0 && len(ns.props) > 0; j-- {
			k := r.Intn(len(ns.props))
			if used[k] {
				continue
			}
			used[k] = true
			s += "\n        " + g.comment("        ") + "." + ns.props[k](g)
		}
		if ns.out == "end" {
			break
		}
		if ns.out != "same" {
			kind = ns.out
		}
	}
	return s
}

// syntax-only scripts: forms that need no valid pipeline (typed / template vars, @udf() links, property
// identifiers without parentheses, expression statements, lists, chains on calls); judged on parse / format only
func genSyntaxCase(r *kit.Rand) []string {
	g := &scriptGen{r: r, e: &exprGen{r: r}}
	var b strings.Builder
	n := 1 + r.Intn(5)
	for k := 0; k < n; k++ {
		b.WriteString(g.comment(""))
		switch r.Intn(9) {
		case 0:
			b.WriteString("var " + kit.Pick(r, []string{"t", "name", "x1"}) + " " + kit.Pick(r, []string{"string", "duration", "lambda", "list", "float", "int", "bool", "regex"}) + "\n")
		case 1:
			b.WriteString("var l" + fmt.Sprint(k) + " = [" + kit.Pick(r, []string{"", "a", "a, 'b', *", "'x',", "*, *", "host, 'dc'"}) + "]\n")
		case 2:
			b.WriteString("var e" + fmt.Sprint(k) + " = " + g.e.expr(1+r.Intn(2)) + "\n")
		case 3:
			b.WriteString("var f" + fmt.Sprint(k) + " = lambda: " + g.e.expr(1+r.Intn(2)) + "\n")
		case 4:
			b.WriteString("dbrp \"" + kit.Pick(r, []string{"db", "a b", "x\\\"y"}) + "\".\"" + kit.Pick(r, []string{"rp", "autogen"}) + "\"\n")
		default:
			head := kit.Pick(r, []string{"stream", "batch", "a", "src", "mk(1, 'x')", "f()"})
			s := head
			for j := 1 + r.Intn(4); j > 0; j-- {
				s += "\n    " + g.comment("    ")
				arg := func() string {
					switch r.Intn(7) {
					case 0:
						return "lambda: " + g.e.expr(r.Intn(2))
					case 1:
						return "[" + kit.Pick(r, []string{"a", "'b', *", "x, 'y'"}) + "]"
					case 2:
						return "*"
					case 3:
						return g.str()
					case 4:
						return kit.Pick(r, identPool)
					default:
						return g.e.expr(r.Intn(2))
					}
				}
				var as []string
				for m := r.Intn(4); m > 0; m-- {
					as = append(as, arg())
				}
				al := strings.Join(as, ", ")
				if len(as) > 0 && r.Chance(1, 8) {
					al += ","
				}
				switch r.Intn(6) {
				case 0:
					s += "@" + kit.Pick(r, []string{"udf", "myFunc"}) + "(" + al + ")"
				case 1:
					s += "." + kit.Pick(r, []string{"flag", "prop"})
				case 2:
					s += "@" + kit.Pick(r, []string{"dyn"})
				case 3:
					s += "." + kit.Pick(r, []string{"period", "as", "field"}) + "(" + al + ")"
				default:
					s += "|" + kit.Pick(r, []string{"where", "eval", "node"}) + "(" + al + ")"
				}
			}
			if r.Chance(1, 3) {
				s = "var v" + fmt.Sprint(k) + " = " + s
			}
			b.WriteString(s + "\n")
		}
		if r.Chance(1, 3) {
			b.WriteString("\n")
		}
	}
	return []string{"script " + kit.Esc(b.String()), "sfmt", "sreparse", "sfmt", "sreparse", "sfmt"}
}

func genScriptCase(r *kit.Rand, i int) []string {
	if i%5 == 4 {
		return genSyntaxCase(r)
	}
	g := &scriptGen{r: r, e: &exprGen{r: r}}
	g.edge = "stream"
	if i%3 == 2 {
		g.edge = "batch"
	}
	var b strings.Builder
	if r.Chance(1, 3) {
		b.WriteString(g.comment(""))
		b.WriteString("dbrp \"" + kit.Pick(r, []string{"db", "tele\\\"graf", "a b"}) + "\".\"" + kit.Pick(r, []string{"rp", "autogen"}) + "\"\n\n")
	}
	// var declarations of every literal type
	decls := []string{
		"var m = " + g.str(),
		"var period = " + g.dur(),
		"var threshold = " + kit.Pick(r, []string{"10", "1.5", "010", "-3", "-2.5", hardNum(r), "-" + hardFloat(r)}),
		"var flag = " + kit.Pick(r, []string{"TRUE", "FALSE"}),
		"var re = /" + kit.Pick(r, rxBodies) + "/",
		"var cond = " + g.boolLambda(),
		"var dims = [" + kit.Pick(r, []string{"'host', 'dc'", "'a'", "*", "'x', *"}) + "]",
		"var neg = -" + g.dur(),
		"var calc = " + kit.Pick(r, []string{"1 + 2 * 3", "(1 + 2) * 3", "10s * 2", "'a' + 'b'", "2 - (1 - 1)"}),
	}
	for _, d := range decls {
		if r.Chance(1, 3) {
			b.WriteString(g.comment(""))
			b.WriteString(d + "\n")
			if strings.HasPrefix(d, "var m ") {
				g.vars = append(g.vars, "m")
			}
		}
	}
	src, kind := g.source()
	two := r.Chance(1, 4)
	if two {
		// two branches joined or unioned
		b.WriteString(g.comment(""))
		b.WriteString("var a = " + src + "\n\n")
		src2, _ := g.source()
		b.WriteString("var b = " + src2 + "\n\n")
		if r.Bool() {
			b.WriteString("a\n    |join(b)\n        .as('a', 'b')")
			for _, p := range []string{"tolerance(" + g.dur() + ")", "fill(0.0)", "fill('null')", "on('host')", "streamName('j')", "delimiter('.')"} {
				if r.Chance(1, 4) {
					b.WriteString("\n        ." + p)
				}
			}
		} else {
			b.WriteString("a\n    |union(b)\n        .rename('u')")
		}
		b.WriteString(g.chain(kind, 1+r.Intn(2)))
	} else {
		b.WriteString(g.comment(""))
		b.WriteString(src + g.chain(kind, 1+r.Intn(4)))
	}
	b.WriteString("\n")
	if r.Chance(1, 5) {
		b.WriteString("// trailing comment\n")
	}
	script := b.String()
	if r.Chance(1, 6) && !strings.Contains(script, "//") {
		// squeeze the layout: chains on one line
		script = strings.ReplaceAll(script, "\n        .", ".")
	}
	ops := []string{"script " + kit.Esc(script), "dot " + g.edge, "sfmt", "sreparse", "dot " + g.edge, "sfmt", "sreparse", "sfmt"}
	// the tail is chosen independently of the edge type (i%3 picks the edge): stream AND batch tasks go through
	// pipeline JSON and through pipeline/tick
	switch (i / 3) % 3 {
	case 0:
		ops = append(ops, "pjson "+g.edge)
	case 1:
		ops = append(ops, "pnodes "+g.edge, "ptick "+g.edge, "dot "+g.edge)
	}
	return ops
}
