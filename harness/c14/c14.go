// Package c14 is the harness for property C14 (runs the real kapacitor code, prints op lines).
package c14

import (
	"fmt"
	"os"
)

// Run is replaced by the property's harness.
func Run(args []string) int {
	fmt.Fprintln(os.Stderr, "c14: harness not implemented yet")
	return 3
}
