package c14

import (
	"fmt"
	"os"
	"strings"

	"verifharness/kit"
)

func emit(out *kit.Out, id string, lines []string) {
	out.Line("case", id)
	for _, l := range lines {
		out.Line(l)
	}
	out.Line("end")
}

// Run: `vh-c14 -seed S -n N [-tier thorough]` generates; `vh-c14 -ops file` re-executes the cases of a file.
func Run(args []string) int {
	f := kit.ParseFlags(args)
	out := kit.NewOut()
	defer out.Flush()
	if f.Ops != "" {
		lines, err := kit.ReadLines(f.Ops)
		if err != nil {
			fmt.Fprintln(os.Stderr, err)
			return 2
		}
		var cur []string
		id := ""
		for _, l := range lines {
			t := strings.Fields(l)
			switch {
			case len(t) == 2 && t[0] == "case":
				id, cur = t[1], nil
			case len(t) == 1 && t[0] == "end":
				emit(out, id, execCase(withOracle(cur)))
			default:
				cur = append(cur, l)
			}
		}
		return 0
	}
	r := kit.NewRand(f.Seed)
	for i := 0; i < f.N; i++ {
		emit(out, fmt.Sprintf("g%d", i), execCase(withOracle(genCase(r.Fork(), i, f.Tier))))
	}
	return 0
}

// withOracle makes sure every case starts with the oracle lines of all pool scripts.
func withOracle(ops []string) []string {
	var rest []string
	for _, l := range ops {
		t := strings.Fields(l)
		if len(t) > 0 && t[0] == "oracle" {
			continue
		}
		rest = append(rest, l)
	}
	var out []string
	for _, s := range scripts {
		out = append(out, "oracle "+s.id)
	}
	return append(out, rest...)
}

