package c14

import (
	"bytes"
	"encoding/json"
	"fmt"
	"net/http"
	"net/http/httptest"
	"net/url"
	"os"
	"path"
	"runtime/debug"
	"sort"
	"strings"
	"time"

	"github.com/influxdata/kapacitor"
	client "github.com/influxdata/kapacitor/client/v1"
	"github.com/influxdata/kapacitor/tick"
	"github.com/influxdata/kapacitor/tick/ast"
	imodels "github.com/influxdata/influxdb/models"

	"verifharness/kit"
)

// ---------------------------------------------------------------------------------------------
// Script and vars pools. The attributes p (parses), t (task type of the program), d (dbrps declared by the
// program) are DECLARED here (they are the oracle inputs of the model for newProgramNodeFromTickscript,
// taskTypeFromProgram, dbrpsFromProgram); tv (valid as a template) and v (valid as a task with vars v0..v3) are
// COMPUTED from the real TaskMaster.NewTemplate / NewTask at the start of every case.

type script struct {
	id, text string
	parse    bool
	typ      string // s | b | x
	pdbrps   string // "db.rp,db.rp" or "-"
	qdbrps   string // batch scripts: the db.rp their queries read (BatchNode.DBRPs), "-" otherwise
}

// batch scripts: one query, every hour (never issued during a case), then the batch gate
const batchFmt = "batch\n    |query('SELECT v FROM \"%s\".\"%s\".\"m\"')\n        .period(1s)\n        .every(1h)\n    @bgate()\n"

const gateTail = "\n    |from()\n        .measurement('%s')\n    @gate()\n"

var scripts = []script{
	{"s0", "stream" + fmt.Sprintf(gateTail, "m0"), true, "s", "-", "-"},
	{"s1", "stream" + fmt.Sprintf(gateTail, "m1"), true, "s", "-", "-"},
	{"sd", "dbrp \"pdb\".\"prp\"\n\nstream" + fmt.Sprintf(gateTail, "m2"), true, "s", "pdb.prp", "-"},
	{"se", "dbrp \"qdb\".\"qrp\"\n\nstream" + fmt.Sprintf(gateTail, "m3"), true, "s", "qdb.qrp", "-"},
	{"sx", "stream|from(", false, "x", "-", "-"},                     // does not parse
	{"si", "stream\n    |from()\n    .nosuch()\n", true, "s", "-", "-"}, // parses, typed, does not build
	{"sn", "var x = 1\n", true, "x", "-", "-"},                        // parses, no stream/batch
	{"t0", "var m = 'm0'\n\nstream\n    |from()\n        .measurement(m)\n    @gate()\n", true, "s", "-", "-"},
	{"t1", "var m string\n\nstream\n    |from()\n        .measurement(m)\n    @gate()\n", true, "s", "-", "-"}, // needs var m
	{"td", "dbrp \"pdb\".\"prp\"\n\nvar m = 'm4'\n\nstream\n    |from()\n        .measurement(m)\n    @gate()\n", true, "s", "pdb.prp", "-"},
	// batch tasks: StartBatching succeeds iff the task's dbrps contain the db.rp the query reads
	{"b0", fmt.Sprintf(batchFmt, "db", "rp"), true, "b", "-", "db.rp"},
	{"b1", fmt.Sprintf(batchFmt, "odb", "orp"), true, "b", "-", "odb.orp"},
}

var varsPool = []struct {
	id string
	v  client.Vars
}{
	{"v0", nil},
	{"v1", client.Vars{"m": {Type: client.VarString, Value: "x"}}},
	{"v2", client.Vars{"m": {Type: client.VarString, Value: "y"}}},
	{"v3", client.Vars{"m": {Type: client.VarInt, Value: int64(5)}}},
}

func scriptByID(id string) (script, bool) {
	for _, s := range scripts {
		if s.id == id {
			return s, true
		}
	}
	return script{}, false
}
func scriptIDOf(text string) string {
	for _, s := range scripts {
		if s.text == text {
			return s.id
		}
	}
	return "?" + kit.Esc(text)
}
func varsByID(id string) client.Vars {
	for _, v := range varsPool {
		if v.id == id {
			return v.v
		}
	}
	return nil
}
func canonVars(v interface{}) string {
	b, _ := json.Marshal(v)
	var x interface{}
	json.Unmarshal(b, &x)
	b, _ = json.Marshal(x) // map keys sorted
	return string(b)
}
func varsIDOf(raw json.RawMessage) string {
	if len(raw) == 0 || string(raw) == "null" || string(raw) == "{}" {
		return "v0"
	}
	var x interface{}
	json.Unmarshal(raw, &x)
	// drop empty descriptions
	got := canonVars(x)
	for _, v := range varsPool[1:] {
		var cv client.Vars = v.v
		b, _ := json.Marshal(cv)
		var y interface{}
		json.Unmarshal(b, &y)
		if canonVars(y) == got {
			return v.id
		}
	}
	return "?" + kit.Esc(got)
}

func parseDBRPs(tok string) []client.DBRP {
	if tok == "-" || tok == "" {
		return nil
	}
	var out []client.DBRP
	for _, p := range strings.Split(tok, ",") {
		i := strings.Index(p, ".")
		out = append(out, client.DBRP{Database: p[:i], RetentionPolicy: p[i+1:]})
	}
	return out
}
func renderDBRPs(d []client.DBRP) string {
	if len(d) == 0 {
		return "-"
	}
	var s []string
	for _, x := range d {
		s = append(s, x.Database+"."+x.RetentionPolicy)
	}
	return strings.Join(s, ",")
}

func dash(s string) string {
	if s == "" {
		return "-"
	}
	return s
}
func undash(s string) string {
	if s == "-" {
		return ""
	}
	return s
}
func idList(tok string) []string {
	if tok == "-" || tok == "" {
		return nil
	}
	return strings.Split(tok, ",")
}

// kv parses tokens of the form k=v.
func kv(toks []string) map[string]string {
	m := map[string]string{}
	for _, t := range toks {
		if i := strings.Index(t, "="); i > 0 {
			m[t[:i]] = t[i+1:]
		}
	}
	return m
}

// ---------------------------------------------------------------------------------------------

func (w *world) do(method, path string, body interface{}) (string, []byte) {
	var rd *bytes.Reader
	if body != nil {
		b, _ := json.Marshal(body)
		rd = bytes.NewReader(b)
	} else {
		rd = bytes.NewReader(nil)
	}
	req := httptest.NewRequest(method, path, rd)
	rec := httptest.NewRecorder()
	w.hs.Handler.ServeHTTP(rec, req)
	return respClass(rec.Code), rec.Body.Bytes()
}

func respClass(code int) string {
	switch {
	case code >= 200 && code < 300:
		return "ok"
	case code == http.StatusBadRequest:
		return "bad"
	case code == http.StatusNotFound:
		return "nf"
	case code == http.StatusInternalServerError:
		return "fail"
	}
	return fmt.Sprintf("http%d", code)
}

const base = "/kapacitor/v1"

// taskQuery: the query of a task listing that asks for the fields the model's record has.
func taskQuery() url.Values {
	q := url.Values{}
	q.Set("script-format", "raw")
	for _, f := range []string{"type", "dbrps", "script", "status", "executing", "template-id", "vars"} {
		q.Add("fields", f)
	}
	return q
}

type taskJSON struct {
	ID         string          `json:"id"`
	Type       string          `json:"type"`
	DBRPs      []client.DBRP   `json:"dbrps"`
	Script     string          `json:"script"`
	Status     string          `json:"status"`
	Executing  bool            `json:"executing"`
	TemplateID string          `json:"template-id"`
	Vars       json.RawMessage `json:"vars"`
}

// id;type;status;executing;template;script;vars;dbrps
func renderTask(t taskJSON) string {
	st := "d"
	if t.Status == "enabled" {
		st = "e"
	}
	ex := "0"
	if t.Executing {
		ex = "1"
	}
	return strings.Join([]string{kit.Esc(t.ID), dash(t.Type), st, ex, tmplTok(t.TemplateID), scriptIDOf(t.Script), varsIDOf(t.Vars), renderDBRPs(t.DBRPs)}, ";")
}

// getTasks issues GET /tasks with the given query: answer class, rendered rows, IDs in the order shown.
func (w *world) getTasks(q url.Values) (cls string, rows, ids []string) {
	cls, body := w.do("GET", base+"/tasks?"+q.Encode(), nil)
	if cls != "ok" {
		return cls, nil, nil
	}
	var r struct {
		Tasks []taskJSON `json:"tasks"`
	}
	if err := json.Unmarshal(body, &r); err != nil {
		return "undecodable", nil, nil
	}
	for _, t := range r.Tasks {
		rows = append(rows, renderTask(t))
		ids = append(ids, kit.Esc(t.ID))
	}
	return cls, rows, ids
}

func (w *world) listTasks() string {
	cls, out, _ := w.getTasks(taskQuery())
	if cls != "ok" {
		return "tasks=" + cls
	}
	if len(out) == 0 {
		return "tasks=-"
	}
	return "tasks=" + strings.Join(out, "|")
}

func tmplQuery() url.Values {
	q := url.Values{}
	q.Set("script-format", "raw")
	q.Add("fields", "script")
	q.Add("fields", "type")
	return q
}

func (w *world) getTemplates(q url.Values) (cls string, rows, ids []string) {
	cls, body := w.do("GET", base+"/templates?"+q.Encode(), nil)
	if cls != "ok" {
		return cls, nil, nil
	}
	var r struct {
		Templates []struct {
			ID     string `json:"id"`
			Type   string `json:"type"`
			Script string `json:"script"`
		} `json:"templates"`
	}
	if err := json.Unmarshal(body, &r); err != nil {
		return "undecodable", nil, nil
	}
	for _, t := range r.Templates {
		rows = append(rows, strings.Join([]string{tmplTok(t.ID), dash(t.Type), scriptIDOf(t.Script)}, ";"))
		ids = append(ids, tmplTok(t.ID))
	}
	return cls, rows, ids
}

func (w *world) listTemplates() string {
	cls, out, _ := w.getTemplates(tmplQuery())
	if cls != "ok" {
		return "tmpls=" + cls
	}
	if len(out) == 0 {
		return "tmpls=-"
	}
	return "tmpls=" + strings.Join(out, "|")
}

// page: `page tasks|tmpls pat=<escaped pattern|-> off=<n|-> lim=<n|-> f=<std|all|id>` — one PAGED / FILTERED listing
// request (GET /tasks or /templates with pattern, offset, limit; "-" = the parameter is not sent). f=std asks for the
// fields of the model's record, f=all sends no `fields` (every field, incl. dot / stats), f=id asks for the ID only.
// Observation: answer class, the IDs in the order shown, the rendered rows (na for f=id), and — oracle cross-check of
// the model's glob fragment — which IDs of the pool the real path.Match accepts (pm=) and rejects (pn=).
func (w *world) page(kind string, a map[string]string) string {
	pat := ""
	if p, ok := a["pat"]; ok && p != "-" {
		u, err := kit.Unesc(p)
		if err != nil {
			return "bad-pattern-token"
		}
		pat = u
	}
	var q url.Values
	switch {
	case a["f"] == "all":
		q = url.Values{}
		q.Set("script-format", "raw")
	case a["f"] == "id":
		q = url.Values{}
		q.Add("fields", "id")
	case kind == "tasks":
		q = taskQuery()
	default:
		q = tmplQuery()
	}
	if pat != "" {
		q.Set("pattern", pat)
	}
	if o, ok := a["off"]; ok && o != "-" {
		q.Set("offset", o)
	}
	if l, ok := a["lim"]; ok && l != "-" {
		q.Set("limit", l)
	}
	var cls string
	var rows, ids []string
	pool := taskIDs
	if kind == "tasks" {
		cls, rows, ids = w.getTasks(q)
	} else {
		cls, rows, ids = w.getTemplates(q)
		pool = append(append([]string{}, tmplIDs...), "V")
	}
	if cls != "ok" {
		return cls
	}
	var pm, pn []string
	for _, id := range pool {
		ok := pat == ""
		if pat != "" {
			ok, _ = path.Match(pat, id)
		}
		if ok {
			pm = append(pm, id)
		} else {
			pn = append(pn, id)
		}
	}
	join := func(xs []string, sep string) string {
		if len(xs) == 0 {
			return "-"
		}
		return strings.Join(xs, sep)
	}
	rowTok := join(rows, "|")
	if a["f"] == "id" {
		rowTok = "na"
	}
	return "ok ids=" + join(ids, ",") + " rows=" + rowTok + " pm=" + join(pm, ",") + " pn=" + join(pn, ",")
}

// executing set straight from the TaskMaster (also for IDs the catalogue no longer lists)
func (w *world) executing(ids []string) string {
	var out []string
	for _, id := range ids {
		if w.tm.IsExecuting(id) {
			out = append(out, id)
		}
	}
	sort.Strings(out)
	if len(out) == 0 {
		return "exec=-"
	}
	return "exec=" + strings.Join(out, ",")
}

// "a" is a proper prefix of "ab" (task keys and association keys are scanned by prefix)
var taskIDs = []string{"a", "ab", "b", "c", "d"}

// node names of the pool's pipelines (stream|from|@gate and batch|query|@bgate): a stored snapshot is used by
// ExecutingTask.start only when it has an entry for every node of the pipeline.
var snapshotNodes = []string{"stream0", "from1", "gate2", "batch0", "query1", "bgate2"}

// snapshots: for every task ID that has a stored snapshot (Service.HasSnapshot / LoadSnapshot — what
// TaskMaster.StartTask asks), its payload and, when the task executes, the payload its gate node was restored with at
// its last start ("-" = it was started without a snapshot). id:payload:restored
func (w *world) snapshots(ids []string) string {
	var out []string
	for _, id := range ids {
		pay := "-"
		if w.ts.HasSnapshot(id) {
			pay = "undecodable"
			if s, err := w.ts.LoadSnapshot(id); err == nil {
				pay = "inconsistent"
				same := true
				for _, n := range snapshotNodes {
					if string(s.NodeSnapshots[n]) != string(s.NodeSnapshots[snapshotNodes[0]]) {
						same = false
					}
				}
				if same && len(s.NodeSnapshots) == len(snapshotNodes) {
					pay = string(s.NodeSnapshots[snapshotNodes[0]])
				}
			}
		}
		rest := "-"
		if w.tm.IsExecuting(id) {
			if r := w.gate.restoredOf(id); r != "" {
				rest = r
			}
		}
		if pay != "-" || rest != "-" {
			out = append(out, id+":"+pay+":"+rest)
		}
	}
	if len(out) == 0 {
		return "snaps=-"
	}
	return "snaps=" + strings.Join(out, ",")
}

func statusOf(tok string) client.TaskStatus {
	switch tok {
	case "e":
		return client.Enabled
	case "d":
		return client.Disabled
	}
	return 0
}

func scriptText(sid string) string {
	if sid == "-" || sid == "" {
		return ""
	}
	s, ok := scriptByID(sid)
	if !ok {
		return sid
	}
	return s.text
}

// oracle computes, with the real TaskMaster, which (script, vars) pairs build as a task and which scripts build
// as a template.
func (w *world) oracle(s script) string {
	p, tv := "0", "0"
	if s.parse {
		p = "1"
	}
	// cross-check the declared parse attribute with the real parser (the declaration is what the model uses)
	if _, err := ast.Parse(s.text); (err == nil) != s.parse {
		p = "declared-parse-attribute-wrong"
	}
	tt := kapacitor.StreamTask
	if s.typ == "b" {
		tt = kapacitor.BatchTask
	}
	if _, err := w.tm.NewTemplate("probe", s.text, tt); err == nil {
		tv = "1"
	}
	v := ""
	for _, vp := range varsPool {
		tvars, err := toTickVars(vp.v)
		ok := err == nil
		if ok {
			_, err = w.tm.NewTask("probe", s.text, tt, []kapacitor.DBRP{{Database: "x", RetentionPolicy: "y"}}, 0, tvars)
			ok = err == nil
		}
		if ok {
			v += "1"
		} else {
			v += "0"
		}
	}
	// cross-check the declared type / query dbrps of batch scripts with the real pipeline
	q := s.qdbrps
	if s.typ == "b" {
		if got := w.batchDBRPs(s.text); got != s.qdbrps {
			q = "declared-query-dbrps-wrong:" + got
		}
	}
	return fmt.Sprintf("p=%s t=%s d=%s tv=%s v=%s q=%s", p, s.typ, s.pdbrps, tv, v, q)
}

// batchDBRPs: what ExecutingTask.checkDBRPs compares with the task's dbrps (BatchNode.DBRPs), from a real
// ExecutingTask of the script.
func (w *world) batchDBRPs(text string) string {
	t, err := w.tm.NewTask("probe", text, kapacitor.BatchTask, []kapacitor.DBRP{{Database: "x", RetentionPolicy: "y"}}, 0, nil)
	if err != nil {
		return "unbuildable"
	}
	et, err := kapacitor.NewExecutingTask(w.tm, t)
	if err != nil {
		return "no-executing-task"
	}
	qs, err := et.BatchQueries(time.Unix(0, 0), time.Unix(1, 0))
	_ = qs
	// BatchQueries runs checkDBRPs first: probe the two candidate dbrps instead of reaching into the node
	var out []string
	for _, cand := range [][2]string{{"db", "rp"}, {"odb", "orp"}} {
		t2, err := w.tm.NewTask("probe", text, kapacitor.BatchTask, []kapacitor.DBRP{{Database: cand[0], RetentionPolicy: cand[1]}}, 0, nil)
		if err != nil {
			return "unbuildable"
		}
		et2, err := kapacitor.NewExecutingTask(w.tm, t2)
		if err != nil {
			return "no-executing-task"
		}
		if _, err := et2.BatchQueries(time.Unix(0, 0), time.Unix(0, 0)); err == nil {
			out = append(out, cand[0]+"."+cand[1])
		}
	}
	if len(out) == 0 {
		return "-"
	}
	return strings.Join(out, ",")
}

func toTickVars(cv client.Vars) (map[string]tick.Var, error) {
	out := map[string]tick.Var{}
	for k, v := range cv {
		switch v.Type {
		case client.VarString:
			out[k] = tick.Var{Type: ast.TString, Value: v.Value}
		case client.VarInt:
			out[k] = tick.Var{Type: ast.TInt, Value: v.Value}
		default:
			return nil, fmt.Errorf("unsupported var type in the pool")
		}
	}
	return out, nil
}

// execCase runs the op lines of one case on a fresh world and returns the lines with observations.
func execCase(ops []string) (out []string) {
	w, err := newWorld()
	if err != nil {
		return []string{"# world: " + err.Error()}
	}
	defer w.close()
	guard := func(line string, f func() string) {
		defer func() {
			if r := recover(); r != nil {
				if os.Getenv("VERIF_LOG") != "" {
					fmt.Fprintf(os.Stderr, "panic: %v\n%s\n", r, debug.Stack())
				}
				out = append(out, line+" => panic")
			}
		}()
		obs := f()
		if obs == "" {
			out = append(out, line)
		} else {
			out = append(out, line+" => "+obs)
		}
	}
	for _, raw := range ops {
		line := raw
		if i := strings.Index(line, " => "); i >= 0 {
			line = line[:i]
		}
		line = strings.TrimSpace(line)
		t := strings.Fields(line)
		if len(t) == 0 || strings.HasPrefix(t[0], "#") {
			continue
		}
		a := kv(t[1:])
		w.gate.setFail(idList(a["fail"]))
		// crash=k: copy the Bolt file after the k-th Update transaction of this request, finish the request,
		// then come back from the copy (restart from the storage file at a transaction boundary).
		crash, snapTo := -1, ""
		if c, ok := a["crash"]; ok {
			fmt.Sscanf(c, "%d", &crash)
			snapTo = w.nextSnapPath()
		}
		mut := func(f func() string) {
			guard(line, func() string {
				w.st.reset(crash, snapTo)
				if fl, ok := a["fault"]; ok {
					fmt.Sscanf(fl, "%d", &w.st.flt)
				}
				cls := f()
				w.st.flt = 0
				obs := fmt.Sprintf("%s ntx=%d", cls, w.st.count())
				if crash >= 0 {
					if !w.st.done { // fewer transactions than k: the request completed before the crash
						w.st.snap = w.st.ntx
						w.st.maybeSnap()
					}
					if err := w.restartFrom(snapTo); err != nil {
						return obs + " restart-error"
					}
				}
				return obs
			})
		}
		switch t[0] {
		case "oracle":
			guard(line, func() string {
				s, ok := scriptByID(t[1])
				if !ok {
					return "unknown"
				}
				return w.oracle(s)
			})
		case "tcreate": // tcreate <tid> s=<sid>
			mut(func() string {
				cls, _ := w.do("POST", base+"/templates", client.CreateTemplateOptions{ID: t[1], TICKscript: scriptText(a["s"])})
				return cls
			})
		case "tupdate": // tupdate <tid> id=<newtid|-> s=<sid|-> fail=
			mut(func() string {
				cls, _ := w.do("PATCH", base+"/templates/"+t[1], client.UpdateTemplateOptions{ID: undash(a["id"]), TICKscript: scriptText(a["s"])})
				return cls
			})
		case "tdelete":
			mut(func() string {
				cls, _ := w.do("DELETE", base+"/templates/"+t[1], nil)
				return cls
			})
		case "create": // create <id> tm=<tid|-> s=<sid|-> d=<dbrps|-> st=<e|d|-> v=<vid> fail=
			mut(func() string {
				o := client.CreateTaskOptions{ID: t[1], TemplateID: undash(a["tm"]), TICKscript: scriptText(a["s"]),
					DBRPs: parseDBRPs(a["d"]), Status: statusOf(a["st"]), Vars: varsByID(a["v"])}
				cls, _ := w.do("POST", base+"/tasks", o)
				return cls
			})
		case "update": // update <id> id=<newid|-> tm= s= d= st= v= fail=
			mut(func() string {
				o := client.UpdateTaskOptions{ID: undash(a["id"]), TemplateID: undash(a["tm"]), TICKscript: scriptText(a["s"]),
					DBRPs: parseDBRPs(a["d"]), Status: statusOf(a["st"]), Vars: varsByID(a["v"])}
				cls, _ := w.do("PATCH", base+"/tasks/"+t[1], o)
				return cls
			})
		case "delete":
			mut(func() string {
				cls, _ := w.do("DELETE", base+"/tasks/"+t[1], nil)
				return cls
			})
		case "die": // die <id>: the executing task <id> dies at run time (poison point -> its @gate() node fails)
			guard(line, func() string {
				w.st.reset(-1, "")
				return w.kill(t[1])
			})
		case "snap": // snap <id> <payload>: TaskMaster's snapshotter saves a snapshot of task <id> (Service.SaveSnapshot)
			guard(line, func() string {
				w.st.reset(-1, "")
				ns := map[string][]byte{}
				for _, n := range snapshotNodes {
					ns[n] = []byte(t[2])
				}
				if err := w.ts.SaveSnapshot(t[1], &kapacitor.TaskSnapshot{NodeSnapshots: ns}); err != nil {
					return "error"
				}
				return "ok"
			})
		case "restart": // restart fail=
			guard(line, func() string {
				if err := w.restart(); err != nil {
					return "error"
				}
				return "ok"
			})
		case "page":
			guard(line, func() string {
				if len(t) < 2 || (t[1] != "tasks" && t[1] != "tmpls") {
					return "unknown-op"
				}
				return w.page(t[1], a)
			})
		case "list":
			guard(line, func() string {
				return w.listTasks() + " " + w.listTemplates() + " " + w.executing(taskIDs) + " " + w.snapshots(taskIDs)
			})
		default:
			out = append(out, line+" => unknown-op")
		}
	}
	return out
}

// every (db, rp) and measurement a pool task can listen on
var poisonDBRPs = [][2]string{{"db", "rp"}, {"odb", "orp"}, {"db2", "rp2"}, {"x", "y"}, {"pdb", "prp"}, {"qdb", "qrp"}}
var poisonMeasurements = []string{"m0", "m1", "m2", "m3", "m4", "x", "y"}

// kill makes the executing task `id` die on its own: a poison point addressed to it is written through
// TaskMaster.WritePoints on every db/rp/measurement of the pool; the @gate() node of that task fails, the task ends
// with an error, and the goroutine task_store.startTask left behind stops it and records the error. Waits until
// that goroutine is done (task no longer executing AND the error written), so that the next request is handled
// alone. A task that does not execute is left alone.
func (w *world) kill(id string) string {
	if !w.tm.IsExecuting(id) {
		return "ok ntx=0"
	}
	// UDFNode notices that its UDF is gone only when it tries to hand it the NEXT point (udf.go runUDF: the abort
	// callback just closes a channel the writer loop selects on), so points keep coming until the task is gone.
	send := func() string {
		for _, d := range poisonDBRPs {
			var pts []imodels.Point
			for _, m := range poisonMeasurements {
				p, err := imodels.NewPoint(m, imodels.NewTags(map[string]string{victimTag: id}), imodels.Fields{"v": int64(1)}, time.Unix(1, 0))
				if err != nil {
					return "poison-error"
				}
				pts = append(pts, p)
			}
			if err := w.tm.WritePoints(d[0], d[1], imodels.ConsistencyLevelAll, pts); err != nil {
				return "write-error"
			}
		}
		return ""
	}
	deadline := time.Now().Add(5 * time.Second)
	for round := 0; time.Now().Before(deadline); round++ {
		if !w.tm.IsExecuting(id) && w.st.count() >= 1 {
			return fmt.Sprintf("ok ntx=%d", w.st.count())
		}
		if round%10 == 0 && w.tm.IsExecuting(id) {
			if e := send(); e != "" {
				return e
			}
		}
		time.Sleep(time.Millisecond)
	}
	// the task did not die within the deadline, or died and is still shown as executing: the listing that
	// follows shows it (executing although no longer started => SPECFAIL of the executing-iff clause)
	return fmt.Sprintf("ok ntx=%d", w.st.count())
}

func tmplTok(id string) string {
	if id == "" {
		return "-"
	}
	return kit.Esc(id)
}
