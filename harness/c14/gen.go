package c14

import (
	"fmt"
	"path"
	"strings"

	"verifharness/kit"
)

// Generator: histories over 4 task IDs and 2 (+1) template IDs. A light shadow of the catalogue (what a
// well-behaved server would hold) steers the choice so that every handler branch of the model is reached:
// valid and rejected creates, every kind of update (status, script, dbrps, vars, rename onto free / taken IDs,
// template change), deletes, template create / update (incl. ID change, scripts that make the n-th task fail) /
// delete, clean restarts, refused starts (fail=), crash points (crash=k) and run-time deaths of executing tasks
// (die <id>: never decorated with fail= / crash= / fault=).
//
// mode 0 (60 %): no refused starts, no crash points — judged by the spec without any recorded deviation
// mode 1 (20 %): refused starts
// mode 2 (20 %): crash points (and a few refused starts)
// mode 3 (10 %): storage faults (fault=k: the k-th Update transaction of the request fails), never on template updates

type shadow struct {
	task map[string]*shTask
	tmpl map[string]string
}
type shTask struct {
	enabled bool
	tmpl    string
}

// "T" is a proper prefix of "T2": the association keys of a template are found by a prefix scan
// (/templates/tasks/<id>/), which must not reach the associations of a longer-named template.
var tmplIDs = []string{"T", "T2", "U"}
var plainOK = []string{"s0", "s1", "sd", "se", "t0", "td", "b0", "b1"}
var plainBad = []string{"sx", "si", "sn", "t1"}
var tmplScripts = []string{"t0", "t1", "td", "s0", "sd", "b0", "b1"}

// Batch scripts (b0 reads db.rp, b1 reads odb.orp; StartBatching is refused when the task's dbrps do not contain it)
// appear in a third of the cases only, so that the stream-only histories keep their density. A case that has seen a
// batch script gets no `die` afterwards: the poison that kills a task travels through stream forks only.
var batchScripts = []string{"b0", "b1"}

func isBatchScript(sc string) bool { return sc == "b0" || sc == "b1" }

func genCase(r *kit.Rand, idx int, tier string) []string {
	mode := 0
	switch m := idx % 10; {
	case m == 9:
		mode = 3
	case m >= 7:
		mode = 2
	case m >= 5:
		mode = 1
	}
	size := r.Range(6, 18)
	if idx%7 == 0 {
		size = r.Range(20, 40)
	}
	sh := &shadow{task: map[string]*shTask{}, tmpl: map[string]string{}}
	var ops []string
	withBatch := idx%3 == 1
	sawBatch := false
	// pick a script from a pool; batch scripts only in batch cases (there: preferred one time in three)
	pickScript := func(pool []string) string {
		for {
			sc := kit.Pick(r, pool)
			if withBatch && r.Chance(1, 2) {
				sc = kit.Pick(r, batchScripts)
			}
			if isBatchScript(sc) && !withBatch {
				continue
			}
			if isBatchScript(sc) {
				sawBatch = true
			}
			return sc
		}
	}
	add := func(op string) {
		// oracle decorations
		if (mode == 1 || mode == 2) && r.Chance(1, 4) && !strings.HasPrefix(op, "tdelete") && !strings.HasPrefix(op, "tcreate") && !strings.HasPrefix(op, "delete") {
			n := r.Range(1, 2)
			var f []string
			for i := 0; i < n; i++ {
				id := kit.Pick(r, taskIDs)
				if !contains(f, id) {
					f = append(f, id)
				}
			}
			op += " fail=" + strings.Join(f, ",")
		}
		if mode == 2 && r.Chance(1, 3) && !strings.HasPrefix(op, "restart") {
			op += fmt.Sprintf(" crash=%d", r.Intn(6))
		}
		if mode == 3 && r.Chance(1, 2) && !strings.HasPrefix(op, "restart") && !strings.HasPrefix(op, "tupdate") {
			op += fmt.Sprintf(" fault=%d", r.Range(1, 4))
		}
		ops = append(ops, op, "list")
	}
	existing := func() []string {
		var out []string
		for _, id := range taskIDs {
			if sh.task[id] != nil {
				out = append(out, id)
			}
		}
		return out
	}
	free := func() []string {
		var out []string
		for _, id := range taskIDs {
			if sh.task[id] == nil {
				out = append(out, id)
			}
		}
		return out
	}
	pickOr := func(xs []string, alt []string) string {
		if len(xs) > 0 && r.Chance(5, 6) {
			return kit.Pick(r, xs)
		}
		return kit.Pick(r, alt)
	}
	status := func() string {
		switch r.Intn(5) {
		case 0, 1:
			return " st=e"
		case 2:
			return " st=d"
		}
		return ""
	}
	// every fourth case starts with two templates whose IDs are prefix-related and a task created from the
	// LONGER-named one; the history then updates / renames / deletes the shorter-named one (and vice versa)
	if idx%4 == 3 {
		sc := kit.Pick(r, []string{"t0", "s0"})
		st := kit.Pick(r, []string{" st=e", ""})
		id := kit.Pick(r, taskIDs)
		ops = append(ops, "tcreate T s="+sc, "list", "tcreate T2 s="+sc, "list", "create "+id+" tm=T2 d=db.rp"+st, "list")
		sh.tmpl["T"], sh.tmpl["T2"] = sc, sc
		sh.task[id] = &shTask{enabled: st == " st=e", tmpl: "T2"}
		switch r.Intn(3) {
		case 0:
			ops = append(ops, "tupdate T s=td", "list")
		case 1:
			ops = append(ops, "tdelete T", "list", "tupdate T2 s=td", "list")
			delete(sh.tmpl, "T")
		}
	}
	// every fifth case starts with a populated catalogue (3-5 tasks, 2-3 templates), so that the paged / filtered
	// listings that follow have something to page through
	if idx%5 == 2 {
		for _, id := range tmplIDs[:r.Range(2, 3)] {
			if _, ok := sh.tmpl[id]; !ok {
				ops = append(ops, "tcreate "+id+" s=t0", "list")
				sh.tmpl[id] = "t0"
			}
		}
		skip := r.Intn(len(taskIDs) + 2)
		for i, id := range taskIDs {
			if i == skip || sh.task[id] != nil || (i > 2 && r.Chance(1, 4)) {
				continue
			}
			st := kit.Pick(r, []string{" st=e", "", ""})
			ops = append(ops, "create "+id+" s=s0 d=db.rp"+st, "list")
			sh.task[id] = &shTask{enabled: st == " st=e"}
		}
		size += len(ops) / 2
	}
	explicitDBRPs := []string{"db.rp", "db.rp,db2.rp2", "x.y"}
	if withBatch {
		explicitDBRPs = []string{"db.rp", "db.rp,odb.orp", "odb.orp", "x.y"}
	}
	// paged / filtered listings (page tasks|tmpls pat= off= lim= f=): a group of page requests after the listing
	// of one request in four, and one group at the very end. They read only: not counted as requests of the history.
	npage := 0
	pages := func() {
		var ex []string
		kind := "tasks"
		if r.Chance(3, 10) {
			kind = "tmpls"
			for _, id := range []string{"T", "T2", "U", "V"} {
				if _, ok := sh.tmpl[id]; ok {
					ex = append(ex, id)
				}
			}
		} else {
			ex = existing()
		}
		if len(ex) < 2 && !r.Chance(1, 5) {
			return // a catalogue with fewer than two entries has little to page through
		}
		g := genPages(r, kind, ex)
		npage += len(g)
		ops = append(ops, g...)
	}
	for len(ops)-npage < 2*size {
		if len(ops) > 0 && ops[len(ops)-1] == "list" && r.Chance(1, 4) {
			pages()
		}
		k := r.Intn(100)
		switch {
		case k < 8 || (len(sh.tmpl) == 0 && k < 20): // template create
			id := kit.Pick(r, tmplIDs)
			sc := pickScript(tmplScripts)
			if r.Chance(1, 6) {
				sc = kit.Pick(r, []string{"sx", "si", "sn", "-"})
			}
			add(fmt.Sprintf("tcreate %s s=%s", id, sc))
			if _, ok := sh.tmpl[id]; !ok && sc != "sx" && sc != "si" && sc != "sn" && sc != "-" {
				sh.tmpl[id] = sc
			}
		case k < 30: // create
			id := pickOr(free(), taskIDs)
			op := "create " + id
			tm := ""
			if len(sh.tmpl) > 0 && r.Chance(1, 2) || r.Chance(1, 12) {
				tm = kit.Pick(r, tmplIDs)
				op += " tm=" + tm
				if r.Chance(1, 2) {
					op += " v=" + kit.Pick(r, []string{"v1", "v2", "v3", "v1"})
				}
				if sc := sh.tmpl[tm]; !(sc == "td" || sc == "sd") || r.Chance(1, 6) {
					if r.Chance(9, 10) {
						op += " d=" + kit.Pick(r, explicitDBRPs)
					}
				}
			} else {
				sc := pickScript(plainOK)
				if r.Chance(1, 5) {
					sc = kit.Pick(r, append(plainBad, "-"))
				}
				op += " s=" + sc
				declares := sc == "sd" || sc == "se" || sc == "td"
				if (!declares && r.Chance(9, 10)) || (declares && r.Chance(1, 8)) {
					op += " d=" + kit.Pick(r, explicitDBRPs)
				}
				if r.Chance(1, 8) {
					op += " v=" + kit.Pick(r, []string{"v1", "v3"})
				}
			}
			st := status()
			add(op + st)
			if sh.task[id] == nil {
				sh.task[id] = &shTask{enabled: st == " st=e", tmpl: tm}
			}
		case k < 62: // update
			id := pickOr(existing(), taskIDs)
			op := "update " + id
			t := sh.task[id]
			var parts []string
			switch r.Intn(9) {
			case 0, 1: // status only
				if t != nil && t.enabled {
					parts = append(parts, "st=d")
				} else {
					parts = append(parts, "st=e")
				}
			case 2: // script
				sc := pickScript(plainOK)
				if r.Chance(1, 4) {
					sc = kit.Pick(r, plainBad)
				}
				parts = append(parts, "s="+sc)
				if r.Chance(1, 2) {
					parts = append(parts, "d="+kit.Pick(r, explicitDBRPs))
				}
			case 3: // dbrps / vars
				if r.Bool() {
					parts = append(parts, "d="+kit.Pick(r, explicitDBRPs))
				} else {
					parts = append(parts, "v="+kit.Pick(r, []string{"v1", "v2", "v3"}))
				}
			case 4, 5: // rename (+ status)
				nid := pickOr(free(), taskIDs)
				parts = append(parts, "id="+nid)
				if s := status(); s != "" && r.Bool() {
					parts = append(parts, strings.TrimSpace(s))
				}
			case 6: // template change
				parts = append(parts, "tm="+kit.Pick(r, tmplIDs))
				if r.Chance(1, 3) {
					parts = append(parts, "id="+pickOr(free(), taskIDs))
				}
			case 7: // everything at once
				parts = append(parts, "id="+pickOr(free(), taskIDs), "s="+pickScript(plainOK), strings.TrimSpace(" "+strings.TrimSpace(status())))
			default: // no-op update / re-assert status
				if s := status(); s != "" {
					parts = append(parts, strings.TrimSpace(s))
				}
			}
			full := strings.TrimSpace(op + " " + strings.Join(parts, " "))
			add(full)
			// shadow (optimistic)
			if t != nil {
				nid := id
				for _, p := range parts {
					switch {
					case p == "st=e":
						t.enabled = true
					case p == "st=d":
						t.enabled = false
					case strings.HasPrefix(p, "id="):
						nid = p[3:]
					case strings.HasPrefix(p, "tm="):
						if _, ok := sh.tmpl[p[3:]]; ok {
							t.tmpl = p[3:]
						}
					}
				}
				if nid != id && sh.task[nid] == nil {
					delete(sh.task, id)
					sh.task[nid] = t
				}
			}
		case k < 64 && len(existing()) > 0: // the snapshotter saves a snapshot of a task
			ops = append(ops, fmt.Sprintf("snap %s %s", pickOr(existing(), taskIDs), kit.Pick(r, []string{"p1", "p2", "p3"})), "list")
		case k < 66 && len(existing()) > 0 && !sawBatch: // run-time death of a (preferably enabled) task
			var en []string
			for _, id := range existing() {
				if sh.task[id].enabled {
					en = append(en, id)
				}
			}
			ops = append(ops, "die "+pickOr(en, existing()), "list")
		case k < 70: // delete
			id := pickOr(existing(), taskIDs)
			add("delete " + id)
			delete(sh.task, id)
		case k < 86: // template update
			var have []string
			for _, t := range tmplIDs {
				if _, ok := sh.tmpl[t]; ok {
					have = append(have, t)
				}
			}
			id := pickOr(have, append(tmplIDs, "V"))
			op := "tupdate " + id
			nid := ""
			if r.Chance(1, 4) {
				nid = kit.Pick(r, []string{"T", "T2", "U", "V"})
				op += " id=" + nid
			}
			if r.Chance(5, 6) || nid == "" {
				sc := pickScript(tmplScripts)
				if r.Chance(1, 5) {
					// a template keeps its stored Type when it is updated with a script that names no task type (sn);
					// the model derives the type from the script, so sn is used where every template is a stream template
					if withBatch {
						sc = kit.Pick(r, []string{"sx", "si"})
					} else {
						sc = kit.Pick(r, []string{"sx", "si", "sn"})
					}
				}
				op += " s=" + sc
			}
			add(op)
			if sc, ok := sh.tmpl[id]; ok && nid != "" && nid != id {
				if _, taken := sh.tmpl[nid]; !taken {
					delete(sh.tmpl, id)
					sh.tmpl[nid] = sc
				}
			}
		case k < 90: // template delete
			add("tdelete " + kit.Pick(r, tmplIDs))
		default:
			add("restart")
		}
	}
	// always end with a clean restart: every enabled task must come back
	ops = append(ops, "restart", "list")
	pages()
	return ops
}

var taskPatterns = []string{"-", "*", "a*", "a", "ab", "?", "*b", "b*", "c", "d", "??", "z*", "*?", "c*", "?b", "a?"}
var tmplPatterns = []string{"-", "*", "T*", "T", "T2", "T?", "U", "*2", "V", "?", "U*", "?2"}

// genPages draws one group of page requests on the task or template listing. `ex` = the IDs the shadow believes to
// exist, sorted. Directed at the structural cases of filter | drop(offset) | take(limit): patterns that match none /
// some / all of the IDs, in particular patterns whose matches sort AFTER IDs they do not match (so that "the offset
// counts matches" differs from "the offset counts index entries") and prefix-related IDs (a / ab, T / T2); offsets 0,
// inside, at and past the end of the matches; limits that cut, fit exactly, exceed, or are left out (default 100);
// either single requests or the walk of a paging client (offset = 0, k, 2k, … until past the end).
func genPages(r *kit.Rand, kind string, ex []string) []string {
	pool := taskPatterns
	if kind == "tmpls" {
		pool = tmplPatterns
	}
	pat := kit.Pick(r, pool)
	if r.Chance(1, 4) {
		pat = kit.Pick(r, []string{"-", "-", "*", "?*"}) // no filter: plain paging
	} else if len(ex) >= 2 && r.Chance(2, 3) {
		// a pattern built from an ID that is not the first one: the IDs before it (mostly) do not match
		target := ex[r.Range(1, len(ex)-1)]
		switch r.Intn(5) {
		case 0, 1:
			pat = target
		case 2:
			pat = target[:1] + "*"
		case 3:
			pat = "*" + target[len(target)-1:]
		default:
			pat = strings.Repeat("?", len(target))
		}
	}
	// number of IDs the shadow expects to match (steers offsets and limits only)
	nm := 0
	for _, id := range ex {
		if ok, _ := path.Match(pat, id); ok || pat == "-" {
			nm++
		}
	}
	fields := "std"
	switch r.Intn(8) {
	case 0:
		fields = "all"
	case 1:
		fields = "id"
	}
	tok := func(off, lim string) string {
		p := "-"
		if pat != "-" {
			p = kit.Esc(pat)
		}
		return fmt.Sprintf("page %s pat=%s off=%s lim=%s f=%s", kind, p, off, lim, fields)
	}
	var out []string
	if r.Chance(1, 3) {
		// paging client: consecutive pages of k entries until one past the last possible entry (at most 5 requests)
		k := r.Range(1, 2)
		for off := 0; off <= nm+k && len(out) < 5; off += k {
			out = append(out, tok(fmt.Sprint(off), fmt.Sprint(k)))
		}
		return out
	}
	n := r.Range(1, 3)
	for i := 0; i < n; i++ {
		// offset: none / 0 / inside / at the end / past the end of the expected matches
		o := r.Intn(nm + 3) - 1
		if nm >= 2 && r.Chance(1, 2) {
			o = r.Range(1, nm-1) // inside
		}
		off := fmt.Sprint(o)
		if o < 0 {
			off = "-"
		}
		if o < 0 {
			o = 0
		}
		// limit: none (100) / 1 / what is left / one less / more
		lim := kit.Pick(r, []string{"-", "1", "2", "100", fmt.Sprint(maxInt(1, nm-o)), fmt.Sprint(maxInt(1, nm-o-1))})
		out = append(out, tok(off, lim))
	}
	return out
}

func maxInt(a, b int) int {
	if a > b {
		return a
	}
	return b
}

func contains(xs []string, x string) bool {
	for _, y := range xs {
		if x == y {
			return true
		}
	}
	return false
}
