// Package c14 is the harness for property C14 (task catalogue and running state): it drives the REAL
// services/task_store.Service on a REAL Bolt file with a REAL kapacitor.TaskMaster, through the HTTP routes the
// service registers (in-process, httptest recorders), and prints what the API answered.
package c14

import (
	"context"
	"errors"
	"fmt"
	"os"
	"path/filepath"
	"sync"
	"time"

	"github.com/influxdata/flux"
	"github.com/influxdata/kapacitor"
	"github.com/influxdata/kapacitor/edge"
	"github.com/influxdata/kapacitor/influxdb"
	"github.com/influxdata/kapacitor/services/httpd"
	"github.com/influxdata/kapacitor/services/storage"
	"github.com/influxdata/kapacitor/services/task_store"
	"github.com/influxdata/kapacitor/udf"
	"github.com/influxdata/kapacitor/udf/agent"
	"github.com/influxdata/kapacitor/uuid"
	bolt "go.etcd.io/bbolt"

	"verifharness/kit"
)

// ---------------------------------------------------------------------------------------------
// trivial fakes (kit's are unexported)

type serverInfo struct{ c, s uuid.UUID }

func (i serverInfo) ClusterID() uuid.UUID    { return i.c }
func (i serverInfo) ServerID() uuid.UUID     { return i.s }
func (i serverInfo) Hostname() string        { return "localhost" }
func (i serverInfo) Version() string         { return "verif" }
func (i serverInfo) Product() string         { return "kapacitor" }
func (i serverInfo) Platform() string        { return "verif" }
func (i serverInfo) NumTasks() int64         { return 0 }
func (i serverInfo) NumEnabledTasks() int64  { return 0 }
func (i serverInfo) NumSubscriptions() int64 { return 0 }
func (i serverInfo) Uptime() time.Duration   { return 0 }

type deadman struct{}

func (deadman) Interval() time.Duration { return 0 }
func (deadman) Threshold() float64      { return 0 }
func (deadman) Id() string              { return "" }
func (deadman) Message() string         { return "" }
func (deadman) Global() bool            { return false }

// ---------------------------------------------------------------------------------------------
// `@gate()`: a pass-through stream UDF whose creation fails for the task IDs in `fail` — the harness-controlled
// oracle "the start of task <id> fails during this request" (the error surfaces from TaskMaster.StartTask).

type gateSvc struct {
	mu       sync.Mutex
	fail     map[string]bool
	restored map[string]string // task id -> payload of the snapshot its gate was restored with at its last start
	cur      map[string]*gateUDF // task id -> the gate of its last start
}

var gateInfo = udf.Info{Wants: agent.EdgeType_STREAM, Provides: agent.EdgeType_STREAM, Options: map[string]*agent.OptionInfo{}}

// `@bgate()`: the same gate for batch tasks (batch in, batch out), so that TaskMaster.StartTask of a batch task can
// be refused by the oracle as well.
var bgateInfo = udf.Info{Wants: agent.EdgeType_BATCH, Provides: agent.EdgeType_BATCH, Options: map[string]*agent.OptionInfo{}}

func (g *gateSvc) List() []string { return []string{"bgate", "gate"} }
func (g *gateSvc) Info(name string) (udf.Info, bool) {
	switch name {
	case "gate":
		return gateInfo, true
	case "bgate":
		return bgateInfo, true
	}
	return udf.Info{}, false
}
func (g *gateSvc) Create(name, taskID, nodeID string, d udf.Diagnostic, abort func()) (udf.Interface, error) {
	g.mu.Lock()
	f := g.fail[taskID]
	g.mu.Unlock()
	if f {
		return nil, errors.New("gate: start refused by the oracle")
	}
	g.mu.Lock()
	delete(g.restored, taskID) // a new start: not restored (yet)
	g.mu.Unlock()
	info := gateInfo
	if name == "bgate" {
		info = bgateInfo
	}
	u := &gateUDF{svc: g, info: info, task: taskID, abortCB: abort, in: make(chan edge.Message), out: make(chan edge.Message), done: make(chan struct{}), abrt: make(chan struct{}), ready: make(chan struct{})}
	g.mu.Lock()
	if g.cur == nil {
		g.cur = map[string]*gateUDF{}
	}
	g.cur[taskID] = u
	g.mu.Unlock()
	return u, nil
}

// restoredOf: the snapshot payload the gate of task <id> was last restored with ("" = never).
// UDFNode.runUDF calls Open, Init, Restore (when there is a snapshot) and then Out, in its own goroutine: the answer
// is final once Out was called — wait for that (bounded).
func (g *gateSvc) restoredOf(id string) string {
	g.mu.Lock()
	u := g.cur[id]
	g.mu.Unlock()
	if u != nil {
		select {
		case <-u.ready:
		case <-time.After(2 * time.Second):
		}
	}
	g.mu.Lock()
	defer g.mu.Unlock()
	return g.restored[id]
}
func (g *gateSvc) setFail(ids []string) {
	g.mu.Lock()
	g.fail = map[string]bool{}
	for _, id := range ids {
		g.fail[id] = true
	}
	g.mu.Unlock()
}

// gateUDF passes every message through (kit's sinkUDF allocates its abort channel in Open, which races with a
// stop that follows the start immediately; this one allocates everything at creation).
//
// A POISON point — a point carrying the tag victim=<task id> — kills the gate of that task the way a UDF process
// dies: it stops reading and writing, tells the node through the abort callback, closes Out, and Close returns
// an error. The node fails, the task ends with an error: this is the run-time death the goroutine of
// task_store.startTask waits for.
type gateUDF struct {
	svc     *gateSvc
	info    udf.Info
	task    string
	abortCB func()
	in, out chan edge.Message
	done    chan struct{}
	abrt    chan struct{}
	once    sync.Once
	opened  sync.Once
	mu      sync.Mutex
	crashed bool
	ready   chan struct{}
	rdOnce  sync.Once
}

const victimTag = "victim"

func (u *gateUDF) Open() error {
	u.opened.Do(func() {
		go func() {
			defer close(u.done)
			defer close(u.out)
			for m := range u.in {
				if pm, ok := m.(edge.PointMessage); ok && pm.Tags()[victimTag] == u.task {
					u.mu.Lock()
					u.crashed = true
					u.mu.Unlock()
					u.once.Do(func() { close(u.abrt) })
					if u.abortCB != nil {
						u.abortCB()
					}
					return
				}
				select {
				case u.out <- m:
				case <-u.abrt:
					return
				}
			}
		}()
	})
	return nil
}
func (u *gateUDF) Info() (udf.Info, error)            { return u.info, nil }
func (u *gateUDF) Init(options []*agent.Option) error { return nil }
func (u *gateUDF) Abort(err error)                    { u.once.Do(func() { close(u.abrt) }) }
func (u *gateUDF) Close() error {
	u.Open() // a node stopped before it ran never opened the UDF: make sure the pump exists and ends
	close(u.in)
	<-u.done
	u.mu.Lock()
	defer u.mu.Unlock()
	if u.crashed {
		return errors.New("gate: udf process died")
	}
	return nil
}
func (u *gateUDF) Snapshot() ([]byte, error) { return nil, nil }

// Restore is called by UDFNode.restore when TaskMaster.StartTask found a stored snapshot of the task that has an
// entry for this node: the payload is remembered so that the listing can show that the snapshot reached the task.
func (u *gateUDF) Restore(snapshot []byte) error {
	u.svc.mu.Lock()
	if u.svc.restored == nil {
		u.svc.restored = map[string]string{}
	}
	u.svc.restored[u.task] = string(snapshot)
	u.svc.mu.Unlock()
	return nil
}
func (u *gateUDF) In() chan<- edge.Message       { return u.in }
func (u *gateUDF) Out() <-chan edge.Message {
	u.rdOnce.Do(func() { close(u.ready) })
	return u.out
}

// ---------------------------------------------------------------------------------------------
// InfluxDB: batch tasks need tm.InfluxDBService. NewNamedClient is called by QueryNode.doQuery — the goroutine
// QueryNode.Start launches AFTER StartBatching has returned — so a failing NewNamedClient is a run-time death of the
// task, not a StartBatching failure; here it always succeeds and the client answers every query with an empty result
// (the pool's batch scripts query every hour: no query is ever issued during a case).

type nullClient struct{}

func (nullClient) Ping(ctx context.Context) (time.Duration, string, error) { return 0, "", nil }
func (nullClient) Write(bp influxdb.BatchPoints) error                      { return nil }
func (nullClient) WriteV2(w influxdb.FluxWrite) error                       { return nil }
func (nullClient) Query(q influxdb.Query) (*influxdb.Response, error) {
	return &influxdb.Response{}, nil
}
func (nullClient) QueryFlux(q influxdb.FluxQuery) (flux.ResultIterator, error) {
	return nil, errors.New("no flux")
}
func (nullClient) QueryFluxResponse(q influxdb.FluxQuery) (*influxdb.Response, error) {
	return nil, errors.New("no flux")
}
func (nullClient) CreateBucketV2(bucket string, org string, orgID string) error { return nil }

type nullInflux struct{}

func (nullInflux) NewNamedClient(name string) (influxdb.Client, error) { return nullClient{}, nil }

// ---------------------------------------------------------------------------------------------
// Storage service over one Bolt file, counting committed Update transactions of the task_store namespace and
// able to copy the file right after the k-th commit of the current request (crash point at a tx boundary).

type txStorage struct {
	db   *bolt.DB
	reg  *storage.StoreActionerRegistrar
	w    *world
	ntx  int    // committed + attempted Update transactions since the last reset
	flt  int    // the flt-th Update transaction of the request fails without committing anything (0: none)
	snap int    // copy the file after this many commits (<0: never)
	to   string // snapshot target
	done bool
	mu   sync.Mutex // the goroutine startTask leaves behind (run-time death) also runs a transaction
}

func (s *txStorage) count() int {
	s.mu.Lock()
	defer s.mu.Unlock()
	return s.ntx
}

func (s *txStorage) Store(namespace string) storage.Interface {
	return &txStore{Interface: storage.NewBolt(s.db, []byte(namespace)), s: s}
}
func (s *txStorage) Register(name string, store storage.StoreActioner) { s.reg.Register(name, store) }

func (s *txStorage) reset(snapAfter int, to string) {
	s.mu.Lock()
	defer s.mu.Unlock()
	s.ntx, s.snap, s.to, s.done, s.flt = 0, snapAfter, to, false, 0
	s.maybeSnap()
}

var errInjected = errors.New("injected storage fault")
func (s *txStorage) maybeSnap() {
	if s.snap >= 0 && !s.done && s.ntx == s.snap {
		s.done = true
		if err := s.db.View(func(tx *bolt.Tx) error { return tx.CopyFile(s.to, 0600) }); err != nil {
			panic(err)
		}
	}
}

type txStore struct {
	storage.Interface
	s *txStorage
}

func (t *txStore) Update(f func(storage.Tx) error) error {
	t.s.mu.Lock()
	defer t.s.mu.Unlock()
	if t.s.flt > 0 && t.s.ntx+1 == t.s.flt {
		t.s.ntx++
		t.s.maybeSnap()
		return errInjected
	}
	err := t.Interface.Update(f)
	t.s.ntx++
	t.s.maybeSnap()
	return err
}
func (t *txStore) Store(buckets ...[]byte) storage.Interface {
	return &txStore{Interface: t.Interface.Store(buckets...), s: t.s}
}

// ---------------------------------------------------------------------------------------------
// The world: Bolt file + TaskMaster + task_store service + HTTP handler

type world struct {
	dir   string
	gen   int
	st    *txStorage
	hs    *httpd.Service
	tm    *kapacitor.TaskMaster
	ts    *task_store.Service
	gate  *gateSvc
	alive bool
}

var (
	hsOnce sync.Once
	hsSvc  *httpd.Service
)

// one httpd service per process, never opened (no listener): requests go straight to Handler.ServeHTTP
func httpdSvc() *httpd.Service {
	hsOnce.Do(func() {
		cfg := httpd.NewConfig()
		cfg.BindAddress = "127.0.0.1:0"
		cfg.LogEnabled = false
		hsSvc = httpd.NewService(cfg, "localhost", nil, kit.Diag().NewHTTPDHandler())
	})
	return hsSvc
}

func newWorld() (*world, error) {
	base := os.Getenv("VERIF_SCRATCH")
	if base == "" {
		base = os.TempDir()
	}
	dir, err := os.MkdirTemp(base, "c14-")
	if err != nil {
		return nil, err
	}
	w := &world{dir: dir, hs: httpdSvc()}
	w.gate = &gateSvc{fail: map[string]bool{}}
	if err := w.openDB(filepath.Join(dir, "kap-0.db")); err != nil {
		return nil, err
	}
	if err := w.boot(); err != nil {
		return nil, err
	}
	return w, nil
}

func (w *world) openDB(path string) error {
	db, err := bolt.Open(path, 0600, &bolt.Options{Timeout: time.Second, NoSync: true})
	if err != nil {
		return err
	}
	w.st = &txStorage{db: db, reg: storage.NewStorageRegistrar(), w: w, snap: -1}
	return nil
}

// boot = what server.New does for these two services: a fresh TaskMaster "main" and a fresh task_store.Service
// opened on the storage (Open starts every enabled task).
func (w *world) boot() error {
	ds := kit.Diag()
	tm := kapacitor.NewTaskMaster(kapacitor.MainTaskMaster, serverInfo{uuid.New(), uuid.New()}, ds.NewKapacitorHandler())
	tm.HTTPDService = w.hs
	tm.DeadmanService = deadman{}
	tm.UDFService = w.gate
	tm.InfluxDBService = nullInflux{}
	lookup := kapacitor.NewTaskMasterLookup()
	lookup.Set(tm)
	if err := tm.Open(); err != nil {
		return err
	}
	ts := task_store.NewService(task_store.Config{}, ds.NewTaskStoreHandler())
	ts.StorageService = w.st
	ts.HTTPDService = w.hs
	ts.TaskMasterLookup = lookup
	tm.TaskStore = ts
	w.tm, w.ts = tm, ts
	if err := ts.Open(); err != nil {
		return err
	}
	w.alive = true
	return nil
}

func (w *world) shutdown() {
	if !w.alive {
		return
	}
	w.alive = false
	w.ts.Close()
	w.tm.Close()
}

// restart: clean stop of both services, then boot again on the same file.
func (w *world) restart() error {
	w.shutdown()
	return w.boot()
}

// restartFrom: the process "dies" (memory state dropped) and comes back on the given copy of the file.
func (w *world) restartFrom(path string) error {
	w.shutdown()
	w.st.db.Close()
	if err := w.openDB(path); err != nil {
		return err
	}
	return w.boot()
}

func (w *world) nextSnapPath() string {
	w.gen++
	return filepath.Join(w.dir, fmt.Sprintf("kap-%d.db", w.gen))
}

func (w *world) close() {
	w.shutdown()
	if w.st != nil && w.st.db != nil {
		w.st.db.Close()
	}
	os.RemoveAll(w.dir)
}
