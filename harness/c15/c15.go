// Package c15 is the harness for property C15: it drives the REAL storage.IndexedStore (services/storage)
// over a real Bolt file — directly over storage.Bolt and over a fault-injecting storage.TxOperator wrapper
// whose Update is the real storage.DoUpdate — with generated and exhaustive operation histories, and
// prints per case the op lines together with what the implementation answered.
//
// Line protocol (strings %XX-escaped with kit.Esc; an object is `id;grp;tag;data`):
//
//	cfg <prefix> <name;u|n;id|grp|tag>,...            index configuration of the case (first line)
//	create|put|replace <id> <grp> <tag> <data> <fault>  => ok | err:exists | err:missing | err:conflict | err:io | err:other | panic
//	delete <id> <fault>                                  => (same)
//	rebuild <fault>                                      => (same)
//	get <id>                                             => ok <obj> | err:missing | err:other
//	list <index> <pattern> <offset> <limit> <rev>        => ok <obj,obj,…|-> | err:other
//	dump                                                 => <key=o;obj | key=r;raw>,… | -   (raw bucket content)
//	reopen                                               close the Bolt file, open it again, new IndexedStore
//	mkbucket <key>                                       FOREIGN write: create a nested bucket (with one key inside) under
//	                                                     <key> in the case's bucket => ok | err:other; dump shows it as key=b
//
// <fault>: `-` none, `w<n>` the n-th (0-based) Put/Delete of the transaction returns an error, `c` Commit fails.
package c15

import (
	"encoding/json"
	"errors"
	"fmt"
	"os"
	"path/filepath"
	"strconv"
	"strings"

	"github.com/influxdata/kapacitor/services/storage"
	bolt "go.etcd.io/bbolt"

	"verifharness/kit"
)

// ---- the stored object: encoded with the real versioned JSON codec of services/storage/version.go ----

type obj struct {
	ID   string `json:"id"`
	Grp  string `json:"grp"`
	Tag  string `json:"tag"`
	Data string `json:"data"`
}

func (o *obj) ObjectID() string { return o.ID }
func (o *obj) MarshalBinary() ([]byte, error) {
	return storage.VersionJSONEncode(1, o)
}
func (o *obj) UnmarshalBinary(data []byte) error {
	return storage.VersionJSONDecode(data, func(version int, dec *json.Decoder) error {
		if version != 1 {
			return errors.New("bad version")
		}
		return dec.Decode(o)
	})
}

func renderObj(o *obj) string {
	return kit.Esc(o.ID) + ";" + kit.Esc(o.Grp) + ";" + kit.Esc(o.Tag) + ";" + kit.Esc(o.Data)
}

// ---- fault injection: a storage.TxOperator over the real Bolt store; Update/View are the REAL DoUpdate/DoView ----

var errInjected = errors.New("injected fault")

type faultStore struct {
	inner  *storage.Bolt
	failAt int // -1 none, -2 commit, n>=0: n-th write of the transaction
	writes int
}

func (f *faultStore) BeginReadOnlyTx() (storage.ReadOnlyTx, error) { return f.inner.BeginReadOnlyTx() }
func (f *faultStore) BeginTx() (storage.Tx, error) {
	tx, err := f.inner.BeginTx()
	if err != nil {
		return nil, err
	}
	f.writes = 0
	return &faultTx{Tx: tx, f: f}, nil
}
func (f *faultStore) View(fn func(storage.ReadOnlyTx) error) error { return storage.DoView(f, fn) }
func (f *faultStore) Update(fn func(storage.Tx) error) error       { return storage.DoUpdate(f, fn) }
func (f *faultStore) Store(buckets ...[]byte) storage.Interface    { panic("not used") }

type faultTx struct {
	storage.Tx
	f *faultStore
}

func (t *faultTx) write() error {
	n := t.f.writes
	t.f.writes++
	if n == t.f.failAt {
		return errInjected
	}
	return nil
}
func (t *faultTx) Put(key string, value []byte) error {
	if err := t.write(); err != nil {
		return err
	}
	return t.Tx.Put(key, value)
}
func (t *faultTx) Delete(key string) error {
	if err := t.write(); err != nil {
		return err
	}
	return t.Tx.Delete(key)
}
func (t *faultTx) Commit() error {
	if t.f.failAt == -2 {
		return errInjected
	}
	return t.Tx.Commit()
}

// ---- one Bolt file per harness process, one bucket per case ----

type env struct {
	path   string
	db     *bolt.DB
	bucket int
}

func (e *env) open() error {
	db, err := bolt.Open(e.path, 0600, &bolt.Options{NoSync: true, NoFreelistSync: true})
	if err != nil {
		return err
	}
	e.db = db
	return nil
}

func newEnv() (*env, error) {
	dir := os.Getenv("VERIF_SCRATCH")
	if dir == "" {
		dir = os.TempDir()
	}
	d, err := os.MkdirTemp(dir, "c15-bolt-")
	if err != nil {
		return nil, err
	}
	e := &env{path: filepath.Join(d, "store.db")}
	return e, e.open()
}

func (e *env) close() {
	if e.db != nil {
		e.db.Close()
	}
	os.RemoveAll(filepath.Dir(e.path))
}

type idxSpec struct {
	name   string
	unique bool
	sel    string
}

type session struct {
	e       *env
	bucket  []byte
	prefix  string
	idx     []idxSpec
	faulty  bool
	fs      *faultStore
	raw     *storage.Bolt
	store   *storage.IndexedStore
	started bool
}

func (s *session) build() error {
	s.raw = storage.NewBolt(s.e.db, s.bucket)
	var under storage.Interface = s.raw
	if s.faulty {
		s.fs = &faultStore{inner: s.raw, failAt: -1}
		under = s.fs
	}
	c := storage.DefaultIndexedStoreConfig(s.prefix, func() storage.BinaryObject { return new(obj) })
	c.Indexes = nil
	for _, ix := range s.idx {
		ix := ix
		c.Indexes = append(c.Indexes, storage.Index{
			Name:   ix.name,
			Unique: ix.unique,
			ValueFunc: func(o storage.BinaryObject) (string, error) {
				x := o.(*obj)
				switch ix.sel {
				case "grp":
					return x.Grp, nil
				case "tag":
					return x.Tag, nil
				}
				return x.ID, nil
			},
		})
	}
	st, err := storage.NewIndexedStore(under, c)
	if err != nil {
		return err
	}
	s.store = st
	return nil
}

func errTok(err error) string {
	switch {
	case err == nil:
		return "ok"
	case err == storage.ErrObjectExists:
		return "err:exists"
	case err == storage.ErrNoObjectExists:
		return "err:missing"
	case err == storage.ErrUniqueIndexConflict:
		return "err:conflict"
	case errors.Is(err, errInjected):
		return "err:io"
	}
	return "err:other"
}

func list(xs []string) string {
	if len(xs) == 0 {
		return "-"
	}
	return strings.Join(xs, ",")
}

func un(s string) string { v, _ := kit.Unesc(s); return v }

// execCase runs the op lines of one case in a fresh bucket and returns the lines with observations.
func execCase(e *env, ops []string) (out []string) {
	e.bucket++
	s := &session{e: e, bucket: []byte(fmt.Sprintf("case%d", e.bucket))}
	for _, l := range ops {
		t := strings.Fields(stripObs(l))
		if len(t) > 1 && isMutation(t[0]) && t[len(t)-1] != "-" {
			s.faulty = true
		}
	}
	guard := func(line string, f func() string) {
		defer func() {
			if r := recover(); r != nil {
				out = append(out, line+" => panic")
			}
		}()
		obs := f()
		if obs == "" {
			out = append(out, line)
		} else {
			out = append(out, line+" => "+obs)
		}
	}
	setFault := func(tok string) {
		if s.fs == nil {
			return
		}
		switch {
		case tok == "-":
			s.fs.failAt = -1
		case tok == "c":
			s.fs.failAt = -2
		case strings.HasPrefix(tok, "w"):
			n, _ := strconv.Atoi(tok[1:])
			s.fs.failAt = n
		}
	}
	clearFault := func() {
		if s.fs != nil {
			s.fs.failAt = -1
		}
	}
	for _, raw := range ops {
		line := stripObs(raw)
		t := strings.Fields(line)
		if len(t) == 0 {
			continue
		}
		if t[0] != "cfg" && !s.started {
			// default configuration
			s.prefix = "p"
			s.idx = []idxSpec{{"id", true, "id"}, {"grp", false, "grp"}}
			if err := s.build(); err != nil {
				out = append(out, line+" => panic")
				return out
			}
			s.started = true
		}
		switch t[0] {
		case "cfg":
			s.prefix = un(t[1])
			s.idx = nil
			for _, sp := range strings.Split(t[2], ",") {
				p := strings.Split(sp, ";")
				if len(p) != 3 {
					continue
				}
				s.idx = append(s.idx, idxSpec{un(p[0]), p[1] == "u", p[2]})
			}
			if err := s.build(); err != nil {
				out = append(out, line+" => err:other")
				return out
			}
			s.started = true
			out = append(out, line)
		case "create", "put", "replace":
			if len(t) != 6 {
				continue
			}
			o := &obj{ID: un(t[1]), Grp: un(t[2]), Tag: un(t[3]), Data: un(t[4])}
			guard(line, func() string {
				setFault(t[5])
				defer clearFault()
				switch t[0] {
				case "create":
					return errTok(s.store.Create(o))
				case "put":
					return errTok(s.store.Put(o))
				}
				return errTok(s.store.Replace(o))
			})
		case "delete":
			guard(line, func() string {
				setFault(t[2])
				defer clearFault()
				return errTok(s.store.Delete(un(t[1])))
			})
		case "rebuild":
			guard(line, func() string {
				setFault(t[1])
				defer clearFault()
				return errTok(s.store.Rebuild())
			})
		case "get":
			guard(line, func() string {
				o, err := s.store.Get(un(t[1]))
				if err != nil {
					return errTok(err)
				}
				return "ok " + renderObj(o.(*obj))
			})
		case "list":
			guard(line, func() string {
				off, _ := strconv.Atoi(t[3])
				lim, _ := strconv.Atoi(t[4])
				var objs []storage.BinaryObject
				var err error
				if t[5] == "1" {
					objs, err = s.store.ReverseList(un(t[1]), un(t[2]), off, lim)
				} else {
					objs, err = s.store.List(un(t[1]), un(t[2]), off, lim)
				}
				if err != nil {
					return errTok(err)
				}
				var r []string
				for _, o := range objs {
					r = append(r, renderObj(o.(*obj)))
				}
				return "ok " + list(r)
			})
		case "dump":
			guard(line, func() string {
				var r []string
				nested := map[string]bool{}
				e.db.View(func(tx *bolt.Tx) error {
					b := tx.Bucket(s.bucket)
					if b == nil {
						return nil
					}
					return b.ForEach(func(k, v []byte) error {
						if v == nil {
							nested[string(k)] = true
						}
						return nil
					})
				})
				err := s.raw.View(func(tx storage.ReadOnlyTx) error {
					kvs, err := tx.List("")
					if err != nil {
						return err
					}
					for _, kv := range kvs {
						o := new(obj)
						if nested[kv.Key] {
							r = append(r, kit.Esc(kv.Key)+"=b")
						} else if o.UnmarshalBinary(kv.Value) == nil {
							r = append(r, kit.Esc(kv.Key)+"=o;"+renderObj(o))
						} else {
							r = append(r, kit.Esc(kv.Key)+"=r;"+kit.Esc(string(kv.Value)))
						}
					}
					return nil
				})
				if err != nil {
					return "err:other"
				}
				return list(r)
			})
		case "mkbucket":
			guard(line, func() string {
				err := e.db.Update(func(tx *bolt.Tx) error {
					b, err := tx.CreateBucketIfNotExists(s.bucket)
					if err != nil {
						return err
					}
					nb, err := b.CreateBucket([]byte(un(t[1])))
					if err != nil {
						return err
					}
					return nb.Put([]byte("inner"), []byte("x"))
				})
				if err != nil {
					return "err:other"
				}
				return "ok"
			})
		case "reopen":
			guard(line, func() string {
				if err := e.db.Close(); err != nil {
					return "err:other"
				}
				if err := e.open(); err != nil {
					panic(err)
				}
				if err := s.build(); err != nil {
					return "err:other"
				}
				return ""
			})
		}
	}
	return out
}

func isMutation(op string) bool {
	return op == "create" || op == "put" || op == "replace" || op == "delete" || op == "rebuild"
}

func stripObs(line string) string {
	if i := strings.Index(line, " => "); i >= 0 {
		return line[:i]
	}
	return line
}

func emit(out *kit.Out, id string, lines []string) {
	out.Line("case", id)
	for _, l := range lines {
		out.Line(l)
	}
	out.Line("end")
}

// Run: `vh-c15 -seed S -n N [-tier thorough]` generates; `vh-c15 -ops file` re-executes the cases of a file.
func Run(args []string) int {
	f := kit.ParseFlags(args)
	out := kit.NewOut()
	defer out.Flush()
	e, err := newEnv()
	if err != nil {
		fmt.Fprintln(os.Stderr, err)
		return 2
	}
	defer e.close()
	if f.Ops != "" {
		lines, err := kit.ReadLines(f.Ops)
		if err != nil {
			fmt.Fprintln(os.Stderr, err)
			return 2
		}
		var cur []string
		id := ""
		for _, l := range lines {
			t := strings.Fields(l)
			switch {
			case len(t) == 2 && t[0] == "case":
				id, cur = t[1], nil
			case len(t) == 1 && t[0] == "end":
				emit(out, id, execCase(e, cur))
			default:
				cur = append(cur, l)
			}
		}
		return 0
	}
	r := kit.NewRand(f.Seed)
	for i := 0; i < f.N; i++ {
		emit(out, fmt.Sprintf("g%d", i), execCase(e, genCase(r.Fork(), i)))
	}
	n := 0
	if f.Tier == "thorough" {
		exhaustive(out, e, 3, &n)
		exhaustiveUnique(out, e, 3, &n)
		faultSweep(out, e, r.Fork(), 400, &n)
	} else {
		exhaustive(out, e, 2, &n)
		exhaustiveUnique(out, e, 2, &n)
		faultSweep(out, e, r.Fork(), 60, &n)
	}
	return 0
}
