// Package c15 is the harness for property C15 (runs the real kapacitor code, prints op lines).
package c15

import (
	"fmt"
	"os"
)

// Run is replaced by the property's harness.
func Run(args []string) int {
	fmt.Fprintln(os.Stderr, "c15: harness not implemented yet")
	return 3
}
