package c15

import (
	"fmt"
	"strings"

	"verifharness/kit"
)

// ---- generators (branch-directed; see checks/C15.json "rule") ----

var (
	wfIDs      = []string{"a", "ab", "abc", "b", "a.b", "a-b", "é", "A", "a b", "ba", "a*"}
	multiIDs   = []string{"t/a", "t/ab", "t/0", "t", "u/v/w", "t.x/a", "tasks/cpu"} // clean multi-segment ids (load service style)
	badIDs     = []string{".", "..", "a/b", "a/../b", "", "x/.", "../../data/a", "a//b", "a/", "../id/a", "b/.."}
	safeGrps   = []string{"g", "g1", "g2", "h", "zz"}
	lowSepGrps = []string{"g", "g.1", "g-x", "g1", "g h"}
	// RFC 3339 dates as the replay service's date indexes hold them: bytes below '/' ('-') but equal length, so
	// outside the deviation index-order-separator: must list in (value, id) order
	dateGrps = []string{"2017-01-02T00:00:00Z", "2017-01-01T10:00:00Z", "2017-01-02T00:00:01Z", "2016-12-31T23:59:59Z", "2017-01-01T10:00:00Z"}
	badGrps  = []string{"", ".", "..", "g/x", "../id/a", "g/", "g/../h"}
	patterns = []string{"", "", "*", "a*", "?", "a?", "ab", "*b*", "a*c", "??", "b", "*.*", "zz*"}
	// patterns for pools with multi-segment ids: '*' and '?' never match a '/', a literal '/' does
	slashPatterns = []string{"t/*", "*/*", "*/a", "t/?", "t/a*", "*/*/*", "u/*/w", "t*", "t?a", "*/", "tasks/*", "*", "?/?"}
	limits        = []int{-1, -1, 0, 1, 2, 3, 100}
)

type caseGen struct {
	r         *kit.Rand
	ops       []string
	ids       []string
	grps      []string
	idx       []idxSpec
	tagOf     func(id string) string
	faultPr   int // chance (out of 12) that a mutation carries a fault
	rebuildPr int // extra chance (out of 100) of a rebuild
	n         int
	slashIDs  bool // the pool has multi-segment ids: half of the pages use patterns with '/'
}

func (g *caseGen) add(format string, a ...interface{}) {
	g.ops = append(g.ops, fmt.Sprintf(format, a...))
}

func (g *caseGen) cfgLine(prefix string) {
	var sp []string
	for _, ix := range g.idx {
		u := "n"
		if ix.unique {
			u = "u"
		}
		sp = append(sp, kit.Esc(ix.name)+";"+u+";"+ix.sel)
	}
	g.add("cfg %s %s", kit.Esc(prefix), strings.Join(sp, ","))
}

// observe: the raw bucket, every id of the pool, every index in full (bounded and unbounded), and a few pages.
func (g *caseGen) observe(pages int) {
	g.add("dump")
	for _, id := range g.ids {
		g.add("get %s", kit.Esc(id))
	}
	for _, ix := range g.idx {
		g.add("list %s %% 0 1000 0", kit.Esc(ix.name))
		if g.r.Chance(1, 2) {
			g.add("list %s %% 0 -1 %d", kit.Esc(ix.name), g.r.Intn(2))
		}
	}
	for i := 0; i < pages; i++ {
		ix := kit.Pick(g.r, g.idx)
		pat := kit.Pick(g.r, patterns)
		if g.slashIDs && g.r.Chance(1, 2) {
			pat = kit.Pick(g.r, slashPatterns)
		} else if g.r.Chance(1, 4) {
			pat = kit.Pick(g.r, g.ids) // an exact id as pattern (may contain glob meta characters only via "a*")
			if strings.ContainsAny(pat, "[\\") {
				pat = "*"
			}
		}
		g.add("list %s %s %d %d %d", kit.Esc(ix.name), kit.Esc(pat), g.r.Intn(4), kit.Pick(g.r, limits), g.r.Intn(2))
	}
}

// foreignBucket: somebody else creates a nested bucket where the store keeps (or will keep) a key: on an index
// entry, inside an index directory, on a data key, or elsewhere.
func (g *caseGen) foreignBucket(prefix string) {
	ix := kit.Pick(g.r, g.idx)
	id := kit.Pick(g.r, g.ids)
	var key string
	switch g.r.Intn(5) {
	case 0:
		key = "/" + prefix + "/indexes/" + ix.name + "/" + id
	case 1:
		key = "/" + prefix + "/indexes/" + ix.name + "/" + kit.Pick(g.r, g.grps) + "/" + id
	case 2:
		key = "/" + prefix + "/indexes/" + ix.name + "/zz~nested"
	case 3:
		key = "/" + prefix + "/data/" + id
	default:
		key = "/" + prefix + "/other"
	}
	g.add("mkbucket %s", kit.Esc(key))
	g.add("dump")
}

func (g *caseGen) fault() string {
	if g.r.Intn(12) >= g.faultPr {
		return "-"
	}
	if g.r.Chance(1, 6) {
		return "c"
	}
	return fmt.Sprintf("w%d", g.r.Intn(5))
}

func (g *caseGen) mutation() {
	id := kit.Pick(g.r, g.ids)
	grp := kit.Pick(g.r, g.grps)
	g.n++
	data := fmt.Sprintf("d%d", g.n)
	if g.r.Intn(100) < g.rebuildPr {
		g.add("rebuild %s", g.fault())
		return
	}
	switch k := g.r.Intn(100); {
	case k < 28:
		g.add("create %s %s %s %s %s", kit.Esc(id), kit.Esc(grp), kit.Esc(g.tagOf(id)), data, g.fault())
	case k < 52:
		g.add("put %s %s %s %s %s", kit.Esc(id), kit.Esc(grp), kit.Esc(g.tagOf(id)), data, g.fault())
	case k < 74:
		g.add("replace %s %s %s %s %s", kit.Esc(id), kit.Esc(grp), kit.Esc(g.tagOf(id)), data, g.fault())
	case k < 94:
		g.add("delete %s %s", kit.Esc(id), g.fault())
	default:
		g.add("rebuild %s", g.fault())
	}
}

func pickN(r *kit.Rand, pool []string, n int) []string {
	p := append([]string(nil), pool...)
	for i := range p {
		j := i + r.Intn(len(p)-i)
		p[i], p[j] = p[j], p[i]
	}
	if n > len(p) {
		n = len(p)
	}
	return p[:n]
}

// genCase: class = i%10: 0-5 well-formed histories (where any deviation of the code is a SPECFAIL),
// 6 low separator bytes in the secondary value, 7 ids that are not clean path segments, 8 colliding values of a
// unique secondary index, 9 secondary values that are not clean path segments.
func genCase(r *kit.Rand, i int) []string {
	g := &caseGen{r: r, faultPr: 2}
	class := i % 10
	if i%20 == 11 {
		class = 10 // foreign nested buckets in the same Bolt bucket (bolt.go delete/list/put on a bucket key)
	}
	g.ids = pickN(r, wfIDs, r.Range(3, 5))
	if r.Chance(1, 2) {
		// make sure ids that are prefixes of each other are present
		g.ids = append([]string{"a", "ab"}, pickN(r, wfIDs[2:], r.Range(1, 3))...)
	}
	if r.Chance(1, 3) {
		g.ids = append(pickN(r, multiIDs, r.Range(2, 4)), "a")
		g.slashIDs = true
	}
	g.grps = pickN(r, safeGrps, r.Range(2, 3))
	g.tagOf = func(id string) string { return "T" + strings.ReplaceAll(id, "/", "_") }
	g.idx = []idxSpec{{"id", true, "id"}, {"grp", false, "grp"}}
	switch r.Intn(4) {
	case 0:
		g.idx = append(g.idx, idxSpec{"tag", true, "tag"})
	case 1:
		g.idx = []idxSpec{{"grp", false, "grp"}, {"tag", true, "tag"}, {"id", true, "id"}}
	case 2:
		g.idx = []idxSpec{{"id", true, "id"}, {"idn", false, "id"}, {"grp", false, "grp"}}
	}
	prefix := kit.Pick(r, []string{"p", "tasks", "p.q"})
	switch class {
	case 6:
		g.grps = pickN(r, lowSepGrps, r.Range(2, 4))
		if r.Chance(1, 3) {
			g.grps = pickN(r, dateGrps, r.Range(2, 4))
		}
	case 7:
		g.ids = append(pickN(r, badIDs, r.Range(1, 3)), pickN(r, wfIDs, 2)...)
	case 8:
		// a unique SECONDARY index whose values collide: the store must reject the second holder (err:conflict)
		g.idx = []idxSpec{{"id", true, "id"}, {"tag", true, "tag"}, {"grp", false, "grp"}}
		if r.Chance(1, 3) {
			g.idx = []idxSpec{{"tag", true, "tag"}, {"grp", false, "grp"}, {"id", true, "id"}, {"grpu", true, "grp"}}
		}
		tags := []string{"t1", "t2", "t3"}
		if r.Chance(1, 2) {
			tags = []string{"t", "t1", "t.1", "s"} // values that are prefixes of each other
		}
		g.tagOf = func(id string) string { return kit.Pick(r, tags) }
	case 9:
		g.grps = append(pickN(r, badGrps, r.Range(1, 2)), pickN(r, safeGrps, 1)...)
	}
	if i%7 == 3 {
		g.faultPr = 6
	}
	if class == 10 {
		g.rebuildPr = 15
	}
	g.cfgLine(prefix)
	size := r.Range(3, 12)
	if i%10 == 0 {
		size = r.Range(12, 30)
	}
	for k := 0; k < size; k++ {
		if class == 10 && r.Chance(1, 3) {
			g.foreignBucket(prefix)
		}
		g.mutation()
		g.add("reopen") // the Bolt file is closed and reopened after EVERY operation
		g.observe(r.Range(1, 3))
	}
	g.add("rebuild -")
	g.observe(1)
	return g.ops
}

// exhaustive: ALL histories of the given length over create/put/replace x {a, ab} x {g, h} and delete x {a, ab},
// default configuration, reopen after every operation, full observation after every operation.
func exhaustive(out *kit.Out, e *env, length int, caseNo *int) {
	ids := []string{"a", "ab"}
	grps := []string{"g", "h"}
	var choices []string
	for _, op := range []string{"create", "put", "replace"} {
		for _, id := range ids {
			for _, gr := range grps {
				choices = append(choices, fmt.Sprintf("%s %s %s T%s D -", op, id, gr, id))
			}
		}
	}
	for _, id := range ids {
		choices = append(choices, fmt.Sprintf("delete %s -", id))
	}
	total := 1
	for i := 0; i < length; i++ {
		total *= len(choices)
	}
	for code := 0; code < total; code++ {
		var ops []string
		c := code
		for i := 0; i < length; i++ {
			ch := c % len(choices)
			c /= len(choices)
			ops = append(ops, strings.Replace(choices[ch], " D ", fmt.Sprintf(" d%d ", i), 1))
			ops = append(ops, "reopen", "dump", "get a", "get ab", "list id % 0 1000 0", "list grp % 0 1000 0")
			ops = append(ops, fmt.Sprintf("list grp a* %d %d %d", code%2, 1+code%3, (code/2)%2))
		}
		emit(out, fmt.Sprintf("x%d", *caseNo), execCase(e, ops))
		*caseNo++
	}
}

// exhaustiveUnique: ALL histories of the given length over create/put/replace x {a, b} x tag {s, t} and delete x
// {a, b} on a configuration with a unique index on the id and a unique index on the tag (a second holder of a tag
// must be rejected with err:conflict and leave no trace), reopen and full observation after every operation; the
// last operation of every 3rd history carries a fault (write 0..2 or commit).
func exhaustiveUnique(out *kit.Out, e *env, length int, caseNo *int) {
	ids := []string{"a", "b"}
	tags := []string{"s", "t"}
	var choices []string
	for _, op := range []string{"create", "put", "replace"} {
		for _, id := range ids {
			for _, tg := range tags {
				choices = append(choices, fmt.Sprintf("%s %s g %s D", op, id, tg))
			}
		}
	}
	for _, id := range ids {
		choices = append(choices, fmt.Sprintf("delete %s", id))
	}
	total := 1
	for i := 0; i < length; i++ {
		total *= len(choices)
	}
	faults := []string{"w0", "w1", "w2", "c"}
	for code := 0; code < total; code++ {
		ops := []string{"cfg p id;u;id,tag;u;tag"}
		if code%2 == 1 {
			ops = []string{"cfg p tag;u;tag,grp;n;grp,id;u;id"}
		}
		c := code
		for i := 0; i < length; i++ {
			ch := c % len(choices)
			c /= len(choices)
			f := "-"
			if i == length-1 && code%3 == 0 {
				f = faults[(code/3)%len(faults)]
			}
			ops = append(ops, strings.Replace(choices[ch], " D", fmt.Sprintf(" d%d", i), 1)+" "+f)
			ops = append(ops, "reopen", "dump", "get a", "get b", "list id % 0 1000 0", "list tag % 0 1000 0")
			ops = append(ops, fmt.Sprintf("list tag %s %d %d %d", []string{"a", "*", "b"}[code%3], code%2, (code%3)-1, (code/2)%2))
		}
		emit(out, fmt.Sprintf("u%d", *caseNo), execCase(e, ops))
		*caseNo++
	}
}

// faultSweep: random well-formed set-up histories, then ONE operation repeated in separate cases with a fault at
// every write position w0..w6 and at commit; full observation after it.
func faultSweep(out *kit.Out, e *env, r *kit.Rand, bases int, caseNo *int) {
	for b := 0; b < bases; b++ {
		g := &caseGen{r: r.Fork(), faultPr: 0}
		g.ids = []string{"a", "ab", kit.Pick(r, wfIDs[2:])}
		g.grps = pickN(r, safeGrps, 2)
		g.tagOf = func(id string) string { return "T" + id }
		g.idx = []idxSpec{{"id", true, "id"}, {"grp", false, "grp"}}
		if r.Chance(1, 2) {
			g.idx = append(g.idx, idxSpec{"tag", true, "tag"})
		}
		g.cfgLine("p")
		for k := r.Range(1, 4); k > 0; k-- {
			g.mutation()
		}
		g.add("dump")
		setup := g.ops
		g.ops = nil
		g.mutation()
		last := g.ops[0]
		last = last[:strings.LastIndex(last, " ")]
		for _, f := range []string{"w0", "w1", "w2", "w3", "w4", "w5", "w6", "c"} {
			g.ops = append([]string(nil), setup...)
			g.add("%s %s", last, f)
			g.add("reopen")
			g.observe(1)
			emit(out, fmt.Sprintf("f%d", *caseNo), execCase(e, g.ops))
			*caseNo++
		}
	}
}
