// Package c16 is the harness for property C16 (batch query ranges and ticks). It runs the REAL kapacitor
// code in-process and prints op lines with what the implementation did:
//
//	splice   kapacitor.NewQuery / SetStartTime / SetStopTime / String / Clone on generated WHERE clauses; every
//	         issued text is re-parsed with the real influxql parser and printed as a condition tree
//	tick     timeTicker.Next (through the hook VerifNewTimeTicker)
//	livereal the real aligned timeTicker.Start against the wall clock (only wall-clock independent facts printed)
//	sched    a real batch task on a real TaskMaster: ExecutingTask.BatchQueries for a span (historical list),
//	         then StartBatching with a fake InfluxDB client and injected tick times (live list), then
//	         BatchQueries again (state left behind by the live ticks); `tz=` runs the op with time.Local set to a
//	         fixed zone (cron expressions are evaluated in the host's zone), `cz=` is a cron naming hours/minutes
//	cronlive real batch tasks with the REAL cronTicker.Start against the wall clock for one second, in a fixed
//	         non-UTC zone, with cron expressions derived from the current time (so a tick is due within the
//	         second); afterwards BatchQueries for the same span: the historical list must be the live list
package c16

import (
	"context"
	"errors"
	"fmt"
	"hash/crc32"
	"os"
	"runtime"
	"sort"
	"strconv"
	"strings"
	"sync"
	"time"

	"github.com/influxdata/flux"
	imodels "github.com/influxdata/influxdb/models"
	"github.com/influxdata/influxql"
	"github.com/influxdata/kapacitor"
	"github.com/influxdata/kapacitor/edge"
	"github.com/influxdata/kapacitor/influxdb"
	"github.com/influxdata/kapacitor/udf"
	"github.com/influxdata/kapacitor/udf/agent"

	"verifharness/kit"
)

// ---------------------------------------------------------------------------------------------
// atoms: model token <-> InfluxQL text

var atomSrc = map[int]string{
	1:   `"a" = 1`,
	2:   `"b" > 2.5`,
	3:   `"host" = 'x'`,
	4:   `"host" =~ /^s.*/`,
	5:   `"a" + 2 * "b" > 3`,
	6:   `"dc" <> 'slc'`,
	7:   `"v" <= -4`,
	8:   `"f" = true`,
	9:   `("a" + 1) * 2 >= "b"`,
	10:  `"r" !~ /x|y/`,
	11:  `"n" = 'a AND b OR c'`,
	12:  `"a" % 3 = 1`,
	13:  `true`,
	100: `time > now() - 1h`,
	101: `time <= now()`,
	102: `'2020-01-01T00:00:00Z' <= time`,
}

var atomByText = map[string]int{}
var atomInit sync.Once

func initAtoms() {
	atomInit.Do(func() {
		for id, src := range atomSrc {
			e, err := influxql.ParseExpr(src)
			if err != nil {
				panic(fmt.Sprintf("atom %d: %v", id, err))
			}
			atomByText[e.String()] = id
		}
	})
}

var topName = map[influxql.Token]string{influxql.GTE: "ge", influxql.LT: "lt", influxql.GT: "gt", influxql.LTE: "le", influxql.EQ: "eq", influxql.NEQ: "ne"}
var topText = map[string]string{"ge": ">=", "lt": "<", "gt": ">", "le": "<=", "eq": "=", "ne": "!="}

func timeText(ns int64) string {
	return "'" + time.Unix(0, ns).UTC().Format(time.RFC3339Nano) + "'"
}

// tokText renders one model token as InfluxQL text.
func tokText(t string) (string, bool) {
	switch {
	case t == "and":
		return "AND", true
	case t == "or":
		return "OR", true
	case t == "lp":
		return "(", true
	case t == "rp":
		return ")", true
	case strings.HasPrefix(t, "A"):
		id, err := strconv.Atoi(t[1:])
		src, ok := atomSrc[id]
		return src, err == nil && ok
	case strings.HasPrefix(t, "T") && len(t) > 3:
		op, ok := topText[t[1:3]]
		ns, err := strconv.ParseInt(t[3:], 10, 64)
		return "time " + op + " " + timeText(ns), ok && err == nil
	}
	return "", false
}

func condText(toks string) (string, bool) {
	if toks == "-" {
		return "", true
	}
	var parts []string
	for _, t := range strings.Split(toks, ",") {
		s, ok := tokText(t)
		if !ok {
			return "", false
		}
		parts = append(parts, s)
	}
	return strings.Join(parts, " "), true
}

// timeBase is subtracted from every time literal that is printed: 0 normally; in `rel` cases (spans placed
// relative to the wall clock) it is the absolute time of the case's origin, so no wall-clock time is printed.
var timeBase int64

// treeOf prints a parsed InfluxQL condition as a prefix tree over model atoms.
func treeOf(e influxql.Expr) []string {
	initAtoms()
	switch x := e.(type) {
	case nil:
		return []string{"-"}
	case *influxql.ParenExpr:
		// a parenthesised boolean expression; parentheses inside an atom are part of its text
		if isBool(x.Expr) {
			return append([]string{"P"}, treeOf(x.Expr)...)
		}
	case *influxql.BinaryExpr:
		if x.Op == influxql.AND || x.Op == influxql.OR {
			name := "and"
			if x.Op == influxql.OR {
				name = "or"
			}
			out := []string{name}
			out = append(out, treeOf(x.LHS)...)
			return append(out, treeOf(x.RHS)...)
		}
		if v, ok := x.LHS.(*influxql.VarRef); ok && v.Val == "time" {
			if op, ok := topName[x.Op]; ok {
				switch r := x.RHS.(type) {
				case *influxql.StringLiteral:
					if r.IsTimeLiteral() {
						if tl, err := r.ToTimeLiteral(time.UTC); err == nil {
							return []string{fmt.Sprintf("T%s%d", op, tl.Val.UnixNano()-timeBase)}
						}
					}
				case *influxql.TimeLiteral:
					return []string{fmt.Sprintf("T%s%d", op, r.Val.UnixNano()-timeBase)}
				}
			}
		}
	}
	if id, ok := atomByText[e.String()]; ok {
		return []string{fmt.Sprintf("A%d", id)}
	}
	return []string{"X" + kit.Esc(e.String())}
}

// isBool: the expression is a boolean combination or a comparison (so a ParenExpr around it is a
// ParenExpr of the condition tree, not part of an arithmetic operand).
func isBool(e influxql.Expr) bool {
	switch x := e.(type) {
	case *influxql.ParenExpr:
		return isBool(x.Expr)
	case *influxql.BinaryExpr:
		switch x.Op {
		case influxql.AND, influxql.OR, influxql.EQ, influxql.NEQ, influxql.LT, influxql.LTE, influxql.GT, influxql.GTE, influxql.EQREGEX, influxql.NEQREGEX:
			return true
		}
		return false
	case *influxql.BooleanLiteral:
		return true
	}
	return false
}

func durOf(e influxql.Expr) (int64, bool) {
	switch x := influxql.Reduce(e, nil).(type) {
	case *influxql.DurationLiteral:
		return int64(x.Val), true
	case *influxql.IntegerLiteral:
		return x.Val, true
	}
	return 0, false
}

// encQuery re-parses an issued query text the way the database would and prints what it says:
// <condition tree>;<group by time len:offset | ->;<crc32 of the text>, plus its sources.
func encQuery(text string) (enc string, srcs []string) {
	st, err := influxql.ParseStatement(text)
	if err != nil {
		return "unparseable", nil
	}
	sel, ok := st.(*influxql.SelectStatement)
	if !ok {
		return "notselect", nil
	}
	gb := "-"
	for _, d := range sel.Dimensions {
		if call, ok := d.Expr.(*influxql.Call); ok && call.Name == "time" && len(call.Args) >= 1 {
			l, ok1 := durOf(call.Args[0])
			var o int64
			ok2 := true
			if len(call.Args) > 1 {
				o, ok2 = durOf(call.Args[1])
			}
			if ok1 && ok2 {
				gb = fmt.Sprintf("%d:%d", l, o)
			} else {
				gb = "bad"
			}
		}
	}
	for _, s := range sel.Sources {
		if m, ok := s.(*influxql.Measurement); ok {
			srcs = append(srcs, m.Database+"."+m.RetentionPolicy)
		} else {
			srcs = append(srcs, "?")
		}
	}
	// fill option and the tag / * dimensions, as the text says them
	fill := "?"
	switch sel.Fill {
	case influxql.NullFill:
		fill = "null"
	case influxql.NoFill:
		fill = "none"
	case influxql.NumberFill:
		fill = fmt.Sprintf("number:%v", sel.FillValue)
	case influxql.PreviousFill:
		fill = "previous"
	case influxql.LinearFill:
		fill = "linear"
	}
	var tagDims []string
	for _, d := range sel.Dimensions {
		switch x := d.Expr.(type) {
		case *influxql.VarRef:
			tagDims = append(tagDims, kit.Esc(x.Val))
		case *influxql.Wildcard:
			tagDims = append(tagDims, "*")
		case *influxql.Call:
		default:
			tagDims = append(tagDims, "?")
		}
	}
	dims := "-"
	if len(tagDims) > 0 {
		dims = strings.Join(tagDims, "+")
	}
	return fmt.Sprintf("%s;%s;%s/%s;%08x", strings.Join(treeOf(sel.Condition), ","), gb, fill, dims, crc32.ChecksumIEEE([]byte(text))), srcs
}

// ---------------------------------------------------------------------------------------------
// op: splice

func guard(f func() string) (out string) {
	defer func() {
		if r := recover(); r != nil {
			out = "panic"
		}
	}()
	return f()
}

func execSplice(t []string) string {
	if len(t) != 6 {
		return "badop"
	}
	toks := t[1]
	s, _ := strconv.ParseInt(t[2], 10, 64)
	e, _ := strconv.ParseInt(t[3], 10, 64)
	s2, _ := strconv.ParseInt(t[4], 10, 64)
	e2, _ := strconv.ParseInt(t[5], 10, 64)
	cond, ok := condText(toks)
	if !ok {
		return "badop"
	}
	qs := `SELECT "v" FROM "db"."rp"."m"`
	if toks != "-" {
		qs += " WHERE " + cond
	}
	return guard(func() string {
		// what the user's text says, by the real parser
		uc := "err"
		if st, err := influxql.ParseStatement(qs); err == nil {
			if sel, ok := st.(*influxql.SelectStatement); ok {
				uc = strings.Join(treeOf(sel.Condition), ",")
			}
		}
		q, err := kapacitor.NewQuery(qs)
		if err != nil {
			return "nq=err uc=" + uc
		}
		q.SetStartTime(time.Unix(0, s).UTC())
		q.SetStopTime(time.Unix(0, e).UTC())
		str1 := q.String()
		enc1, _ := encQuery(str1)
		q1 := strings.Split(enc1, ";")[0]
		tr := "err"
		if st, err := influxql.ParseStatement(str1); err == nil {
			if sel, ok := st.(*influxql.SelectStatement); ok {
				valuer := influxql.NowValuer{Now: time.Unix(1600000000, 0).UTC()}
				if _, r, err := influxql.ConditionExpr(sel.Condition, &valuer); err == nil {
					tr = fmt.Sprintf("%d:%d", r.MinTimeNano(), r.MaxTimeNano())
				}
			}
		}
		out := fmt.Sprintf("nq=ok uc=%s q1=%s tr=%s", uc, q1, tr)
		var c *kapacitor.Query
		cl := guard(func() string {
			var err error
			c, err = q.Clone()
			if err != nil {
				return "err"
			}
			return "ok"
		})
		out += " cl=" + cl
		if cl != "ok" {
			return out
		}
		c.SetStartTime(time.Unix(0, s2).UTC())
		c.SetStopTime(time.Unix(0, e2).UTC())
		enc2, _ := encQuery(c.String())
		orig := "0"
		if q.String() == str1 {
			orig = "1"
		}
		return out + " q2=" + strings.Split(enc2, ";")[0] + " orig=" + orig
	})
}

// ---------------------------------------------------------------------------------------------
// op: dims — Query.Dimensions / AlignGroup / SetStartTime in the order newQueryNode and doQuery call them

func execDims(t []string) string {
	if len(t) != 5 {
		return "badop"
	}
	l, _ := strconv.ParseInt(t[1], 10, 64)
	o, _ := strconv.ParseInt(t[2], 10, 64)
	s, _ := strconv.ParseInt(t[4], 10, 64)
	return guard(func() string {
		q, err := kapacitor.NewQuery(`SELECT mean("v") FROM "db"."rp"."m"`)
		if err != nil {
			return "badop"
		}
		var dim interface{} = kapacitor.TimeDimension{Length: time.Duration(l), Offset: time.Duration(o)}
		if o == 0 && s%2 == 0 {
			dim = time.Duration(l) // the other accepted form
		}
		if err := q.Dimensions([]interface{}{dim}); err != nil {
			return "err"
		}
		if t[3] == "1" {
			q.AlignGroup()
		}
		q.SetStartTime(time.Unix(0, s).UTC())
		q.SetStopTime(time.Unix(0, s+1000000000).UTC())
		enc, _ := encQuery(q.String())
		p := strings.Split(enc, ";")
		if len(p) < 2 {
			return "unreadable"
		}
		return "gb=" + p[1]
	})
}

// ---------------------------------------------------------------------------------------------
// op: tick, livereal

func execTick(t []string) string {
	if len(t) != 4 {
		return "badop"
	}
	every, _ := strconv.ParseInt(t[1], 10, 64)
	now, _ := strconv.ParseInt(t[3], 10, 64)
	return guard(func() string {
		tk := kapacitor.VerifNewTimeTicker(time.Duration(every), t[2] == "1")
		return strconv.FormatInt(tk.Next(time.Unix(0, now)).UnixNano(), 10)
	})
}

// execLiveReal starts the real aligned ticker and reports its first n ticks relative to
// Truncate(start time): wall-clock independent when nothing is delayed by more than every/2.
func execLiveReal(t []string) string {
	if len(t) != 3 {
		return "badop"
	}
	ms, _ := strconv.ParseInt(t[1], 10, 64)
	n, _ := strconv.Atoi(t[2])
	every := time.Duration(ms) * time.Millisecond
	var last string
	for attempt := 0; attempt < 6; attempt++ {
		tk := kapacitor.VerifNewTimeTicker(every, true)
		t0 := time.Now()
		ch := tk.Start()
		var got []time.Time
		timeout := time.After(every*time.Duration(n+3) + 2*time.Second)
	loop:
		for len(got) < n {
			select {
			case x := <-ch:
				got = append(got, x)
			case <-timeout:
				break loop
			}
		}
		go tk.Stop() // Stop waits for the ticker goroutine, which may be blocked sending: drain
		deadline := time.After(2 * time.Second)
	drain:
		for {
			select {
			case <-ch:
			case <-time.After(every + 20*time.Millisecond):
				break drain
			case <-deadline:
				break drain
			}
		}
		base := t0.Truncate(every)
		var rel []string
		ideal := len(got) == n
		for i, x := range got {
			d := x.Sub(base)
			rel = append(rel, strconv.FormatInt(int64(d), 10))
			if d != every*time.Duration(i+1) {
				ideal = false
			}
		}
		last = "rel=" + list(rel)
		if ideal {
			return last
		}
	}
	return last
}

func list(xs []string) string {
	if len(xs) == 0 {
		return "-"
	}
	return strings.Join(xs, ",")
}

// ---------------------------------------------------------------------------------------------
// op: sched — a real batch task

type fakeClient struct {
	mu   sync.Mutex
	cmds []string
	// the result every query gets: one series with one point at time pt, or (noPoint) a series without points
	pt      int64
	noPoint bool
}

func (c *fakeClient) Ping(ctx context.Context) (time.Duration, string, error) { return 0, "", nil }
func (c *fakeClient) Write(bp influxdb.BatchPoints) error                      { return nil }
func (c *fakeClient) WriteV2(w influxdb.FluxWrite) error                        { return nil }
func (c *fakeClient) Query(q influxdb.Query) (*influxdb.Response, error) {
	c.mu.Lock()
	c.cmds = append(c.cmds, q.Command)
	pt, noPoint := c.pt, c.noPoint
	c.mu.Unlock()
	var values [][]interface{}
	if !noPoint {
		values = [][]interface{}{{time.Unix(0, pt).UTC(), 1.0}}
	}
	return &influxdb.Response{Results: []influxdb.Result{{Series: []imodels.Row{{
		Name: "m", Columns: []string{"time", "v"}, Values: values,
	}}}}}, nil
}
func (c *fakeClient) QueryFlux(q influxdb.FluxQuery) (flux.ResultIterator, error) {
	return nil, errors.New("no flux")
}
func (c *fakeClient) QueryFluxResponse(q influxdb.FluxQuery) (*influxdb.Response, error) {
	return nil, errors.New("no flux")
}
func (c *fakeClient) CreateBucketV2(bucket string, org string, orgID string) error { return nil }
func (c *fakeClient) take() []string {
	c.mu.Lock()
	defer c.mu.Unlock()
	out := c.cmds
	c.cmds = nil
	return out
}
func (c *fakeClient) count() int {
	c.mu.Lock()
	defer c.mu.Unlock()
	return len(c.cmds)
}

type fakeInflux struct{ c *fakeClient }

func (f fakeInflux) NewNamedClient(name string) (influxdb.Client, error) { return f.c, nil }

// batchSink is the harness' own `@bsink()` UDF: it records the time stamped on every batch it receives and
// passes the batch on. (kit's sink panics when Abort arrives before Open; this one creates its channels up front.)
type batchSink struct {
	mu    sync.Mutex
	times []int64
}

func (b *batchSink) add(t int64) { b.mu.Lock(); b.times = append(b.times, t); b.mu.Unlock() }
func (b *batchSink) take() []int64 {
	b.mu.Lock()
	defer b.mu.Unlock()
	out := b.times
	b.times = nil
	return out
}
func (b *batchSink) count() int { b.mu.Lock(); defer b.mu.Unlock(); return len(b.times) }

type sinkService struct{ sink *batchSink }

func (s *sinkService) List() []string { return []string{"bsink"} }
func (s *sinkService) Info(name string) (udf.Info, bool) {
	if name != "bsink" {
		return udf.Info{}, false
	}
	return udf.Info{Wants: agent.EdgeType_BATCH, Provides: agent.EdgeType_BATCH, Options: map[string]*agent.OptionInfo{}}, true
}
func (s *sinkService) Create(name, taskID, nodeID string, d udf.Diagnostic, abortCallback func()) (udf.Interface, error) {
	info, ok := s.Info(name)
	if !ok {
		return nil, fmt.Errorf("unknown udf %s", name)
	}
	return &sinkUDF{sink: s.sink, info: info, in: make(chan edge.Message), out: make(chan edge.Message),
		done: make(chan struct{}), abrt: make(chan struct{}), abort: abortCallback}, nil
}

type sinkUDF struct {
	sink   *batchSink
	info   udf.Info
	in     chan edge.Message
	out    chan edge.Message
	done   chan struct{}
	abrt   chan struct{}
	abort  func()
	once   sync.Once
	opened bool
}

func (u *sinkUDF) Open() error {
	u.opened = true
	go func() {
		defer close(u.done)
		defer close(u.out)
		for m := range u.in {
			if b, ok := m.(edge.BufferedBatchMessage); ok {
				u.sink.add(b.Begin().Time().UnixNano())
			}
			select {
			case u.out <- m:
			case <-u.abrt:
				return
			}
		}
	}()
	return nil
}
func (u *sinkUDF) Info() (udf.Info, error)            { return u.info, nil }
func (u *sinkUDF) Init(options []*agent.Option) error { return nil }
func (u *sinkUDF) Abort(err error) {
	u.once.Do(func() {
		close(u.abrt)
		if u.abort != nil {
			go u.abort() // tells the UDF node to stop writing to In()
		}
	})
}
func (u *sinkUDF) Close() error {
	close(u.in)
	if u.opened {
		<-u.done
	}
	return nil
}
func (u *sinkUDF) Snapshot() ([]byte, error)     { return nil, nil }
func (u *sinkUDF) Restore(snapshot []byte) error { return nil }
func (u *sinkUDF) In() chan<- edge.Message       { return u.in }
func (u *sinkUDF) Out() <-chan edge.Message      { return u.out }

// injTicker delivers the tick times the harness injects; Next is the real ticker's.
type injTicker struct {
	orig kapacitor.VerifTicker
	ch   chan time.Time
}

func (t *injTicker) Start() <-chan time.Time      { return t.ch }
func (t *injTicker) Stop()                        {}
func (t *injTicker) Next(now time.Time) time.Time { return t.orig.Next(now) }

var (
	tmOnce  sync.Once
	theTM   *kit.TM
	theFC   *fakeClient
	theSink *batchSink
	taskNo  int
)

func backbone() (*kit.TM, *fakeClient) {
	tmOnce.Do(func() {
		tm, err := kit.NewTM(kit.TMOpts{})
		if err != nil {
			panic(err)
		}
		theTM = tm
		theFC = &fakeClient{}
		tm.TM.InfluxDBService = fakeInflux{theFC}
		theSink = &batchSink{}
		tm.TM.UDFService = &sinkService{theSink}
	})
	return theTM, theFC
}

func durLit(ns int64) string {
	// TICKscript has no ns unit: all configured durations are whole microseconds
	return fmt.Sprintf("%du", ns/1000)
}

type schedCfg struct {
	toks                     string
	per, off, ev             int64
	al                       bool
	cron                     string // "" or a cron expression
	gb, gbo                  int64
	ag                       bool
	fill                     string
	tags                     string
	decl                     []kapacitor.DBRP
	from                     [][]string // per query node: db.rp sources
	start                    int64
	stop                     int64
	stopZero                 bool
	ticks                    []int64
	gbz                      bool // groupBy(time(0s))
}

func parseKV(t []string) map[string]string {
	m := map[string]string{}
	for _, x := range t {
		if i := strings.Index(x, "="); i > 0 {
			m[x[:i]] = x[i+1:]
		}
	}
	return m
}

func cronExpr(k int64) string {
	// k < 60: every k seconds; k >= 60 (multiple of 60): every k/60 minutes at second 0
	if k < 60 {
		return fmt.Sprintf("*/%d * * * * * *", k)
	}
	return fmt.Sprintf("0 */%d * * * * *", k/60)
}

func script(c *schedCfg) (string, bool) {
	var b strings.Builder
	for i, srcs := range c.from {
		cond, ok := condText(c.toks)
		if !ok {
			return "", false
		}
		var fr []string
		for _, s := range srcs {
			p := strings.SplitN(s, ".", 2)
			if len(p) != 2 {
				return "", false
			}
			fr = append(fr, fmt.Sprintf(`"%s"."%s"."m%d"`, p[0], p[1], i))
		}
		q := `SELECT mean("v") FROM ` + strings.Join(fr, ", ")
		if c.toks != "-" {
			q += " WHERE " + cond
		}
		q = strings.ReplaceAll(q, `\`, `\\`)
		q = strings.ReplaceAll(q, `'`, `\'`)
		fmt.Fprintf(&b, "var q%d = batch\n\t|query('%s')\n", i, q)
		fmt.Fprintf(&b, "\t\t.period(%s)\n", durLit(c.per))
		if c.ev != 0 {
			fmt.Fprintf(&b, "\t\t.every(%s)\n", durLit(c.ev))
		}
		if c.cron != "" {
			fmt.Fprintf(&b, "\t\t.cron('%s')\n", c.cron)
		}
		if c.off != 0 {
			fmt.Fprintf(&b, "\t\t.offset(%s)\n", durLit(c.off))
		}
		if c.al {
			b.WriteString("\t\t.align()\n")
		}
		var dims []string
		if c.gbz {
			dims = append(dims, "time(0u)")
		} else if c.gb != 0 {
			if c.gbo != 0 {
				dims = append(dims, fmt.Sprintf("time(%s, %s)", durLit(c.gb), durLit(c.gbo)))
			} else {
				dims = append(dims, fmt.Sprintf("time(%s)", durLit(c.gb)))
			}
		}
		switch c.tags {
		case "1":
			dims = append(dims, "'host'")
		case "2":
			dims = append(dims, "*")
		}
		if len(dims) > 0 {
			fmt.Fprintf(&b, "\t\t.groupBy(%s)\n", strings.Join(dims, ", "))
		}
		if c.ag {
			b.WriteString("\t\t.alignGroup()\n")
		}
		switch c.fill {
		case "0":
			b.WriteString("\t\t.fill(0)\n")
		case "null", "none", "previous", "linear":
			fmt.Fprintf(&b, "\t\t.fill('%s')\n", c.fill)
		}
		if i == 0 {
			b.WriteString("\t@bsink()\n")
		}
	}
	return b.String(), true
}

func errKind(err error) string {
	if err == nil {
		return "ok"
	}
	m := err.Error()
	switch {
	case strings.Contains(m, "is not allowed to request data from"):
		return "err:dbrp"
	case strings.Contains(m, "must not set both") || strings.Contains(m, "must define one of") || strings.Contains(m, "must must non-negative"):
		return "err:sched"
	case strings.Contains(m, "time dimension must be positive"):
		return "err:dims"
	}
	return "err:other"
}

// setZone makes `tz` seconds east of UTC the host's zone (time.Local) until the returned function is called.
// Every time.Now() / Time.Local() / time.Unix() of the code under test reads the variable at call time.
// tz = 0 pins UTC, so that no op depends on the zone of the machine the check runs on.
func setZone(tz int64) func() {
	old := time.Local
	if tz == 0 {
		time.Local = time.UTC
	} else {
		time.Local = time.FixedZone(fmt.Sprintf("V%+d", tz), int(tz))
	}
	return func() { time.Local = old }
}

// czExpr: `cz=<hours>;<minutes>;<seconds>` (each a `+` separated list) as the cron expression
// `<seconds> <minutes> <hours> * * * *`.
func czExpr(cz string) (string, bool) {
	p := strings.Split(cz, ";")
	if len(p) != 3 {
		return "", false
	}
	for _, f := range p {
		for _, x := range strings.Split(f, "+") {
			if _, err := strconv.Atoi(x); err != nil {
				return "", false
			}
		}
	}
	c := func(f string) string { return strings.ReplaceAll(f, "+", ",") }
	return fmt.Sprintf("%s %s %s * * * *", c(p[2]), c(p[1]), c(p[0])), true
}

func execSched(t []string) string {
	kv := parseKV(t[1:])
	geti := func(k string) int64 { v, _ := strconv.ParseInt(kv[k], 10, 64); return v }
	c := &schedCfg{toks: kv["toks"], per: geti("per"), off: geti("off"), ev: geti("ev"), al: kv["al"] == "1",
		gb: geti("gb"), gbo: geti("gbo"), ag: kv["ag"] == "1", fill: kv["fill"], tags: kv["tags"], start: geti("start")}
	if c.toks == "" {
		return "badop"
	}
	c.gbz = kv["gbz"] == "1"
	if k := geti("cron"); k > 0 {
		c.cron = cronExpr(k)
	} else if k == -2 {
		e, ok := czExpr(kv["cz"]) // named hours / minutes / seconds, evaluated in the host's zone
		if !ok {
			return "badop"
		}
		c.cron = e
	} else if k < 0 {
		c.cron = "0 0 0 1 * * 2001" // the first of every month of 2001, then never again
	}
	defer setZone(geti("tz"))()
	if kv["stop"] == "z" {
		c.stopZero = true
	} else {
		c.stop = geti("stop")
	}
	for _, d := range strings.Split(kv["decl"], ",") {
		p := strings.SplitN(d, ".", 2)
		if len(p) == 2 {
			c.decl = append(c.decl, kapacitor.DBRP{Database: p[0], RetentionPolicy: p[1]})
		}
	}
	for _, n := range strings.Split(kv["from"], "/") {
		c.from = append(c.from, strings.Split(n, ","))
	}
	if kv["ticks"] != "-" && kv["ticks"] != "" {
		for _, x := range strings.Split(kv["ticks"], ",") {
			v, _ := strconv.ParseInt(x, 10, 64)
			c.ticks = append(c.ticks, v)
		}
	}
	if len(c.decl) == 0 || len(c.from) == 0 {
		return "badop"
	}
	scr, ok := script(c)
	if !ok {
		return "badop"
	}
	// rel != 0: the case's time origin is `rel` ns before the wall clock's now (start/stop/ticks are relative)
	var base int64
	if rel := geti("rel"); rel != 0 {
		base = time.Now().UnixNano() - rel
	}
	timeBase = base
	defer func() { timeBase = 0 }()
	tm, fc := backbone()
	taskNo++
	id := fmt.Sprintf("c16t%d", taskNo)
	return guard(func() string {
		task, err := tm.TM.NewTask(id, scr, kapacitor.BatchTask, c.decl, 0, nil)
		if err != nil {
			if os.Getenv("VERIF_LOG") != "" {
				fmt.Fprintln(os.Stderr, scr, err)
			}
			return "st=err:script"
		}
		fc.take()
		theSink.take()
		fc.mu.Lock()
		fc.noPoint = kv["pt"] == "-" || kv["pt"] == ""
		fc.pt = geti("pt")
		fc.mu.Unlock()
		et, err := tm.TM.StartTask(task)
		if err != nil {
			return "st=" + errKind(err)
		}
		defer tm.TM.StopTask(id)
		if c.gbz || c.gb < 0 {
			// accepted although the time dimension is not positive: do not tick (alignGroup would divide by zero in
			// doQuery's goroutine and take this process down); the driver judges `st=ok` itself.
			// (StartBatching without ticks only so that StopTask finds a running doQuery to stop.)
			_ = et.StartBatching()
			return "st=ok"
		}
		var inj []*injTicker
		kapacitor.VerifWrapQueryTickers(et, func(i int, o kapacitor.VerifTicker) kapacitor.VerifTicker {
			x := &injTicker{orig: o, ch: make(chan time.Time)}
			inj = append(inj, x)
			return x
		})
		stop := time.Unix(0, base+c.stop)
		if c.stopZero {
			stop = time.Time{}
		}
		hist := func() (string, string, string) {
			// watchdog: a Queries loop that never ends (e.g. a lost zero-time test on an ended cron schedule) must not
			// eat the machine: give up on the whole process, the runner reports the crash with this case open
			type res struct {
				bq  []kapacitor.BatchQueries
				err error
			}
			ch := make(chan res, 1)
			go func() {
				bq, err := et.BatchQueries(time.Unix(0, base+c.start), stop)
				ch <- res{bq, err}
			}()
			var bq []kapacitor.BatchQueries
			var err error
			deadline := time.After(20 * time.Second)
		wait:
			for {
				select {
				case r := <-ch:
					bq, err = r.bq, r.err
					break wait
				case <-deadline:
					fmt.Fprintln(os.Stderr, "c16: ExecutingTask.BatchQueries did not return within 20 s:", strings.Join(t, " "))
					os.Exit(4)
				case <-time.After(50 * time.Millisecond):
					var ms runtime.MemStats
					runtime.ReadMemStats(&ms)
					if ms.HeapAlloc > 1<<30 {
						fmt.Fprintln(os.Stderr, "c16: ExecutingTask.BatchQueries allocated more than 1 GiB without returning:", strings.Join(t, " "))
						os.Exit(4)
					}
				}
			}
			if err != nil {
				return errKind(err), "-", "-"
			}
			var qs []string
			srcSet := map[string]bool{}
			for _, b := range bq {
				for _, q := range b.Queries {
					text := q.String()
					enc, srcs := encQuery(text)
					// node 0 queries measurement m0
					if strings.Contains(text, `.m0`) {
						qs = append(qs, enc)
					}
					for _, s := range srcs {
						srcSet[s] = true
					}
				}
			}
			return "ok", strings.Join(orDash(qs), "|"), list(sortedKeys(srcSet))
		}
		h, H, hsrc := hist()
		out := fmt.Sprintf("st=ok h=%s H=%s hsrc=%s", h, H, hsrc)
		// live
		err = et.StartBatching()
		out += " l=" + errKind(err)
		if err != nil {
			return out
		}
		want := 0
		for _, x := range inj {
			for _, tk := range c.ticks {
				select {
				case x.ch <- time.Unix(0, base+tk):
					want++
				case <-time.After(3 * time.Second):
				}
			}
		}
		for w := 0; fc.count() < want && w < 3000; w++ {
			time.Sleep(time.Millisecond)
		}
		var L []string
		srcSet := map[string]bool{}
		for _, cmd := range fc.take() {
			enc, srcs := encQuery(cmd)
			// node 0 queries measurement m0
			if strings.Contains(cmd, `.m0`) {
				L = append(L, enc)
			}
			for _, s := range srcs {
				srcSet[s] = true
			}
		}
		out += fmt.Sprintf(" L=%s lsrc=%s", strings.Join(orDash(L), "|"), list(sortedKeys(srcSet)))
		// the batches node 0 handed downstream, one per tick
		for w := 0; theSink.count() < len(c.ticks) && w < 3000; w++ {
			time.Sleep(time.Millisecond)
		}
		var bts []string
		for _, t := range theSink.take() {
			if t != fc.pt || fc.noPoint {
				t -= base // the query's stop (relative in `rel` cases); a point time is absolute
			}
			bts = append(bts, strconv.FormatInt(t, 10))
		}
		out += " bt=" + list(bts)
		h2, H2, _ := hist()
		return out + fmt.Sprintf(" h2=%s H2=%s", h2, H2)
	})
}

func orDash(xs []string) []string {
	if len(xs) == 0 {
		return []string{"-"}
	}
	return xs
}

func sortedKeys(m map[string]bool) []string {
	var ks []string
	for k := range m {
		ks = append(ks, k)
	}
	sort.Strings(ks)
	return ks
}

// ---------------------------------------------------------------------------------------------
// op: cronlive — the real cronTicker.Start in a fixed zone, against the wall clock, for one second
//
//	cronlive tz=<seconds east> shapes=<s,s,…> per=<ns> from=<ns> to=<ns>
//
// Every shape is one query node of one real batch task whose cron expression is derived from the clock reading
// at the start of the op (so nothing waits for an hour to turn):
//
//	es  every second                          s2  every even second
//	lh  the hour the zone's clock shows       uh  the hour the UTC clock shows
//	lhm minute and hour of the zone's clock   uhm minute and hour of the UTC clock
//	ld  day and month of the zone's calendar  ud  day and month of the UTC calendar
//	lw  weekday of the zone's calendar        uw  weekday of the UTC calendar
//
// The op picks a whole second `base`, starts batching at base+from (exactly; it sleeps until then), lets the real
// tickers run until base+to, stops the task and then asks BatchQueries for the span (base+from, base+to].
// All times are printed relative to `base`. F<i> = the seconds base+1 … base+3 at which shape i is due, worked
// out from the civil fields of those instants with the standard library (not with cronexpr).

type cronShape struct {
	expr string
	due  func(t time.Time) bool // t: an instant; civil fields are taken in the zone the shape speaks of
}

func mkCronShape(name string, t0 time.Time, zone *time.Location) (cronShape, bool) {
	loc := zone
	if strings.HasPrefix(name, "u") {
		loc = time.UTC
	}
	// the fields are NAMED from the clock `loc`, and cron() evaluates them in the host's zone
	n := t0.In(loc)
	switch name {
	case "es":
		return cronShape{"* * * * * * *", func(t time.Time) bool { return true }}, true
	case "end":
		// a schedule that has ended (year field): never due again
		return cronShape{"* * * * * * 2001", func(t time.Time) bool { return false }}, true
	case "s2":
		return cronShape{"*/2 * * * * * *", func(t time.Time) bool { return t.In(zone).Second()%2 == 0 }}, true
	case "lh", "uh":
		h := n.Hour()
		return cronShape{fmt.Sprintf("* * %d * * * *", h), func(t time.Time) bool { return t.In(zone).Hour() == h }}, true
	case "lhm", "uhm":
		h, m := n.Hour(), n.Minute()
		return cronShape{fmt.Sprintf("* %d %d * * * *", m, h), func(t time.Time) bool {
			x := t.In(zone)
			return x.Hour() == h && x.Minute() == m
		}}, true
	case "ld", "ud":
		d, mo := n.Day(), n.Month()
		return cronShape{fmt.Sprintf("* * * %d %d * *", d, int(mo)), func(t time.Time) bool {
			x := t.In(zone)
			return x.Day() == d && x.Month() == mo
		}}, true
	case "lw", "uw":
		w := n.Weekday()
		return cronShape{fmt.Sprintf("* * * * * %d *", int(w)), func(t time.Time) bool { return t.In(zone).Weekday() == w }}, true
	}
	return cronShape{}, false
}

func execCronLive(t []string) string {
	kv := parseKV(t[1:])
	geti := func(k string) int64 { v, _ := strconv.ParseInt(kv[k], 10, 64); return v }
	tz, per, from, to := geti("tz"), geti("per"), geti("from"), geti("to")
	names := strings.Split(kv["shapes"], ",")
	if kv["shapes"] == "" || len(names) > 10 || per <= 0 || from < 50*int64(time.Millisecond) || to <= from || to > 3500*int64(time.Millisecond) {
		return "badop"
	}
	defer setZone(tz)()
	zone := time.Local
	defer func() { timeBase = 0 }()
	tm, fc := backbone()
	var last string
	for attempt := 0; attempt < 3; attempt++ {
		out, ideal := guardCronLive(tm, fc, zone, names, per, from, to)
		last = out
		if ideal {
			break
		}
	}
	return last
}

func guardCronLive(tm *kit.TM, fc *fakeClient, zone *time.Location, names []string, per, from, to int64) (out string, ideal bool) {
	defer func() {
		if r := recover(); r != nil {
			out, ideal = "panic", true
		}
	}()
	// the whole second the op's times are relative to: base+from is at least 40 ms ahead
	now := time.Now()
	base := now.Truncate(time.Second)
	if now.Sub(base) > time.Duration(from)-40*time.Millisecond {
		base = base.Add(time.Second)
	}
	t0, t1 := base.Add(time.Duration(from)), base.Add(time.Duration(to))
	timeBase = base.UnixNano()
	var shapes []cronShape
	var b strings.Builder
	for i, nm := range names {
		sh, ok := mkCronShape(nm, t0, zone)
		if !ok {
			return "badop", true
		}
		shapes = append(shapes, sh)
		fmt.Fprintf(&b, "var q%d = batch\n\t|query('SELECT mean(\"v\") FROM \"db\".\"rp\".\"c%d\"')\n\t\t.period(%s)\n\t\t.cron('%s')\n", i, i, durLit(per), sh.expr)
	}
	taskNo++
	id := fmt.Sprintf("c16t%d", taskNo)
	task, err := tm.TM.NewTask(id, b.String(), kapacitor.BatchTask, []kapacitor.DBRP{{Database: "db", RetentionPolicy: "rp"}}, 0, nil)
	if err != nil {
		if os.Getenv("VERIF_LOG") != "" {
			fmt.Fprintln(os.Stderr, b.String(), err)
		}
		return "st=err:script", true
	}
	fc.take()
	fc.mu.Lock()
	fc.noPoint = true
	fc.mu.Unlock()
	et, err := tm.TM.StartTask(task)
	if err != nil {
		return "st=" + errKind(err), true
	}
	stopped := false
	defer func() {
		if !stopped {
			tm.TM.StopTask(id)
		}
	}()
	time.Sleep(time.Until(t0))
	if err := et.StartBatching(); err != nil { // the real tickers start here, after base+from
		return "st=ok l=" + errKind(err), true
	}
	late := time.Since(t0)
	time.Sleep(time.Until(t1))
	cmds := fc.take() // what the live ticks issued until base+to
	tm.TM.StopTask(id)
	stopped = true
	fc.take()
	// the historical list of the same span, asked when the span is over (BatchQueries lists nothing after `now`)
	bq, err := et.BatchQueries(t0, t1)
	if err != nil {
		return "st=ok l=ok h=" + errKind(err), true
	}
	node := func(text string) int {
		st, err := influxql.ParseStatement(text)
		if err != nil {
			return -1
		}
		sel, ok := st.(*influxql.SelectStatement)
		if !ok || len(sel.Sources) != 1 {
			return -1
		}
		m, ok := sel.Sources[0].(*influxql.Measurement)
		if !ok || !strings.HasPrefix(m.Name, "c") {
			return -1
		}
		i, err := strconv.Atoi(m.Name[1:])
		if err != nil || i >= len(names) {
			return -1
		}
		return i
	}
	L := make([][]string, len(names))
	H := make([][]string, len(names))
	stray := 0
	for _, c := range cmds {
		if i := node(c); i >= 0 {
			enc, _ := encQuery(c)
			L[i] = append(L[i], enc)
		} else {
			stray++
		}
	}
	for _, bb := range bq {
		for _, q := range bb.Queries {
			text := q.String()
			if i := node(text); i >= 0 {
				enc, _ := encQuery(text)
				H[i] = append(H[i], enc)
			} else {
				stray++
			}
		}
	}
	out = fmt.Sprintf("st=ok l=ok h=ok stray=%d", stray)
	ideal = late < 300*time.Millisecond
	for i, sh := range shapes {
		var F []string
		due := 0
		for k := int64(1); k <= 3; k++ {
			if sh.due(base.Add(time.Duration(k) * time.Second)) {
				F = append(F, strconv.FormatInt(k*int64(time.Second), 10))
				if k*int64(time.Second) > from && k*int64(time.Second) <= to {
					due++
				}
			}
		}
		out += fmt.Sprintf(" F%d=%s L%d=%s H%d=%s", i, list(F), i, strings.Join(orDash(L[i]), "|"), i, strings.Join(orDash(H[i]), "|"))
		if len(L[i]) != due || strings.Join(L[i], "|") != strings.Join(H[i], "|") {
			ideal = false
		}
	}
	return out, ideal
}

// ---------------------------------------------------------------------------------------------

func execLine(line string) string {
	if i := strings.Index(line, " => "); i >= 0 {
		line = line[:i]
	}
	t := strings.Fields(line)
	if len(t) == 0 {
		return line
	}
	var obs string
	switch t[0] {
	case "splice":
		obs = execSplice(t)
	case "tick":
		obs = execTick(t)
	case "dims":
		obs = execDims(t)
	case "livereal":
		obs = execLiveReal(t)
	case "sched":
		obs = execSched(t)
	case "cronlive":
		obs = execCronLive(t)
	default:
		obs = "badop"
	}
	return line + " => " + obs
}

func emit(out *kit.Out, id string, lines []string) {
	out.Line("case", id)
	for _, l := range lines {
		out.Line(execLine(l))
	}
	out.Line("end")
	out.Flush()
}

// Run: `vh-c16 -seed S -n N [-tier thorough]` generates; `vh-c16 -ops file` re-executes the cases of a file.
func Run(args []string) int {
	f := kit.ParseFlags(args)
	out := kit.NewOut()
	defer out.Flush()
	defer func() {
		if theTM != nil {
			theTM.Close()
		}
	}()
	if f.Ops != "" {
		lines, err := kit.ReadLines(f.Ops)
		if err != nil {
			fmt.Fprintln(os.Stderr, err)
			return 2
		}
		var cur []string
		id := ""
		for _, l := range lines {
			t := strings.Fields(l)
			switch {
			case len(t) == 2 && t[0] == "case":
				id, cur = t[1], nil
			case len(t) == 1 && t[0] == "end":
				emit(out, id, cur)
			default:
				cur = append(cur, l)
			}
		}
		return 0
	}
	generate(out, f)
	return 0
}
