// Package c16 is the harness for property C16 (runs the real kapacitor code, prints op lines).
package c16

import (
	"fmt"
	"time"

	"github.com/influxdata/influxql"
	"github.com/influxdata/kapacitor"
	"verifharness/kit"
)

// Run is replaced by the property's harness.
func Run(args []string) int {
	q, err := kapacitor.NewQuery(`SELECT v FROM "db"."rp".m WHERE a = 1 OR b = 2 AND time >= '2020-01-01T00:00:00Z'`)
	fmt.Println(err)
	q.SetStartTime(time.Unix(100, 0))
	q.SetStopTime(time.Unix(200, 5))
	s := q.String()
	fmt.Println(s)
	st, err := influxql.ParseStatement(s)
	fmt.Println(err)
	sel := st.(*influxql.SelectStatement)
	influxql.WalkFunc(sel.Condition, func(n influxql.Node) {
		fmt.Printf("%T %v\n", n, n)
	})
	e, tr, err := influxql.ConditionExpr(sel.Condition, nil)
	fmt.Println(e, tr, err)
	c, err := q.Clone()
	fmt.Println(c, err)

	tm, err := kit.NewTM(kit.TMOpts{})
	fmt.Println(err)
	defer tm.Close()
	script := `batch
	|query('SELECT mean(v) FROM "db"."rp".m WHERE a = 1')
		.period(10s).every(10s).align().groupBy(time(4s), 'host').alignGroup().fill(0)
	@bsink()
`
	task, err := tm.TM.NewTask("t1", script, kapacitor.BatchTask, []kapacitor.DBRP{{Database: "db", RetentionPolicy: "rp"}}, 0, nil)
	fmt.Println(err)
	et, err := kapacitor.NewExecutingTask(tm.TM, task)
	fmt.Println(err)
	bq, err := et.BatchQueries(time.Unix(1000000007, 0), time.Unix(1000000047, 0))
	fmt.Println(err)
	for _, b := range bq {
		for _, q := range b.Queries {
			fmt.Println(q.String())
		}
	}
	_, err = et.BatchQueries(time.Unix(1000000007, 0), time.Time{})
	task, err = tm.TM.NewTask("t2", script, kapacitor.BatchTask, []kapacitor.DBRP{{Database: "dbx", RetentionPolicy: "rp"}}, 0, nil)
	fmt.Println(err)
	et, err = kapacitor.NewExecutingTask(tm.TM, task)
	fmt.Println(err)
	_, err = et.BatchQueries(time.Unix(1000000007, 0), time.Unix(1000000047, 0))
	fmt.Println(err)
	return 0
}
