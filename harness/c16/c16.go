// Package c16 is the harness for property C16 (runs the real kapacitor code, prints op lines).
package c16

import (
	"fmt"
	"os"
)

// Run is replaced by the property's harness.
func Run(args []string) int {
	fmt.Fprintln(os.Stderr, "c16: harness not implemented yet")
	return 3
}
