package c16

import (
	"fmt"
	"strconv"
	"strings"
	"time"

	"verifharness/kit"
)

// ---------------------------------------------------------------------------------------------
// generators (branch-directed: every structural case of the model is produced on purpose)

type node struct {
	kind string // atom | and | or | paren
	a    string
	l, r *node
}

func (n *node) toks() []string {
	switch n.kind {
	case "atom":
		return []string{n.a}
	case "paren":
		return append(append([]string{"lp"}, n.l.toks()...), "rp")
	}
	out := append([]string{}, n.l.toks()...)
	out = append(out, n.kind)
	return append(out, n.r.toks()...)
}

type condGen struct {
	r     *kit.Rand
	pool  []int
	lits  []int64
	count int
}

func (g *condGen) atom() *node {
	g.count++
	switch {
	case g.r.Chance(1, 6):
		ops := []string{"ge", "lt", "gt", "le", "eq", "ne"}
		return &node{kind: "atom", a: fmt.Sprintf("T%s%d", kit.Pick(g.r, ops), kit.Pick(g.r, g.lits))}
	case g.r.Chance(1, 12):
		return &node{kind: "atom", a: fmt.Sprintf("A%d", 100+g.r.Intn(3))}
	}
	return &node{kind: "atom", a: fmt.Sprintf("A%d", kit.Pick(g.r, g.pool))}
}

func (g *condGen) tree(depth int) *node {
	if depth == 0 || g.count > 7 || g.r.Chance(1, 4) {
		return g.atom()
	}
	switch x := g.r.Intn(10); {
	case x < 4:
		return &node{kind: "and", l: g.tree(depth - 1), r: g.tree(depth - 1)}
	case x < 8:
		return &node{kind: "or", l: g.tree(depth - 1), r: g.tree(depth - 1)}
	}
	return &node{kind: "paren", l: g.tree(depth - 1)}
}

var shapes = []string{
	"-",
	"A1",
	"A1,or,A2",
	"A1,and,A2",
	"A1,or,A2,and,A3",
	"A1,and,A2,or,A3",
	"lp,A1,or,A2,rp,and,A3",
	"lp,A1,or,A2,rp",
	"A1,or,lp,A2,and,A3,rp,or,A4",
	"lp,lp,A1,or,A2,rp,rp",
	"A3,and,lp,A1,or,A2,rp",
	"A1,or,A2,or,A3",
	"A1,and,A2,and,A3",
	"A100,or,A1",
	"A13",
	"A13,or,A1",
	"A5,or,A9,and,A4",
	"A11,or,A6",
	"lp,A1,rp,or,lp,A2,rp",
	"A1,and,lp,A2,and,lp,A3,or,A4,rp,rp",
}

var badShapes = []string{"A1,and", "lp,A1", "A1,rp", "A1,A2", "or,A1", "lp,rp", "A1,or,or,A2", "lp,A1,or,rp", "A1,and,lp,A2"}

func genToks(r *kit.Rand, i int, lits []int64) string {
	k := i % 40
	if k < len(shapes) {
		return shapes[k]
	}
	if k == 39 {
		return kit.Pick(r, badShapes)
	}
	if k >= 34 {
		// user time predicates at the top level, next to OR
		ops := []string{"ge", "lt", "gt", "le"}
		t := fmt.Sprintf("T%s%d", kit.Pick(r, ops), kit.Pick(r, lits))
		switch k {
		case 34:
			return t
		case 35:
			return t + ",or,A1"
		case 36:
			return "A1,or," + t
		case 37:
			return t + ",and,A1,or,A2"
		default:
			return "lp," + t + ",or,A2,rp,and,A1"
		}
	}
	all := []int{1, 2, 3, 4, 5, 6, 7, 8, 9, 10, 11, 12, 13}
	var pool []int
	for len(pool) < 4 {
		pool = append(pool, kit.Pick(r, all))
	}
	g := &condGen{r: r, pool: pool, lits: lits}
	return strings.Join(g.tree(2+r.Intn(3)).toks(), ",")
}

var anchors = []int64{1500000000, 1000000000, 1600000000, -1000000000, 86400 * 365}

func genSplice(r *kit.Rand, i int) string {
	s := kit.Pick(r, anchors)*1e9 + int64(r.Intn(1000000))*int64(kit.Pick(r, []int{1, 1000, 1000000}))
	e := s + int64(1+r.Intn(600))*1e9
	if r.Chance(1, 10) {
		e = s // empty range
	}
	s2 := s + int64(r.Intn(100))*1e9 + 7
	e2 := e + int64(r.Intn(100))*1e9 + 11
	lits := []int64{s - 1, s, s + 1, e - 1, e, e + 1, (s + e) / 2, s2, e2}
	return fmt.Sprintf("splice %s %d %d %d %d", genToks(r, i, lits), s, e, s2, e2)
}

const (
	us  = int64(1000)
	ms  = int64(1000000)
	sec = int64(1000000000)
)

var everyChoices = []int64{10 * sec, 7 * sec, sec, 1500 * ms, 60 * sec, 13 * 60 * sec, 3600 * sec, 24 * 3600 * sec, 7 * 24 * 3600 * sec, 250 * ms, 777 * us, 11 * sec}

func genTick(r *kit.Rand, i int) string {
	every := kit.Pick(r, everyChoices)
	base := time.Unix(kit.Pick(r, anchors), 0).Truncate(time.Duration(every)).UnixNano()
	var phase int64
	switch i % 8 {
	case 0:
		phase = 0
	case 1:
		phase = 1
	case 2:
		phase = every/2 - 1
	case 3:
		phase = every / 2
	case 4:
		phase = every/2 + 1
	case 5:
		phase = every - 1
	case 6:
		phase = (every + 1) / 2
	default:
		phase = int64(r.U64() % uint64(every))
	}
	al := 1
	if i%5 == 4 {
		al = 0
	}
	return fmt.Sprintf("tick %d %d %d", every, al, base+phase)
}

func i64s(xs []int64) string {
	if len(xs) == 0 {
		return "-"
	}
	var s []string
	for _, x := range xs {
		s = append(s, strconv.FormatInt(x, 10))
	}
	return strings.Join(s, ",")
}

func floorDiv(a, b int64) int64 {
	q := a / b
	if a%b != 0 && (a < 0) != (b < 0) {
		q--
	}
	return q
}

var schedToks = []string{"-", "A1", "A1,or,A2", "A1,and,A3,or,A2", "lp,A1,or,A2,rp,and,A3", "A3"}

// genSchedNow: a span placed relative to the wall clock, so that the `now` cut-off of Queries (and
// `stop.IsZero() => stop = now`) is exercised; only unaligned every() is translation invariant. Every
// decision point is at least 2 s away from `now`.
func genSchedNow(r *kit.Rand) string {
	every := kit.Pick(r, []int64{10 * sec, 60 * sec})
	k := int64(2 + r.Intn(3))
	var off, rel int64
	switch r.Intn(3) {
	case 0:
		off, rel = 0, k*every+every/2
	case 1:
		off, rel = -4*sec, k*every+2*sec // tick k*every: stop = tick+4s is after now, the tick itself is not
	default:
		off, rel = 5*sec, k*every-3*sec // tick k*every: stop = tick-5s is before now, the tick itself is not
	}
	stopS := "z"
	bound := rel
	switch r.Intn(3) {
	case 0:
		bound = (k + 2) * every
		stopS = strconv.FormatInt(bound, 10)
	case 1:
		bound = (k-1)*every + int64(r.U64()%uint64(every))
		stopS = strconv.FormatInt(bound, 10)
	}
	var ticks []int64
	for t := every; t <= bound; t += every {
		ticks = append(ticks, t)
	}
	per := kit.Pick(r, []int64{every, 3 * sec})
	return fmt.Sprintf("sched toks=%s per=%d off=%d ev=%d al=0 cron=0 gb=0 gbo=0 ag=0 fill=- tags=0 pt=%s decl=db.rp from=db.rp start=0 stop=%s lt=1 rel=%d ticks=%s",
		schedToks[r.Intn(len(schedToks))], per, off, every, kit.Pick(r, []string{"-", "5000000000"}), stopS, rel, i64s(ticks))
}

// fires2001: the firing times of the cron schedule `0 0 0 1 * * 2001` (first of every month of 2001, UTC),
// computed with the standard library, not with cronexpr.
func fires2001(tz int64) []int64 {
	var out []int64
	for m := time.January; m <= time.December; m++ {
		out = append(out, time.Date(2001, m, 1, 0, 0, 0, 0, time.FixedZone("z", int(tz))).UnixNano())
	}
	return out
}

// zones: seconds east of UTC the host's clock is set to for one op (whole hours east and west, half and
// three-quarter hours, a zone whose calendar day differs from UTC's for half the day, and UTC itself).
var zones = []int64{18000, -12600, 0, 20700, -28800, 46800, -3600, 34200}

// genSchedCronEnding: a cron schedule with a year field ends; cronexpr.Next then answers the zero time and
// Queries must stop (`current.IsZero()`), wherever the span lies relative to the schedule's end.
func genSchedCronEnding(r *kit.Rand) string {
	tz := kit.Pick(r, zones) // midnight of the first of the month ON THE HOST'S CLOCK
	fires := fires2001(tz)
	day := int64(86400) * sec
	var start int64
	switch r.Intn(5) {
	case 0:
		start = fires[0] - int64(1+r.Intn(40))*day // before the first firing
	case 1:
		start = fires[r.Intn(12)] // exactly on a firing: that one is not in the span
	case 2:
		start = fires[9] + int64(r.Intn(20))*day // October: two firings left
	case 3:
		start = fires[11] + int64(r.Intn(3))*day // after the last firing: nothing
	default:
		start = fires[r.Intn(12)] + int64(r.U64()%uint64(20*day))
	}
	var stop int64
	switch r.Intn(4) {
	case 0:
		stop = fires[11] // ends exactly on the last firing
	case 1:
		stop = fires[11] + int64(1+r.Intn(500))*day // the schedule ends before the span does
	case 2:
		stop = fires[11] - 1
	default:
		stop = start + int64(r.Intn(200))*day
	}
	if stop < start {
		stop = start
	}
	var ticks []int64
	for _, f := range fires {
		if f > start && f <= stop {
			ticks = append(ticks, f)
		}
	}
	per := kit.Pick(r, []int64{day, 3600 * sec, 0})
	off := kit.Pick(r, []int64{0, 0, 3600 * sec, -60 * sec})
	return fmt.Sprintf("sched toks=%s per=%d off=%d ev=0 al=0 cron=-1 gb=0 gbo=0 ag=0 fill=%s tags=%s pt=%s decl=db.rp from=db.rp start=%d stop=%d lt=1 tz=%d fires=%s ticks=%s",
		schedToks[r.Intn(len(schedToks))], per, off, kit.Pick(r, fills), kit.Pick(r, []string{"0", "1", "2"}), kit.Pick(r, pts), start, stop, tz, i64s(fires), i64s(ticks))
}

// genSchedCronZone: a cron() that names hours, minutes and seconds (`cz=`), on a host whose clock is `tz` seconds
// east of UTC. cron() speaks of the host's clock: the firing times are the instants at which that clock shows one of
// the named times of day. Starts exactly on / 1 ns before / 1 ns after a firing, at the host's and at UTC's midnight,
// anywhere; spans of 0..4 firings ending on / 1 ns before / after a firing.
func genSchedCronZone(r *kit.Rand) string {
	tz := kit.Pick(r, zones)
	day := int64(86400) * sec
	hours := kit.Pick(r, [][]int64{{9}, {0}, {23}, {3, 15}, {0, 6, 12, 18}, {5, 6}})
	mins := kit.Pick(r, [][]int64{{0}, {0}, {30}, {15, 45}, {59}})
	secs := kit.Pick(r, [][]int64{{0}, {0}, {0, 30}, {7}})
	var tod []int64 // ascending: hours, minutes, seconds are
	for _, h := range hours {
		for _, m := range mins {
			for _, s := range secs {
				tod = append(tod, (h*3600+m*60+s)*sec)
			}
		}
	}
	// first firing after t: the host's clock reads t+tz
	next := func(t int64) int64 {
		l := t + tz*sec
		d, rem := floorDiv(l, day), l-floorDiv(l, day)*day
		for _, x := range tod {
			if rem < x {
				return d*day + x - tz*sec
			}
		}
		return (d+1)*day + tod[0] - tz*sec
	}
	anchor := kit.Pick(r, []int64{1500000000, 1000000000, 1600000000, 86400 * 365})
	t := anchor*sec + int64(r.U64()%uint64(3*day))
	var start int64
	switch r.Intn(7) {
	case 0:
		start = next(t) // on a firing: that one is not in the span
	case 1:
		start = next(t) - 1
	case 2:
		start = next(t) + 1
	case 3:
		start = floorDiv(t, day) * day // UTC midnight
	case 4:
		start = floorDiv(t+tz*sec, day)*day - tz*sec // the host's midnight
	default:
		start = t
	}
	nt := r.Intn(5)
	cur := start
	for k := 0; k < nt; k++ {
		cur = next(cur)
	}
	var stop int64
	switch r.Intn(4) {
	case 0:
		stop = cur // on the last firing (or the start)
	case 1:
		stop = next(cur) - 1
	case 2:
		stop = cur + 1
	default:
		stop = cur + int64(r.U64()%uint64(next(cur)-cur))
	}
	// the live ticks of a task started at `start`, up to `stop`
	var ticks []int64
	for c := next(start); c <= stop && len(ticks) < 12; c = next(c) {
		ticks = append(ticks, c)
	}
	per := kit.Pick(r, []int64{3600 * sec, day, 60 * sec, 0})
	off := kit.Pick(r, []int64{0, 0, 0, 60 * sec, -2 * sec, per + sec})
	j := func(xs []int64) string {
		var p []string
		for _, x := range xs {
			p = append(p, strconv.FormatInt(x, 10))
		}
		return strings.Join(p, "+")
	}
	return fmt.Sprintf("sched toks=%s per=%d off=%d ev=0 al=0 cron=-2 gb=0 gbo=0 ag=0 fill=%s tags=0 pt=%s decl=db.rp from=db.rp start=%d stop=%d lt=1 tz=%d cz=%s;%s;%s ticks=%s",
		schedToks[r.Intn(len(schedToks))], per, off, kit.Pick(r, fills), kit.Pick(r, pts), start, stop, tz, j(hours), j(mins), j(secs), i64s(ticks))
}

var fills = []string{"-", "-", "0", "null", "none", "previous", "linear"}
var pts = []string{"-", "5000000000", "1500000000000000001"}

func genSched(r *kit.Rand, i int) string {
	mode := i % 13
	if mode == 12 {
		return genSchedCronZone(r)
	}
	if mode == 10 {
		return genSchedNow(r)
	}
	if mode == 11 {
		return genSchedCronEnding(r)
	}
	every := kit.Pick(r, everyChoices)
	if every < ms {
		every = 250 * ms
	}
	al := 0
	var cron int64
	anchor := kit.Pick(r, anchors)
	if r.Chance(1, 12) {
		anchor = 4102444800 // year 2100: after `now`
	}
	base := time.Unix(anchor, 0).Truncate(time.Duration(every)).UnixNano()
	phase := int64(r.U64() % uint64(every))
	switch mode {
	case 1:
		al, phase = 1, 0
	case 2:
		al, phase = 1, 1+int64(r.U64()%uint64(every/2-1))
	case 3:
		al, phase = 1, (every+1)/2
	case 4:
		al, phase = 1, every/2+1+int64(r.U64()%uint64(every/2-1))
	case 5:
		cron = kit.Pick(r, []int64{1, 2, 3, 5, 10, 15, 20, 30, 60, 120, 300, 900})
		every = cron * sec
		if anchor < 0 {
			anchor = 1500000000
		}
		base = floorDiv(anchor*sec, every) * every
		phase = kit.Pick(r, []int64{0, 1, every / 2, every - 1, int64(r.U64() % uint64(every))})
	case 6:
		al = r.Intn(2)
	}
	start := base + phase
	nt := int64(r.Intn(7))
	var span int64
	switch r.Intn(6) {
	case 0:
		span = nt * every
	case 1:
		span = nt*every - 1
	case 2:
		span = nt*every + 1
	case 3:
		span = nt*every + (every - phase) // lands exactly on an aligned tick when phase is the phase of start
	case 4:
		span = nt*every + (every - phase) - 1
	default:
		span = nt*every + int64(r.U64()%uint64(every))
	}
	if span < 0 {
		span = 0
	}
	stop := start + span
	per := kit.Pick(r, []int64{every, every, 0, 3 * every, every/2 + us, 1 * sec})
	off := kit.Pick(r, []int64{0, 0, 0, sec, per + sec, 250 * ms, -2 * sec})
	var gb, gbo int64
	ag := 0
	if mode == 6 || r.Chance(1, 4) {
		gb = kit.Pick(r, []int64{4 * sec, 7 * sec, 60 * sec, 1500 * ms, every})
		if r.Chance(1, 3) {
			gbo = kit.Pick(r, []int64{sec, 250 * ms})
		}
		if mode == 6 || r.Bool() {
			ag = 1
		}
	} else if r.Chance(1, 10) {
		ag = 1 // alignGroup without a time dimension
	}
	fill := kit.Pick(r, fills)
	tags := kit.Pick(r, []string{"0", "0", "1", "2"})
	toks := schedToks[r.Intn(len(schedToks))]
	decl, from := "db.rp", "db.rp"
	if mode == 7 {
		decl = kit.Pick(r, []string{"db.rp", "db.rp,db2.rp2", "db2.rp2,db.rp"})
		from = kit.Pick(r, []string{"db.rp", "db.rpx", "dbx.rp", "rp.db", "db.rp,db2.rp2", "db.rp/db2.rp2", "db.rp/dbx.rp", "dbx.rp/db.rp",
			"db.rp,dbx.rp", "db2.rp2", "db.rp2", "db.rp/db.rp/db2.rp"})
	}
	// the live ticks of a task started at `start`, up to `stop`
	var ticks []int64
	var first int64
	switch {
	case cron != 0:
		first = (floorDiv(start, every) + 1) * every
	case al == 1:
		first = time.Unix(0, start).Truncate(time.Duration(every)).Add(time.Duration(every)).UnixNano()
	default:
		first = start + every
	}
	for t := first; t <= stop && len(ticks) < 12; t += every {
		ticks = append(ticks, t)
	}
	lt := 1
	gbz := 0
	if mode == 8 {
		// arbitrary tick times (not a schedule): range per tick and history independence only
		lt = 0
		ticks = nil
		for k := 0; k < 1+r.Intn(5); k++ {
			ticks = append(ticks, start+int64(r.U64()%uint64(10*every))-3*every)
		}
		if r.Bool() && len(ticks) > 1 {
			ticks[len(ticks)-1] = ticks[0]
		}
	}
	ev := every
	if cron != 0 {
		ev = 0
	}
	if mode == 9 {
		// schedule selection errors
		switch r.Intn(5) {
		case 0:
			ev, cron = 0, 0
		case 1:
			ev, cron = every, 5
		case 2:
			ev, cron = -every, 0
		case 3:
			gbz = 1 // groupBy(time(0s)): refused (with alignGroup it used to divide by zero at the first tick)
			gb, ag = 0, r.Intn(2)
		default:
			gb, ag = -4*sec, r.Intn(2) // a negative time dimension
		}
		if gbz == 0 && gb >= 0 {
			ticks, lt = nil, 0
		}
	}
	return fmt.Sprintf("sched toks=%s per=%d off=%d ev=%d al=%d cron=%d gb=%d gbo=%d ag=%d gbz=%d fill=%s tags=%s pt=%s decl=%s from=%s start=%d stop=%d lt=%d ticks=%s",
		toks, per, off, ev, al, cron, gb, gbo, ag, gbz, fill, tags, kit.Pick(r, pts), decl, from, start, stop, lt, i64s(ticks))
}

func genDims(r *kit.Rand, i int) string {
	l := []int64{0, 4 * sec, -4 * sec, 7 * sec, 1500 * ms, 60 * sec, 0, 1}[i%8]
	o := kit.Pick(r, []int64{0, 0, sec, 250 * ms})
	s := kit.Pick(r, anchors)*sec + int64(r.U64()%uint64(100*sec))
	return fmt.Sprintf("dims %d %d %d %d", l, o, (i/8)%2, s)
}

func generate(out *kit.Out, f kit.Flags) {
	r := kit.NewRand(f.Seed)
	var nSplice, nTick, nSched, nDims int // each kind cycles through its own directed shapes
	for i := 0; i < f.N; i++ {
		id := fmt.Sprintf("g%d", i)
		switch {
		case i%10 < 5:
			emit(out, id, []string{genSplice(r.Fork(), nSplice)})
			nSplice++
		case i%10 < 7:
			var ls []string
			for k := 0; k < 8; k++ {
				ls = append(ls, genTick(r.Fork(), nTick))
				nTick++
			}
			if nTick%32 == 0 {
				ls = nil
				for k := 0; k < 8; k++ {
					ls = append(ls, genDims(r.Fork(), nDims))
					nDims++
				}
			}
			emit(out, id, ls)
		default:
			emit(out, id, []string{genSched(r.Fork(), nSched)})
			nSched++
		}
	}
	nreal := 2
	if f.Tier == "thorough" {
		nreal = 5
	}
	for k := 0; k < nreal; k++ {
		emit(out, fmt.Sprintf("real%d", k), []string{fmt.Sprintf("livereal %d 3", kit.Pick(r, []int{100, 120, 150}))})
	}
	// the real cron ticker on hosts in other zones than UTC: one second of wall clock per case
	liveZones := []int64{18000, -12600, 46800, 0}
	if f.Tier == "thorough" {
		liveZones = zones
	}
	for k, tz := range liveZones {
		shapes := "es,lh,uh,lhm,uhm,ld,ud,lw,uw,end"
		if k%2 == 1 {
			shapes = "s2,end,uh,lh,uhm,lhm,ud,ld,uw,lw"
		}
		emit(out, fmt.Sprintf("cronlive%d", k), []string{fmt.Sprintf("cronlive tz=%d shapes=%s per=%d from=500000000 to=1500000000", tz, shapes, kit.Pick(r, []int64{sec, 3 * sec}))})
	}
}
