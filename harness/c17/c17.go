// Package c17 is the harness for property C17 (runs the real kapacitor code, prints op lines).
package c17

import (
	"fmt"
	"os"
)

// Run is replaced by the property's harness.
func Run(args []string) int {
	fmt.Fprintln(os.Stderr, "c17: harness not implemented yet")
	return 3
}
