// Package c17 is the harness for property C17: it drives the REAL scheduler.TreeScheduler
// (task/backend/scheduler/treescheduler.go) in-process with
//   - the benbjohnson mock clock (moved only while the scheduler mutex is held, the recipe of
//     scheduler_test.go, so that the mock's timer stepping cannot race with the main loop),
//   - a recording Executor whose every Execute call blocks on a gate until a `done` op releases it
//     with a chosen outcome (ok / error / panic),
//   - a recording SchedulableService (checkpointer) with controllable failure,
//
// and prints, per op, what the implementation did: the new executor / checkpoint / error events and a
// lock-consistent snapshot of the scheduler's bookkeeping (queue, uniqueness index, s.when, pending tick)
// taken through the add-only hook verif_hooks_c17.go after the system has become quiescent.
//
// Op lines (input part):
//
//	cfg <workers>
//	sched <id> <sc> <off> <last> cron=<esc> [frac=<ms>] [wk=<w> tbl=<o1,o2,..,!|~>]   (wk/tbl are oracles, always recomputed;
//	                                       the offset is <off> s + <frac> ms, printed split as the code truncates it)
//	rel <id>
//	adv <d>
//	done <id> <ok|err|panic> <cpok|cperr>
//
// Observation: `<status> q=<when:id:next:off,..> ix=<id:when,..> w=<s.when in ms|z> tick=<0|1> ev=<events>`.
package c17

import (
	"context"
	"encoding/binary"
	"errors"
	"fmt"
	"os"
	"reflect"
	"runtime"
	"sort"
	"strconv"
	"strings"
	"sync"
	"sync/atomic"
	"time"

	"github.com/benbjohnson/clock"
	"github.com/cespare/xxhash"
	"github.com/influxdata/kapacitor/task/backend/scheduler"

	"verifharness/kit"
)

const (
	tblMax = 48 // occurrences listed per schedule table
	// hardDeadline bounds every wait of the harness. No verdict depends on it: quiescence, "the call returned" and
	// "the call is blocked for good" are all DEFINITE conditions read off the goroutine states (see settle and
	// guarded); a wait that outlasts the deadline ends the case as a harness error (status `harnesserr`, which the
	// driver reports as BADOP = check error, never as a violation).
	hardDeadline = 120 * time.Second
)

// pause sleeps between two polls of a definite condition (a poll interval, not a time-out): 20µs doubling to 1ms.
type pause struct{ d time.Duration }

func (p *pause) sleep() {
	if p.d == 0 {
		p.d = 20 * time.Microsecond
		runtime.Gosched() // the first poll only yields: what is waited for is usually a runnable goroutine
		return
	}
	time.Sleep(p.d)
	if p.d < time.Millisecond {
		p.d *= 2
	}
}

// wait is sleep, cut short by a recorded event.
func (p *pause) wait(sig <-chan struct{}) {
	if p.d == 0 {
		p.sleep()
		return
	}
	tm := time.NewTimer(p.d)
	select {
	case <-sig:
	case <-tm.C:
	}
	tm.Stop()
	if p.d < time.Millisecond {
		p.d *= 2
	}
}

// ---- clock wrapper: counts the scheduler's reads of its clock (used only to detect a spinning main loop) ----

type hclock struct {
	*clock.Mock
	reads int64
}

func (c *hclock) Now() time.Time { atomic.AddInt64(&c.reads, 1); return c.Mock.Now() }

// timerDue peeks (reflection, read only) into the mock: is a timer armed at or before the mock's current time, i.e.
// would Add(0) fire anything? Moving the mock clock costs real sleeps inside the mock (its `gosched`), several ms each
// on a loaded machine, so the harness only kicks when there is something to fire. Called under the scheduler mutex
// (the scheduler touches its timer only under that mutex, and nobody else uses this mock). Anything unexpected in the
// mock's or time.Time's layout gives known=false, and the caller kicks unconditionally as before.
func (c *hclock) timerDue() (due, known bool) {
	defer func() {
		if recover() != nil {
			due, known = false, false
		}
	}()
	v := reflect.ValueOf(c.Mock).Elem().FieldByName("timers")
	if !v.IsValid() || v.Kind() != reflect.Slice {
		return false, false
	}
	now := c.Mock.Now()
	nowSec, nowNsec := now.Unix()+62135596800, int64(now.Nanosecond()) // seconds since year 1, as time.Time.ext
	for i := 0; i < v.Len(); i++ {
		e := v.Index(i)
		for e.Kind() == reflect.Interface || e.Kind() == reflect.Ptr {
			e = e.Elem()
		}
		if e.Kind() != reflect.Struct {
			return false, false
		}
		nx := e.FieldByName("next")
		if !nx.IsValid() || nx.Kind() != reflect.Struct {
			return false, false
		}
		wall, ext := nx.FieldByName("wall"), nx.FieldByName("ext")
		if !wall.IsValid() || !ext.IsValid() || wall.Kind() != reflect.Uint64 || ext.Kind() != reflect.Int64 {
			return false, false
		}
		w := wall.Uint()
		if w>>63 != 0 { // a monotonic reading: not a mock time
			return false, false
		}
		sec, nsec := ext.Int(), int64(w&(1<<30-1))
		if sec < nowSec || (sec == nowSec && nsec <= nowNsec) {
			return true, true
		}
	}
	return false, true
}

// ---- schedulable ----

type schedulable struct {
	id   scheduler.ID
	s    scheduler.Schedule
	off  time.Duration
	last time.Time
}

func (s schedulable) ID() scheduler.ID             { return s.id }
func (s schedulable) Schedule() scheduler.Schedule { return s.s }
func (s schedulable) Offset() time.Duration        { return s.off }
func (s schedulable) LastScheduled() time.Time     { return s.last }

// ---- recorder: executor + checkpointer + error func ----

type execRec struct {
	id   scheduler.ID
	next int64
	gate chan string
}

type rec struct {
	mu       sync.Mutex
	mc       *hclock
	events   []string // events since the last op, arrival order
	inflight map[scheduler.ID]*execRec
	cpFail   map[scheduler.ID]bool
	starts   map[scheduler.ID]int // exec starts per id since the case began
	ckpts    int
	draining bool
	sig      chan struct{} // poked (non-blocking) whenever an event is recorded: wakes a waiting settle at once
}

func (r *rec) poke() {
	select {
	case r.sig <- struct{}{}:
	default:
	}
}

func (r *rec) Execute(ctx context.Context, id scheduler.ID, scheduledFor time.Time, runAt time.Time) error {
	r.mu.Lock()
	now := r.mc.Mock.Now().Unix()
	if _, dup := r.inflight[id]; dup {
		r.events = append(r.events, fmt.Sprintf("o:%d:%d", id, scheduledFor.Unix())) // overlapping execution
	}
	r.events = append(r.events, fmt.Sprintf("s:%d:%d:%d:%d", id, scheduledFor.Unix(), runAt.Unix(), now))
	r.starts[id]++
	r.poke()
	if r.draining {
		r.mu.Unlock()
		return nil
	}
	er := &execRec{id: id, next: scheduledFor.Unix(), gate: make(chan string, 1)}
	r.inflight[id] = er
	r.mu.Unlock()
	res := <-er.gate
	r.mu.Lock()
	if r.inflight[id] == er {
		delete(r.inflight, id)
	}
	r.events = append(r.events, fmt.Sprintf("f:%d:%d", id, er.next))
	r.mu.Unlock()
	switch res {
	case "err":
		return errors.New("run failed")
	case "panic":
		panic("executor panic")
	}
	return nil
}

func (r *rec) UpdateLastScheduled(ctx context.Context, id scheduler.ID, t time.Time) error {
	r.mu.Lock()
	defer r.mu.Unlock()
	r.events = append(r.events, fmt.Sprintf("c:%d:%d", id, t.Unix()))
	r.ckpts++
	r.poke()
	if r.cpFail[id] {
		r.cpFail[id] = false
		return errors.New("checkpoint failed")
	}
	return nil
}

func (r *rec) onErr(ctx context.Context, id scheduler.ID, scheduledFor time.Time, err error) {
	r.mu.Lock()
	defer r.mu.Unlock()
	r.events = append(r.events, fmt.Sprintf("e:%d", id))
}

// ---- one case ----

type hcase struct {
	s        *scheduler.TreeScheduler
	mc       *hclock
	r        *rec
	workers  int
	dead     bool         // the scheduler stopped answering; every further op is reported `dead`
	herr     bool         // a wait of the harness outlasted hardDeadline: the case is void (harness error)
	gids     map[int]bool // goroutines of this scheduler instance
	co       coordState   // the real coordinator in front of the scheduler (coord_real.go), when it can be linked
	lastTick bool         // the last settled snapshot had a tick stuck behind a spinning loop
	nsched   int
}

func workerOf(id scheduler.ID, workers int) int {
	buf := [8]byte{}
	binary.LittleEndian.PutUint64(buf[:], uint64(id))
	return int(xxhash.Sum64(buf[:]) % uint64(workers))
}

func newCase(workers int) (*hcase, error) {
	mc := &hclock{Mock: clock.NewMock()}
	r := &rec{mc: mc, inflight: map[scheduler.ID]*execRec{}, cpFail: map[scheduler.ID]bool{}, starts: map[scheduler.ID]int{}, sig: make(chan struct{}, 1)}
	before := goroutineBlocks()
	s, _, err := scheduler.NewScheduler(r, r, scheduler.WithTime(mc), scheduler.WithMaxConcurrentWorkers(workers), scheduler.WithOnErrorFn(r.onErr))
	if err != nil {
		return nil, err
	}
	gids := map[int]bool{}
	for id, b := range goroutineBlocks() {
		if _, old := before[id]; !old && strings.Contains(b, "task/backend/scheduler.") {
			gids[id] = true
		}
	}
	return &hcase{s: s, mc: mc, r: r, workers: workers, gids: gids, co: newCoordState(s)}, nil
}

// table lists the occurrences of a schedule after `last` (the oracle the model is parameterised by).
func table(sc scheduler.Schedule, last int64) (occ []int64, ended bool) {
	t := time.Unix(last, 0).UTC()
	for len(occ) < tblMax {
		n, err := sc.Next(t)
		if err != nil {
			return occ, true
		}
		occ = append(occ, n.UTC().Unix())
		t = time.Unix(n.UTC().Unix(), 0).UTC()
	}
	return occ, false
}

func renderTable(occ []int64, ended bool) string {
	var p []string
	for _, o := range occ {
		p = append(p, strconv.FormatInt(o, 10))
	}
	if ended {
		p = append(p, "!")
	} else {
		p = append(p, "~")
	}
	return strings.Join(p, ",")
}

func list(xs []string) string {
	if len(xs) == 0 {
		return "-"
	}
	return strings.Join(xs, ",")
}

// ---- goroutine states (runtime.Stack): is the main loop parked at its select, are the workers parked? ----

type gstate struct {
	loopFound, loopParked  bool
	loopStuck              bool // blocked somewhere else than at its outer select (inside process(): holding the mutex)
	workers, workersParked int
}

func goroutineBlocks() map[int]string {
	buf := make([]byte, 1<<19)
	n := runtime.Stack(buf, true)
	out := map[int]string{}
	for _, b := range strings.Split(string(buf[:n]), "\n\n") {
		if !strings.HasPrefix(b, "goroutine ") {
			continue
		}
		sp := strings.IndexByte(b[10:], ' ')
		if sp < 0 {
			continue
		}
		id, err := strconv.Atoi(b[10 : 10+sp])
		if err != nil {
			continue
		}
		out[id] = b
	}
	return out
}

func headerState(block string) string {
	i := strings.IndexByte(block, '[')
	j := strings.IndexAny(block, ",]")
	if i < 0 || j < i {
		return ""
	}
	return block[i+1 : j]
}

// gstates looks at the goroutines of THIS scheduler instance (recorded at creation).
func (h *hcase) gstates() (g gstate) {
	for id, b := range goroutineBlocks() {
		if !h.gids[id] {
			continue
		}
		st := headerState(b)
		switch {
		case strings.Contains(b, "scheduler.NewScheduler.func"):
			g.loopFound = true
			// parked = blocked in the OUTER select (not inside process() / iterator(), whose select has a default
			// in the code as it is, but must not be mistaken for the outer one when a change makes it block)
			g.loopParked = st == "select" && !strings.Contains(b, ".process(") && !strings.Contains(b, ".iterator.")
			g.loopStuck = blockedState[st] && !g.loopParked
		case strings.Contains(b, ".(*TreeScheduler).work"):
			g.workers++
			if st == "chan receive" {
				g.workersParked++ // idle (receiving from its work channel) or inside a gated Execute
			}
		}
	}
	return g
}

// ---- calls into the scheduler: returned, or blocked for good (a definite condition), or harness error ----

// blockedState: goroutine wait reasons that only another goroutine (or the harness) can end. `sleep`, `runnable`,
// `running`, `syscall`, GC states etc. are NOT in the list: such a goroutine will move by itself.
var blockedState = map[string]bool{
	"chan receive": true, "chan send": true, "select": true, "select (no cases)": true,
	"chan receive (nil chan)": true, "chan send (nil chan)": true,
	"sync.Mutex.Lock": true, "sync.RWMutex.Lock": true, "sync.RWMutex.RLock": true, "semacquire": true,
	"sync.Cond.Wait": true, "sync.WaitGroup.Wait": true,
}

func curGID() int {
	buf := make([]byte, 64)
	n := runtime.Stack(buf, false)
	f := strings.Fields(string(buf[:n]))
	if len(f) >= 2 {
		id, _ := strconv.Atoi(f[1])
		return id
	}
	return -1
}

// allBlocked: in one stop-the-world sample the calling goroutine `gid`, the main loop and every worker of this
// scheduler instance are blocked. Nothing but these goroutines and the (waiting) harness can act on the scheduler
// (mock timers fire only when the harness moves the clock), so this state lasts for ever: the call never returns.
func (h *hcase) allBlocked(gid int) bool {
	blocks := goroutineBlocks()
	b, ok := blocks[gid]
	if !ok || !blockedState[headerState(b)] {
		return false
	}
	for id := range h.gids {
		if b, ok := blocks[id]; ok && !blockedState[headerState(b)] {
			return false
		}
	}
	return true
}

type callOutcome int

const (
	callReturned   callOutcome = iota
	callBlocked                // deadlock: caller, main loop and all workers blocked (the property's "returns promptly" fails)
	callHarnessErr             // neither returned nor provably blocked within hardDeadline
)

// guarded runs f on its own goroutine and waits until it RETURNED or is BLOCKED FOR GOOD. There is no time-out that
// decides anything: a slow machine only makes the wait longer.
func (h *hcase) guarded(f func() error) (error, callOutcome) {
	ch := make(chan error, 1)
	gidc := make(chan int, 1)
	go func() { gidc <- curGID(); ch <- f() }()
	gid := <-gidc
	start := time.Now()
	stable := 0
	lastReads := int64(-1)
	// woken by the return of f itself; the timer only paces the samples of the goroutine states
	tm := time.NewTimer(3 * time.Millisecond)
	defer tm.Stop()
	for {
		select {
		case e := <-ch:
			return e, callReturned
		case <-tm.C:
			tm.Reset(3 * time.Millisecond)
		}
		reads := atomic.LoadInt64(&h.mc.reads)
		if h.allBlocked(gid) && (stable == 0 || reads == lastReads) {
			stable++
		} else {
			stable = 0
		}
		lastReads = reads
		if stable >= 3 {
			select {
			case e := <-ch:
				return e, callReturned
			default:
			}
			h.dead = true
			return nil, callBlocked
		}
		if time.Since(start) > hardDeadline {
			h.dead, h.herr = true, true
			return nil, callHarnessErr
		}
	}
}

// state takes the lock-consistent snapshot: if the scheduler mutex is held forever (a main loop blocked inside
// process()), Schedule and Release would block as well - the case is reported as `blocked`.
func (h *hcase) state() (scheduler.VerifSnapshot, bool) {
	if h.dead {
		return scheduler.VerifSnapshot{}, false
	}
	var snap scheduler.VerifSnapshot
	_, oc := h.guarded(func() error { snap = h.s.VerifState(); return nil })
	if oc != callReturned {
		return scheduler.VerifSnapshot{}, false
	}
	return snap, true
}

// settle drives the system to quiescence and returns the snapshot, or ok=false when the scheduler is blocked for
// good / the hard deadline passed (h.dead, h.herr).
// Each round "kicks" the mock clock (Add(0) under the scheduler mutex) unless a tick is already pending (hook
// VerifKick: test and move under ONE lock acquisition): a mock timer armed at or before `now` only fires when the
// clock is moved, a real timer fires by itself.
// Quiescent is a DEFINITE condition, read off stop-the-world samples of the goroutine states (runtime.Stack):
// the checkpoints the op must cause have been written, every worker goroutine is blocked in a channel receive (idle at
// its work channel, or inside a gated Execute: its start event is then recorded), and the main loop is EITHER
//
//	(A) blocked at its outer select in the same sample, no tick was or is pending: every goroutine that can act on the
//	    scheduler is blocked, ticks come only from the harness moving the clock - nothing moves until the next op; OR
//	(B) spinning in its inner loop without effect: all workers blocked in a first sample, then at least two COMPLETE
//	    passes of the loop (counted by the loop's reads of the clock, three per pass), then all workers blocked and the
//	    loop still not parked in a second sample. Without a `done` op the set of idle workers can only shrink, so the
//	    first complete pass after the first sample dispatched everything that can be dispatched (and the dispatched
//	    runs have reached their gate: the workers are blocked again).
//
// Events are attributed to ops by causality: the events of an op are those recorded before its quiescence is
// established; between that moment and the next op nothing can happen. No elapsed time decides anything; the sleeps
// are poll intervals.
func (h *hcase) settle(wantCkpts int) (snap scheduler.VerifSnapshot, ok bool) {
	start := time.Now()
	var p pause
	for {
		if h.dead {
			return scheduler.VerifSnapshot{}, false
		}
		if time.Since(start) > hardDeadline {
			h.dead, h.herr = true, true
			return scheduler.VerifSnapshot{}, false
		}
		tickBefore := false
		if _, oc := h.guarded(func() error {
			tickBefore = h.s.VerifKick(func() {
				if due, known := h.mc.timerDue(); due || !known {
					h.mc.Mock.Add(0)
				}
			})
			return nil
		}); oc != callReturned {
			return scheduler.VerifSnapshot{}, false
		}
		h.r.mu.Lock()
		ck := h.r.ckpts
		h.r.mu.Unlock()
		if ck < wantCkpts {
			p.wait(h.r.sig)
			continue
		}
		g1 := h.gstates()
		r0 := atomic.LoadInt64(&h.mc.reads)
		if !g1.loopFound || g1.workers != h.workers || g1.workersParked != g1.workers {
			p.sleep()
			continue
		}
		if g1.loopParked {
			b, alive := h.state()
			if !alive {
				return b, false
			}
			if !tickBefore && !b.TickPending && atomic.LoadInt64(&h.mc.reads) == r0 {
				return b, true
			}
			p.sleep()
			continue
		}
		// the loop is running: wait for two complete passes, or until it has parked (the next round judges that)
		var q pause
		stuck := false
		for n := 1; atomic.LoadInt64(&h.mc.reads) < r0+8 && time.Since(start) <= hardDeadline; n++ {
			q.sleep()
			if n%8 == 0 {
				g := h.gstates()
				if g.loopParked {
					break
				}
				if g.loopStuck && g.workersParked == g.workers {
					// the loop itself is blocked inside its locked region and no worker can move: taking the snapshot
					// will either succeed or be recognised as blocked for good (guarded)
					stuck = true
					break
				}
			}
		}
		if atomic.LoadInt64(&h.mc.reads) < r0+8 {
			if stuck {
				if b, alive := h.state(); !alive {
					return b, false
				}
			}
			continue
		}
		g2 := h.gstates()
		b, alive := h.state()
		if !alive {
			return b, false
		}
		if g2.loopFound && !g2.loopParked && g2.workers == h.workers && g2.workersParked == g2.workers && tickBefore == b.TickPending {
			// spinning without effect; a pending tick stays pending behind the spinning loop
			return b, true
		}
	}
}

func (h *hcase) takeEvents() []string {
	h.r.mu.Lock()
	ev := h.r.events
	h.r.events = nil
	h.r.mu.Unlock()
	// canonical order: stable by task id (per id the order is the real order; across ids it is scheduling noise)
	idOf := func(e string) int64 {
		p := strings.Split(e, ":")
		v, _ := strconv.ParseInt(p[1], 10, 64)
		return v
	}
	sort.SliceStable(ev, func(i, j int) bool { return idOf(ev[i]) < idOf(ev[j]) })
	return ev
}

func (h *hcase) observe(status string, wantCkpts int) string {
	snap, _ := h.settle(wantCkpts)
	if h.dead {
		status = "blocked"
	}
	if h.herr {
		status = "harnesserr"
	}
	var q, ix []string
	for _, it := range snap.Queue {
		q = append(q, fmt.Sprintf("%d:%d:%d:%d", it.When, it.ID, it.Next, it.Offset))
	}
	var ids []int
	for id := range snap.Index {
		ids = append(ids, int(id))
	}
	sort.Ints(ids)
	for _, id := range ids {
		ix = append(ix, fmt.Sprintf("%d:%d", id, snap.Index[scheduler.ID(id)]))
	}
	w := "z"
	if !snap.When.IsZero() {
		w = strconv.FormatInt(snap.When.UnixMilli(), 10)
	}
	tick := "0"
	h.lastTick = snap.TickPending
	if snap.TickPending {
		tick = "1"
	}
	return fmt.Sprintf("%s q=%s ix=%s w=%s tick=%s ev=%s", status, list(q), list(ix), w, tick, list(h.takeEvents()))
}

// stuck is the status of an op whose call did not return: `blocked` (provably for good) or `harnesserr`.
func (h *hcase) stuck() string {
	if h.herr {
		return "harnesserr"
	}
	return "blocked"
}

// doOp executes one op line and returns the line (oracle tokens refreshed) with its observation.
func (h *hcase) doOp(t []string) (string, bool) {
	if h.dead {
		return strings.Join(t, " ") + " => dead", true
	}
	atoi := func(s string) int64 { v, _ := strconv.ParseInt(s, 10, 64); return v }
	switch t[0] {
	case "less":
		if len(t) < 5 {
			return "", false
		}
		r := "0"
		if scheduler.VerifLess(atoi(t[1]), scheduler.ID(atoi(t[2])), atoi(t[3]), scheduler.ID(atoi(t[4]))) {
			r = "1"
		}
		return fmt.Sprintf("less %s %s %s %s => %s", t[1], t[2], t[3], t[4], r), true
	case "coord":
		return h.doCoord(t)
	case "sched":
		if len(t) < 6 {
			return "", false
		}
		id := scheduler.ID(atoi(t[1]))
		off, last := atoi(t[3]), atoi(t[4])
		cronTok := ""
		var frac int64
		for _, x := range t[5:] {
			if strings.HasPrefix(x, "cron=") {
				cronTok = x[5:]
			}
			if strings.HasPrefix(x, "frac=") {
				frac = atoi(x[5:])
			}
		}
		// the offset is off seconds + frac milliseconds; printed normalised the way the code splits it:
		// Item.Offset = int64(Offset().Seconds()) truncates toward zero, frac is the rest (same sign)
		totalMs := off*1000 + frac
		off, frac = totalMs/1000, totalMs%1000
		cronStr, _ := kit.Unesc(cronTok)
		// scheduler.NewSchedule also returns an aligned last-scheduled time; the harness passes `last` as given
		// (the property is stated relative to the LastScheduled the Schedulable reports).
		sc, _, err := scheduler.NewSchedule(cronStr, time.Unix(last, 0).UTC())
		if err != nil {
			return strings.Join(t[:5], " ") + " cron=" + cronTok + " => badcron", true
		}
		occ, ended := table(sc, last)
		line := fmt.Sprintf("sched %d %s %d %d cron=%s frac=%d wk=%d tbl=%s", id, t[2], off, last, cronTok, frac, workerOf(id, h.workers), renderTable(occ, ended))
		var serr error
		e, oc := h.guarded(func() error {
			return h.s.Schedule(schedulable{id: id, s: sc, off: time.Duration(totalMs) * time.Millisecond, last: time.Unix(last, 0).UTC()})
		})
		if oc != callReturned {
			return line + " => " + h.stuck(), true
		}
		serr = e
		status := "ok"
		if serr != nil {
			status = "err"
		}
		return line + " => " + h.observe(status, 0), true
	case "rel":
		id := scheduler.ID(atoi(t[1]))
		line := fmt.Sprintf("rel %d", id)
		e, oc := h.guarded(func() error { return h.s.Release(id) })
		if oc != callReturned {
			return line + " => " + h.stuck(), true
		}
		status := "ok"
		if e != nil {
			status = "err"
		}
		return line + " => " + h.observe(status, 0), true
	case "adv":
		d := atoi(t[1])
		line := fmt.Sprintf("adv %d", d)
		if d < 0 {
			return line + " => refused", true
		}
		// A mock timer whose channel still holds an unconsumed tick would block inside clock.Mock.Add while
		// holding the mock's mutex (a deadlock of the MOCK, not of the scheduler): refuse to move the clock then.
		if h.lastTick {
			return line + " => " + h.observe("refused", 0), true
		}
		if _, oc := h.guarded(func() error {
			h.s.VerifWithLock(func() { h.mc.Mock.Add(time.Duration(d) * time.Second) })
			return nil
		}); oc != callReturned {
			return line + " => " + h.stuck(), true
		}
		return line + " => " + h.observe("ok", 0), true
	case "done":
		id := scheduler.ID(atoi(t[1]))
		line := fmt.Sprintf("done %d %s %s", id, t[2], t[3])
		h.r.mu.Lock()
		er := h.r.inflight[id]
		want := h.r.ckpts
		if er != nil {
			if t[3] == "cperr" {
				h.r.cpFail[id] = true
			}
			want++
		}
		h.r.mu.Unlock()
		if er == nil {
			return line + " => " + h.observe("noinflight", 0), true
		}
		er.gate <- t[2]
		return line + " => " + h.observe("ok", want), true
	}
	return "", false
}

// finish releases everything and stops the scheduler (so that no goroutine keeps spinning).
func (h *hcase) finish() {
	if h.dead {
		// cannot be recovered; open the gates so workers can leave and abandon the instance
		h.r.mu.Lock()
		h.r.draining = true
		for _, er := range h.r.inflight {
			select {
			case er.gate <- "ok":
			default:
			}
		}
		h.r.mu.Unlock()
		return
	}
	snap, alive := h.state()
	if !alive {
		h.finish()
		return
	}
	for id := range snap.Index {
		if _, oc := h.guarded(func() error { return h.s.Release(id) }); oc != callReturned {
			h.finish()
			return
		}
	}
	for _, it := range snap.Queue {
		id := it.ID
		if _, oc := h.guarded(func() error { return h.s.Release(id) }); oc != callReturned {
			h.finish()
			return
		}
	}
	h.r.mu.Lock()
	h.r.draining = true
	for _, er := range h.r.inflight {
		select {
		case er.gate <- "ok":
		default:
		}
	}
	h.r.mu.Unlock()
	// Stop waits for the main loop and the workers to leave; when it is blocked for good the instance is abandoned
	h.guarded(func() error { h.s.Stop(); return nil })
}

// execCase runs the op lines of one case on a fresh TreeScheduler.
func execCase(ops []string) (out []string) {
	var h *hcase
	for _, raw := range ops {
		line := raw
		if i := strings.Index(line, " => "); i >= 0 {
			line = line[:i]
		}
		t := strings.Fields(line)
		if len(t) == 0 {
			continue
		}
		if t[0] == "cfg" {
			w, _ := strconv.Atoi(t[1])
			if w < 1 {
				w = 1
			}
			if h != nil {
				h.finish()
			}
			hh, err := newCase(w)
			if err != nil {
				out = append(out, line+" => err")
				continue
			}
			h = hh
			out = append(out, fmt.Sprintf("cfg %d", w))
			continue
		}
		if h == nil {
			hh, _ := newCase(2)
			h = hh
			out = append(out, "cfg 2")
		}
		func() {
			defer func() {
				if r := recover(); r != nil {
					out = append(out, line+" => panic")
				}
			}()
			l, ok := h.doOp(t)
			if ok {
				out = append(out, l)
			} else {
				out = append(out, line+" => badline")
			}
		}()
	}
	if h != nil {
		h.finish()
	}
	return out
}

func emit(out *kit.Out, id string, lines []string) {
	out.Line("case", id)
	for _, l := range lines {
		out.Line(l)
	}
	out.Line("end")
	out.Flush()
}

// Run: `vh-c17 -seed S -n N [-tier thorough]` generates; `vh-c17 -ops file` re-executes the cases of a file.
func Run(args []string) int {
	f := kit.ParseFlags(args)
	out := kit.NewOut()
	defer out.Flush()
	if f.Ops != "" {
		lines, err := kit.ReadLines(f.Ops)
		if err != nil {
			fmt.Fprintln(os.Stderr, err)
			return 2
		}
		var cur []string
		id := ""
		for _, l := range lines {
			t := strings.Fields(l)
			switch {
			case len(t) == 2 && t[0] == "case":
				id, cur = t[1], nil
			case len(t) == 1 && t[0] == "end":
				emit(out, id, execCase(cur))
			default:
				cur = append(cur, l)
			}
		}
		return 0
	}
	// the comparator, exhaustively on a grid of (when, id) keys (real Item.Less through the hook)
	{
		var ops []string
		for _, wa := range []int64{-1, 0, 1, 7} {
			for ia := int64(0); ia < 3; ia++ {
				for _, wb := range []int64{-1, 0, 1, 7} {
					for ib := int64(0); ib < 3; ib++ {
						ops = append(ops, fmt.Sprintf("less %d %d %d %d", wa, ia, wb, ib))
					}
				}
			}
		}
		emit(out, "less", execCase(ops))
	}
	r := kit.NewRand(f.Seed)
	for i := 0; i < f.N; i++ {
		emit(out, fmt.Sprintf("g%d", i), genCase(r.Fork(), i, f.Tier))
	}
	return 0
}
