// Package c17 is the harness for property C17: it drives the REAL scheduler.TreeScheduler
// (task/backend/scheduler/treescheduler.go) in-process with
//   - the benbjohnson mock clock (moved only while the scheduler mutex is held, the recipe of
//     scheduler_test.go, so that the mock's timer stepping cannot race with the main loop),
//   - a recording Executor whose every Execute call blocks on a gate until a `done` op releases it
//     with a chosen outcome (ok / error / panic),
//   - a recording SchedulableService (checkpointer) with controllable failure,
//
// and prints, per op, what the implementation did: the new executor / checkpoint / error events and a
// lock-consistent snapshot of the scheduler's bookkeeping (queue, uniqueness index, s.when, pending tick)
// taken through the add-only hook verif_hooks_c17.go after the system has become quiescent.
//
// Op lines (input part):
//
//	cfg <workers>
//	sched <id> <sc> <off> <last> cron=<esc> [frac=<ms>] [wk=<w> tbl=<o1,o2,..,!|~>]   (wk/tbl are oracles, always recomputed;
//	                                       the offset is <off> s + <frac> ms, printed split as the code truncates it)
//	rel <id>
//	adv <d>
//	done <id> <ok|err|panic> <cpok|cperr>
//
// Observation: `<status> q=<when:id:next:off,..> ix=<id:when,..> w=<s.when in ms|z> tick=<0|1> ev=<events>`.
package c17

import (
	"context"
	"encoding/binary"
	"errors"
	"fmt"
	"os"
	"runtime"
	"sort"
	"strconv"
	"strings"
	"sync"
	"sync/atomic"
	"time"

	"github.com/benbjohnson/clock"
	"github.com/cespare/xxhash"
	"github.com/influxdata/kapacitor/task/backend/scheduler"

	"verifharness/kit"
)

const (
	tblMax        = 48                      // occurrences listed per schedule table
	settleTimeout = 1500 * time.Millisecond // quiescence watchdog
	callTimeout   = 2 * time.Second         // Schedule / Release must return within this ("promptly")
)

// ---- clock wrapper: counts the scheduler's reads of its clock (used only to detect a spinning main loop) ----

type hclock struct {
	*clock.Mock
	reads int64
}

func (c *hclock) Now() time.Time { atomic.AddInt64(&c.reads, 1); return c.Mock.Now() }

// ---- schedulable ----

type schedulable struct {
	id   scheduler.ID
	s    scheduler.Schedule
	off  time.Duration
	last time.Time
}

func (s schedulable) ID() scheduler.ID             { return s.id }
func (s schedulable) Schedule() scheduler.Schedule { return s.s }
func (s schedulable) Offset() time.Duration        { return s.off }
func (s schedulable) LastScheduled() time.Time     { return s.last }

// ---- recorder: executor + checkpointer + error func ----

type execRec struct {
	id   scheduler.ID
	next int64
	gate chan string
}

type rec struct {
	mu       sync.Mutex
	mc       *hclock
	events   []string // events since the last op, arrival order
	inflight map[scheduler.ID]*execRec
	cpFail   map[scheduler.ID]bool
	starts   map[scheduler.ID]int // exec starts per id since the case began
	ckpts    int
	draining bool
}

func (r *rec) Execute(ctx context.Context, id scheduler.ID, scheduledFor time.Time, runAt time.Time) error {
	r.mu.Lock()
	now := r.mc.Mock.Now().Unix()
	if _, dup := r.inflight[id]; dup {
		r.events = append(r.events, fmt.Sprintf("o:%d:%d", id, scheduledFor.Unix())) // overlapping execution
	}
	r.events = append(r.events, fmt.Sprintf("s:%d:%d:%d:%d", id, scheduledFor.Unix(), runAt.Unix(), now))
	r.starts[id]++
	if r.draining {
		r.mu.Unlock()
		return nil
	}
	er := &execRec{id: id, next: scheduledFor.Unix(), gate: make(chan string, 1)}
	r.inflight[id] = er
	r.mu.Unlock()
	res := <-er.gate
	r.mu.Lock()
	if r.inflight[id] == er {
		delete(r.inflight, id)
	}
	r.events = append(r.events, fmt.Sprintf("f:%d:%d", id, er.next))
	r.mu.Unlock()
	switch res {
	case "err":
		return errors.New("run failed")
	case "panic":
		panic("executor panic")
	}
	return nil
}

func (r *rec) UpdateLastScheduled(ctx context.Context, id scheduler.ID, t time.Time) error {
	r.mu.Lock()
	defer r.mu.Unlock()
	r.events = append(r.events, fmt.Sprintf("c:%d:%d", id, t.Unix()))
	r.ckpts++
	if r.cpFail[id] {
		r.cpFail[id] = false
		return errors.New("checkpoint failed")
	}
	return nil
}

func (r *rec) onErr(ctx context.Context, id scheduler.ID, scheduledFor time.Time, err error) {
	r.mu.Lock()
	defer r.mu.Unlock()
	r.events = append(r.events, fmt.Sprintf("e:%d", id))
}

// ---- one case ----

type hcase struct {
	s        *scheduler.TreeScheduler
	mc       *hclock
	r        *rec
	workers  int
	dead     bool         // the scheduler stopped answering; every further op is reported `dead`
	gids     map[int]bool // goroutines of this scheduler instance
	co       coordState   // the real coordinator in front of the scheduler (coord_real.go), when it can be linked
	lastTick bool         // the last settled snapshot had a tick stuck behind a spinning loop
	nsched   int
}

func workerOf(id scheduler.ID, workers int) int {
	buf := [8]byte{}
	binary.LittleEndian.PutUint64(buf[:], uint64(id))
	return int(xxhash.Sum64(buf[:]) % uint64(workers))
}

func newCase(workers int) (*hcase, error) {
	mc := &hclock{Mock: clock.NewMock()}
	r := &rec{mc: mc, inflight: map[scheduler.ID]*execRec{}, cpFail: map[scheduler.ID]bool{}, starts: map[scheduler.ID]int{}}
	before := goroutineBlocks()
	s, _, err := scheduler.NewScheduler(r, r, scheduler.WithTime(mc), scheduler.WithMaxConcurrentWorkers(workers), scheduler.WithOnErrorFn(r.onErr))
	if err != nil {
		return nil, err
	}
	gids := map[int]bool{}
	for id, b := range goroutineBlocks() {
		if _, old := before[id]; !old && strings.Contains(b, "task/backend/scheduler.") {
			gids[id] = true
		}
	}
	return &hcase{s: s, mc: mc, r: r, workers: workers, gids: gids, co: newCoordState(s)}, nil
}

// table lists the occurrences of a schedule after `last` (the oracle the model is parameterised by).
func table(sc scheduler.Schedule, last int64) (occ []int64, ended bool) {
	t := time.Unix(last, 0).UTC()
	for len(occ) < tblMax {
		n, err := sc.Next(t)
		if err != nil {
			return occ, true
		}
		occ = append(occ, n.UTC().Unix())
		t = time.Unix(n.UTC().Unix(), 0).UTC()
	}
	return occ, false
}

func renderTable(occ []int64, ended bool) string {
	var p []string
	for _, o := range occ {
		p = append(p, strconv.FormatInt(o, 10))
	}
	if ended {
		p = append(p, "!")
	} else {
		p = append(p, "~")
	}
	return strings.Join(p, ",")
}

func list(xs []string) string {
	if len(xs) == 0 {
		return "-"
	}
	return strings.Join(xs, ",")
}

// ---- goroutine states (runtime.Stack): is the main loop parked at its select, are the workers parked? ----

type gstate struct {
	loopFound, loopParked  bool
	workers, workersParked int
}

func goroutineBlocks() map[int]string {
	buf := make([]byte, 1<<19)
	n := runtime.Stack(buf, true)
	out := map[int]string{}
	for _, b := range strings.Split(string(buf[:n]), "\n\n") {
		if !strings.HasPrefix(b, "goroutine ") {
			continue
		}
		sp := strings.IndexByte(b[10:], ' ')
		if sp < 0 {
			continue
		}
		id, err := strconv.Atoi(b[10 : 10+sp])
		if err != nil {
			continue
		}
		out[id] = b
	}
	return out
}

func headerState(block string) string {
	i := strings.IndexByte(block, '[')
	j := strings.IndexAny(block, ",]")
	if i < 0 || j < i {
		return ""
	}
	return block[i+1 : j]
}

// gstates looks at the goroutines of THIS scheduler instance (recorded at creation).
func (h *hcase) gstates() (g gstate) {
	for id, b := range goroutineBlocks() {
		if !h.gids[id] {
			continue
		}
		st := headerState(b)
		switch {
		case strings.Contains(b, "scheduler.NewScheduler.func"):
			g.loopFound = true
			// the only blocking select of the loop is the outer one (the iterator's select has a default)
			g.loopParked = st == "select"
		case strings.Contains(b, ".(*TreeScheduler).work"):
			g.workers++
			if st == "chan receive" {
				g.workersParked++ // idle (receiving from its work channel) or inside a gated Execute
			}
		}
	}
	return g
}

func sameSnap(a, b scheduler.VerifSnapshot) bool {
	if len(a.Queue) != len(b.Queue) || len(a.Index) != len(b.Index) || !a.When.Equal(b.When) || a.TickPending != b.TickPending {
		return false
	}
	for i := range a.Queue {
		if a.Queue[i] != b.Queue[i] {
			return false
		}
	}
	for k, v := range a.Index {
		if w, ok := b.Index[k]; !ok || w != v {
			return false
		}
	}
	return true
}

// state takes the lock-consistent snapshot under a watchdog: if the scheduler mutex is held forever (a main loop
// blocked inside process()), Schedule and Release would block as well - the case is reported as `blocked`.
func (h *hcase) state() (scheduler.VerifSnapshot, bool) {
	if h.dead {
		return scheduler.VerifSnapshot{}, false
	}
	ch := make(chan scheduler.VerifSnapshot, 1)
	go func() { ch <- h.s.VerifState() }()
	select {
	case s := <-ch:
		return s, true
	case <-time.After(callTimeout):
		h.dead = true
		return scheduler.VerifSnapshot{}, false
	}
}

// settle drives the system to quiescence and returns the snapshot, or ok=false on timeout.
// Each round "kicks" the mock clock (Add(0) under the scheduler mutex) unless a tick is already pending:
// a mock timer armed at or before `now` only fires when the clock is moved, a real timer fires by itself.
// Quiescent means: every worker goroutine is parked (idle in its channel receive or inside a gated Execute),
// and the main loop is EITHER parked at its select with no tick pending, OR spinning in its inner loop without
// effect (two identical lock-consistent snapshots with at least two complete passes in between, counted by the
// loop's reads of the clock).
func (h *hcase) settle(wantCkpts int) (snap scheduler.VerifSnapshot, ok bool) {
	deadline := time.Now().Add(settleTimeout)
	for {
		if time.Now().After(deadline) {
			st, _ := h.state()
			return st, false
		}
		pre, alive := h.state()
		if !alive {
			return pre, false
		}
		if !pre.TickPending {
			done := make(chan struct{})
			go func() {
				h.s.VerifWithLock(func() { h.mc.Mock.Add(0) })
				close(done)
			}()
			select {
			case <-done:
			case <-time.After(callTimeout):
				h.dead = true
				return pre, false
			}
		}
		h.r.mu.Lock()
		ck := h.r.ckpts
		h.r.mu.Unlock()
		if ck < wantCkpts {
			time.Sleep(50 * time.Microsecond)
			continue
		}
		g1 := h.gstates()
		r0 := atomic.LoadInt64(&h.mc.reads)
		a, alive := h.state()
		if !alive {
			return a, false
		}
		if g1.workersParked != g1.workers || !g1.loopFound {
			time.Sleep(50 * time.Microsecond)
			continue
		}
		if g1.loopParked {
			g2 := h.gstates()
			b, alive := h.state()
			if !alive {
				return b, false
			}
			if g2.loopParked && g2.workersParked == g2.workers && !a.TickPending && !b.TickPending && sameSnap(a, b) &&
				atomic.LoadInt64(&h.mc.reads) == r0 && !pre.TickPending {
				return b, true
			}
			time.Sleep(50 * time.Microsecond)
			continue
		}
		// the loop is running: wait for two complete passes (each complete pass reads the clock three times)
		waitUntil := time.Now().Add(20 * time.Millisecond)
		for atomic.LoadInt64(&h.mc.reads) < r0+8 && time.Now().Before(waitUntil) {
			time.Sleep(20 * time.Microsecond)
		}
		if atomic.LoadInt64(&h.mc.reads) < r0+8 {
			continue
		}
		g2 := h.gstates()
		b, alive := h.state()
		if !alive {
			return b, false
		}
		if !g2.loopParked && g2.workersParked == g2.workers && sameSnap(a, b) && (pre.TickPending == b.TickPending) {
			// spinning without effect; a pending tick stays pending
			if !b.TickPending {
				// the kick of this round did not fire anything (or its tick was consumed): fixpoint
				return b, true
			}
			return b, true
		}
	}
}

func (h *hcase) takeEvents() []string {
	h.r.mu.Lock()
	ev := h.r.events
	h.r.events = nil
	h.r.mu.Unlock()
	// canonical order: stable by task id (per id the order is the real order; across ids it is scheduling noise)
	idOf := func(e string) int64 {
		p := strings.Split(e, ":")
		v, _ := strconv.ParseInt(p[1], 10, 64)
		return v
	}
	sort.SliceStable(ev, func(i, j int) bool { return idOf(ev[i]) < idOf(ev[j]) })
	return ev
}

func (h *hcase) observe(status string, wantCkpts int) string {
	snap, ok := h.settle(wantCkpts)
	if !ok {
		status = "unsettled"
	}
	if h.dead {
		status = "blocked"
	}
	var q, ix []string
	for _, it := range snap.Queue {
		q = append(q, fmt.Sprintf("%d:%d:%d:%d", it.When, it.ID, it.Next, it.Offset))
	}
	var ids []int
	for id := range snap.Index {
		ids = append(ids, int(id))
	}
	sort.Ints(ids)
	for _, id := range ids {
		ix = append(ix, fmt.Sprintf("%d:%d", id, snap.Index[scheduler.ID(id)]))
	}
	w := "z"
	if !snap.When.IsZero() {
		w = strconv.FormatInt(snap.When.UnixMilli(), 10)
	}
	tick := "0"
	h.lastTick = snap.TickPending
	if snap.TickPending {
		tick = "1"
	}
	return fmt.Sprintf("%s q=%s ix=%s w=%s tick=%s ev=%s", status, list(q), list(ix), w, tick, list(h.takeEvents()))
}

// call runs f with a watchdog: the property demands that Schedule / Release return promptly.
func call(f func() error) (err error, returned bool) {
	ch := make(chan error, 1)
	go func() { ch <- f() }()
	select {
	case e := <-ch:
		return e, true
	case <-time.After(callTimeout):
		return nil, false
	}
}

// doOp executes one op line and returns the line (oracle tokens refreshed) with its observation.
func (h *hcase) doOp(t []string) (string, bool) {
	if h.dead {
		return strings.Join(t, " ") + " => dead", true
	}
	atoi := func(s string) int64 { v, _ := strconv.ParseInt(s, 10, 64); return v }
	switch t[0] {
	case "less":
		if len(t) < 5 {
			return "", false
		}
		r := "0"
		if scheduler.VerifLess(atoi(t[1]), scheduler.ID(atoi(t[2])), atoi(t[3]), scheduler.ID(atoi(t[4]))) {
			r = "1"
		}
		return fmt.Sprintf("less %s %s %s %s => %s", t[1], t[2], t[3], t[4], r), true
	case "coord":
		return h.doCoord(t)
	case "sched":
		if len(t) < 6 {
			return "", false
		}
		id := scheduler.ID(atoi(t[1]))
		off, last := atoi(t[3]), atoi(t[4])
		cronTok := ""
		var frac int64
		for _, x := range t[5:] {
			if strings.HasPrefix(x, "cron=") {
				cronTok = x[5:]
			}
			if strings.HasPrefix(x, "frac=") {
				frac = atoi(x[5:])
			}
		}
		// the offset is off seconds + frac milliseconds; printed normalised the way the code splits it:
		// Item.Offset = int64(Offset().Seconds()) truncates toward zero, frac is the rest (same sign)
		totalMs := off*1000 + frac
		off, frac = totalMs/1000, totalMs%1000
		cronStr, _ := kit.Unesc(cronTok)
		// scheduler.NewSchedule also returns an aligned last-scheduled time; the harness passes `last` as given
		// (the property is stated relative to the LastScheduled the Schedulable reports).
		sc, _, err := scheduler.NewSchedule(cronStr, time.Unix(last, 0).UTC())
		if err != nil {
			return strings.Join(t[:5], " ") + " cron=" + cronTok + " => badcron", true
		}
		occ, ended := table(sc, last)
		line := fmt.Sprintf("sched %d %s %d %d cron=%s frac=%d wk=%d tbl=%s", id, t[2], off, last, cronTok, frac, workerOf(id, h.workers), renderTable(occ, ended))
		var serr error
		e, returned := call(func() error {
			return h.s.Schedule(schedulable{id: id, s: sc, off: time.Duration(totalMs) * time.Millisecond, last: time.Unix(last, 0).UTC()})
		})
		if !returned {
			h.dead = true
			return line + " => blocked", true
		}
		serr = e
		status := "ok"
		if serr != nil {
			status = "err"
		}
		return line + " => " + h.observe(status, 0), true
	case "rel":
		id := scheduler.ID(atoi(t[1]))
		line := fmt.Sprintf("rel %d", id)
		e, returned := call(func() error { return h.s.Release(id) })
		if !returned {
			h.dead = true
			return line + " => blocked", true
		}
		status := "ok"
		if e != nil {
			status = "err"
		}
		return line + " => " + h.observe(status, 0), true
	case "adv":
		d := atoi(t[1])
		line := fmt.Sprintf("adv %d", d)
		if d < 0 {
			return line + " => refused", true
		}
		// A mock timer whose channel still holds an unconsumed tick would block inside clock.Mock.Add while
		// holding the mock's mutex (a deadlock of the MOCK, not of the scheduler): refuse to move the clock then.
		if h.lastTick {
			return line + " => " + h.observe("refused", 0), true
		}
		done := make(chan struct{})
		go func() {
			h.s.VerifWithLock(func() { h.mc.Mock.Add(time.Duration(d) * time.Second) })
			close(done)
		}()
		select {
		case <-done:
		case <-time.After(callTimeout):
			h.dead = true
			return line + " => blocked", true
		}
		return line + " => " + h.observe("ok", 0), true
	case "done":
		id := scheduler.ID(atoi(t[1]))
		line := fmt.Sprintf("done %d %s %s", id, t[2], t[3])
		h.r.mu.Lock()
		er := h.r.inflight[id]
		want := h.r.ckpts
		if er != nil {
			if t[3] == "cperr" {
				h.r.cpFail[id] = true
			}
			want++
		}
		h.r.mu.Unlock()
		if er == nil {
			return line + " => " + h.observe("noinflight", 0), true
		}
		er.gate <- t[2]
		return line + " => " + h.observe("ok", want), true
	}
	return "", false
}

// finish releases everything and stops the scheduler (so that no goroutine keeps spinning).
func (h *hcase) finish() {
	if h.dead {
		// cannot be recovered; open the gates so workers can leave and abandon the instance
		h.r.mu.Lock()
		h.r.draining = true
		for _, er := range h.r.inflight {
			select {
			case er.gate <- "ok":
			default:
			}
		}
		h.r.mu.Unlock()
		return
	}
	snap, alive := h.state()
	if !alive {
		h.finish()
		return
	}
	for id := range snap.Index {
		call(func() error { return h.s.Release(id) })
	}
	for _, it := range snap.Queue {
		call(func() error { return h.s.Release(it.ID) })
	}
	h.r.mu.Lock()
	h.r.draining = true
	for _, er := range h.r.inflight {
		select {
		case er.gate <- "ok":
		default:
		}
	}
	h.r.mu.Unlock()
	call(func() error { h.s.Stop(); return nil })
}

// execCase runs the op lines of one case on a fresh TreeScheduler.
func execCase(ops []string) (out []string) {
	var h *hcase
	for _, raw := range ops {
		line := raw
		if i := strings.Index(line, " => "); i >= 0 {
			line = line[:i]
		}
		t := strings.Fields(line)
		if len(t) == 0 {
			continue
		}
		if t[0] == "cfg" {
			w, _ := strconv.Atoi(t[1])
			if w < 1 {
				w = 1
			}
			if h != nil {
				h.finish()
			}
			hh, err := newCase(w)
			if err != nil {
				out = append(out, line+" => err")
				continue
			}
			h = hh
			out = append(out, fmt.Sprintf("cfg %d", w))
			continue
		}
		if h == nil {
			hh, _ := newCase(2)
			h = hh
			out = append(out, "cfg 2")
		}
		func() {
			defer func() {
				if r := recover(); r != nil {
					out = append(out, line+" => panic")
				}
			}()
			l, ok := h.doOp(t)
			if ok {
				out = append(out, l)
			} else {
				out = append(out, line+" => badline")
			}
		}()
	}
	if h != nil {
		h.finish()
	}
	return out
}

func emit(out *kit.Out, id string, lines []string) {
	out.Line("case", id)
	for _, l := range lines {
		out.Line(l)
	}
	out.Line("end")
	out.Flush()
}

// Run: `vh-c17 -seed S -n N [-tier thorough]` generates; `vh-c17 -ops file` re-executes the cases of a file.
func Run(args []string) int {
	f := kit.ParseFlags(args)
	out := kit.NewOut()
	defer out.Flush()
	if f.Ops != "" {
		lines, err := kit.ReadLines(f.Ops)
		if err != nil {
			fmt.Fprintln(os.Stderr, err)
			return 2
		}
		var cur []string
		id := ""
		for _, l := range lines {
			t := strings.Fields(l)
			switch {
			case len(t) == 2 && t[0] == "case":
				id, cur = t[1], nil
			case len(t) == 1 && t[0] == "end":
				emit(out, id, execCase(cur))
			default:
				cur = append(cur, l)
			}
		}
		return 0
	}
	// the comparator, exhaustively on a grid of (when, id) keys (real Item.Less through the hook)
	{
		var ops []string
		for _, wa := range []int64{-1, 0, 1, 7} {
			for ia := int64(0); ia < 3; ia++ {
				for _, wb := range []int64{-1, 0, 1, 7} {
					for ib := int64(0); ib < 3; ib++ {
						ops = append(ops, fmt.Sprintf("less %d %d %d %d", wa, ia, wb, ib))
					}
				}
			}
		}
		emit(out, "less", execCase(ops))
	}
	r := kit.NewRand(f.Seed)
	for i := 0; i < f.N; i++ {
		emit(out, fmt.Sprintf("g%d", i), genCase(r.Fork(), i, f.Tier))
	}
	return 0
}
