// The real task/backend/coordinator (TaskCreated / TaskUpdated / TaskDeleted) in front of the real TreeScheduler:
// a recording scheduler.Scheduler sits between them, notes what the coordinator forwards and hands it on.
package c17

import (
	"context"
	"errors"
	"fmt"
	"strconv"
	"strings"
	"time"

	"github.com/influxdata/influxdb/v2/kit/platform"
	"github.com/influxdata/kapacitor/task/backend/coordinator"
	"github.com/influxdata/kapacitor/task/backend/executor"
	"github.com/influxdata/kapacitor/task/backend/scheduler"
	"github.com/influxdata/kapacitor/task/taskmodel"
	"go.uber.org/zap"

	"verifharness/kit"
)

// fwdSched is the scheduler.Scheduler the real Coordinator talks to: it records what the coordinator forwards
// and hands it on to the real TreeScheduler.
type fwdSched struct {
	inner *scheduler.TreeScheduler
	calls []string
	last  scheduler.Schedulable
}

func (f *fwdSched) Schedule(t scheduler.Schedulable) error {
	f.calls = append(f.calls, fmt.Sprintf("sched:%d:%d", t.Offset().Milliseconds(), t.LastScheduled().Unix()))
	f.last = t
	return f.inner.Schedule(t)
}

func (f *fwdSched) Release(id scheduler.ID) error {
	f.calls = append(f.calls, "rel")
	return f.inner.Release(id)
}

type noExecutor struct{}

func (noExecutor) ManualRun(ctx context.Context, id platform.ID, runID platform.ID) (executor.Promise, error) {
	return nil, errors.New("not used")
}
func (noExecutor) Cancel(ctx context.Context, runID platform.ID) error { return nil }

type coordState struct {
	fwd   *fwdSched
	coord *coordinator.Coordinator
}

func newCoordState(s *scheduler.TreeScheduler) coordState {
	fw := &fwdSched{inner: s}
	return coordState{fwd: fw, coord: coordinator.NewCoordinator(zap.NewNop(), fw, noExecutor{})}
}

func (h *hcase) doCoord(t []string) (string, bool) {
	atoi := func(s string) int64 { v, _ := strconv.ParseInt(s, 10, 64); return v }
	// coord <new|up|del> <id> <sc> <offms> from=<a|i> to=<a|i> ls=<s|z> lc=<s|z> every=<seconds|-> cron=<esc|->
	for len(t) < 5 {
		t = append(t, "0")
	}
	kind := t[1]
	id := atoi(t[2])
	offms := atoi(t[4])
	get := func(k string) string {
		for _, x := range t[5:] {
			if strings.HasPrefix(x, k+"=") {
				return x[len(k)+1:]
			}
		}
		return ""
	}
	tm := func(v string) time.Time {
		if v == "z" || v == "" {
			return time.Time{}
		}
		return time.Unix(atoi(v), 0).UTC()
	}
	status := func(v string) string {
		if v == "i" {
			return string(taskmodel.TaskInactive)
		}
		return string(taskmodel.TaskActive)
	}
	mk := func(st string) *taskmodel.Task {
		tk := &taskmodel.Task{ID: platform.ID(id), Status: status(st), Offset: time.Duration(offms) * time.Millisecond,
			LatestScheduled: tm(get("ls")), LatestCompleted: tm(get("lc")), CreatedAt: time.Unix(1, 0).UTC()}
		if e := get("every"); e != "-" && e != "" {
			tk.Every = e + "s"
		}
		if c := get("cron"); c != "-" && c != "" {
			tk.Cron, _ = kit.Unesc(c)
		}
		return tk
	}
	h.co.fwd.calls, h.co.fwd.last = nil, nil
	var cerr error
	_, oc := h.guarded(func() error {
		switch kind {
		case "new":
			cerr = h.co.coord.TaskCreated(context.Background(), mk(get("to")))
		case "up":
			cerr = h.co.coord.TaskUpdated(context.Background(), mk(get("from")), mk(get("to")))
		case "del":
			cerr = h.co.coord.TaskDeleted(context.Background(), platform.ID(id))
		}
		return nil
	})
	base := fmt.Sprintf("coord %s %d %s %d from=%s to=%s ls=%s lc=%s every=%s cron=%s", kind, id, t[3], offms,
		get("from"), get("to"), get("ls"), get("lc"), get("every"), get("cron"))
	if oc != callReturned {
		return base + " => " + h.stuck(), true
	}
	fwd := "none"
	if len(h.co.fwd.calls) == 1 {
		fwd = h.co.fwd.calls[0]
	} else if len(h.co.fwd.calls) > 1 {
		fwd = "many"
	}
	if h.co.fwd.last != nil {
		occ, ended := table(h.co.fwd.last.Schedule(), h.co.fwd.last.LastScheduled().Unix())
		base += fmt.Sprintf(" wk=%d tbl=%s", workerOf(scheduler.ID(id), h.workers), renderTable(occ, ended))
	} else {
		base += fmt.Sprintf(" wk=%d", workerOf(scheduler.ID(id), h.workers))
	}
	st := "ok"
	if cerr != nil {
		st = "err"
	}
	obs := h.observe(st, 0)
	// status first, then what was forwarded
	sp := strings.SplitN(obs, " ", 2)
	return base + " => " + sp[0] + " fwd=" + fwd + " " + sp[1], true
}
