package c17

import (
	"fmt"
	"strconv"
	"strings"

	"github.com/influxdata/kapacitor/task/backend/scheduler"

	"verifharness/kit"
)

// Schedules used by the generator. The mock clock starts at the Unix epoch (1970-01-01T00:00:00Z).
var cronPool = []string{
	"@every 10s",
	"@every 7s",
	"@every 1m",
	"*/15 * * * * * *",       // seconds field: 0,15,30,45
	"3,11,40 * * * * * *",    // irregular gaps 8, 29, 23
	"5 0 0 1 1 * 1970",       // a single occurrence (1970-01-01T00:00:05Z), then Next fails: the drop branch
	"0,20,50 0 0 1 1 * 1970", // three occurrences, then Next fails
	"0 0 0 30 2 * *",         // Feb 30th: Next fails at once (Schedule returns the error)
}

var offPool = []int64{0, 0, 3, -2, 25, 1}

// genCase generates one case ADAPTIVELY: it executes every op on the real scheduler as it goes, so that
// boundary values (advance exactly to / one second short of the head's `when`, `done` for an id that is in
// flight, re-schedule of a task that is in flight) can be aimed at the real state.
func genCase(r *kit.Rand, idx int, tier string) (out []string) {
	workers := []int{2, 2, 1, 3}[r.Intn(4)]
	h, err := newCase(workers)
	if err != nil {
		return []string{"cfg " + strconv.Itoa(workers) + " => err"}
	}
	defer h.finish()
	out = append(out, fmt.Sprintf("cfg %d", workers))
	// ids: four ids, chosen so that (when workers >= 2) at least two share a worker and two do not
	ids := []int64{1, 2, 3, 4}
	if r.Chance(1, 3) {
		ids = []int64{int64(r.U64() >> 24), 7, 8, 9}
	}
	nIDs := r.Range(1, 4)
	ids = ids[:nIDs]
	size := 8 + r.Intn(30)
	if tier == "thorough" || idx%8 == 0 {
		size = 30 + r.Intn(50)
	}
	nsched := 0
	horizon := int64(0) // keep the clock small enough for the 48-entry tables
	do := func(line string) string {
		l, ok := h.doOp(strings.Fields(line))
		if !ok {
			l = line + " => badline"
		}
		out = append(out, l)
		return l
	}
	sched := func() {
		id := kit.Pick(r, ids)
		c := kit.Pick(r, cronPool[:5])
		switch k := r.Intn(20); {
		case k == 0:
			c = cronPool[7]
		case k <= 2:
			c = cronPool[5]
		case k <= 4:
			c = cronPool[6]
		}
		now := h.mc.Mock.Now().Unix()
		var last int64
		switch r.Intn(5) {
		case 0:
			last = 0
		case 1:
			last = now
		case 2:
			last = now - int64(r.Intn(40)) // in the past: several occurrences are due at once
			if last < 0 {
				last = 0
			}
		case 3:
			last = now - now%10
		default:
			last = now + int64(r.Intn(15))
		}
		off := kit.Pick(r, offPool)
		frac := int64(0)
		if r.Chance(1, 6) { // sub-second part of the offset, same sign as the offset
			frac = int64(1 + r.Intn(999))
			if off < 0 || (off == 0 && r.Bool()) {
				frac = -frac
			}
		}
		// re-schedule of a task that is in flight with an EARLIER next time than the run in flight
		h.r.mu.Lock()
		if er := h.r.inflight[scheduler.ID(id)]; er != nil && r.Chance(1, 2) {
			last = er.next - int64(5+r.Intn(30))
			if last < 0 {
				last = 0
			}
		}
		h.r.mu.Unlock()
		do(fmt.Sprintf("sched %d %d %d %d cron=%s frac=%d", id, nsched, off, last, kit.Esc(c), frac))
		nsched++
	}
	// the same calls, made through the real coordinator (TaskCreated / TaskUpdated / TaskDeleted)
	coord := func() {
		id := kit.Pick(r, ids)
		now := h.mc.Mock.Now().Unix()
		tm := func() string {
			switch r.Intn(4) {
			case 0:
				return "z"
			case 1:
				return strconv.FormatInt(now, 10)
			default:
				v := now - int64(r.Intn(40)) + int64(r.Intn(10))
				if v < 1 {
					v = 1
				}
				return strconv.FormatInt(v, 10)
			}
		}
		ls, lc := tm(), tm()
		if ls == "z" && lc == "z" {
			lc = strconv.FormatInt(now+1, 10) // the zero time is not generated (year-1 arithmetic)
		}
		every, cron := "-", "-"
		switch r.Intn(6) {
		case 0:
			// neither: NewSchedulableTask fails
		case 1, 2:
			cron = kit.Esc(kit.Pick(r, cronPool[3:5]))
		default:
			every = strconv.Itoa([]int{7, 10, 60, 13}[r.Intn(4)])
		}
		offms := kit.Pick(r, offPool) * 1000
		if r.Chance(1, 8) {
			offms -= 250
		}
		st := func() string {
			if r.Chance(1, 3) {
				return "i"
			}
			return "a"
		}
		switch k := r.Intn(10); {
		case k < 3:
			do(fmt.Sprintf("coord new %d %d %d to=a ls=%s lc=%s every=%s cron=%s", id, nsched, offms, ls, lc, every, cron))
		case k < 9:
			do(fmt.Sprintf("coord up %d %d %d from=%s to=%s ls=%s lc=%s every=%s cron=%s", id, nsched, offms, st(), st(), ls, lc, every, cron))
		default:
			do(fmt.Sprintf("coord del %d", id))
		}
		nsched++
	}
	viaCoord := r.Chance(1, 3) // a third of the cases talk to the scheduler through the coordinator
	sched()
	for i := 0; i < size && !h.dead; i++ {
		h.r.mu.Lock()
		var fl []int64
		for id := range h.r.inflight {
			fl = append(fl, int64(id))
		}
		h.r.mu.Unlock()
		sortI64(fl)
		snap, alive := h.state()
		if !alive {
			break
		}
		now := h.mc.Mock.Now().Unix()
		switch k := r.Intn(100); {
		case k < 22:
			if viaCoord && r.Chance(2, 3) {
				coord()
			} else {
				sched()
			}
		case k < 32:
			if viaCoord && r.Chance(1, 2) {
				coord()
				continue
			}
			// release: prefer a scheduled id
			id := kit.Pick(r, ids)
			if len(snap.Queue) > 0 && r.Chance(2, 3) {
				id = int64(snap.Queue[r.Intn(len(snap.Queue))].ID)
			}
			do(fmt.Sprintf("rel %d", id))
		case k < 64:
			var d int64
			head := int64(-1)
			if len(snap.Queue) > 0 {
				head = snap.Queue[0].When - now
			}
			switch m := r.Intn(10); {
			case m < 3 && head > 0:
				d = head // exactly due
			case m < 5 && head > 1:
				d = head - 1 // one second early
			case m == 5:
				d = 0
			case m == 6:
				d = int64(30 + r.Intn(60)) // jump over several occurrences
			default:
				d = int64(1 + r.Intn(12))
			}
			if horizon+d > 230 {
				d = 0
			}
			horizon += d
			do(fmt.Sprintf("adv %d", d))
		default:
			if len(fl) == 0 {
				if r.Chance(1, 6) {
					do(fmt.Sprintf("done %d ok cpok", kit.Pick(r, ids)))
				} else {
					d := int64(1 + r.Intn(10))
					if horizon+d > 230 {
						d = 0
					}
					horizon += d
					do(fmt.Sprintf("adv %d", d))
				}
				continue
			}
			res := "ok"
			switch r.Intn(8) {
			case 0:
				res = "err"
			case 1:
				res = "panic"
			}
			cp := "cpok"
			if r.Chance(1, 8) {
				cp = "cperr"
			}
			do(fmt.Sprintf("done %d %s %s", kit.Pick(r, fl), res, cp))
		}
	}
	// drain: finish everything in flight so that the final checkpoints are observed
	for k := 0; k < 6 && !h.dead; k++ {
		h.r.mu.Lock()
		var fl []int64
		for id := range h.r.inflight {
			fl = append(fl, int64(id))
		}
		h.r.mu.Unlock()
		if len(fl) == 0 {
			break
		}
		sortI64(fl)
		do(fmt.Sprintf("done %d ok cpok", fl[0]))
	}
	return out
}

func sortI64(a []int64) {
	for i := 1; i < len(a); i++ {
		for j := i; j > 0 && a[j] < a[j-1]; j-- {
			a[j], a[j-1] = a[j-1], a[j]
		}
	}
}
