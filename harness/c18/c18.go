// Package c18 is the harness for property C18 (runs the real kapacitor code, prints op lines).
package c18

import (
	"fmt"
	"os"
)

// Run is replaced by the property's harness.
func Run(args []string) int {
	fmt.Fprintln(os.Stderr, "c18: harness not implemented yet")
	return 3
}
