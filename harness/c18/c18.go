// Package c18 is the harness for property C18 (replay fidelity): it records generated points / batches
// with the REAL kapacitor.WritePointForRecording / WriteBatchForRecording, replays the recorded bytes
// with the REAL kapacitor.ReplayStreamFromIO / ReplayBatchFromIO into recording collectors under a
// recording clock, and prints what was delivered.
//
// Case format (see lean/Kap/Driver/C18.lean for the reader):
//
//	stream <recTime 0|1> <zero ns> <precision>
//	pt <db> <rp> <name> <tags> <fields> <time ns>
//	replay => <status> <closes> <closedAt> <item>*      item = db|rp|name|tags|fields|time|group|dims|until
//
//	batch <recTime 0|1> <zero ns>
//	b <name> <byname 0|1> <tmax ns> <tags> <points>       points = tags!fields!time;…  or -
//	replay => <status> <closes> <closedAt> <item>*      item = name|byname|tmax|tags|group|dims|points|until|sizehint
//
// tags = k=v,k=v (sorted) or - ; fields = k=f~<bits>~<text 'f' -1>, k=i~<dec>, k=s~<esc>, k=b~<0|1> (sorted) or - .
// status: ok | err (the replay reported an error) | recerr (the writer reported an error) | panic | hang.
package c18

import (
	"bufio"
	"bytes"
	"fmt"
	"io"
	"math"
	"os"
	"os/exec"
	"path/filepath"
	"sort"
	"strconv"
	"strings"
	"sync"
	"time"

	dbmodels "github.com/influxdata/influxdb/models"
	"github.com/influxdata/kapacitor"
	"github.com/influxdata/kapacitor/edge"
	"github.com/influxdata/kapacitor/models"
	"github.com/influxdata/kapacitor/services/replay"

	"verifharness/kit"
)

// ---- recording clock: fixed zero, Until never blocks but is logged ----

type recClock struct {
	zero time.Time
	mu   sync.Mutex
	last string // the argument of the last Until call since the previous collect ("-" if none)
	all  []int64
}

func (c *recClock) Zero() time.Time { return c.zero }
func (c *recClock) Set(time.Time)   {}
func (c *recClock) Until(t time.Time) {
	c.mu.Lock()
	c.last = tm(t)
	c.all = append(c.all, t.UnixNano())
	c.mu.Unlock()
}
func (c *recClock) take() string {
	c.mu.Lock()
	defer c.mu.Unlock()
	l := c.last
	c.last = "-"
	return l
}

// ---- rendering ----

func tm(t time.Time) string {
	if t.IsZero() {
		return "Z"
	}
	s := strconv.FormatInt(t.UnixNano(), 10)
	if t.Location() != time.UTC {
		s += "L" // the replay promises UTC times
	}
	return s
}

func list(xs []string, sep string) string {
	if len(xs) == 0 {
		return "-"
	}
	return strings.Join(xs, sep)
}

func renderTags(t models.Tags) string {
	var r []string
	for _, k := range models.SortedKeys(t) {
		r = append(r, kit.Esc(k)+"="+kit.Esc(t[k]))
	}
	return list(r, ",")
}

func renderValue(v interface{}) string {
	switch x := v.(type) {
	case float64:
		return "f~" + kit.F64(x) + "~" + kit.Esc(string(strconv.AppendFloat(nil, x, 'f', -1, 64)))
	case int64:
		return "i~" + strconv.FormatInt(x, 10)
	case string:
		return "s~" + kit.Esc(x)
	case bool:
		if x {
			return "b~1"
		}
		return "b~0"
	case nil:
		return "n~"
	default:
		return "x~" + kit.Esc(fmt.Sprintf("%T", v))
	}
}

func renderFields(f models.Fields) string {
	var r []string
	for _, k := range models.SortedFields(f) {
		r = append(r, kit.Esc(k)+"="+renderValue(f[k]))
	}
	return list(r, ",")
}

func renderDims(d models.Dimensions) string {
	var r []string
	for _, k := range d.TagNames {
		r = append(r, kit.Esc(k))
	}
	return list(r, ",")
}

func b01(b bool) string {
	if b {
		return "1"
	}
	return "0"
}

// ---- collectors ----

type collector struct {
	multi    bool // several sources share the clock: the Until before a collect cannot be attributed
	clk      *recClock
	mu       sync.Mutex
	items    []string
	closes   int
	closedAt int
}

func (c *collector) CollectPoint(p edge.PointMessage) error {
	u := c.clk.take()
	c.mu.Lock()
	defer c.mu.Unlock()
	c.items = append(c.items, strings.Join([]string{
		kit.Esc(p.Database()), kit.Esc(p.RetentionPolicy()), kit.Esc(p.Name()), renderTags(p.Tags()), renderFields(p.Fields()),
		tm(p.Time()), kit.Esc(string(p.GroupID())), b01(p.Dimensions().ByName) + ":" + renderDims(p.Dimensions()), u}, "|"))
	return nil
}

func (c *collector) CollectBatch(b edge.BufferedBatchMessage) error {
	u := c.clk.take()
	if c.multi {
		u = "*"
	}
	var pts []string
	for _, p := range b.Points() {
		pts = append(pts, renderTags(p.Tags())+"!"+renderFields(p.Fields())+"!"+tm(p.Time()))
	}
	c.mu.Lock()
	defer c.mu.Unlock()
	c.items = append(c.items, strings.Join([]string{
		kit.Esc(b.Name()), b01(b.Dimensions().ByName), tm(b.Begin().Time()), renderTags(b.Tags()), kit.Esc(string(b.GroupID())),
		renderDims(b.Dimensions()), list(pts, ";"), u, strconv.Itoa(b.Begin().SizeHint())}, "|"))
	return nil
}

func (c *collector) Close() error {
	c.mu.Lock()
	defer c.mu.Unlock()
	c.closes++
	if c.closes == 1 {
		c.closedAt = len(c.items)
	}
	return nil
}

func (c *collector) result(status string) string {
	c.mu.Lock()
	defer c.mu.Unlock()
	r := []string{status, strconv.Itoa(c.closes), strconv.Itoa(c.closedAt)}
	return strings.Join(append(r, c.items...), " ")
}

// resultSrc renders one batch source: S <closes> <closedAt> <n> <item>*
func (c *collector) resultSrc() string {
	c.mu.Lock()
	defer c.mu.Unlock()
	r := []string{"S", strconv.Itoa(c.closes), strconv.Itoa(c.closedAt), strconv.Itoa(len(c.items))}
	return strings.Join(append(r, c.items...), " ")
}

// ---- parsing of op tokens ----

func un(s string) string { v, _ := kit.Unesc(s); return v }

func parseTime(s string) time.Time {
	if s == "Z" {
		return time.Time{}
	}
	v, _ := strconv.ParseInt(s, 10, 64)
	return time.Unix(0, v).UTC()
}

func parseTags(s string) models.Tags {
	t := models.Tags{}
	if s == "-" {
		return t
	}
	for _, kv := range strings.Split(s, ",") {
		p := strings.SplitN(kv, "=", 2)
		if len(p) == 2 {
			t[un(p[0])] = un(p[1])
		}
	}
	return t
}

func parseFields(s string) models.Fields {
	f := models.Fields{}
	if s == "-" {
		return f
	}
	for _, kv := range strings.Split(s, ",") {
		p := strings.SplitN(kv, "=", 2)
		if len(p) != 2 {
			continue
		}
		v := strings.Split(p[1], "~")
		if len(v) < 2 {
			continue
		}
		switch v[0] {
		case "f":
			bits, _ := strconv.ParseUint(v[1], 16, 64)
			f[un(p[0])] = math.Float64frombits(bits)
		case "i":
			x, _ := strconv.ParseInt(v[1], 10, 64)
			f[un(p[0])] = x
		case "s":
			f[un(p[0])] = un(v[1])
		case "b":
			f[un(p[0])] = v[1] == "1"
		}
	}
	return f
}

// faultWriter takes `room` more bytes (room < 0: any number) and then fails for good, like a volume that is full.
type faultWriter struct {
	out    []byte
	room   int
	failed bool
	errs   int
}

func (w *faultWriter) Write(b []byte) (int, error) {
	if w.failed {
		w.errs++
		return 0, io.ErrShortWrite
	}
	if w.room < 0 || len(b) <= w.room {
		w.out = append(w.out, b...)
		if w.room >= 0 {
			w.room -= len(b)
		}
		return len(b), nil
	}
	n := w.room
	w.out = append(w.out, b[:n]...)
	w.room, w.failed = 0, true
	w.errs++
	return n, io.ErrShortWrite
}

type nopCloser struct{ io.Reader }

func (nopCloser) Close() error { return nil }

func wait(errC <-chan error) string {
	select {
	case err := <-errC:
		if err != nil {
			return "err"
		}
		return "ok"
	case <-time.After(20 * time.Second):
		return "hang"
	}
}

// execCase records and replays one case with the real code and returns the lines with observations.
func execCase(ops []string) []string { return execCaseOpt(ops, true) }

// execCaseOpt with doReplay=false records only and reports the replay as `panic` (used after the worker died in it).
func execCaseOpt(ops []string, doReplay bool) (out []string) {
	var (
		mode      string
		recTime   bool
		zero      time.Time
		precision = "n"
		buf       bytes.Buffer
		srcs      [][]byte // completed batch sources (op `src` closes one)
		recErr    bool
		fileMode  bool                           // record through the service's writers into a .srpl / .brpl file
		fpoints   []edge.PointMessage            // file mode: the points to record
		fbatches  [][]edge.BufferedBatchMessage  // file mode: the batches of the completed sources
		fcur      []edge.BufferedBatchMessage    // file mode: the batches of the current source
		liveMode  bool                           // nothing is recorded: the items are fed to Replay*FromChan on channels
		fault     *faultWriter                   // fault mode: the first recording of the case goes to a writer that fails
		faultAt   int                            // fault mode: index of the point at whose start the writer's room becomes faultOff
		faultOff  int
		nA        int // fault mode: points handed to the failing recording so far
	)
	for _, raw := range ops {
		line := raw
		if i := strings.Index(line, " => "); i >= 0 {
			line = line[:i]
		}
		t := strings.Fields(line)
		if len(t) == 0 {
			continue
		}
		need := map[string]int{"stream": 4, "batch": 3, "pt": 7, "b": 6, "replay": 1, "src": 1, "lp": 4, "lpend": 1, "cut": 1}
		if t[0] == "src" {
			srcs = append(srcs, append([]byte(nil), buf.Bytes()...))
			buf.Reset()
			fbatches = append(fbatches, fcur)
			fcur = nil
			out = append(out, line)
			continue
		}
		if len(t) < need[t[0]] {
			out = append(out, line)
			continue
		}
		switch t[0] {
		case "stream":
			mode, recTime, zero, precision = "stream", t[1] == "1", parseTime(t[2]), t[3]
			fileMode = len(t) > 4 && t[4] == "file"
			liveMode = len(t) > 4 && t[4] == "live"
			if fileMode {
				precision = replay.VerifRecordingPrecision
			}
			if len(t) > 6 && t[4] == "fault" {
				// stream <r> <z> <p> fault <j> <off>: the points up to `cut` are a FIRST recording of this process whose
				// writer takes the first j records and off more bytes and then fails for good (volume full); the errors are
				// ignored and every point is still handed to the writer, as doRecordStream does
				fault = &faultWriter{room: -1}
				faultAt, _ = strconv.Atoi(t[5])
				faultOff, _ = strconv.Atoi(t[6])
			}
			out = append(out, line)
		case "cut":
			if fault == nil {
				out = append(out, line)
				continue
			}
			out = append(out, line+" => "+kit.Esc(string(fault.out))+" "+strconv.Itoa(fault.errs))
			fault = nil
			fpoints = nil
		case "batch":
			mode, recTime, zero = "batch", t[1] == "1", parseTime(t[2])
			fileMode = len(t) > 3 && t[3] == "file"
			liveMode = len(t) > 3 && t[3] == "live"
			out = append(out, line)
		case "lp":
			out = append(out, line+" => "+parseReal(un(t[2]), t[1]))
		case "lpend":
			out = append(out, line)
		case "pt":
			p := edge.NewPointMessage(un(t[3]), un(t[1]), un(t[2]), models.Dimensions{}, parseFields(t[5]), parseTags(t[4]), parseTime(t[6]))
			fpoints = append(fpoints, p)
			if fault != nil {
				if nA == faultAt {
					fault.room = faultOff
				}
				nA++
				func() {
					defer func() { recover() }()
					kapacitor.WritePointForRecording(fault, p, precision) // error ignored (doRecordStream)
				}()
				out = append(out, line+" => "+kit.Esc(string(p.GroupID()))+" "+b01(p.Dimensions().ByName)+":"+renderDims(p.Dimensions()))
				continue
			}
			before := buf.Len()
			func() {
				defer func() {
					if r := recover(); r != nil {
						recErr = true
					}
				}()
				if liveMode {
					return
				}
				if err := kapacitor.WritePointForRecording(&buf, p, precision); err != nil {
					recErr = true
				}
			}()
			// what the recorded message itself says about its group (observed, for the spec)
			// and the bytes the real writer produced for this point (compared byte for byte with the model's writer)
			wire := ""
			if !liveMode && !recErr {
				wire = " " + kit.Esc(string(buf.Bytes()[before:]))
			}
			out = append(out, line+" => "+kit.Esc(string(p.GroupID()))+" "+b01(p.Dimensions().ByName)+":"+renderDims(p.Dimensions())+wire)
		case "b":
			var pts []edge.BatchPointMessage
			if t[5] != "-" {
				for _, ps := range strings.Split(t[5], ";") {
					q := strings.Split(ps, "!")
					if len(q) != 3 {
						continue
					}
					pts = append(pts, edge.NewBatchPointMessage(parseFields(q[1]), parseTags(q[0]), parseTime(q[2])))
				}
			}
			b := edge.NewBufferedBatchMessage(edge.NewBeginBatchMessage(un(t[1]), parseTags(t[4]), t[2] == "1", parseTime(t[3]), len(pts)), pts, edge.NewEndBatchMessage())
			fcur = append(fcur, b)
			func() {
				defer func() {
					if r := recover(); r != nil {
						recErr = true
					}
				}()
				if liveMode {
					return
				}
				if err := kapacitor.WriteBatchForRecording(&buf, b); err != nil {
					recErr = true
				}
			}()
			out = append(out, line+" => "+kit.Esc(string(b.GroupID()))+" "+renderDims(b.Dimensions()))
		case "replay":
			if recErr {
				out = append(out, line+" => recerr 0 0")
				continue
			}
			if mode == "" {
				out = append(out, line+" => nomode")
				continue
			}
			if !doReplay {
				out = append(out, line+" => panic 0 0")
				continue
			}
			clk := &recClock{zero: zero, last: "-"}
			var fileStream io.ReadCloser
			var fileBatches []io.ReadCloser
			if fileMode {
				// record with the service's own writers into a recording file, open it with the service's readers
				ferr := func() (err error) {
					defer func() {
						if r := recover(); r != nil {
							err = fmt.Errorf("panic: %v", r)
						}
					}()
					dir := os.Getenv("VERIF_SCRATCH")
					if dir == "" {
						dir = os.TempDir()
					}
					ext := ".srpl"
					if mode == "batch" {
						ext = ".brpl"
					}
					path := filepath.Join(dir, fmt.Sprintf("c18-%d%s", os.Getpid(), ext))
					defer os.Remove(path) // the open readers keep the file alive
					ds := replay.VerifFileSource(path)
					if mode == "stream" {
						ch := make(chan edge.PointMessage, len(fpoints))
						for _, p := range fpoints {
							ch <- p
						}
						close(ch)
						if err := replay.VerifSaveStream(ds, ch); err != nil {
							return err
						}
						fileStream, err = ds.StreamReader()
						return err
					}
					var chans []<-chan edge.BufferedBatchMessage
					for _, bs := range append(fbatches, fcur) {
						ch := make(chan edge.BufferedBatchMessage, len(bs))
						for _, b := range bs {
							ch <- b
						}
						close(ch)
						chans = append(chans, ch)
					}
					if err := replay.VerifSaveBatches(ds, chans); err != nil {
						return err
					}
					fileBatches, err = ds.BatchReaders()
					return err
				}()
				if ferr != nil {
					out = append(out, line+" => fileerr 0 0")
					continue
				}
			}
			if mode == "batch" && liveMode {
				out = append(out, line+" => "+liveBatch(clk, append(fbatches, fcur), recTime))
				continue
			}
			if mode == "stream" && liveMode {
				col := &collector{clk: clk}
				ch := make(chan edge.PointMessage)
				go func() {
					defer close(ch)
					for _, p := range fpoints {
						ch <- p
					}
				}()
				var status string
				func() {
					defer func() {
						if r := recover(); r != nil {
							status = "panic"
						}
					}()
					status = wait(kapacitor.ReplayStreamFromChan(clk, ch, col, recTime))
				}()
				out = append(out, line+" => "+col.result(status))
				continue
			}
			if mode == "batch" {
				all := append(srcs, append([]byte(nil), buf.Bytes()...))
				var datas []io.ReadCloser
				var cols []*collector
				var bcols []kapacitor.BatchCollector
				for i, d := range all {
					if fileMode && i < len(fileBatches) {
						datas = append(datas, fileBatches[i])
					} else if fileMode {
						continue // the archive has fewer entries than sources: visible as a missing source
					} else {
						datas = append(datas, nopCloser{bytes.NewReader(d)})
					}
					c := &collector{clk: clk, multi: len(all) > 1}
					cols = append(cols, c)
					bcols = append(bcols, c)
				}
				var status string
				func() {
					defer func() {
						if r := recover(); r != nil {
							status = "panic"
						}
					}()
					status = wait(kapacitor.ReplayBatchFromIO(clk, datas, bcols, recTime))
				}()
				for i := 0; i < 2000 && status != "hang" && status != "panic"; i++ {
					done := true
					for _, c := range cols {
						c.mu.Lock()
						if c.closes == 0 {
							done = false
						}
						c.mu.Unlock()
					}
					if done {
						break
					}
					time.Sleep(time.Millisecond)
				}
				res := []string{status, strconv.Itoa(len(cols))}
				for _, c := range cols {
					res = append(res, c.resultSrc())
				}
				clk.mu.Lock()
				us := append([]int64(nil), clk.all...)
				clk.mu.Unlock()
				sort.Slice(us, func(i, j int) bool { return us[i] < us[j] })
				var ut []string
				for _, u := range us {
					ut = append(ut, strconv.FormatInt(u, 10))
				}
				res = append(res, "U:"+list(ut, ","))
				out = append(out, line+" => "+strings.Join(res, " "))
				continue
			}
			col := &collector{clk: clk}
			var data io.ReadCloser = nopCloser{bytes.NewReader(buf.Bytes())}
			if fileMode {
				data = fileStream
			}
			var status string
			func() {
				defer func() {
					if r := recover(); r != nil {
						status = "panic"
					}
				}()
				status = wait(kapacitor.ReplayStreamFromIO(clk, data, col, recTime, precision))
			}()
			// the error channel may deliver before the replaying goroutine has closed the collector
			for i := 0; i < 2000; i++ {
				col.mu.Lock()
				c := col.closes
				col.mu.Unlock()
				if c > 0 || status == "hang" || status == "panic" {
					break
				}
				time.Sleep(time.Millisecond)
			}
			out = append(out, line+" => "+col.result(status))
		}
	}
	return out
}

// liveBatch feeds the batches of every source to the REAL kapacitor.ReplayBatchFromChan on unbuffered channels, the way
// services/replay does for `replay-live` (doLiveBatchReplay / doLiveQueryReplay): nothing is recorded in between.
func liveBatch(clk *recClock, sources [][]edge.BufferedBatchMessage, recTime bool) string {
	var chans []<-chan edge.BufferedBatchMessage
	var cols []*collector
	var bcols []kapacitor.BatchCollector
	for _, bs := range sources {
		ch := make(chan edge.BufferedBatchMessage)
		go func(bs []edge.BufferedBatchMessage) {
			defer close(ch)
			for _, b := range bs {
				ch <- b
			}
		}(bs)
		chans = append(chans, ch)
		c := &collector{clk: clk, multi: len(sources) > 1}
		cols = append(cols, c)
		bcols = append(bcols, c)
	}
	var status string
	func() {
		defer func() {
			if r := recover(); r != nil {
				status = "panic"
			}
		}()
		status = wait(kapacitor.ReplayBatchFromChan(clk, chans, bcols, recTime))
	}()
	res := []string{status, strconv.Itoa(len(cols))}
	for _, c := range cols {
		res = append(res, c.resultSrc())
	}
	clk.mu.Lock()
	us := append([]int64(nil), clk.all...)
	clk.mu.Unlock()
	sort.Slice(us, func(i, j int) bool { return us[i] < us[j] })
	var ut []string
	for _, u := range us {
		ut = append(ut, strconv.FormatInt(u, 10))
	}
	res = append(res, "U:"+list(ut, ","))
	return strings.Join(res, " ")
}

// parseReal runs the REAL influxdb line-protocol parser the way readPointsFromIO does and renders what it returned:
// `point <name> <tags> <fields> <time ns>`, `nopoint`, `error`, `multi` (more than one point).
func parseReal(line, precision string) (res string) {
	defer func() {
		if r := recover(); r != nil {
			res = "panic"
		}
	}()
	mps, err := dbmodels.ParsePointsWithPrecision([]byte(line), time.Time{}, precision)
	if err != nil {
		return "error"
	}
	if len(mps) == 0 {
		return "nopoint"
	}
	if len(mps) > 1 {
		return "multi"
	}
	mp := mps[0]
	f, err := mp.Fields()
	if err != nil {
		return "error"
	}
	return strings.Join([]string{"point", kit.Esc(string(mp.Name())), renderTags(models.Tags(mp.Tags().Map())), renderFields(models.Fields(f)),
		strconv.FormatInt(mp.Time().UnixNano(), 10)}, " ")
}

func emit(out *kit.Out, id string, lines []string) {
	out.Line("case", id)
	for _, l := range lines {
		out.Line(l)
	}
	out.Line("end")
}


// ---- worker process: a panic inside a goroutine of the real code (ReplayStreamFromIO starts its own) cannot be
// recovered in-process; every case is therefore executed in a child `vh-c18 -worker`, and a child that dies in the
// middle of a case yields the observation `replay => panic` for that case (the child is restarted). ----

type worker struct {
	cmd *exec.Cmd
	in  io.WriteCloser
	out *bufio.Reader
}

func startWorker() (*worker, error) {
	exe, err := os.Executable()
	if err != nil {
		return nil, err
	}
	cmd := exec.Command(exe, "-worker", "1")
	cmd.Stderr = io.Discard
	in, err := cmd.StdinPipe()
	if err != nil {
		return nil, err
	}
	o, err := cmd.StdoutPipe()
	if err != nil {
		return nil, err
	}
	if err := cmd.Start(); err != nil {
		return nil, err
	}
	return &worker{cmd: cmd, in: in, out: bufio.NewReaderSize(o, 1<<20)}, nil
}

func (w *worker) stop() {
	w.in.Close()
	w.cmd.Wait()
}

var theWorker *worker

// runCase executes one case in the worker process.
func runCase(ops []string) []string {
	for attempt := 0; attempt < 2; attempt++ {
		if theWorker == nil {
			w, err := startWorker()
			if err != nil {
				return execCase(ops) // no child possible: run in-process
			}
			theWorker = w
		}
		var sb strings.Builder
		for _, l := range ops {
			sb.WriteString(l)
			sb.WriteByte('\n')
		}
		sb.WriteString("end\n")
		_, werr := io.WriteString(theWorker.in, sb.String())
		var res []string
		dead := werr != nil
		for !dead {
			l, err := theWorker.out.ReadString('\n')
			if err != nil {
				dead = true
				break
			}
			l = strings.TrimRight(l, "\n")
			if l == "end" {
				return res
			}
			res = append(res, l)
		}
		theWorker.stop()
		theWorker = nil
		if werr != nil && attempt == 0 {
			continue // the worker was already gone before this case: retry once with a fresh one
		}
		// the worker died while executing this case
		return execCaseOpt(ops, false)
	}
	return nil
}

func workerLoop() int {
	in := bufio.NewReaderSize(os.Stdin, 1<<20)
	out := bufio.NewWriterSize(os.Stdout, 1<<20)
	var cur []string
	for {
		l, err := in.ReadString('\n')
		if err != nil {
			return 0
		}
		l = strings.TrimRight(l, "\n")
		if l == "end" {
			for _, r := range execCase(cur) {
				out.WriteString(r)
				out.WriteByte('\n')
			}
			out.WriteString("end\n")
			out.Flush()
			cur = nil
			continue
		}
		cur = append(cur, l)
	}
}

// Run: `vh-c18 -seed S -n N [-tier thorough]` generates; `vh-c18 -ops file` re-executes the cases of a file.
func Run(args []string) int {
	f := kit.ParseFlags(args)
	if f.Extra["worker"] != "" {
		return workerLoop()
	}
	defer func() {
		if theWorker != nil {
			theWorker.stop()
		}
	}()
	out := kit.NewOut()
	defer out.Flush()
	if f.Ops != "" {
		lines, err := kit.ReadLines(f.Ops)
		if err != nil {
			fmt.Fprintln(os.Stderr, err)
			return 2
		}
		var cur []string
		id := ""
		for _, l := range lines {
			t := strings.Fields(l)
			switch {
			case len(t) == 2 && t[0] == "case":
				id, cur = t[1], nil
			case len(t) == 1 && t[0] == "end":
				emit(out, id, runCase(cur))
				out.Flush()
			default:
				cur = append(cur, l)
			}
		}
		return 0
	}
	r := kit.NewRand(f.Seed)
	for i := 0; i < f.N; i++ {
		emit(out, fmt.Sprintf("g%d", i), runCase(genCase(r.Fork(), i, f.Tier)))
		out.Flush()
	}
	return 0
}
