package c18

import (
	"fmt"
	"math"
	"sort"
	"strconv"
	"strings"

	"verifharness/kit"
)

// ---- pools: clean names (no newline, no backslash, non-empty) with every character the property names ----

var cleanNames = []string{"cpu", "m", "mem used", "a,b", "k=v", "q\"uote", "héllo", "日本", "x y,z=w", "T", "i", "true", "1", "a b", "=", ",", "\"", "a#b", "tab\there", "émoji😀"}
var cleanDBs = []string{"db", "telegraf", "my db", "d,b", "d=b", "dé", "_internal", "a\"b", "x\\y", "%"}
var cleanRPs = []string{"autogen", "rp", "two weeks", "r,p", "default", "ü", "r\\", "%"}
var tagKeys = []string{"host", "dc", "a b", "k,1", "k=2", "é", "zone", "H", "q\""}
var tagVals = []string{"a", "serverA", "us west", "v,1", "v=2", "ü", "\"", "0", "x y=z,w", "日本"}
var fieldKeys = []string{"value", "v", "f 1", "f,2", "f=3", "f\"4", "é", "count", "i", "t"}
var strVals = []string{"", "plain", "with space", "a,b", "a=b", "q\"uote", "\"", "\"\"", "back\\slash", "\\", "\\\\", "trail\\", "\\\"", "a\\\"b", "héllo wörld", "日本語", "😀", "x=1,y=\"2\" z", " ", "i", "1i", "true", "t", "#", "tab\t", "\r", "a\rb", "\\n", "'", "a\nb", "\n", "line1\nline2\nline3", "x\n", "\ny", "q\"\nr", "a\r\nb", "a,b\n c=d"}

// dirty: components that contain a newline (or a trailing CR in db/rp)
var dirtyStr = []string{"a\nb", "\n", "line1\nline2\nline3", "x\n", "\ny", "q\"\nr", "a\r\nb"}

var bigInts = []int64{0, 1, -1, 42, 9007199254740992, 9007199254740993, -9007199254740993, 9007199254740995, 1 << 62, math.MaxInt64, math.MinInt64, math.MaxInt64 - 1, 4611686018427387905, 123456789012345678, 9007199254740991, 18014398509481985, -18014398509481987}
var floats = []float64{0, 1, -1, 0.5, 1.5, 3.141592653589793, 1e21, 1e-7, 123456789.125, -2.5e-300, 1.7976931348623157e308, 5e-324, 9007199254740992, 1e15, 0.1, math.Copysign(0, -1), 100, 2.5}

func fval(r *kit.Rand, kind int) string {
	switch kind {
	case 0:
		var x float64
		if r.Chance(1, 3) {
			x = math.Float64frombits(r.U64())
			if math.IsNaN(x) || math.IsInf(x, 0) {
				x = 7.25
			}
		} else {
			x = kit.Pick(r, floats)
		}
		return renderValue(x)
	case 1:
		if r.Chance(1, 3) {
			return renderValue(int64(r.U64()))
		}
		return renderValue(kit.Pick(r, bigInts))
	case 2:
		return renderValue(kit.Pick(r, strVals))
	default:
		return renderValue(r.Bool())
	}
}

func pickDistinct(r *kit.Rand, pool []string, n int) []string {
	idx := make([]int, len(pool))
	for i := range idx {
		idx[i] = i
	}
	for i := range idx {
		j := i + r.Intn(len(idx)-i)
		idx[i], idx[j] = idx[j], idx[i]
	}
	if n > len(pool) {
		n = len(pool)
	}
	out := make([]string, n)
	for i := range out {
		out[i] = pool[idx[i]]
	}
	sort.Strings(out)
	return out
}

func genTags(r *kit.Rand, n int) string {
	var t []string
	for _, k := range pickDistinct(r, tagKeys, n) {
		t = append(t, kit.Esc(k)+"="+kit.Esc(kit.Pick(r, tagVals)))
	}
	return list(t, ",")
}

// genTagsFor returns one of the tags of base with a different value.
func genTagsFor(r *kit.Rand, base string) string {
	kvs := strings.Split(base, ",")
	p := strings.SplitN(kit.Pick(r, kvs), "=", 2)
	return p[0] + "=" + kit.Esc(kit.Pick(r, tagVals)+"2")
}

// mergeTags adds the tags of extra whose keys are not in base (base wins), keeping the keys sorted.
func mergeTags(base, extra string) string {
	m := map[string]string{}
	for _, part := range []string{extra, base} {
		if part == "-" {
			continue
		}
		for _, kv := range strings.Split(part, ",") {
			p := strings.SplitN(kv, "=", 2)
			m[un(p[0])] = p[1]
		}
	}
	keys := make([]string, 0, len(m))
	for k := range m {
		keys = append(keys, k)
	}
	sort.Strings(keys)
	var out []string
	for _, k := range keys {
		out = append(out, kit.Esc(k)+"="+m[k])
	}
	return list(out, ",")
}

// kinds: bit set of allowed field kinds (1 float, 2 int, 4 string, 8 bool)
func genFields(r *kit.Rand, n int, kinds int) string {
	var allowed []int
	for k := 0; k < 4; k++ {
		if kinds&(1<<k) != 0 {
			allowed = append(allowed, k)
		}
	}
	var f []string
	for _, k := range pickDistinct(r, fieldKeys, n) {
		f = append(f, kit.Esc(k)+"="+fval(r, kit.Pick(r, allowed)))
	}
	return list(f, ",")
}

func genTimes(r *kit.Rand, n int) []int64 {
	base := int64(1500000000000000000)
	switch r.Intn(6) {
	case 0:
		base = int64(r.Intn(1000))
	case 1:
		base = -int64(r.Intn(1000000)) - 1
	case 2:
		base = int64(r.U64() >> 3) // up to 2^61
	}
	ts := make([]int64, n)
	t := base
	for i := range ts {
		switch r.Intn(8) {
		case 0: // equal timestamps
		case 1:
			t -= int64(r.Intn(50)) // time going backwards
		case 2:
			t += int64(r.Intn(5)) * 1000000000
		default:
			t += int64(r.Intn(100000)) + 1
		}
		ts[i] = t
	}
	return ts
}

func genZero(r *kit.Rand, first int64) int64 {
	switch r.Intn(5) {
	case 0:
		return first // no shift at all
	case 1:
		return first - int64(r.Intn(1000000)) - 1 // replay into the past
	case 2:
		return 0
	case 3:
		return first + int64(r.Intn(1000000)) + 1
	default:
		return 1700000000000000000 + int64(r.Intn(1000000000))
	}
}

// injectDirty replaces one component of a pt line by a string with a newline.
func dirtyPoint(r *kit.Rand, t int64) string {
	db, rp, name := kit.Pick(r, cleanDBs[:4]), kit.Pick(r, cleanRPs[:3]), kit.Pick(r, cleanNames[:6])
	tags := []string{"host=a"}
	fields := []string{"v=" + renderValue(1.5)}
	d := kit.Pick(r, dirtyStr)
	bs := kit.Pick(r, []string{"a\\", "\\", "a\\,b", "a\\ b", "x\\y", "a\\=b", "\\\\"})
	switch r.Intn(15) {
	case 13, 14: // the first field key starts with whitespace that the parser skips (finding stream-whitespace-fieldkey)
		fields = []string{kit.Esc(kit.Pick(r, []string{"\tv", "\x00k", "\t", "\t v", "\t\tx"})) + "=" + renderValue(int64(3)), "z=" + renderValue(true)}
	case 9: // a backslash in a name (finding stream-backslash-name)
		name = bs
	case 10:
		tags = []string{"host=" + kit.Esc(bs)}
	case 11:
		tags = []string{kit.Esc(bs) + "=a"}
	case 12:
		fields = []string{kit.Esc(bs) + "=" + renderValue(int64(3))}
	case 8: // the recorded line is a line protocol comment (finding stream-hash-measurement)
		name = kit.Pick(r, []string{"#", "#m", "#a b"})
	case 0:
		db = d
	case 1:
		rp = d
	case 2:
		name = d
	case 3:
		tags = []string{kit.Esc(d) + "=a"}
	case 4:
		tags = []string{"host=" + kit.Esc(d)}
	case 5:
		fields = []string{kit.Esc(d) + "=" + renderValue(int64(3))}
	case 6:
		db = kit.Pick(r, []string{"db\r", "\r"})
	default:
		tags = []string{"host=a", kit.Esc("z"+d) + "=b"}
	}
	return fmt.Sprintf("pt %s %s %s %s %s %d", kit.Esc(db), kit.Esc(rp), kit.Esc(name), list(tags, ","), list(fields, ","), t)
}

// lpLike: database / retention-policy strings that are themselves line protocol lines, so that a record
// whose db or rp contains newlines re-frames into records that all parse (exercises the framing model
// beyond the first dirty record).
func lpLike(r *kit.Rand) string {
	n := r.Range(1, 3)
	var ls []string
	for i := 0; i < n; i++ {
		ls = append(ls, fmt.Sprintf("m%d v=%di %d", r.Intn(3), r.Intn(100), 1000+r.Intn(1000)))
	}
	return strings.Join(ls, "\n")
}

func genStream(r *kit.Rand, i int, tier string) []string {
	n := r.Range(1, 6)
	if r.Chance(1, 10) {
		n = r.Range(8, 30)
	}
	if r.Chance(1, 25) {
		n = 0
	}
	prec := "n"
	if r.Chance(1, 8) {
		prec = kit.Pick(r, []string{"u", "ms", "s"})
	}
	times := genTimes(r, n)
	first := int64(0)
	if n > 0 {
		first = times[0]
	}
	file := ""
	if prec == "n" && r.Chance(1, 3) {
		file = " file" // through the service's gzip stream recording file
	}
	ops := []string{fmt.Sprintf("stream %s %d %s%s", b01(r.Bool()), genZero(r, first), prec, file)}
	kind := i % 10
	for j := 0; j < n; j++ {
		switch {
		case kind == 7 && (j == n/2): // one dirty record in the middle
			ops = append(ops, dirtyPoint(r, times[j]))
		case kind == 9 && j == 0 && r.Chance(1, 6): // a line around / beyond bufio.MaxScanTokenSize (64 KiB)
			// line = `m v="<N bytes>" <time>` : N + 10 + len(time) bytes
			ts := strconv.FormatInt(times[j], 10)
			total := kit.Pick(r, []int{65535, 65536, 65537, 65536 + r.Intn(1000), 131072, 262145})
			n := total - 10 - len(ts)
			body := strings.Repeat("a", n)
			if r.Chance(1, 3) {
				body = strings.Repeat("a", n-4) + "q\"q" // escaped quote: 2 bytes on the wire
				body = body[:len(body)-1]
			}
			db := "db"
			if r.Chance(1, 8) {
				db = strings.Repeat("d", 70000)
			}
			ops = append(ops, fmt.Sprintf("pt %s rp m - v=%s %d", db, renderValue(body), times[j]))
		case kind == 8: // framing-directed: every component is a valid line
			db, rp := lpLike(r), lpLike(r)
			ops = append(ops, fmt.Sprintf("pt %s %s m - v=%s %d", kit.Esc(db), kit.Esc(rp), renderValue(int64(j)), times[j]))
		default:
			nt := r.Intn(4)
			if r.Chance(1, 4) {
				nt = 0
			}
			ops = append(ops, fmt.Sprintf("pt %s %s %s %s %s %d", kit.Esc(kit.Pick(r, cleanDBs)), kit.Esc(kit.Pick(r, cleanRPs)),
				kit.Esc(kit.Pick(r, cleanNames)), genTags(r, nt), genFields(r, r.Range(1, 4), 15), times[j]))
		}
	}
	ops = append(ops, "replay")
	return ops
}

func genBatch(r *kit.Rand, i int, tier string) []string {
	nb := r.Range(1, 5)
	if r.Chance(1, 20) {
		nb = 0
	}
	kind := i % 10
	kinds := 1 | 4 | 8 // no int fields: the recording format cannot carry them (finding batch-int-as-float)
	if kind == 1 || kind == 3 {
		kinds = 15
	}
	var lines []string
	var firstT int64
	haveFirst := false
	t0 := genTimes(r, 1)[0]
	// granularity of the timestamps: RFC3339Nano drops trailing zeros, so whole seconds / ms / us print differently
	gran := kit.Pick(r, []int64{1, 1, 1, 1000, 1000000, 1000000000})
	if gran > 1 && t0 > -(1<<60) && t0 < 1<<60 {
		t0 -= t0 % gran
	}
	step := func(n int) int64 { return int64(r.Intn(n)) * gran }
	_ = step
	for b := 0; b < nb; b++ {
		np := r.Range(1, 5)
		if (kind == 5 || kind == 3) && r.Chance(1, 2) {
			np = 0 // empty batch
		}
		ntags := r.Intn(3)
		btags := genTags(r, ntags)
		var pts []string
		var last int64 = t0
		for p := 0; p < np; p++ {
			last = t0 + step(1000)
			if r.Chance(1, 6) {
				last = t0
			}
			t0 = last + step(3)
			if !haveFirst {
				firstT, haveFirst = last, true
			}
			ptags := btags
			if r.Chance(1, 3) { // extra (non-group) tags on the point: the batch is grouped by a subset of the tags
				ptags = mergeTags(btags, genTags(r, r.Range(1, 2)))
			}
			if ptags != "-" && r.Chance(1, 6) { // the point's value of a GROUP tag differs from the group's
				ptags = mergeTags(genTagsFor(r, ptags), ptags)
			}
			if (kind == 9 || kind == 3) && r.Chance(1, 2) {
				ptags = "-" // tagless point in a (possibly tagged) batch
			}
			pts = append(pts, ptags+"!"+genFields(r, r.Range(1, 3), kinds)+"!"+strconv.FormatInt(last, 10))
		}
		tmax := last + step(1000)
		if r.Chance(1, 4) {
			tmax = last
		}
		if kind == 6 && r.Chance(1, 2) {
			tmax = last - step(100) - gran // tmax before the last point (ill-formed batch)
		}
		t0 = tmax + step(5)
		lines = append(lines, fmt.Sprintf("b %s %s %d %s %s", kit.Esc(kit.Pick(r, cleanNames)), b01(r.Bool()), tmax, btags, list(pts, ";")))
	}
	file := ""
	if r.Chance(1, 3) {
		file = " file" // through the service's zip batch archive
	}
	ops := []string{fmt.Sprintf("batch %s %d%s", b01(r.Bool()), genZero(r, firstT), file)}
	if kind == 2 || kind == 3 { // several sources (one per batch query of the task), replayed concurrently under one clock
		for i, l := range lines {
			ops = append(ops, l)
			if i+1 < len(lines) && r.Chance(1, 2) {
				ops = append(ops, "src")
			}
		}
		if r.Chance(1, 4) {
			ops = append(ops, "src") // a last source without batches
		}
	} else {
		ops = append(ops, lines...)
	}
	ops = append(ops, "replay")
	return ops
}

// ---- live replays (nothing recorded: the items go to Replay*FromChan on a channel, as services/replay does for replay-live) ----

func genLiveStream(r *kit.Rand, i int, tier string) []string {
	ops := genStream(r, i, tier)
	h := strings.Fields(ops[0])
	ops[0] = fmt.Sprintf("stream %s %s n live", h[1], h[2])
	return ops
}

// genLiveBatch: the batches a channel can carry and a recording cannot: batches WITHOUT points (with a batch time = the
// query's stop time, or with the zero time as ResultToBufferedBatches leaves it), leading / trailing / consecutive
// empty batches, int fields, tagless points.
func genLiveBatch(r *kit.Rand, i int, tier string) []string {
	kind := kit.Pick(r, []int{3, 5, 3, 5, 5, 2, 9, 1, 6, 0})
	ops := genBatch(r, kind, tier)
	h := strings.Fields(ops[0])
	ops[0] = fmt.Sprintf("batch %s %s live", h[1], h[2])
	for k, l := range ops {
		t := strings.Fields(l)
		if len(t) != 6 || t[0] != "b" {
			continue
		}
		if (t[5] == "-" && r.Chance(1, 3)) || r.Chance(1, 12) {
			t[3] = "Z" // b.Begin().Time().IsZero()
			ops[k] = strings.Join(t, " ")
		}
	}
	if r.Chance(1, 4) { // a leading empty batch that carries the first timestamp of the replay
		h := strings.Fields(ops[0])
		z, _ := strconv.ParseInt(h[2], 10, 64)
		first := z - int64(r.Intn(2000)) + 1000
		for _, l := range ops[1:] {
			t := strings.Fields(l)
			if len(t) == 6 && t[0] == "b" && t[3] != "Z" {
				first, _ = strconv.ParseInt(t[3], 10, 64)
				first -= int64(r.Intn(1000))
				break
			}
		}
		lead := fmt.Sprintf("b %s %s %d %s -", kit.Esc(kit.Pick(r, cleanNames)), b01(r.Bool()), first, genTags(r, r.Intn(2)))
		ops = append([]string{ops[0], lead}, ops[1:]...)
	}
	return ops
}

// ---- line-protocol lines generated from the MODEL's grammar (Kap.C18.lineOf), not by the real writer ----

func mEscMeas(s string) string {
	return strings.NewReplacer(",", "\\,", " ", "\\ ").Replace(s)
}
func mEscTag(s string) string {
	return strings.NewReplacer(",", "\\,", " ", "\\ ", "=", "\\=").Replace(s)
}
func mEscKey(s string) string {
	return strings.NewReplacer(",", "\\,", "\"", "\\\"", " ", "\\ ", "=", "\\=").Replace(s)
}
func mEscStr(s string) string {
	return strings.NewReplacer("\"", "\\\"", "\\", "\\\\").Replace(s)
}

var lpAlpha = []string{"a", "b", ",", " ", "=", "\"", "é", "#", "i", "t", "1", "T", "-", ".", "日", "\t", "'", "x", ",", " ", "="}
var lpStrAlpha = []string{"a", "\"", "\\", ",", " ", "=", "\n", "é", "n", "i", "#", "\r", "\"", "\\", "\t", "1"}

// lpWord: a non-empty word over the alphabet in which the special bytes occur at EVERY position (first, last,
// adjacent); idx enumerates the short words exhaustively before random ones are drawn.
func lpWord(r *kit.Rand, alpha []string, minLen int) string {
	n := r.Range(minLen, 4)
	if r.Chance(1, 10) {
		n = r.Range(5, 9)
	}
	var sb strings.Builder
	for k := 0; k < n; k++ {
		sb.WriteString(kit.Pick(r, alpha))
	}
	return sb.String()
}

func lpName(r *kit.Rand) string {
	for {
		w := lpWord(r, lpAlpha, 1)
		if w[0] != '#' && w[0] != '\t' {
			return w
		}
	}
}

// lpDistinct: distinct words; a word that is nothing but TAB / NUL is left out (as a field key it is an EMPTY key
// after the parser's skipWhitespace, which the real field iterator silently drops and the model's parser rejects:
// outside the grammar, covered by finding stream-whitespace-fieldkey on the replay level).
func lpDistinct(r *kit.Rand, n int) []string {
	seen := map[string]bool{}
	var ws []string
	for len(ws) < n {
		w := lpWord(r, lpAlpha, 1)
		if strings.TrimLeft(w, "\t\x00") == "" {
			continue
		}
		if !seen[w] {
			seen[w] = true
			ws = append(ws, w)
		}
	}
	return ws
}

// lpLine returns one line of the model's grammar and the float oracle (bits~text of every float literal in it).
func lpLine(r *kit.Rand) (string, string) {
	var sb strings.Builder
	var orc []string
	sb.WriteString(mEscMeas(lpName(r)))
	tk := lpDistinct(r, kit.Pick(r, []int{0, 0, 1, 1, 2, 3}))
	if !r.Chance(1, 5) {
		sort.Strings(tk) // the writer sorts; the parser must sort what is not
	}
	for _, k := range tk {
		sb.WriteString("," + mEscTag(k) + "=" + mEscTag(lpWord(r, lpAlpha, 1)))
	}
	sb.WriteString(" ")
	fk := lpDistinct(r, r.Range(1, 3))
	if !r.Chance(1, 5) {
		sort.Strings(fk)
	}
	for j, k := range fk {
		if j > 0 {
			sb.WriteString(",")
		}
		sb.WriteString(mEscKey(k) + "=")
		switch r.Intn(5) {
		case 0:
			x := kit.Pick(r, floats)
			if r.Chance(1, 2) {
				x = math.Float64frombits(r.U64())
				if math.IsNaN(x) || math.IsInf(x, 0) {
					x = 7.25
				}
			}
			txt := string(strconv.AppendFloat(nil, x, 'f', -1, 64))
			orc = append(orc, kit.F64(x)+"~"+kit.Esc(txt))
			sb.WriteString(txt)
		case 1:
			v := kit.Pick(r, bigInts)
			if r.Chance(1, 2) {
				v = int64(r.U64())
			}
			sb.WriteString(strconv.FormatInt(v, 10) + "i")
		case 2, 3:
			sb.WriteString("\"" + mEscStr(lpWord(r, lpStrAlpha, 0)) + "\"")
		default:
			sb.WriteString(kit.Pick(r, []string{"true", "false", "true", "false", "t", "T", "True", "TRUE", "f", "F", "False", "FALSE"}))
		}
	}
	ts := genTimes(r, 1)[0]
	sb.WriteString(" " + strconv.FormatInt(ts, 10))
	return sb.String(), list(orc, ",")
}

func genLP(r *kit.Rand, i int, tier string) []string {
	var ops []string
	n := r.Range(3, 8)
	for k := 0; k < n; k++ {
		line, orc := lpLine(r)
		ops = append(ops, fmt.Sprintf("lp n %s %s", kit.Esc(line), orc))
	}
	return append(ops, "lpend")
}

// genFault: two stream recordings made one after the other in ONE process. The first goes to a writer that takes j
// whole records and off more bytes and then fails for good (volume full) while every point is still handed to the
// recorder (doRecordStream ignores the error); the second, of other data, is healthy and is the one replayed. off is
// directed at every class: 0 (before the first record / between two records), inside the db / rp lines, inside the
// line protocol line, the last byte of a record, beyond the end (no fault at all).
func genFault(r *kit.Rand, i int, tier string) []string {
	pt := func(t int64) string {
		nt := r.Intn(3)
		return fmt.Sprintf("pt %s %s %s %s %s %d", kit.Esc(kit.Pick(r, cleanDBs)), kit.Esc(kit.Pick(r, cleanRPs)),
			kit.Esc(kit.Pick(r, cleanNames)), genTags(r, nt), genFields(r, r.Range(1, 3), 15), t)
	}
	nA, nB := r.Range(1, 6), r.Range(1, 5)
	if r.Chance(1, 12) {
		nA = r.Range(10, 40) // many records pile up behind the fault
	}
	tA, tB := genTimes(r, nA), genTimes(r, nB)
	j := r.Intn(nA + 1)
	if r.Chance(1, 4) {
		j = 0
	}
	off := kit.Pick(r, []int{0, 0, 0, 1, 2, r.Range(3, 12), r.Range(8, 40), r.Range(20, 120), 100000})
	ops := []string{fmt.Sprintf("stream %s %d n fault %d %d", b01(r.Bool()), genZero(r, tB[0]), j, off)}
	for _, t := range tA {
		ops = append(ops, pt(t))
	}
	ops = append(ops, "cut")
	for _, t := range tB {
		ops = append(ops, pt(t))
	}
	return append(ops, "replay")
}

func genCase(r *kit.Rand, i int, tier string) []string {
	// every fifth case is one of the kinds added later (live stream, live batch, parser); the others see the
	// same consecutive index sequence as before
	if i%5 == 4 {
		j := i / 5
		if j%4 == 3 { // a failed recording followed by a healthy one in the same process
			return genFault(r, j/4, tier)
		}
		j -= (j + 1) / 4
		switch j % 3 {
		case 0:
			return genLiveStream(r, j/3, tier)
		case 1:
			return genLiveBatch(r, j/3, tier)
		default:
			return genLP(r, j/3, tier)
		}
	}
	i -= i / 5
	if i%2 == 0 {
		return genStream(r, i/2, tier)
	}
	return genBatch(r, i/2, tier)
}
