// Package c19 is the harness for property C19 (data crosses the UDF boundary unchanged; safe framing).
//
// Two kinds of cases, both on the REAL code of /repo:
//
//   - frame cases: agent.WriteMessage on a recording writer (the two Write calls per message are the observation),
//     then agent.ReadMessage repeatedly over a reader that delivers the byte stream in the generated chunks
//     (1-byte reads, splits inside the varint, empty reads, the last chunk together with io.EOF, truncation).
//   - echo cases: a real udf.Server connected by two io.Pipes to a real agent.Agent whose Handler echoes every
//     Begin/Point/End and serves snapshot/restore; both directions are read through chunk-limiting readers;
//     points, buffered and unbuffered batches are written to Server.In(), Snapshot()/Restore() calls and keepalives
//     are interleaved, and everything that comes out of Server.Out() is the observation.
package c19

import (
	"bufio"
	"fmt"
	"io"
	"os"
	"strconv"
	"strings"
	"sync"
	"time"

	"github.com/influxdata/kapacitor/edge"
	"github.com/influxdata/kapacitor/keyvalue"
	"github.com/influxdata/kapacitor/udf"
	"github.com/influxdata/kapacitor/udf/agent"

	"verifharness/kit"
)

// ---------------------------------------------------------------------------------------------
// frame cases

type recWriter struct{ writes [][]byte }

func (w *recWriter) Write(p []byte) (int, error) {
	w.writes = append(w.writes, append([]byte(nil), p...))
	return len(p), nil
}

// chunkReader delivers a fixed byte stream that was pre-split into chunks: Read returns at most the rest of the
// current chunk (an empty chunk is an empty read), ReadByte takes one byte of the first non-empty chunk.
// With eofWithData the read that exhausts the stream returns its bytes together with io.EOF (allowed by io.Reader).
type chunkReader struct {
	chunks      [][]byte
	eofWithData bool
	consumed    int
}

func (r *chunkReader) ReadByte() (byte, error) {
	for len(r.chunks) > 0 && len(r.chunks[0]) == 0 {
		r.chunks = r.chunks[1:]
	}
	if len(r.chunks) == 0 {
		return 0, io.EOF
	}
	b := r.chunks[0][0]
	r.chunks[0] = r.chunks[0][1:]
	r.consumed++
	return b, nil
}

func (r *chunkReader) Read(p []byte) (int, error) {
	if len(r.chunks) == 0 {
		return 0, io.EOF
	}
	if len(p) == 0 {
		return 0, nil
	}
	c := r.chunks[0]
	n := copy(p, c)
	if n == len(c) {
		r.chunks = r.chunks[1:]
	} else {
		r.chunks[0] = c[n:]
	}
	r.consumed += n
	if r.eofWithData && len(r.chunks) == 0 && n > 0 {
		return n, io.EOF
	}
	return n, nil
}

func parsePattern(s string) []int {
	var out []int
	for _, x := range splitOrEmpty(s, ",") {
		out = append(out, int(atoi(x)))
	}
	if len(out) == 0 {
		out = []int{1 << 30}
	}
	return out
}

// splitChunks cuts data by the cyclic pattern (0 = an empty chunk; a pattern of zeros only is padded by a 1).
func splitChunks(data []byte, pat []int) [][]byte {
	allZero := true
	for _, p := range pat {
		if p > 0 {
			allZero = false
		}
	}
	if allZero {
		pat = append(append([]int(nil), pat...), 1)
	}
	var out [][]byte
	i := 0
	for len(data) > 0 {
		k := pat[i%len(pat)]
		i++
		if k > len(data) {
			k = len(data)
		}
		out = append(out, data[:k])
		data = data[k:]
	}
	return out
}

type frameState struct {
	rw    recWriter
	isReq bool
	n     int
}

func (fs *frameState) write(tok string) string {
	isReq, req, resp := parseWire(tok)
	fs.isReq = isReq
	before := len(fs.rw.writes)
	var err error
	if isReq {
		err = agent.WriteMessage(req, &fs.rw)
	} else {
		err = agent.WriteMessage(resp, &fs.rw)
	}
	if err != nil {
		return "err"
	}
	ws := fs.rw.writes[before:]
	fs.n++
	if len(ws) != 2 {
		// another Write-call structure than (varint, payload): report all the bytes, the driver re-frames them
		var all []byte
		for _, w := range ws {
			all = append(all, w...)
		}
		return fmt.Sprintf("writes:%d %s", len(ws), hexs(all))
	}
	return hexs(ws[0]) + " " + hexs(ws[1])
}

func (fs *frameState) read(pattern, eofMode, cut string) string {
	var stream []byte
	for _, w := range fs.rw.writes {
		stream = append(stream, w...)
	}
	if cut != "-" {
		c := int(atoi(cut))
		if c < len(stream) {
			stream = stream[:c]
		}
	}
	cr := &chunkReader{chunks: splitChunks(stream, parsePattern(pattern)), eofWithData: eofMode == "1"}
	var buf []byte
	var res []string
	request := &agent.Request{} // agent.readLoop re-uses one Request, Server.readResponse allocates each time
	for i := 0; i < fs.n+2; i++ {
		var err error
		var desc string
		if fs.isReq {
			err = agent.ReadMessage(&buf, cr, request)
			if err == nil {
				desc = renderRequest(request)
			}
		} else {
			response := new(agent.Response)
			err = agent.ReadMessage(&buf, cr, response)
			if err == nil {
				desc = renderResponse(response)
			}
		}
		if err == io.EOF {
			res = append(res, fmt.Sprintf("eof:%d", cr.consumed))
			break
		}
		if err != nil {
			res = append(res, fmt.Sprintf("err:%d", cr.consumed))
			break
		}
		res = append(res, fmt.Sprintf("ok:%d:%s", cr.consumed, desc))
	}
	return strings.Join(res, " ")
}

// ---------------------------------------------------------------------------------------------
// echo cases

type nopDiag struct {
	mu sync.Mutex
	n  int
}

func (d *nopDiag) Error(msg string, err error, ctx ...keyvalue.T) {
	d.mu.Lock()
	d.n++
	d.mu.Unlock()
}
func (d *nopDiag) UDFLog(msg string) {}

// echoHandler is the well-behaved peer: it sends back every data message it receives and keeps snapshot bytes.
type echoHandler struct {
	a        *agent.Agent
	mu       sync.Mutex
	snap     []byte
	restored []byte
}

func (h *echoHandler) Info() (*agent.InfoResponse, error) {
	return &agent.InfoResponse{Wants: agent.EdgeType_STREAM, Provides: agent.EdgeType_STREAM, Options: map[string]*agent.OptionInfo{}}, nil
}
func (h *echoHandler) Init(*agent.InitRequest) (*agent.InitResponse, error) {
	return &agent.InitResponse{Success: true}, nil
}
func (h *echoHandler) Snapshot() (*agent.SnapshotResponse, error) {
	h.mu.Lock()
	defer h.mu.Unlock()
	return &agent.SnapshotResponse{Snapshot: h.snap}, nil
}
func (h *echoHandler) Restore(r *agent.RestoreRequest) (*agent.RestoreResponse, error) {
	h.mu.Lock()
	h.restored = append([]byte(nil), r.Snapshot...)
	h.mu.Unlock()
	return &agent.RestoreResponse{Success: true}, nil
}
func (h *echoHandler) BeginBatch(b *agent.BeginBatch) error {
	h.a.Responses <- &agent.Response{Message: &agent.Response_Begin{Begin: b}}
	return nil
}
func (h *echoHandler) Point(p *agent.Point) error {
	h.a.Responses <- &agent.Response{Message: &agent.Response_Point{Point: p}}
	return nil
}
func (h *echoHandler) EndBatch(e *agent.EndBatch) error {
	h.a.Responses <- &agent.Response{Message: &agent.Response_End{End: e}}
	return nil
}
func (h *echoHandler) Stop() { close(h.a.Responses) }

// limitReader truncates every Read of the underlying pipe to the next size of the cyclic pattern.
type limitReader struct {
	r   io.ReadCloser
	pat []int
	i   int
	tee *[]byte
	mu  *sync.Mutex
}

func (l *limitReader) Read(p []byte) (int, error) {
	k := l.pat[l.i%len(l.pat)]
	l.i++
	if k == 0 {
		return 0, nil
	}
	if k < len(p) {
		p = p[:k]
	}
	n, err := l.r.Read(p)
	if l.tee != nil && n > 0 {
		l.mu.Lock()
		*l.tee = append(*l.tee, p[:n]...)
		l.mu.Unlock()
	}
	return n, err
}
func (l *limitReader) Close() error { return l.r.Close() }

// directBRR is an agent.ByteReadReader without bufio in between: ReadMessage sees the chunking as it is.
type directBRR struct{ r io.Reader }

func (d directBRR) Read(p []byte) (int, error) { return d.r.Read(p) }
func (d directBRR) ReadByte() (byte, error) {
	var b [1]byte
	for {
		n, err := d.r.Read(b[:])
		if n == 1 {
			return b[0], nil
		}
		if err != nil {
			return 0, err
		}
	}
}

// stallWriter is the server's side of the request stream. When armed (op `stall <ms>`) it sleeps once AFTER the
// next Write call has been delivered - that call is the varint length of the next message, agent.WriteMessage
// follows it with a second Write for the payload - so that a keepalive falls due while the write loop is in the
// middle of a message: a stream that is slow or under back pressure. It also records the size of every Write call.
type stallWriter struct {
	w      io.WriteCloser
	mu     sync.Mutex
	armMs  int
	stalls int
}

func (sw *stallWriter) Write(p []byte) (int, error) {
	n, err := sw.w.Write(p)
	sw.mu.Lock()
	ms := sw.armMs
	sw.armMs = 0
	if ms > 0 {
		sw.stalls++
	}
	sw.mu.Unlock()
	if ms > 0 {
		time.Sleep(time.Duration(ms) * time.Millisecond)
	}
	return n, err
}
func (sw *stallWriter) Close() error { return sw.w.Close() }

func noZeros(p []int) []int {
	// bufio gives up after 100 empty reads in a row; patterns keep empty reads isolated
	out := make([]int, 0, len(p))
	for i, x := range p {
		if x == 0 && (i == 0 || p[i-1] == 0) {
			x = 1
		}
		out = append(out, x)
	}
	if out[len(out)-1] == 0 && out[0] == 0 {
		out[0] = 1
	}
	return out
}

type session struct {
	srv      *udf.Server
	ag       *agent.Agent
	h        *echoHandler
	diag     *nopDiag
	aborted  chan struct{}
	collDone chan struct{}
	outs     []string
	reqTee   []byte
	teeMu    sync.Mutex
	kaMs     int
	pending  []func() // joins of concurrent snapshot calls
	sendMu   sync.Mutex
	agDone   chan struct{}
	respPipe *io.PipeReader
	agErr    error
	sw       *stallWriter
}

func newSession(reqPat, respPat, bufioMode, kaMs string) (*session, string) {
	s := &session{diag: &nopDiag{}, aborted: make(chan struct{}), collDone: make(chan struct{}), agDone: make(chan struct{})}
	s.kaMs = int(atoi(kaMs))
	r1, w1 := io.Pipe() // server -> agent
	r2, w2 := io.Pipe() // agent -> server
	s.respPipe = r2
	agentIn := &limitReader{r: r1, pat: noZeros(parsePattern(reqPat)), tee: &s.reqTee, mu: &s.teeMu}
	serverInRaw := &limitReader{r: r2, pat: noZeros(parsePattern(respPat))}
	var serverIn agent.ByteReadReader
	if bufioMode == "1" {
		serverIn = bufio.NewReader(serverInRaw)
	} else {
		serverIn = directBRR{serverInRaw}
	}
	s.ag = agent.New(agentIn, w2)
	s.h = &echoHandler{a: s.ag}
	s.ag.Handler = s.h
	var once sync.Once
	s.sw = &stallWriter{w: w1}
	s.srv = udf.NewServer("task", "node", serverIn, s.sw, s.diag, time.Duration(s.kaMs)*time.Millisecond,
		func() {
			// like UDFNode.abortedCallback: signal, then wait until the feeder has stopped writing to In()
			once.Do(func() { close(s.aborted) })
			s.sendMu.Lock()
			s.sendMu.Unlock()
		}, func() {})
	if err := s.ag.Start(); err != nil {
		return s, "err:agent"
	}
	go func() { s.agErr = s.ag.Wait(); close(s.agDone) }() // what an agent process does right after Start
	if err := s.srv.Start(); err != nil {
		return s, "err:start"
	}
	go func() {
		defer close(s.collDone)
		for m := range s.srv.Out() {
			s.outs = append(s.outs, renderOut(m))
		}
	}()
	info, err := s.srv.Info()
	if err != nil {
		return s, "err:info"
	}
	if err := s.srv.Init(nil); err != nil {
		return s, "err:init"
	}
	return s, fmt.Sprintf("ok:%d:%d", int(info.Wants), int(info.Provides))
}

func (s *session) send(m edge.Message) bool {
	s.sendMu.Lock()
	defer s.sendMu.Unlock()
	select {
	case <-s.aborted:
		return false // In() is closed once the server has aborted
	default:
	}
	select {
	case s.srv.In() <- m:
		return true
	case <-s.aborted:
		return false
	}
}

func (s *session) snapshot(b []byte) string {
	s.h.mu.Lock()
	s.h.snap = b
	s.h.mu.Unlock()
	got, err := s.srv.Snapshot()
	if err != nil {
		return "err"
	}
	return hexs(got)
}

func (s *session) finish() string {
	for _, j := range s.pending {
		j()
	}
	s.pending = nil
	err := s.srv.Stop()
	<-s.collDone
	// the server has stopped reading: close its end like the OS does, so that a peer still writing gets an error
	s.respPipe.Close()
	status := "ok"
	select {
	case <-s.aborted:
		status = "aborted"
	default:
	}
	if status == "aborted" {
		// an agent whose output broke keeps goroutines blocked on its unbuffered channels (a real UDF process is
		// killed by SIGPIPE): do not wait for it
		select {
		case <-s.agDone:
		case <-time.After(300 * time.Millisecond):
		}
	} else {
		<-s.agDone
		if err != nil || s.agErr != nil {
			status = "err"
		}
	}
	// how many keepalive requests crossed the wire (informational: depends on timing)
	ka := 0
	br := bufio.NewReader(strings.NewReader(string(s.reqTee)))
	var buf []byte
	for {
		req := &agent.Request{}
		if err := agent.ReadMessage(&buf, br, req); err != nil {
			break
		}
		if _, ok := req.Message.(*agent.Request_Keepalive); ok {
			ka++
		}
	}
	kaTok := "ka=0"
	if ka > 0 {
		kaTok = "ka=1"
	}
	s.diag.mu.Lock()
	nd := s.diag.n
	s.diag.mu.Unlock()
	return fmt.Sprintf("%s %s diag=%d %s", status, kaTok, nd, joinOrEmpty(s.outs, " "))
}

// ---------------------------------------------------------------------------------------------

// execCase runs the op lines of one case and returns them with the observations appended.
func execCase(ops []string) (out []string) {
	for _, l := range ops {
		if strings.HasPrefix(strings.TrimSpace(l), "task ") {
			return execTaskCase(ops)
		}
		break
	}
	var fs frameState
	var s *session
	finished := false
	wd := time.AfterFunc(60*time.Second, func() {
		fmt.Fprintln(os.Stderr, "c19: case did not finish within 60s (deadlock in the real code?)")
		for _, l := range out {
			fmt.Fprintln(os.Stderr, "   ", l)
		}
		os.Exit(4)
	})
	defer wd.Stop()
	guard := func(line string, f func() string) {
		idx := len(out)
		out = append(out, line)
		defer func() {
			if r := recover(); r != nil {
				out[idx] = line + " => panic"
			}
		}()
		obs := f()
		if obs != "" {
			out[idx] = line + " => " + obs
		}
	}
	for _, raw := range ops {
		line := raw
		if i := strings.Index(line, " => "); i >= 0 {
			line = line[:i]
		}
		t := strings.Fields(line)
		if len(t) == 0 {
			continue
		}
		switch t[0] {
		case "w":
			guard(line, func() string { return fs.write(t[1]) })
		case "rd":
			guard(line, func() string { return fs.read(t[1], t[2], t[3]) })
		case "cfg":
			guard(line, func() string {
				var obs string
				s, obs = newSession(t[1], t[2], t[3], t[4])
				return obs
			})
		case "pt":
			guard(line, func() string {
				m := parseInPoint(t[1]).message()
				g := kit.Esc(string(m.GroupID()))
				if !s.send(m) {
					return g + " aborted"
				}
				return g
			})
		case "bb", "ub":
			guard(line, func() string {
				b := parseInBatch(t[1])
				bg := b.begin()
				obs := kit.Esc(string(bg.GroupID())) + " " + renderDims(bg.Dimensions().TagNames) + " " + renderTags(bg.Tags())
				ok := true
				if t[0] == "bb" {
					ok = s.send(edge.NewBufferedBatchMessage(bg, b.points(), edge.NewEndBatchMessage()))
				} else {
					ok = s.send(bg)
					for _, p := range b.points() {
						ok = ok && s.send(p)
					}
					ok = ok && s.send(edge.NewEndBatchMessage())
				}
				if !ok {
					return obs + " aborted"
				}
				return obs
			})
		case "ubs":
			// ubs <batch> <k> <hex>: begin, k points, Snapshot() (the UDF supplies <hex>), the other points, end
			guard(line, func() string {
				b := parseInBatch(t[1])
				k := int(atoi(t[2]))
				bg := b.begin()
				obs := kit.Esc(string(bg.GroupID())) + " " + renderDims(bg.Dimensions().TagNames) + " " + renderTags(bg.Tags())
				ok := s.send(bg)
				snap := ""
				for i, p := range b.points() {
					if i == k {
						snap = s.snapshot(unhex(t[3]))
					}
					ok = ok && s.send(p)
				}
				if snap == "" {
					snap = s.snapshot(unhex(t[3]))
				}
				ok = ok && s.send(edge.NewEndBatchMessage())
				if !ok {
					return obs + " " + snap + " aborted"
				}
				return obs + " " + snap
			})
		case "snap":
			guard(line, func() string { return s.snapshot(unhex(t[1])) })
		case "snapc":
			// Snapshot() from another goroutine while the following data ops run; joined before the next
			// snapshot/restore op and before `out`.
			idx := len(out)
			out = append(out, line)
			done := make(chan string, 1)
			b := unhex(t[1])
			go func() {
				defer func() {
					if r := recover(); r != nil {
						done <- "panic"
					}
				}()
				done <- s.snapshot(b)
			}()
			l := line
			s.pending = append(s.pending, func() { out[idx] = l + " => " + <-done })
		case "join":
			for _, j := range s.pending {
				j()
			}
			s.pending = nil
			out = append(out, line)
		case "restore":
			guard(line, func() string {
				err := s.srv.Restore(unhex(t[1]))
				s.h.mu.Lock()
				got := hexs(s.h.restored)
				s.h.mu.Unlock()
				if err != nil {
					return got + " err"
				}
				return got + " ok"
			})
		case "proc":
			guard(line, func() string {
				return runProc(t[1], t[2], int(atoi(t[3])), int(atoi(t[4])), int(atoi(t[5])))
			})
		case "stall":
			// the request stream stalls for <ms> between the two Write calls of the next message
			ms, _ := strconv.Atoi(t[1])
			s.sw.mu.Lock()
			s.sw.armMs = ms
			s.sw.mu.Unlock()
			out = append(out, line)
		case "sleep":
			ms, _ := strconv.Atoi(t[1])
			time.Sleep(time.Duration(ms) * time.Millisecond)
			out = append(out, line)
		case "out":
			guard(line, func() string { finished = true; return s.finish() })
		default:
			out = append(out, line)
		}
	}
	if s != nil && !finished {
		s.finish()
	}
	return out
}

func emit(o *kit.Out, id string, lines []string) {
	o.Line("case", id)
	for _, l := range lines {
		o.Line(l)
	}
	o.Line("end")
	o.Flush()
}

// Run: `vh-c19 -seed S -n N [-tier thorough]` generates; `vh-c19 -ops file` re-executes the cases of a file.
func Run(args []string) int {
	f := kit.ParseFlags(args)
	o := kit.NewOut()
	defer o.Flush()
	if f.Ops != "" {
		lines, err := kit.ReadLines(f.Ops)
		if err != nil {
			fmt.Fprintln(os.Stderr, err)
			return 2
		}
		var cur []string
		id := ""
		for _, l := range lines {
			t := strings.Fields(l)
			switch {
			case len(t) == 2 && t[0] == "case":
				id, cur = t[1], nil
			case len(t) == 1 && t[0] == "end":
				emit(o, id, execCase(cur))
			default:
				cur = append(cur, l)
			}
		}
		return 0
	}
	r := kit.NewRand(f.Seed)
	thorough := f.Tier == "thorough"
	for i := 0; i < f.N; i++ {
		g := r.Fork()
		switch {
		case i == 7 || (thorough && i%500 == 7):
			// the real UDFProcess closed cleanly while the consumer of Out() stalls for longer than a second: the process
			// exits with its echo unread in the (OS) pipe
			emit(o, fmt.Sprintf("p%d", i), execCase([]string{fmt.Sprintf("proc %s %s %d %d %d", genPattern(g), genPattern(g),
				g.Range(50, 600), g.Intn(12), 1300+g.Intn(700))}))
		case i%25 == 5:
			emit(o, fmt.Sprintf("t%d", i), execCase(genTaskCase(g, thorough, i)))
		case i%3 == 0:
			emit(o, fmt.Sprintf("f%d", i), execCase(genFrameCase(g, thorough, i)))
		default:
			emit(o, fmt.Sprintf("e%d", i), execCase(genEchoCase(g, thorough, i)))
		}
	}
	return 0
}
