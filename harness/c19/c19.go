// Package c19 is the harness for property C19 (runs the real kapacitor code, prints op lines).
package c19

import (
	"fmt"
	"os"
)

// Run is replaced by the property's harness.
func Run(args []string) int {
	fmt.Fprintln(os.Stderr, "c19: harness not implemented yet")
	return 3
}
