package c19

import (
	"fmt"
	"math"
	"strconv"
	"strings"

	"github.com/influxdata/kapacitor/models"
	"github.com/influxdata/kapacitor/udf/agent"

	"verifharness/kit"
)

// ---- value pools (branch directed: every type, boundary values, awkward strings) ----

var strPool = []string{"", "a", "b", "host", "é", "日本語", "a b", "x,y=z", "l1\nl2", "\x00", "%", "=", "|;~!", "tab\there", "\"q\"", "\\", "cpu\n", "a=b,c"}
// boundary code points of every UTF-8 length (all valid) …
var utf8Edge = []string{"\xc2\x80", "\xdf\xbf", "\xe0\xa0\x80", "\xed\x9f\xbf", "\xee\x80\x80", "\xef\xbf\xbd", "\xf0\x90\x80\x80", "\xf4\x8f\xbf\xbf", "\xe1\x80\x80x"}

// … and byte strings that are NOT valid UTF-8 (lone continuation, overlong, surrogate, above U+10FFFF, truncated,
// invalid lead bytes): legal Go strings, known finding invalid-utf8
var badStr = []string{"\xff", "a\x80", "\xc0\x80", "\xc1\xbf", "\xe0\x9f\xbf", "\xed\xa0\x80", "\xed\xbf\xbf", "\xf0\x8f\xbf\xbf",
	"\xf4\x90\x80\x80", "\xf5\x80\x80\x80", "\xe2\x82", "\xf0\x9f\x98", "ok\xc3", "\xc3(", "\xe2\x28\xa1", "\xf8\x88\x80\x80\x80"}

var keyPool = []string{"a", "b", "c", "host", "dc", "é", "a b", "k,1", "x=y", "", "value", "usage_idle", "z"}
var namePool = []string{"cpu", "m", "", "é", "a b", "n\nx", "mem,x=1"}
var intPool = []int64{0, 1, -1, 42, 1 << 53, 1<<53 + 1, -(1<<53 + 1), math.MaxInt64, math.MinInt64, 127, 128, -128, 1 << 31, 1 << 32}
var floatBits = []uint64{0, 0x8000000000000000, 0x3ff8000000000000, 0x7ff8000000000000, 0x7ff0000000000001, 0xfff8000000000123,
	0x7ff0000000000000, 0xfff0000000000000, 0x0000000000000001, 0x7fefffffffffffff, 0x4340000000000001, 0xc008000000000000}
var timePool = []int64{0, 1, -1, 1500000000000000000, 1500000000000000001, math.MaxInt64, math.MinInt64, 999999999, 1000000000, -1000000001}

func genString(r *kit.Rand, thorough bool) string {
	switch k := r.Intn(100); {
	case k < 8:
		return kit.Pick(r, utf8Edge)
	case k < 70:
		return kit.Pick(r, strPool)
	case k < 85:
		n := r.Intn(12)
		var b strings.Builder
		for i := 0; i < n; i++ {
			b.WriteRune(rune(kit.Pick(r, []int{'a', 'z', ' ', ',', '=', '\n', 0xe9, 0x4e16, 0x1f600, '"', '\\', 0x7f, 1})))
		}
		return b.String()
	case k < 95:
		return strings.Repeat("x", kit.Pick(r, []int{100, 126, 127, 128, 129, 300}))
	default:
		if thorough {
			return strings.Repeat("long-", kit.Pick(r, []int{820, 3277, 3300, 5000}))
		}
		return strings.Repeat("y", kit.Pick(r, []int{4090, 4096, 5000}))
	}
}

func genFieldVal(r *kit.Rand, thorough bool, typ int) interface{} {
	switch typ {
	case 0:
		return genString(r, thorough)
	case 1:
		if r.Chance(2, 3) {
			return math.Float64frombits(kit.Pick(r, floatBits))
		}
		return math.Float64frombits(r.U64())
	case 2:
		if r.Chance(2, 3) {
			return kit.Pick(r, intPool)
		}
		return int64(r.U64())
	default:
		return r.Bool()
	}
}

func genFields(r *kit.Rand, thorough bool) models.Fields {
	f := models.Fields{}
	var n int
	switch k := r.Intn(10); {
	case k == 0:
		n = 0
	case k < 4:
		n = 1
	default:
		n = r.Range(2, 6)
	}
	// sometimes a single type only (three typed maps stay nil), sometimes all four
	only := -1
	if r.Chance(1, 4) {
		only = r.Intn(4)
	}
	for i := 0; i < n; i++ {
		typ := r.Intn(4)
		if only >= 0 {
			typ = only
		}
		f[kit.Pick(r, keyPool)] = genFieldVal(r, thorough, typ)
	}
	return f
}

func genTags(r *kit.Rand) models.Tags {
	n := 0
	switch k := r.Intn(10); {
	case k < 2:
		n = 0
	case k < 5:
		n = 1
	default:
		n = r.Range(2, 4)
	}
	t := models.Tags{}
	for i := 0; i < n; i++ {
		t[kit.Pick(r, keyPool)] = kit.Pick(r, strPool)
	}
	return t
}

func genTime(r *kit.Rand) int64 {
	if r.Chance(1, 2) {
		return kit.Pick(r, timePool)
	}
	return int64(r.U64())
}

// dims of a stream point: any list of names (subset of the tag keys in any order, absent tags, none)
func genDims(r *kit.Rand, tags models.Tags) []string {
	ks := sortedKeys(tags)
	var d []string
	switch k := r.Intn(10); {
	case k < 3:
		return nil
	case k < 7:
		for _, x := range ks {
			if r.Chance(2, 3) {
				d = append(d, x)
			}
		}
	case k < 9:
		for i := len(ks) - 1; i >= 0; i-- { // unsorted order
			d = append(d, ks[i])
		}
	default:
		d = append(append(d, ks...), "absent")
	}
	return d
}

func genPoint(r *kit.Rand, thorough bool) inPoint {
	tags := genTags(r)
	return inPoint{name: kit.Pick(r, namePool), db: kit.Pick(r, []string{"db", "", "d b", "telegraf"}), rp: kit.Pick(r, []string{"rp", "", "autogen"}),
		dims: genDims(r, tags), byName: r.Chance(1, 3), tags: tags, fields: genFields(r, thorough), time: genTime(r)}
}

func genBatch(r *kit.Rand, thorough bool) inBatch {
	b := inBatch{name: kit.Pick(r, namePool), byName: r.Chance(1, 3), tags: genTags(r), tmax: genTime(r)}
	n := 0
	switch k := r.Intn(10); {
	case k < 2:
		n = 0
	case k < 5:
		n = 1
	default:
		n = r.Range(2, 7)
	}
	for i := 0; i < n; i++ {
		tags := b.tags
		if r.Chance(1, 3) {
			tags = genTags(r) // batch points carry their own tag sets
		}
		b.pts = append(b.pts, inBP{tags: tags, fields: genFields(r, thorough), time: genTime(r)})
	}
	// the header as GroupByNode builds it: SetTagsAndDimensions(tags, sorted duplicate-free dimension names)
	if k := r.Intn(40); k < 10 {
		b.hasSet = true
		for _, x := range sortedKeys(b.tags) {
			if r.Chance(2, 3) {
				b.setDims = append(b.setDims, x)
			}
		}
		if k == 0 {
			b.setDims = append(b.setDims, "zz-absent")
		}
		if k == 1 {
			// a dimension named twice, as GroupByNode built it for groupBy('a', 'a') until fix 6ba92e9: a hand-made header
			// now (no in-tree producer), kept to tie echo_identity_up_to_dims to the real boundary
			if len(b.setDims) == 0 {
				b.setDims = []string{"dup"}
			}
			b.setDims = append([]string{b.setDims[0]}, b.setDims...)
		}
	}
	switch k := r.Intn(10); {
	case k < 6:
		b.sizeHint = n
	case k < 8:
		b.sizeHint = 0 // "unknown number of points"
	default:
		b.sizeHint = n + r.Range(1, 5) // a wrong hint must not matter
	}
	return b
}

var patterns = []string{"!", "1", "2", "3", "1,2", "7", "1,1,5", "4096", "4095,1", "16", "0,1", "3,0,2", "64,1,0,9", "5,1000"}

func genPattern(r *kit.Rand) string {
	if r.Chance(3, 4) {
		return kit.Pick(r, patterns)
	}
	n := r.Range(1, 5)
	var xs []string
	for i := 0; i < n; i++ {
		xs = append(xs, strconv.Itoa(kit.Pick(r, []int{0, 1, 1, 2, 3, 5, 8, 13, 100, 127, 128, 129, 4096})))
	}
	return strings.Join(xs, ",")
}

func hexBytes(r *kit.Rand, thorough bool) string {
	n := kit.Pick(r, []int{0, 1, 2, 5, 127, 128, 129, 300})
	if r.Chance(1, 8) {
		n = kit.Pick(r, []int{4096, 5000, 16383, 16384, 16385})
	}
	b := make([]byte, n)
	for i := range b {
		b[i] = byte(r.U64())
	}
	return hexs(b)
}

// ---- frame cases ----

func toPB(p inPoint) *agent.Point {
	pb := &agent.Point{Time: p.time, Name: p.name, Database: p.db, RetentionPolicy: p.rp, Group: string(p.message().GroupID()),
		Dimensions: p.dims, ByName: p.byName, Tags: p.tags}
	for k, v := range p.fields {
		switch x := v.(type) {
		case string:
			if pb.FieldsString == nil {
				pb.FieldsString = map[string]string{}
			}
			pb.FieldsString[k] = x
		case float64:
			if pb.FieldsDouble == nil {
				pb.FieldsDouble = map[string]float64{}
			}
			pb.FieldsDouble[k] = x
		case int64:
			if pb.FieldsInt == nil {
				pb.FieldsInt = map[string]int64{}
			}
			pb.FieldsInt[k] = x
		case bool:
			if pb.FieldsBool == nil {
				pb.FieldsBool = map[string]bool{}
			}
			pb.FieldsBool[k] = x
		}
	}
	return pb
}

func genWire(r *kit.Rand, huge bool, thorough bool, isReq bool, big bool) string {
	if big {
		// payload sizes around the varint length boundaries: 2^7, 2^14, and 2^21 (a few thorough cases)
		sizes := []int{100, 120, 125, 126, 127, 128, 129, 130, 16370, 16380, 16384, 16390}
		if huge {
			sizes = []int{2097140, 2097152, 2097160}
		}
		n := kit.Pick(r, sizes)
		b := make([]byte, n)
		for i := range b {
			b[i] = byte(i * 7)
		}
		if isReq {
			return renderRequest(&agent.Request{Message: &agent.Request_Restore{Restore: &agent.RestoreRequest{Snapshot: b}}})
		}
		return renderResponse(&agent.Response{Message: &agent.Response_Snapshot{Snapshot: &agent.SnapshotResponse{Snapshot: b}}})
	}
	k := r.Intn(100)
	if r.Chance(1, 12) {
		// proto.Marshal must reject exactly the strings utf8.Valid rejects (model: validUTF8)
		bad := kit.Pick(r, badStr)
		if r.Chance(1, 3) {
			bad = kit.Pick(r, utf8Edge) // valid after all
		}
		if isReq {
			return "q:N|" + kit.Esc(bad) + "|n"
		}
		return "r:X|" + kit.Esc(bad)
	}
	if isReq {
		switch {
		case k < 45:
			return renderRequest(&agent.Request{Message: &agent.Request_Point{Point: toPB(genPoint(r, thorough))}})
		case k < 55:
			b := genBatch(r, thorough)
			return renderRequest(&agent.Request{Message: &agent.Request_Begin{Begin: &agent.BeginBatch{Name: b.name, Group: string(b.begin().GroupID()), Tags: b.tags, Size: int64(b.sizeHint), ByName: b.byName}}})
		case k < 65:
			b := genBatch(r, thorough)
			return renderRequest(&agent.Request{Message: &agent.Request_End{End: &agent.EndBatch{Name: b.name, Group: string(b.begin().GroupID()), Tags: b.tags, Tmax: b.tmax, ByName: b.byName}}})
		case k < 75:
			return renderRequest(&agent.Request{Message: &agent.Request_Keepalive{Keepalive: &agent.KeepaliveRequest{Time: genTime(r)}}})
		case k < 80:
			return "q:S"
		case k < 85:
			return "q:I"
		case k < 90:
			return "q:Z"
		case k < 95:
			return "q:N|" + kit.Esc(kit.Pick(r, strPool)) + "|" + kit.Esc(kit.Pick(r, strPool))
		default:
			return "q:R|" + hexBytes(r, thorough)
		}
	}
	switch {
	case k < 45:
		return renderResponse(&agent.Response{Message: &agent.Response_Point{Point: toPB(genPoint(r, thorough))}})
	case k < 55:
		b := genBatch(r, thorough)
		return renderResponse(&agent.Response{Message: &agent.Response_Begin{Begin: &agent.BeginBatch{Name: b.name, Group: string(b.begin().GroupID()), Tags: b.tags, Size: int64(b.sizeHint), ByName: b.byName}}})
	case k < 65:
		b := genBatch(r, thorough)
		return renderResponse(&agent.Response{Message: &agent.Response_End{End: &agent.EndBatch{Name: b.name, Group: string(b.begin().GroupID()), Tags: b.tags, Tmax: b.tmax, ByName: b.byName}}})
	case k < 75:
		return renderResponse(&agent.Response{Message: &agent.Response_Keepalive{Keepalive: &agent.KeepaliveResponse{Time: genTime(r)}}})
	case k < 82:
		return "r:S|" + hexBytes(r, thorough)
	case k < 86:
		return "r:Z"
	case k < 90:
		return "r:RR|" + b01(r.Bool()) + "|" + kit.Esc(kit.Pick(r, strPool))
	case k < 94:
		return "r:NR|" + b01(r.Bool()) + "|" + kit.Esc(kit.Pick(r, strPool))
	case k < 97:
		return fmt.Sprintf("r:IR|%d|%d", r.Intn(2), r.Intn(2))
	default:
		return "r:X|" + kit.Esc(kit.Pick(r, strPool))
	}
}

func genFrameCase(r *kit.Rand, thorough bool, i int) []string {
	var ops []string
	isReq := r.Bool()
	n := r.Range(1, 6)
	if r.Chance(1, 10) {
		n = 0
	}
	huge := thorough && i%600 == 0 // 4-byte varints: payloads of 2 MB, a handful of cases only (they are big to print)
	if huge {
		n = 2
	}
	for j := 0; j < n; j++ {
		ops = append(ops, "w "+genWire(r, huge && j == 0, thorough, isReq, r.Chance(1, 5) || (huge && j == 0)))
	}
	// several read schedules over the same stream: whole, 1-byte reads, generated patterns, last chunk with EOF,
	// and cuts (the stream ends early: inside a varint, inside a body, at a frame boundary)
	ops = append(ops, "rd ! 0 -")
	ops = append(ops, "rd 1 0 -")
	ops = append(ops, fmt.Sprintf("rd %s %d -", genPattern(r), r.Intn(2)))
	ops = append(ops, fmt.Sprintf("rd %s 1 -", genPattern(r)))
	ops = append(ops, fmt.Sprintf("rd %s %d %d", genPattern(r), r.Intn(2), r.Intn(400)))
	ops = append(ops, fmt.Sprintf("rd %s %d %d", genPattern(r), r.Intn(2), r.Intn(6)))
	return ops
}

// ---- echo cases ----

func genEchoCase(r *kit.Rand, thorough bool, i int) []string {
	var ops []string
	ka := 0
	// one session per run (a few in the thorough tier) has keepalives on and sleeps long enough for one to cross
	// the wire; the timeout is generous (3 s) so that a loaded machine cannot trip it
	slow := i == 1 || (thorough && i%500 == 1)
	if slow {
		ka = 3000
	}
	ops = append(ops, fmt.Sprintf("cfg %s %s %d %d", genPattern(r), genPattern(r), r.Intn(2), ka))
	mode := r.Intn(3) // 0 stream only, 1 batch only, 2 mixed (a stream point between batches is a stream point)
	n := r.Range(1, 10)
	if r.Chance(1, 12) {
		n = 0
	}
	pendingSnap := false
	poison := -1 // one message of a few sessions carries a string that is not valid UTF-8
	if n > 0 && r.Chance(1, 20) {
		poison = r.Intn(n)
	}
	for j := 0; j < n; j++ {
		if j == poison && pendingSnap {
			ops = append(ops, "join") // let the concurrent Snapshot() finish before the server aborts
			pendingSnap = false
		}
		isPoint := mode == 0 || (mode == 2 && r.Bool())
		if isPoint {
			p := genPoint(r, thorough)
			if j == poison {
				switch r.Intn(4) {
				case 0:
					p.fields["bad"] = kit.Pick(r, badStr)
				case 1:
					p.tags = models.Tags{"t": kit.Pick(r, badStr)}
				case 2:
					p.name = kit.Pick(r, badStr)
				default:
					p.fields[kit.Pick(r, badStr)] = int64(1)
				}
			}
			ops = append(ops, "pt "+p.token())
		} else {
			b := genBatch(r, thorough)
			if j == poison {
				if len(b.pts) > 0 && r.Bool() {
					b.pts[len(b.pts)-1].fields = models.Fields{"bad": kit.Pick(r, badStr)}
				} else {
					b.tags = models.Tags{"t": kit.Pick(r, badStr)}
					b.hasSet = false
				}
			}
			if k := r.Intn(9); k == 0 && !pendingSnap && j != poison {
				ops = append(ops, fmt.Sprintf("ubs %s %d %s", b.token(), r.Intn(len(b.pts)+1), hexBytes(r, thorough)))
			} else if k < 3 {
				ops = append(ops, "ub "+b.token())
			} else {
				ops = append(ops, "bb "+b.token())
			}
		}
		switch k := r.Intn(20); {
		case k == 0:
			if pendingSnap {
				ops = append(ops, "join")
				pendingSnap = false
			}
			ops = append(ops, "snap "+hexBytes(r, thorough))
		case k == 1:
			if pendingSnap {
				ops = append(ops, "join")
			}
			ops = append(ops, "snapc "+hexBytes(r, thorough))
			pendingSnap = true
		case k == 2:
			if pendingSnap {
				ops = append(ops, "join")
				pendingSnap = false
			}
			ops = append(ops, "restore "+hexBytes(r, thorough))
		}
		if slow && j == n/2 {
			ops = append(ops, "sleep 1700")
		}
	}
	if slow && poison < 0 {
		// the request stream stalls between the two Write calls (length, payload) of the next data message for
		// longer than the keepalive interval (timeout/2 = 1.5 s): a keepalive falls due in the middle of a message
		if pendingSnap {
			ops = append(ops, "join")
		}
		ops = append(ops, "stall 1700")
		ops = append(ops, "pt "+genPoint(r, thorough).token())
	}
	ops = append(ops, "out")
	return ops
}
