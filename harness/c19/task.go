package c19

// Task cases: the whole path of a real task. A real TaskMaster runs
//
//	stream|from()…@sink()@echo()@sink()                       (stream)
//	stream|from()…|window()…@bsink()@becho()@bsink()          (batch)
//
// where `echo` / `becho` are created by a UDFService that returns the REAL kapacitor.UDFProcess (with an in-memory
// command.Commander) resp. the REAL kapacitor.UDFSocket (with an in-memory Socket); both wrap a real udf.Server and
// talk over chunk-limited pipes to the in-process echo agent. So kapacitor.UDFNode (udf.go: the pump between the
// edges and Server.In()/Out(), Open/Init/Close), UDFProcess/UDFSocket, udf.Server and udf/agent are all inside the
// tie. The observation is what the sink in front of the UDF and the sink behind it recorded.

import (
	"fmt"
	"io"
	"os"
	"sort"
	"strconv"
	"strings"
	"sync"
	"time"

	imodels "github.com/influxdata/influxdb/models"
	"github.com/influxdata/kapacitor"
	"github.com/influxdata/kapacitor/command"
	"github.com/influxdata/kapacitor/udf"
	"github.com/influxdata/kapacitor/udf/agent"

	"verifharness/kit"
)

// peerEnd is the UDF side of the two pipes: an agent with the echo handler.
type peerEnd struct {
	wants     agent.EdgeType
	reqPat    []int
	respPat   []int
	toPeerR   *io.PipeReader
	toPeerW   *io.PipeWriter
	fromPeerR *io.PipeReader
	fromPeerW *io.PipeWriter
	// a PROCESS writes its stdout into an OS pipe: the kernel buffers (64 KiB), the process can exit with unread data
	// in the pipe, and exec.Cmd.Wait closes the parent's read end once the process is gone ("it is incorrect to call
	// Wait before all reads from the pipe have completed"). The in-memory command keeps exactly that.
	osR, osW *os.File
	done     chan struct{}
}

type typedEcho struct {
	echoHandler
	et agent.EdgeType
}

func (h *typedEcho) Info() (*agent.InfoResponse, error) {
	return &agent.InfoResponse{Wants: h.et, Provides: h.et, Options: map[string]*agent.OptionInfo{}}, nil
}

func newPeerEnd(et agent.EdgeType, reqPat, respPat []int) *peerEnd {
	p := &peerEnd{wants: et, reqPat: reqPat, respPat: respPat, done: make(chan struct{})}
	p.toPeerR, p.toPeerW = io.Pipe()
	p.fromPeerR, p.fromPeerW = io.Pipe()
	return p
}

// newProcessEnd: like newPeerEnd, the peer's output goes through an OS pipe (a process' stdout).
func newProcessEnd(et agent.EdgeType, reqPat, respPat []int) *peerEnd {
	p := newPeerEnd(et, reqPat, respPat)
	r, w, err := os.Pipe()
	if err != nil {
		panic(err)
	}
	p.osR, p.osW = r, w
	return p
}

func (p *peerEnd) start() error {
	var out io.WriteCloser = p.fromPeerW
	if p.osW != nil {
		out = p.osW
	}
	ag := agent.New(&limitReader{r: p.toPeerR, pat: p.reqPat}, out)
	h := &typedEcho{et: p.wants}
	h.a = ag
	ag.Handler = h
	if err := ag.Start(); err != nil {
		return err
	}
	go func() { ag.Wait(); close(p.done) }()
	return nil
}

func (p *peerEnd) serverReads() io.Reader {
	if p.osR != nil {
		return &limitReader{r: p.osR, pat: p.respPat}
	}
	return &limitReader{r: p.fromPeerR, pat: p.respPat}
}

// ---- command.Commander / command.Command in memory (for the real UDFProcess) ----

type memCommander struct{ mk func() *peerEnd }

func (c memCommander) NewCommand(command.Spec) command.Command {
	r, w := io.Pipe()
	return &memCmd{p: c.mk(), errR: r, errW: w}
}

type memCmd struct {
	p    *peerEnd
	errR *io.PipeReader
	errW *io.PipeWriter
}

func (c *memCmd) Start() error {
	if err := c.p.start(); err != nil {
		return err
	}
	go func() { <-c.p.done; c.errW.Close() }() // the process has exited: stderr ends
	return nil
}
func (c *memCmd) Wait() error {
	<-c.p.done
	if c.p.osR != nil {
		c.p.osR.Close() // exec.Cmd.Wait: closeAfterWait - whatever is still unread in the pipe is gone
	}
	return nil
}
func (c *memCmd) Stdin(io.Reader)                    {}
func (c *memCmd) Stdout(io.Writer)                   {}
func (c *memCmd) Stderr(io.Writer)                   {}
func (c *memCmd) StdinPipe() (io.WriteCloser, error) { return c.p.toPeerW, nil }
func (c *memCmd) StdoutPipe() (io.Reader, error)     { return c.p.serverReads(), nil }
func (c *memCmd) StderrPipe() (io.Reader, error)     { return c.errR, nil }
func (c *memCmd) Kill() {
	c.p.toPeerR.CloseWithError(io.ErrClosedPipe)
	c.p.fromPeerR.CloseWithError(io.ErrClosedPipe)
	if c.p.osR != nil {
		c.p.osR.Close()
	}
}

// ---- kapacitor.Socket in memory (for the real UDFSocket) ----

type memSocket struct {
	mk func() *peerEnd
	p  *peerEnd
}

func (s *memSocket) Open() error {
	s.p = s.mk()
	return s.p.start()
}
func (s *memSocket) Close() error {
	select {
	case <-s.p.done:
	case <-time.After(5 * time.Second):
	}
	return nil
}
func (s *memSocket) In() io.WriteCloser { return s.p.toPeerW }
func (s *memSocket) Out() io.Reader     { return s.p.serverReads() }

// ---- the UDF service of the task master ----

type echoSvc struct {
	sink    *kit.SinkUDFService
	reqPat  []int
	respPat []int
	mu      sync.Mutex
	aborted bool
}

func (s *echoSvc) List() []string { return []string{"sink", "bsink", "echo", "becho"} }
func (s *echoSvc) Info(name string) (udf.Info, bool) {
	switch name {
	case "echo":
		return udf.Info{Wants: agent.EdgeType_STREAM, Provides: agent.EdgeType_STREAM, Options: map[string]*agent.OptionInfo{}}, true
	case "becho":
		return udf.Info{Wants: agent.EdgeType_BATCH, Provides: agent.EdgeType_BATCH, Options: map[string]*agent.OptionInfo{}}, true
	}
	return s.sink.Info(name)
}
func (s *echoSvc) Create(name, taskID, nodeID string, d udf.Diagnostic, abortCallback func()) (udf.Interface, error) {
	ab := func() {
		s.mu.Lock()
		s.aborted = true
		s.mu.Unlock()
		abortCallback()
	}
	switch name {
	case "echo":
		mk := func() *peerEnd { return newProcessEnd(agent.EdgeType_STREAM, s.reqPat, s.respPat) }
		return kapacitor.NewUDFProcess(taskID, nodeID, memCommander{mk}, command.Spec{Prog: "echo"}, d, 0, ab), nil
	case "becho":
		mk := func() *peerEnd { return newPeerEnd(agent.EdgeType_BATCH, s.reqPat, s.respPat) }
		return kapacitor.NewUDFSocket(taskID, nodeID, &memSocket{mk: mk}, d, 0, ab), nil
	}
	return s.sink.Create(name, taskID, nodeID, d, abortCallback)
}

// ---- one task case ----
//
//	task <stream|batch> <groupBy: none|host|host,host|star|dc,host> <byMeasurement 0|1> <reqPattern> <respPattern>
//	wp <measurement> <tags> <fields> <time>        (points written to the task master, in order)
//	run => <status> before=<n> after=<n>
//	before => <messages recorded in front of the UDF>
//	after => <messages recorded behind the UDF>

var taskNo int

func groupByClause(g string, byMeas string) string {
	s := ""
	switch g {
	case "none":
	case "star":
		s = ".groupBy(*)"
	default:
		var q []string
		for _, d := range strings.Split(g, ",") {
			q = append(q, "'"+d+"'")
		}
		s = ".groupBy(" + strings.Join(q, ", ") + ")"
	}
	if byMeas == "1" {
		s += ".groupByMeasurement()"
	}
	return s
}

func execTaskCase(ops []string) (out []string) {
	var cfg []string
	var pts []imodels.Point
	status := "ok"
	for _, raw := range ops {
		line := raw
		if i := strings.Index(line, " => "); i >= 0 {
			line = line[:i]
		}
		t := strings.Fields(line)
		if len(t) == 0 {
			continue
		}
		switch t[0] {
		case "task":
			cfg = t
			out = append(out, line)
		case "wp":
			tags := parseTags(t[2])
			fields := imodels.Fields{}
			for k, v := range parseFields(t[3]) {
				fields[k] = v
			}
			p, err := imodels.NewPoint(un(t[1]), imodels.NewTags(tags), fields, time.Unix(0, atoi(t[4])).UTC())
			if err != nil {
				status = "err:point"
			} else {
				pts = append(pts, p)
			}
			out = append(out, line)
		case "run":
			var before, after []string
			func() {
				defer func() {
					if r := recover(); r != nil {
						status = "panic"
					}
				}()
				if status != "ok" {
					return
				}
				tm, err := kit.NewTM(kit.TMOpts{})
				if err != nil {
					status = "err:tm"
					return
				}
				defer tm.Close()
				svc := &echoSvc{sink: tm.Sink, reqPat: noZeros(parsePattern(cfg[4])), respPat: noZeros(parsePattern(cfg[5]))}
				tm.TM.UDFService = svc
				taskNo++
				id := fmt.Sprintf("c19_%d", taskNo)
				g, post := cfg[2], ""
				if strings.HasPrefix(g, "post:") {
					// the batch is re-grouped AFTER the window: GroupByNode's batch path (SetTagsAndDimensions)
					post = "  |groupBy(" + strings.TrimPrefix(groupByClause(strings.TrimPrefix(g, "post:"), "0"), ".groupBy(") + "\n"
					g = "none"
				}
				script := "stream\n  |from()\n    .measurement('m')\n    " + groupByClause(g, cfg[3]) + "\n"
				if cfg[1] == "batch" {
					script += "  |window()\n    .period(10s)\n    .every(10s)\n" + post + "  @bsink()\n  @becho()\n  @bsink()\n"
				} else {
					script += "  @sink()\n  @echo()\n  @sink()\n"
				}
				et, err := tm.StartStream(id, script, []kapacitor.DBRP{{Database: "db", RetentionPolicy: "rp"}})
				if err != nil {
					if os.Getenv("VERIF_LOG") != "" {
						fmt.Fprintln(os.Stderr, "task:", err, "\n", script)
					}
					status = "err:script"
					return
				}
				for _, p := range pts {
					if err := tm.TM.WritePoints("db", "rp", imodels.ConsistencyLevelAll, []imodels.Point{p}); err != nil {
						status = "err:write"
						break
					}
				}
				tm.TM.Drain()
				done := make(chan error, 1)
				go func() { done <- et.Wait() }()
				select {
				case err := <-done:
					if err != nil {
						if os.Getenv("VERIF_LOG") != "" {
							fmt.Fprintln(os.Stderr, "task failed:", err)
						}
						status = "err:task"
					}
				case <-time.After(60 * time.Second):
					status = "timeout"
				}
				svc.mu.Lock()
				if svc.aborted {
					status = "aborted"
				}
				svc.mu.Unlock()
				// the two sinks of this task, in pipeline order (node ids grow along the chain)
				var keys []string
				for _, k := range tm.Rec.Keys() {
					if strings.HasPrefix(k, id+"/") {
						keys = append(keys, k)
					}
				}
				num := func(k string) int {
					i := len(k)
					for i > 0 && k[i-1] >= '0' && k[i-1] <= '9' {
						i--
					}
					n, _ := strconv.Atoi(k[i:])
					return n
				}
				sort.Slice(keys, func(i, j int) bool { return num(keys[i]) < num(keys[j]) })
				if len(keys) >= 1 {
					for _, m := range tm.Rec.Get(keys[0]) {
						before = append(before, renderOut(m))
					}
				}
				if len(keys) >= 2 {
					for _, m := range tm.Rec.Get(keys[1]) {
						after = append(after, renderOut(m))
					}
				}
			}()
			out = append(out, fmt.Sprintf("%s => %s before=%d after=%d", line, status, len(before), len(after)))
			out = append(out, "before => "+joinOrEmpty(before, " "))
			out = append(out, "after => "+joinOrEmpty(after, " "))
		}
	}
	return out
}

// ---- generator ----

func genTaskCase(r *kit.Rand, thorough bool, i int) []string {
	kind := "stream"
	if r.Chance(1, 2) {
		kind = "batch"
	}
	g := kit.Pick(r, []string{"none", "host", "star", "dc,host", "host", "host,host"})
	if kind == "batch" && r.Chance(1, 3) {
		g = kit.Pick(r, []string{"post:host", "post:dc,host", "post:host,host"})
	}
	ops := []string{fmt.Sprintf("task %s %s %d %s %s", kind, g, r.Intn(2), genPattern(r), genPattern(r))}
	n := r.Range(1, 14)
	if kind == "batch" {
		n = r.Range(8, 30)
	}
	tm := int64(1500000000) * 1e9
	for j := 0; j < n; j++ {
		tags := models2tags(r)
		if kind == "batch" {
			// few groups, so that every group sees several windows close
			tags = map[string]string{"host": kit.Pick(r, []string{"a", "b"})}
			if strings.HasSuffix(g, "dc,host") {
				tags["dc"] = "east"
			}
		}
		f := genFields(r, thorough)
		for k, v := range f {
			// line-protocol points: no NaN/Inf, no empty field names
			if x, ok := v.(float64); ok && (x != x || x > 1e308 || x < -1e308) {
				f[k] = 1.5
			}
			if k == "" {
				delete(f, k)
			}
		}
		if len(f) == 0 {
			f["value"] = int64(j)
		}
		if kind == "batch" {
			tm += int64(r.Range(1, 6)) * 1e9 // windows of 10s: several points per window, several windows
		} else {
			tm += int64(r.Intn(3))
		}
		name := "m"
		if r.Chance(1, 8) {
			name = "other" // filtered out by from().measurement('m')
		}
		ops = append(ops, fmt.Sprintf("wp %s %s %s %d", name, renderTags(tags), renderFields(f), tm))
	}
	ops = append(ops, "run")
	return ops
}

func models2tags(r *kit.Rand) map[string]string {
	t := map[string]string{}
	if r.Chance(4, 5) {
		t["host"] = kit.Pick(r, []string{"a", "b", "é", "x y"})
	}
	if r.Chance(1, 2) {
		t["dc"] = kit.Pick(r, []string{"east", "west,1"})
	}
	return t
}

// ---- proc case: the real kapacitor.UDFProcess closed cleanly while the reader of Out() is stalled ----
//
//	proc <reqPattern> <respPattern> <n> <k> <stallMs> => <status> ka=0 diag=<d> <messages that left Out()>
//
// n points (P|cpu|db|rp|!|0|host=a|v=i<i>|<i>, i = 1..n) are fed into In(); then Close() is called (the owner has stopped
// writing); the consumer of Out() takes k messages, stalls for stallMs and then takes the rest. Everything the echoing
// process wrote back must come out, however late the consumer is.
func procPointToken(i int) string { return fmt.Sprintf("P|cpu|db|rp|!|0|host=a|v=i%d|%d", i, i) }

func runProc(reqPat, respPat string, n, k, stallMs int) string {
	diag := &nopDiag{}
	aborted := make(chan struct{})
	var once sync.Once
	var feedMu sync.Mutex
	mk := func() *peerEnd {
		return newProcessEnd(agent.EdgeType_STREAM, noZeros(parsePattern(reqPat)), noZeros(parsePattern(respPat)))
	}
	p := kapacitor.NewUDFProcess("task", "node", memCommander{mk}, command.Spec{Prog: "echo"}, diag, 0, func() {
		once.Do(func() { close(aborted) })
		feedMu.Lock()
		feedMu.Unlock()
	})
	if err := p.Open(); err != nil {
		return "err:open"
	}
	if err := p.Init(nil); err != nil {
		return "err:init"
	}
	var outs []string
	collDone := make(chan struct{})
	go func() {
		defer close(collDone)
		i := 0
		for m := range p.Out() {
			outs = append(outs, renderOut(m))
			i++
			if i == k {
				time.Sleep(time.Duration(stallMs) * time.Millisecond)
			}
		}
	}()
	feedMu.Lock()
feed:
	for i := 1; i <= n; i++ {
		select {
		case p.In() <- parseInPoint(procPointToken(i)).message():
		case <-aborted:
			break feed
		}
	}
	feedMu.Unlock()
	err := p.Close()
	<-collDone
	status := "ok"
	select {
	case <-aborted:
		status = "aborted"
	default:
		if err != nil {
			status = "err"
		}
	}
	diag.mu.Lock()
	nd := diag.n
	diag.mu.Unlock()
	return fmt.Sprintf("%s ka=0 diag=%d %s", status, nd, joinOrEmpty(outs, " "))
}
