package c19

// Token formats of the C19 line protocol (mirrored by lean/Kap/Driver/C19.lean).
//
// Every message is ONE token; `|` separates its parts, `,` list entries, `=` key and value, `;` the parts of a
// batch point, `~` batch points. `!` is the empty list / map / byte string. kit.Esc never produces any of these.
//
// proto level (frame ops), prefix q: request / r: response
//   P|time|name|db|rp|group|dims|byName|tags|fd|fi|fs|fb    B|name|group|tags|size|byName   E|name|group|tmax|tags|byName
//   K|time   S (snapshot request)   S|hex (snapshot response)   R|hex (restore request)   RR|ok|err   I   IR|wants|provides
//   N|task|node   NR|ok|err   X|err   Z (wrapper with no message)
// edge level (echo ops)
//   input   P|name|db|rp|dims|byName|tags|fields|time          B|name|byName|tags|tmax|sizehint|pts|setdims
//   output  P|name|db|rp|group|dims|byName|tags|fields|time    B|name|group|dims|byName|tags|tmax|sizehint|pts
//   fields  k=s<esc> | k=f<hex16> | k=i<dec> | k=b<0|1>        pts  tags;fields;time~…

import (
	"encoding/hex"
	"fmt"
	"math"
	"sort"
	"strconv"
	"strings"
	"time"

	"github.com/influxdata/kapacitor/edge"
	"github.com/influxdata/kapacitor/models"
	"github.com/influxdata/kapacitor/udf/agent"

	"verifharness/kit"
)

const empty = "!"

func b01(b bool) string {
	if b {
		return "1"
	}
	return "0"
}

func hexs(b []byte) string {
	if len(b) == 0 {
		return empty
	}
	return hex.EncodeToString(b)
}

func unhex(s string) []byte {
	if s == empty {
		return nil
	}
	b, err := hex.DecodeString(s)
	if err != nil {
		panic("bad hex " + s)
	}
	return b
}

func un(s string) string {
	v, err := kit.Unesc(s)
	if err != nil {
		panic(err)
	}
	return v
}

func atoi(s string) int64 {
	v, err := strconv.ParseInt(s, 10, 64)
	if err != nil {
		panic(err)
	}
	return v
}

func joinOrEmpty(xs []string, sep string) string {
	if len(xs) == 0 {
		return empty
	}
	return strings.Join(xs, sep)
}

func splitOrEmpty(s, sep string) []string {
	if s == empty {
		return nil
	}
	return strings.Split(s, sep)
}

func sortedKeys[V any](m map[string]V) []string {
	ks := make([]string, 0, len(m))
	for k := range m {
		ks = append(ks, k)
	}
	sort.Strings(ks)
	return ks
}

func renderMap[V any](m map[string]V, val func(V) string) string {
	var xs []string
	for _, k := range sortedKeys(m) {
		xs = append(xs, kit.Esc(k)+"="+val(m[k]))
	}
	return joinOrEmpty(xs, ",")
}

func parseMap[V any](s string, val func(string) V) map[string]V {
	if s == empty {
		return nil
	}
	m := map[string]V{}
	for _, e := range strings.Split(s, ",") {
		i := strings.Index(e, "=")
		m[un(e[:i])] = val(e[i+1:])
	}
	return m
}

func renderDims(d []string) string {
	var xs []string
	for _, x := range d {
		xs = append(xs, kit.Esc(x))
	}
	return joinOrEmpty(xs, ",")
}

func parseDims(s string) []string {
	var out []string
	for _, x := range splitOrEmpty(s, ",") {
		out = append(out, un(x))
	}
	return out
}

func renderTags(t map[string]string) string { return renderMap(t, kit.Esc) }
func parseTags(s string) map[string]string   { return parseMap(s, un) }

func f64hex(f float64) string { return fmt.Sprintf("%016x", math.Float64bits(f)) }
func hexf64(s string) float64 {
	v, err := strconv.ParseUint(s, 16, 64)
	if err != nil {
		panic(err)
	}
	return math.Float64frombits(v)
}

// ---- typed fields (edge level) ----

func renderFieldVal(v interface{}) string {
	switch x := v.(type) {
	case string:
		return "s" + kit.Esc(x)
	case float64:
		return "f" + f64hex(x)
	case int64:
		return "i" + strconv.FormatInt(x, 10)
	case bool:
		return "b" + b01(x)
	}
	return fmt.Sprintf("?%T", v)
}

func parseFieldVal(s string) interface{} {
	switch s[0] {
	case 's':
		return un(s[1:])
	case 'f':
		return hexf64(s[1:])
	case 'i':
		return atoi(s[1:])
	case 'b':
		return s[1:] == "1"
	}
	panic("bad field value " + s)
}

func renderFields(f models.Fields) string { return renderMap(f, renderFieldVal) }
func parseFields(s string) models.Fields {
	m := parseMap(s, parseFieldVal)
	if m == nil {
		return models.Fields{}
	}
	return models.Fields(m)
}

// ---- proto level ----

func renderPointPB(p *agent.Point) string {
	return strings.Join([]string{"P", strconv.FormatInt(p.Time, 10), kit.Esc(p.Name), kit.Esc(p.Database), kit.Esc(p.RetentionPolicy),
		kit.Esc(p.Group), renderDims(p.Dimensions), b01(p.ByName), renderTags(p.Tags),
		renderMap(p.FieldsDouble, f64hex), renderMap(p.FieldsInt, func(v int64) string { return strconv.FormatInt(v, 10) }),
		renderMap(p.FieldsString, kit.Esc), renderMap(p.FieldsBool, b01)}, "|")
}

func parsePointPB(t []string) *agent.Point {
	return &agent.Point{Time: atoi(t[1]), Name: un(t[2]), Database: un(t[3]), RetentionPolicy: un(t[4]), Group: un(t[5]),
		Dimensions: parseDims(t[6]), ByName: t[7] == "1", Tags: parseTags(t[8]),
		FieldsDouble: parseMap(t[9], hexf64), FieldsInt: parseMap(t[10], atoi), FieldsString: parseMap(t[11], un),
		FieldsBool: parseMap(t[12], func(s string) bool { return s == "1" })}
}

func renderBeginPB(b *agent.BeginBatch) string {
	return strings.Join([]string{"B", kit.Esc(b.Name), kit.Esc(b.Group), renderTags(b.Tags), strconv.FormatInt(b.Size, 10), b01(b.ByName)}, "|")
}
func parseBeginPB(t []string) *agent.BeginBatch {
	return &agent.BeginBatch{Name: un(t[1]), Group: un(t[2]), Tags: parseTags(t[3]), Size: atoi(t[4]), ByName: t[5] == "1"}
}
func renderEndPB(e *agent.EndBatch) string {
	return strings.Join([]string{"E", kit.Esc(e.Name), kit.Esc(e.Group), strconv.FormatInt(e.Tmax, 10), renderTags(e.Tags), b01(e.ByName)}, "|")
}
func parseEndPB(t []string) *agent.EndBatch {
	return &agent.EndBatch{Name: un(t[1]), Group: un(t[2]), Tmax: atoi(t[3]), Tags: parseTags(t[4]), ByName: t[5] == "1"}
}

func renderRequest(r *agent.Request) string {
	switch m := r.Message.(type) {
	case nil:
		return "q:Z"
	case *agent.Request_Info:
		return "q:I"
	case *agent.Request_Init:
		return "q:N|" + kit.Esc(m.Init.TaskID) + "|" + kit.Esc(m.Init.NodeID)
	case *agent.Request_Keepalive:
		return "q:K|" + strconv.FormatInt(m.Keepalive.Time, 10)
	case *agent.Request_Snapshot:
		return "q:S"
	case *agent.Request_Restore:
		return "q:R|" + hexs(m.Restore.Snapshot)
	case *agent.Request_Begin:
		return "q:" + renderBeginPB(m.Begin)
	case *agent.Request_Point:
		return "q:" + renderPointPB(m.Point)
	case *agent.Request_End:
		return "q:" + renderEndPB(m.End)
	}
	return "q:?"
}

func renderResponse(r *agent.Response) string {
	switch m := r.Message.(type) {
	case nil:
		return "r:Z"
	case *agent.Response_Info:
		return fmt.Sprintf("r:IR|%d|%d", int(m.Info.Wants), int(m.Info.Provides))
	case *agent.Response_Init:
		return "r:NR|" + b01(m.Init.Success) + "|" + kit.Esc(m.Init.Error)
	case *agent.Response_Keepalive:
		return "r:K|" + strconv.FormatInt(m.Keepalive.Time, 10)
	case *agent.Response_Snapshot:
		return "r:S|" + hexs(m.Snapshot.Snapshot)
	case *agent.Response_Restore:
		return "r:RR|" + b01(m.Restore.Success) + "|" + kit.Esc(m.Restore.Error)
	case *agent.Response_Error:
		return "r:X|" + kit.Esc(m.Error.Error)
	case *agent.Response_Begin:
		return "r:" + renderBeginPB(m.Begin)
	case *agent.Response_Point:
		return "r:" + renderPointPB(m.Point)
	case *agent.Response_End:
		return "r:" + renderEndPB(m.End)
	}
	return "r:?"
}

// parseWire builds the proto message a frame-op token describes. isReq tells which wrapper it is.
func parseWire(tok string) (isReq bool, req *agent.Request, resp *agent.Response) {
	isReq = strings.HasPrefix(tok, "q:")
	t := strings.Split(tok[2:], "|")
	if isReq {
		req = &agent.Request{}
		switch t[0] {
		case "Z":
		case "I":
			req.Message = &agent.Request_Info{Info: &agent.InfoRequest{}}
		case "N":
			req.Message = &agent.Request_Init{Init: &agent.InitRequest{TaskID: un(t[1]), NodeID: un(t[2])}}
		case "K":
			req.Message = &agent.Request_Keepalive{Keepalive: &agent.KeepaliveRequest{Time: atoi(t[1])}}
		case "S":
			req.Message = &agent.Request_Snapshot{Snapshot: &agent.SnapshotRequest{}}
		case "R":
			req.Message = &agent.Request_Restore{Restore: &agent.RestoreRequest{Snapshot: unhex(t[1])}}
		case "B":
			req.Message = &agent.Request_Begin{Begin: parseBeginPB(t)}
		case "P":
			req.Message = &agent.Request_Point{Point: parsePointPB(t)}
		case "E":
			req.Message = &agent.Request_End{End: parseEndPB(t)}
		default:
			panic("bad wire token " + tok)
		}
		return
	}
	resp = &agent.Response{}
	switch t[0] {
	case "Z":
	case "IR":
		resp.Message = &agent.Response_Info{Info: &agent.InfoResponse{Wants: agent.EdgeType(atoi(t[1])), Provides: agent.EdgeType(atoi(t[2]))}}
	case "NR":
		resp.Message = &agent.Response_Init{Init: &agent.InitResponse{Success: t[1] == "1", Error: un(t[2])}}
	case "K":
		resp.Message = &agent.Response_Keepalive{Keepalive: &agent.KeepaliveResponse{Time: atoi(t[1])}}
	case "S":
		resp.Message = &agent.Response_Snapshot{Snapshot: &agent.SnapshotResponse{Snapshot: unhex(t[1])}}
	case "RR":
		resp.Message = &agent.Response_Restore{Restore: &agent.RestoreResponse{Success: t[1] == "1", Error: un(t[2])}}
	case "X":
		resp.Message = &agent.Response_Error{Error: &agent.ErrorResponse{Error: un(t[1])}}
	case "B":
		resp.Message = &agent.Response_Begin{Begin: parseBeginPB(t)}
	case "P":
		resp.Message = &agent.Response_Point{Point: parsePointPB(t)}
	case "E":
		resp.Message = &agent.Response_End{End: parseEndPB(t)}
	default:
		panic("bad wire token " + tok)
	}
	return
}

// ---- edge level ----

type inPoint struct {
	name, db, rp string
	dims         []string
	byName       bool
	tags         models.Tags
	fields       models.Fields
	time         int64
}

func (p inPoint) token() string {
	return strings.Join([]string{"P", kit.Esc(p.name), kit.Esc(p.db), kit.Esc(p.rp), renderDims(p.dims), b01(p.byName),
		renderTags(p.tags), renderFields(p.fields), strconv.FormatInt(p.time, 10)}, "|")
}

func parseInPoint(tok string) inPoint {
	t := strings.Split(tok, "|")
	return inPoint{name: un(t[1]), db: un(t[2]), rp: un(t[3]), dims: parseDims(t[4]), byName: t[5] == "1",
		tags: models.Tags(parseTags(t[6])), fields: parseFields(t[7]), time: atoi(t[8])}
}

// zone used for input times: the instant must survive, the location need not.
var inZone = time.FixedZone("verif", 3*3600+1800)

func (p inPoint) message() edge.PointMessage {
	return edge.NewPointMessage(p.name, p.db, p.rp, models.Dimensions{ByName: p.byName, TagNames: p.dims}, p.fields, p.tags,
		time.Unix(0, p.time).In(inZone))
}

type inBP struct {
	tags   models.Tags
	fields models.Fields
	time   int64
}

type inBatch struct {
	name     string
	byName   bool
	tags     models.Tags
	tmax     int64
	sizeHint int
	pts      []inBP
	setDims  []string // when hasSet: begin.SetTagsAndDimensions(tags, {byName, setDims}) as GroupByNode does
	hasSet   bool
}

func renderBPs(n int, get func(i int) (models.Tags, models.Fields, int64)) string {
	var xs []string
	for i := 0; i < n; i++ {
		tg, f, tm := get(i)
		xs = append(xs, renderTags(tg)+";"+renderFields(f)+";"+strconv.FormatInt(tm, 10))
	}
	return joinOrEmpty(xs, "~")
}

func (b inBatch) token() string {
	sd := "*"
	if b.hasSet {
		sd = renderDims(b.setDims)
	}
	return strings.Join([]string{"B", kit.Esc(b.name), b01(b.byName), renderTags(b.tags), strconv.FormatInt(b.tmax, 10),
		strconv.Itoa(b.sizeHint), renderBPs(len(b.pts), func(i int) (models.Tags, models.Fields, int64) {
			return b.pts[i].tags, b.pts[i].fields, b.pts[i].time
		}), sd}, "|")
}

func parseInBatch(tok string) inBatch {
	t := strings.Split(tok, "|")
	b := inBatch{name: un(t[1]), byName: t[2] == "1", tags: models.Tags(parseTags(t[3])), tmax: atoi(t[4]), sizeHint: int(atoi(t[5]))}
	for _, p := range splitOrEmpty(t[6], "~") {
		q := strings.Split(p, ";")
		b.pts = append(b.pts, inBP{tags: models.Tags(parseTags(q[0])), fields: parseFields(q[1]), time: atoi(q[2])})
	}
	if t[7] != "*" {
		b.hasSet = true
		b.setDims = parseDims(t[7])
	}
	return b
}

func (b inBatch) begin() edge.BeginBatchMessage {
	bg := edge.NewBeginBatchMessage(b.name, b.tags, b.byName, time.Unix(0, b.tmax).In(inZone), b.sizeHint)
	if b.hasSet {
		bg.SetTagsAndDimensions(b.tags, models.Dimensions{ByName: b.byName, TagNames: b.setDims})
	}
	return bg
}

func (b inBatch) points() []edge.BatchPointMessage {
	out := make([]edge.BatchPointMessage, 0, len(b.pts))
	for _, p := range b.pts {
		out = append(out, edge.NewBatchPointMessage(p.fields, p.tags, time.Unix(0, p.time).In(inZone)))
	}
	return out
}

// renderOut renders a message received from Server.Out().
func renderOut(m edge.Message) string {
	switch x := m.(type) {
	case edge.PointMessage:
		return strings.Join([]string{"P", kit.Esc(x.Name()), kit.Esc(x.Database()), kit.Esc(x.RetentionPolicy()), kit.Esc(string(x.GroupID())),
			renderDims(x.Dimensions().TagNames), b01(x.Dimensions().ByName), renderTags(x.Tags()), renderFields(x.Fields()),
			strconv.FormatInt(x.Time().UnixNano(), 10)}, "|")
	case edge.BufferedBatchMessage:
		pts := x.Points()
		return strings.Join([]string{"B", kit.Esc(x.Name()), kit.Esc(string(x.GroupID())), renderDims(x.Dimensions().TagNames),
			b01(x.Dimensions().ByName), renderTags(x.Tags()), strconv.FormatInt(x.Time().UnixNano(), 10), strconv.Itoa(x.Begin().SizeHint()),
			renderBPs(len(pts), func(i int) (models.Tags, models.Fields, int64) {
				return pts[i].Tags(), pts[i].Fields(), pts[i].Time().UnixNano()
			})}, "|")
	}
	return fmt.Sprintf("?%T", m)
}
