// Package c20 is the harness for property C20 (authorisation). It runs the REAL code:
//
//   - auth.NewUser / auth.User.AuthorizeAction / auth.APIResource / auth.DatabaseResource,
//   - Go's path.Clean / path.Dir (the standard-library functions the model transcribes),
//   - httpd.Handler (NewHandler + AddRoutes + ServeHTTP through httptest) with a fake auth.Interface, a
//     recording route handler and a recording PointsWriter,
//
// and prints op lines `op … => observed`. Line formats (every string token is kit.Esc-aped):
//
//	user <name> <password> <admin 0|1> <grants>      account known to the fake auth service
//	sub  <token> <admin 0|1> <grants>                subscription token known to the fake auth service
//	     grants = "-" | res=p+p,res=p…               (privileges as decimal numbers, "res=" = empty list)
//	az   <name> <resource>             => 5 letters  AuthorizeAction for privileges 1,2,4,8,16: A allow, D deny,
//	                                                 I invalid resource, P panic
//	azp  <name> <resource> <privilege> => 1 letter   one arbitrary privilege value
//	azn  <name> <resource> => answers joined by '|'  like az, for 24 separate NewUser calls on the same table:
//	                                                 every distinct answer seen (one, if the decision is a function)
//	clean <p> => <path.Clean(p)>        dir <p> => <path.Dir(p)>
//	api  <p> => <auth.APIResource(p)>   dbres <db> => <auth.DatabaseResource(db)>
//	dbpair <a> <b> => <DatabaseResource(a)> <DatabaseResource(b)>
//	http <flags 0..3: bit0 auth-enabled, bit1 pprof-enabled> <method> <url path> <cred> <db> => <status> <served 0|1> <wrote 0|1>
//	     cred = kind,f1,f2,f3,qu,qp   kind absent|other|basic|bearer; basic: f1 user f2 password;
//	     bearer: f1 signature ok 0|1, f2 exp ("n" absent, 0 = literal zero, else seconds from now),
//	     f3 username claim ("!none" absent); qu,qp = URL parameters u and p.
//	httpraw <flags> <method> <raw request target> <cred> <db> => <what net/http made of it> <status> <served> <wrote>
//	     the request is written as bytes ("METHOD target?query HTTP/1.1 …") and parsed by http.ReadRequest, the
//	     parser the server runs on the wire: percent-escapes (%2F, %2e%2e, %ff …), raw high bytes, broken escapes.
//	     First observation: the URL path the handler receives (r.URL.Path, escaped) or "badurl" when net/http
//	     refuses the request line (the server then answers 400 itself; no handler runs: printed as "badurl 400 0 0").
//	httpq <flags> <method> <url path> <cred> <query> => <status> <served> <wrote> <written db> <written rp>
//	     query = "-" | k=v&k=v…  the URL parameters in this order (keys and values escaped here, url.QueryEscape-d into the
//	     request; u/p of cred are appended): db, rp (absent / empty / plain / with '/', '..', '../x_clean', '../../api/write',
//	     '%2e%2e' …), precision, consistency, unknown keys, the same key twice. Last two observations: the database and
//	     retention policy the real handler handed to PointsWriter.WritePoints ("! !" when it was not called).
//	httph <flags> <method> <url path> <cred> <headers> => <status> <served> <wrote> <ran>
//	     headers = "-" | k=v&k=v…  extra request headers (keys and values escaped; Header.Add, so a key may repeat); a key that
//	     begins with '?' is a URL parameter instead (?_method=DELETE). WHICH handler ran is observed: every (method, pattern)
//	     the harness registers has its own recorder; ran = "-" (none of them) | METHOD,pattern[+METHOD,pattern…].
//	addroute <preview 0|1> <pattern> => ok|err      Handler.AddRoute / AddPreviewRoute on a fresh handler (method DELETE)
//
// Strings are BYTE strings: any token may unescape to bytes that are not valid UTF-8.
package c20

import (
	"bufio"
	"bytes"
	"errors"
	"expvar"
	"fmt"
	"net/http"
	"net/http/httptest"
	"net/url"
	"os"
	"path"
	"sort"
	"strconv"
	"strings"
	"time"

	"github.com/golang-jwt/jwt/v4"
	"github.com/influxdata/influxdb/models"
	"github.com/influxdata/kapacitor/auth"
	"github.com/influxdata/kapacitor/services/httpd"

	"verifharness/kit"
)

const secret = "verif-shared-secret"

type account struct {
	name, pw string
	admin    bool
	grants   map[string][]auth.Privilege
}

func (a account) user() auth.User { return auth.NewUser(a.name, []byte(a.pw), a.admin, a.grants) }

// fakeAuth implements auth.Interface over the accounts of the case.
type fakeAuth struct {
	users map[string]account
	subs  map[string]account
}

func (f *fakeAuth) Authenticate(username, password string) (auth.User, error) {
	a, ok := f.users[username]
	if !ok || a.pw != password {
		return auth.User{}, errors.New("authentication failed")
	}
	return a.user(), nil
}
func (f *fakeAuth) User(username string) (auth.User, error) {
	a, ok := f.users[username]
	if !ok {
		return auth.User{}, errors.New("unknown user")
	}
	return a.user(), nil
}
func (f *fakeAuth) SubscriptionUser(token string) (auth.User, error) {
	a, ok := f.subs[token]
	if !ok {
		return auth.User{}, errors.New("unknown token")
	}
	return a.user(), nil
}
func (f *fakeAuth) GrantSubscriptionAccess(token, db, rp string) error { return nil }
func (f *fakeAuth) ListSubscriptionTokens() ([]string, error)          { return nil, nil }
func (f *fakeAuth) RevokeSubscriptionAccess(token string) error        { return nil }

type pointsWriter struct {
	calls  int
	db, rp string // arguments of the last call
}

func (p *pointsWriter) WritePoints(database, retentionPolicy string, consistencyLevel models.ConsistencyLevel, points []models.Point) error {
	p.calls++
	p.db, p.rp = database, retentionPolicy
	return nil
}

type server struct {
	h      *httpd.Handler
	pw     *pointsWriter
	served int
	ran    []string // identities "METHOD,pattern" of the harness-registered handlers that ran, in order
	stats  *expvar.Map
}

var builtinPages = map[string]bool{
	"/kapacitor/v1/:routes": true, "/kapacitor/v1/debug/vars": true, "/kapacitor/v1/debug/pprof/": true,
	"/kapacitor/v1/debug/pprof/cmdline": true, "/kapacitor/v1/debug/pprof/symbol": true, "/kapacitor/v1/debug/pprof/heap": true,
}

var methods = []string{"GET", "POST", "PATCH", "PUT", "DELETE", "HEAD", "OPTIONS"}

func newServer(requireAuth, pprof bool, fa *fakeAuth) *server {
	s := &server{pw: &pointsWriter{}, stats: new(expvar.Map).Init()}
	s.h = httpd.NewHandler(requireAuth, pprof, false, false, false, s.stats, kit.Diag().NewHTTPDHandler(), secret)
	s.h.AuthService = fa
	s.h.PointsWriter = s.pw
	// one DISTINGUISHABLE handler per (method, pattern): it records its own identity, not what the request says
	rec := func(m, pat string) func(http.ResponseWriter, *http.Request) {
		id := m + "," + kit.Esc(httpd.BasePath+pat)
		return func(w http.ResponseWriter, r *http.Request) {
			s.served++
			s.ran = append(s.ran, id)
			w.WriteHeader(http.StatusOK)
		}
	}
	var routes []httpd.Route
	for _, m := range methods {
		routes = append(routes, httpd.Route{Method: m, Pattern: "/tasks", HandlerFunc: rec(m, "/tasks")})
		routes = append(routes, httpd.Route{Method: m, Pattern: "/tasks/", HandlerFunc: rec(m, "/tasks/")})
	}
	if err := s.h.AddRoutes(routes); err != nil {
		panic(err)
	}
	return s
}

func statInt(m *expvar.Map, key string) int64 {
	if v, ok := m.Get(key).(*expvar.Int); ok && v != nil {
		return v.Value()
	}
	return 0
}

func parseGrants(tok string) map[string][]auth.Privilege {
	if tok == "-" {
		return nil
	}
	g := map[string][]auth.Privilege{}
	for _, e := range strings.Split(tok, ",") {
		i := strings.Index(e, "=")
		if i < 0 {
			continue
		}
		res, _ := kit.Unesc(e[:i])
		ps := []auth.Privilege{}
		if e[i+1:] != "" {
			for _, p := range strings.Split(e[i+1:], "+") {
				v, _ := strconv.ParseUint(p, 10, 32)
				ps = append(ps, auth.Privilege(v))
			}
		}
		g[res] = ps
	}
	return g
}

func decide(u auth.User, resource string, p auth.Privilege) (c byte) {
	defer func() {
		if r := recover(); r != nil {
			c = 'P'
		}
	}()
	err := u.AuthorizeAction(auth.Action{Resource: resource, Privilege: p})
	if err == nil {
		return 'A'
	}
	if strings.HasPrefix(err.Error(), "invalid action resource") {
		return 'I'
	}
	return 'D'
}

func un(s string) string { v, _ := kit.Unesc(s); return v }

func doHTTP(s *server, method, urlPath, cred, db string) (obs string) {
	defer func() {
		if r := recover(); r != nil {
			obs = "panic"
		}
	}()
	f := strings.Split(cred, ",")
	for len(f) < 6 {
		f = append(f, "%")
	}
	q := url.Values{}
	if db != "" {
		q.Set("db", db)
	}
	if u := un(f[4]); u != "" {
		q.Set("u", u)
	}
	if p := un(f[5]); p != "" {
		q.Set("p", p)
	}
	req := httptest.NewRequest("GET", "http://localhost/", strings.NewReader("m v=1 1\n"))
	req.Method = method
	req.URL.Path = urlPath
	req.URL.RawPath = ""
	req.URL.RawQuery = q.Encode()
	if hv, ok := authHeader(f); !ok {
		return "badtoken"
	} else if hv != "" {
		req.Header.Set("Authorization", hv)
	}
	return serveAndObserve(s, req, method, urlPath)
}

// doHTTPQ: like doHTTP, with the complete ordered query string of the request; also reports where the points went.
func doHTTPQ(s *server, method, urlPath, cred, query string) (obs string) {
	defer func() {
		if r := recover(); r != nil {
			obs = "panic"
		}
	}()
	f := strings.Split(cred, ",")
	for len(f) < 6 {
		f = append(f, "%")
	}
	var parts []string
	if query != "-" {
		for _, e := range strings.Split(query, "&") {
			i := strings.Index(e, "=")
			if i < 0 {
				return "badquery"
			}
			parts = append(parts, url.QueryEscape(un(e[:i]))+"="+url.QueryEscape(un(e[i+1:])))
		}
	}
	if u := un(f[4]); u != "" {
		parts = append(parts, "u="+url.QueryEscape(u))
	}
	if p := un(f[5]); p != "" {
		parts = append(parts, "p="+url.QueryEscape(p))
	}
	req := httptest.NewRequest("GET", "http://localhost/", strings.NewReader("m v=1 1\n"))
	req.Method = method
	req.URL.Path = urlPath
	req.URL.RawPath = ""
	req.URL.RawQuery = strings.Join(parts, "&")
	if hv, ok := authHeader(f); !ok {
		return "badtoken"
	} else if hv != "" {
		req.Header.Set("Authorization", hv)
	}
	calls0 := s.pw.calls
	o := serveAndObserve(s, req, method, urlPath)
	if s.pw.calls > calls0 {
		return o + " " + kit.Esc(s.pw.db) + " " + kit.Esc(s.pw.rp)
	}
	return o + " ! !"
}

// doHTTPH: like doHTTP, with extra request headers (and URL parameters); also reports WHICH registered handler ran.
func doHTTPH(s *server, method, urlPath, cred, hdrs string) (obs string) {
	defer func() {
		if r := recover(); r != nil {
			obs = "panic"
		}
	}()
	f := strings.Split(cred, ",")
	for len(f) < 6 {
		f = append(f, "%")
	}
	var parts []string
	req := httptest.NewRequest("GET", "http://localhost/", strings.NewReader("m v=1 1\n"))
	req.Method = method
	req.URL.Path = urlPath
	req.URL.RawPath = ""
	if hdrs != "-" {
		for _, e := range strings.Split(hdrs, "&") {
			i := strings.Index(e, "=")
			if i < 0 {
				return "badheaders"
			}
			k, v := un(e[:i]), un(e[i+1:])
			if strings.HasPrefix(k, "?") {
				parts = append(parts, url.QueryEscape(k[1:])+"="+url.QueryEscape(v))
			} else {
				req.Header.Add(k, v)
			}
		}
	}
	if u := un(f[4]); u != "" {
		parts = append(parts, "u="+url.QueryEscape(u))
	}
	if p := un(f[5]); p != "" {
		parts = append(parts, "p="+url.QueryEscape(p))
	}
	req.URL.RawQuery = strings.Join(parts, "&")
	if hv, ok := authHeader(f); !ok {
		return "badtoken"
	} else if hv != "" {
		req.Header.Set("Authorization", hv)
	}
	ran0 := len(s.ran)
	o := serveAndObserve(s, req, method, urlPath)
	if len(s.ran) == ran0 {
		return o + " -"
	}
	return o + " " + strings.Join(s.ran[ran0:], "+")
}

// authHeader builds the Authorization header value a credential token describes ("" = none).
func authHeader(f []string) (string, bool) {
	switch f[0] {
	case "basic":
		tmp, _ := http.NewRequest("GET", "http://localhost/", nil)
		tmp.SetBasicAuth(un(f[1]), un(f[2]))
		return tmp.Header.Get("Authorization"), true
	case "other":
		return "Digest abc", true
	case "bearer":
		claims := jwt.MapClaims{}
		switch f[2] {
		case "n":
		case "0":
			claims["exp"] = 0
		default:
			e, _ := strconv.ParseInt(f[2], 10, 64)
			claims["exp"] = time.Now().Add(time.Duration(e) * time.Second).Unix()
		}
		if f[3] != "!none" {
			claims["username"] = un(f[3])
		}
		key := secret
		if f[1] != "1" {
			key = "some-other-secret"
		}
		tok, err := jwt.NewWithClaims(jwt.SigningMethodHS256, claims).SignedString([]byte(key))
		if err != nil {
			return "", false
		}
		return "Bearer " + tok, true
	}
	return "", true
}

// doHTTPRaw sends the request as the bytes of an HTTP/1.1 message through http.ReadRequest (the server's own
// parser): whatever decoding happens before the handler chain is net/http's, not the harness's.
func doHTTPRaw(s *server, method, rawTarget, cred, db string) (obs string) {
	defer func() {
		if r := recover(); r != nil {
			obs = "panic"
		}
	}()
	f := strings.Split(cred, ",")
	for len(f) < 6 {
		f = append(f, "%")
	}
	q := url.Values{}
	if db != "" {
		q.Set("db", db)
	}
	if u := un(f[4]); u != "" {
		q.Set("u", u)
	}
	if p := un(f[5]); p != "" {
		q.Set("p", p)
	}
	target := rawTarget
	if enc := q.Encode(); enc != "" {
		target += "?" + enc
	}
	body := "m v=1 1\n"
	var b bytes.Buffer
	fmt.Fprintf(&b, "%s %s HTTP/1.1\r\nHost: localhost\r\nContent-Length: %d\r\n", method, target, len(body))
	hv, ok := authHeader(f)
	if !ok {
		return "badtoken"
	}
	if hv != "" {
		fmt.Fprintf(&b, "Authorization: %s\r\n", hv)
	}
	b.WriteString("\r\n" + body)
	req, err := http.ReadRequest(bufio.NewReader(&b))
	if err != nil {
		return "badurl 400 0 0"
	}
	req.RemoteAddr = "192.0.2.1:1234"
	return kit.Esc(req.URL.Path) + " " + serveAndObserve(s, req, method, req.URL.Path)
}

func serveAndObserve(s *server, req *http.Request, method, urlPath string) string {
	served0, wrote0 := s.served, s.pw.calls
	ping0 := statInt(s.stats, "ping_req")
	w := httptest.NewRecorder()
	s.h.ServeHTTP(w, req)
	served := 0
	if s.served > served0 || statInt(s.stats, "ping_req") > ping0 {
		served = 1
	}
	// the other built-in pages cannot be instrumented: every refusal of the filter chain writes 301/401/403/404,
	// so a 200 from one of these URLs means its handler ran
	if w.Code == 200 && method == "GET" && builtinPages[strings.Replace(urlPath, "/kapacitor/v1preview/", "/kapacitor/v1/", 1)] {
		served = 1
	}
	wrote := 0
	if s.pw.calls > wrote0 {
		wrote = 1
	}
	return fmt.Sprintf("%d %d %d", w.Code, served, wrote)
}

// execCase runs the op lines of one case and returns them with observations.
func execCase(ops []string) (out []string) {
	fa := &fakeAuth{users: map[string]account{}, subs: map[string]account{}}
	servers := map[string]*server{}
	users := map[string]auth.User{}
	guard := func(line string, f func() string) {
		defer func() {
			if r := recover(); r != nil {
				out = append(out, line+" => panic")
			}
		}()
		obs := f()
		if obs == "" {
			out = append(out, line)
		} else {
			out = append(out, line+" => "+obs)
		}
	}
	for _, raw := range ops {
		line := raw
		if i := strings.Index(line, " => "); i >= 0 {
			line = line[:i]
		}
		t := strings.Fields(line)
		if len(t) == 0 {
			continue
		}
		switch {
		case t[0] == "user" && len(t) == 5:
			guard(line, func() string {
				a := account{name: un(t[1]), pw: un(t[2]), admin: t[3] == "1", grants: parseGrants(t[4])}
				fa.users[a.name] = a
				users[a.name] = a.user()
				return ""
			})
		case t[0] == "sub" && len(t) == 4:
			guard(line, func() string {
				fa.subs[un(t[1])] = account{name: "sub", admin: t[2] == "1", grants: parseGrants(t[3])}
				return ""
			})
		case t[0] == "az" && len(t) == 3:
			guard(line, func() string {
				u := users[un(t[1])]
				var b []byte
				for _, p := range []auth.Privilege{1, 2, 4, 8, 16} {
					b = append(b, decide(u, un(t[2]), p))
				}
				return string(b)
			})
		case t[0] == "azn" && len(t) == 3:
			// the same account, built 24 times: every answer the implementation can give (sorted, distinct)
			guard(line, func() string {
				a := fa.users[un(t[1])]
				seen := map[string]bool{}
				for i := 0; i < 24; i++ {
					u := a.user()
					var b []byte
					for _, p := range []auth.Privilege{1, 2, 4, 8, 16} {
						b = append(b, decide(u, un(t[2]), p))
					}
					seen[string(b)] = true
				}
				var all []string
				for k := range seen {
					all = append(all, k)
				}
				sort.Strings(all)
				return strings.Join(all, "|")
			})
		case t[0] == "azp" && len(t) == 4:
			guard(line, func() string {
				p, _ := strconv.ParseUint(t[3], 10, 32)
				return string([]byte{decide(users[un(t[1])], un(t[2]), auth.Privilege(p))})
			})
		case t[0] == "clean" && len(t) == 2:
			guard(line, func() string { return kit.Esc(path.Clean(un(t[1]))) })
		case t[0] == "dir" && len(t) == 2:
			guard(line, func() string { return kit.Esc(path.Dir(un(t[1]))) })
		case t[0] == "api" && len(t) == 2:
			guard(line, func() string { return kit.Esc(auth.APIResource(un(t[1]))) })
		case t[0] == "dbres" && len(t) == 2:
			guard(line, func() string { return kit.Esc(auth.DatabaseResource(un(t[1]))) })
		case t[0] == "dbpair" && len(t) == 3:
			guard(line, func() string {
				return kit.Esc(auth.DatabaseResource(un(t[1]))) + " " + kit.Esc(auth.DatabaseResource(un(t[2])))
			})
		case t[0] == "http" && len(t) == 6:
			guard(line, func() string {
				// flags: 0 nothing, 1 authentication, 2 pprof exposed, 3 both
				s, ok := servers[t[1]]
				if !ok {
					s = newServer(t[1] == "1" || t[1] == "3", t[1] == "2" || t[1] == "3", fa)
					servers[t[1]] = s
				}
				return doHTTP(s, un(t[2]), un(t[3]), t[4], un(t[5]))
			})
		case t[0] == "httpq" && len(t) == 6:
			guard(line, func() string {
				s, ok := servers[t[1]]
				if !ok {
					s = newServer(t[1] == "1" || t[1] == "3", t[1] == "2" || t[1] == "3", fa)
					servers[t[1]] = s
				}
				return doHTTPQ(s, un(t[2]), un(t[3]), t[4], t[5])
			})
		case t[0] == "httph" && len(t) == 6:
			guard(line, func() string {
				s, ok := servers[t[1]]
				if !ok {
					s = newServer(t[1] == "1" || t[1] == "3", t[1] == "2" || t[1] == "3", fa)
					servers[t[1]] = s
				}
				return doHTTPH(s, un(t[2]), un(t[3]), t[4], t[5])
			})
		case t[0] == "httpraw" && len(t) == 6:
			guard(line, func() string {
				s, ok := servers[t[1]]
				if !ok {
					s = newServer(t[1] == "1" || t[1] == "3", t[1] == "2" || t[1] == "3", fa)
					servers[t[1]] = s
				}
				return doHTTPRaw(s, un(t[2]), un(t[3]), t[4], un(t[5]))
			})
		case t[0] == "addroute" && len(t) == 3:
			guard(line, func() string {
				h := httpd.NewHandler(true, false, false, false, false, new(expvar.Map).Init(), kit.Diag().NewHTTPDHandler(), secret)
				r := httpd.Route{Method: "DELETE", Pattern: un(t[2]), HandlerFunc: func(w http.ResponseWriter, r *http.Request) {}}
				var err error
				if t[1] == "1" {
					err = h.AddPreviewRoute(r)
				} else {
					err = h.AddRoute(r)
				}
				if err != nil {
					return "err"
				}
				return "ok"
			})
		default:
			out = append(out, line+" => badline")
		}
	}
	return out
}

func emit(out *kit.Out, id string, lines []string) {
	out.Line("case", id)
	for _, l := range lines {
		out.Line(l)
	}
	out.Line("end")
}

// Run: `vh-c20 -seed S -n N [-tier thorough]` generates; `vh-c20 -ops file` re-executes the cases of a file.
func Run(args []string) int {
	f := kit.ParseFlags(args)
	out := kit.NewOut()
	defer out.Flush()
	if f.Ops != "" {
		lines, err := kit.ReadLines(f.Ops)
		if err != nil {
			fmt.Fprintln(os.Stderr, err)
			return 2
		}
		var cur []string
		id := ""
		for _, l := range lines {
			t := strings.Fields(l)
			switch {
			case len(t) == 2 && t[0] == "case":
				id, cur = t[1], nil
			case len(t) == 1 && t[0] == "end":
				emit(out, id, execCase(cur))
			default:
				cur = append(cur, l)
			}
		}
		return 0
	}
	generate(out, f)
	return 0
}
