// Package c20 is the harness for property C20 (runs the real kapacitor code, prints op lines).
package c20

import (
	"fmt"
	"os"
)

// Run is replaced by the property's harness.
func Run(args []string) int {
	fmt.Fprintln(os.Stderr, "c20: harness not implemented yet")
	return 3
}
