package c20

import (
	"fmt"
	"os"
	"sort"
	"strconv"
	"strings"

	"verifharness/kit"
)

// ---- generators -------------------------------------------------------------------------------------
//
// pm*  path machine: EXHAUSTIVE clean/dir/api over all strings of <= L elements from {a, b, ., .., ""}
//      (with and without a leading '/'), plus odd elements ("...", "..a", "a.", multi-byte).
// t*   tables: a grant table over the node universe {/, /a, /a/b, /a/b/c, /a/bc, /b, /b/a} (each node
//      spelled cleanly or with a path trick, or given as a relative path), queried with every clean path of
//      <= 3 elements over {a, b, c, bc}, with dirty spellings of them, relative and empty resources,
//      and with privilege values outside the five constants.
// x*   (thorough) EXHAUSTIVE tables: every assignment of {no grant, [read], [write], [all]} to the 7 nodes.
// h*   HTTP: real httpd.Handler, accounts with tables over the API/database resources, every method,
//      clean / unclean / preview / unknown URL paths, every credential form (valid and invalid), db names.
// db*  DatabaseResource: every name of <= L characters over {a, _, /, .} and every pair of them.
// BYTES: Go strings are byte strings. pm* also runs every string of <= 3 elements over {a, \xff, .., "",
//      \xc0\xae (overlong '.'), \xc3( (broken sequence)} and a list of odd byte paths (overlong '/', lone
//      continuation bytes, surrogates); bt* are grant tables keyed by byte paths queried with byte resources;
//      database names contain invalid bytes; h* send raw request targets (httpraw) through http.ReadRequest:
//      %2F, %2e%2e, double encoding, %ff and raw high bytes, overlong encodings, broken escapes.
// wq*  the URL parameters of a write (op httpq): the three privilege tables on which a check against anything but the
//      target database answers differently (write on ANOTHER database; write on /api/write only; an explicit none on
//      the target below a write grant on /database) x the three write routes x database names x rp values (absent,
//      empty, plain, with '/', "..", "../x_clean", "../../api/write", "%2e%2e", absolute) - wq0 is the full product with
//      fixed tables, every h case adds randomised tables of the same shapes, precision / consistency / unknown keys and
//      parameters given twice.
// ar*  Handler.AddRoute / AddPreviewRoute with patterns that do and do not begin with '/'.

var elems = []string{"a", "b", ".", "..", ""}

func allPaths(maxLen int, alphabet []string) []string {
	var out []string
	var rec func(prefix []string, n int)
	rec = func(prefix []string, n int) {
		if len(prefix) > 0 {
			out = append(out, strings.Join(prefix, "/"))
		}
		if n == 0 {
			return
		}
		for _, e := range alphabet {
			rec(append(append([]string{}, prefix...), e), n-1)
		}
	}
	rec(nil, maxLen)
	return out
}

func genPathMachine(out *kit.Out, maxLen int) {
	var lines []string
	seen := map[string]bool{}
	add := func(p string) {
		if seen[p] {
			return
		}
		seen[p] = true
		lines = append(lines, "clean "+kit.Esc(p), "dir "+kit.Esc(p))
		if len(p) <= 9 {
			lines = append(lines, "api "+kit.Esc(p))
		}
	}
	add("")
	for _, p := range allPaths(maxLen, elems) {
		add(p)
		add("/" + p)
	}
	// byte strings that are not valid UTF-8
	for _, p := range allPaths(3, []string{"a", "\xff", "..", "", "\xc0\xae", "\xc3("}) {
		add(p)
		add("/" + p)
	}
	for _, p := range []string{"\xff", "/\xff/../\xfe", "/a\xff/./\x80\x80", "/\xc3\x28/..", "\xe2\x82/../..", "/..\xff/..", "/.\xff", "/\xff./..",
		"/\xed\xa0\x80/x", "/a\xc0\xafb/..", "/\xc0\xae\xc0\xae/x", "\xc0\xae\xc0\xae/\xc0\xae\xc0\xae", "/x/\xc0\xae\xc0\xae\xc0\xafy", "/\x00/..", "/a\x00b/./\x7f",
		"/\xfe\xff", "/\xf8\x88\x80\x80\x80/../\xf0\x9f", "\x80", "\xbf/..", "/\xff//\xff/", "/\xff/\xfe/../../..", "/\xef\xbf\xbd/\xff"} {
		add(p)
	}
	for _, p := range []string{"...", "/...", "/..a/..", "/a./.b/..", "/é/../ü", "a/é/", "/a/.../b", "..a", "/.a/..b/...", "/a b/%/..", "/a//b/./c/../../d/"} {
		add(p)
	}
	n := 0
	for i := 0; i < len(lines); i += 300 {
		j := i + 300
		if j > len(lines) {
			j = len(lines)
		}
		emit(out, fmt.Sprintf("pm%d", n), execCase(lines[i:j]))
		n++
	}
}

// the node universe of the table cases and spellings of each node
var universe = []string{"/", "/a", "/a/b", "/a/b/c", "/a/bc", "/b", "/b/a"}

func spell(r *kit.Rand, node string) string {
	if !r.Chance(1, 3) {
		return node
	}
	segs := strings.Split(strings.TrimPrefix(node, "/"), "/")
	if node == "/" {
		return kit.Pick(r, []string{"//", "/.", "/..", "/x/..", "/../"})
	}
	var b strings.Builder
	for _, s := range segs {
		switch r.Intn(5) {
		case 0:
			b.WriteString("//" + s)
		case 1:
			b.WriteString("/./" + s)
		case 2:
			b.WriteString("/zz/../" + s)
		default:
			b.WriteString("/" + s)
		}
	}
	if r.Chance(1, 3) {
		b.WriteString("/")
	}
	return b.String()
}

var privLists = [][]int{{2}, {4}, {8}, {16}, {2, 4}, {2, 4, 8}, {16, 2}, {1}, {}, {4, 8}, {2, 8}, {16, 16}, {1, 2}}

func grantsToken(g map[string][]int) string {
	if len(g) == 0 {
		return "-"
	}
	var keys []string
	for k := range g {
		keys = append(keys, k)
	}
	sort.Strings(keys)
	var parts []string
	for _, k := range keys {
		var ps []string
		for _, p := range g[k] {
			ps = append(ps, fmt.Sprint(p))
		}
		parts = append(parts, kit.Esc(k)+"="+strings.Join(ps, "+"))
	}
	return strings.Join(parts, ",")
}

var queryElems = []string{"a", "b", "c", "bc"}
var dirtyElems = []string{"a", "b", "c", "bc", ".", "..", ""}

func cleanQueries() []string {
	q := []string{"/"}
	for _, p := range allPaths(3, queryElems) {
		q = append(q, "/"+p)
	}
	return q
}

func genTable(r *kit.Rand) []string {
	g := map[string][]int{}
	// density: sparse tables make the walk long, dense ones make nearer grants shadow farther ones
	den := r.Range(1, 4)
	for _, node := range universe {
		if r.Intn(5) < den {
			g[spell(r, node)] = kit.Pick(r, privLists)
		}
	}
	if r.Chance(1, 4) {
		g[kit.Pick(r, []string{"a/b", "a", "", ".", "../a", "b/../a"})] = kit.Pick(r, privLists) // relative: designates nothing
	}
	admin := "0"
	if r.Chance(1, 25) {
		admin = "1"
	}
	if r.Chance(1, 30) {
		g = nil // no grants at all: `len(u.privileges) > 0` is false
	}
	lines := []string{fmt.Sprintf("user u pw %s %s", admin, grantsToken(g))}
	for _, q := range cleanQueries() {
		lines = append(lines, "az u "+kit.Esc(q))
	}
	for i := 0; i < 40; i++ {
		n := r.Range(1, 6)
		var segs []string
		for j := 0; j < n; j++ {
			segs = append(segs, kit.Pick(r, dirtyElems))
		}
		lines = append(lines, "az u "+kit.Esc("/"+strings.Join(segs, "/")))
	}
	for _, q := range []string{"", "a", "a/b", ".", "../a", "/a/b/../../a/b", "/a/b/c/../../bc", "/a/bcd", "/a/bc/", "/a/b/..", "/a/../../b"} {
		lines = append(lines, "az u "+kit.Esc(q))
	}
	for _, p := range []int{0, 3, 6, 12, 17, 24, 32} {
		lines = append(lines, fmt.Sprintf("azp u %s %d", kit.Esc(kit.Pick(r, universe)), p))
	}
	return lines
}

// genByteTable: a grant table keyed by BYTE paths (not valid UTF-8), queried with byte resources: the map lookup of
// AuthorizeAction compares bytes, 0xff and 0xfe are different names, "\xc0\xae\xc0\xae" (overlong "..") is a name.
var byteUniverse = []string{"/", "/\xff", "/\xff/\xfe", "/\xff/\xc3(", "/a/\xff", "/\xc0\xae\xc0\xae", "/\xfe"}
var byteElems = []string{"\xff", "\xfe", "\xc3(", "a", "\xc0\xae\xc0\xae"}

func genByteTable(r *kit.Rand) []string {
	g := map[string][]int{}
	den := r.Range(1, 4)
	for _, node := range byteUniverse {
		if r.Intn(5) < den {
			g[spell(r, node)] = kit.Pick(r, privLists)
		}
	}
	if r.Chance(1, 5) {
		g[kit.Pick(r, []string{"\xff", "\xff/\xfe", "../\xff"})] = kit.Pick(r, privLists) // relative: designates nothing
	}
	lines := []string{"user u pw 0 " + grantsToken(g)}
	lines = append(lines, "az u /")
	for _, p := range allPaths(3, byteElems) {
		lines = append(lines, "az u "+kit.Esc("/"+p))
	}
	dirty := append(append([]string{}, byteElems...), ".", "..", "")
	for i := 0; i < 40; i++ {
		n := r.Range(1, 6)
		var segs []string
		for j := 0; j < n; j++ {
			segs = append(segs, kit.Pick(r, dirty))
		}
		lines = append(lines, "az u "+kit.Esc("/"+strings.Join(segs, "/")))
	}
	for _, q := range []string{"\xff", "\xff/\xfe", "/\xff/\xfe/../../\xff/\xfe", "/\xff\xfe", "/\xff/", "/\xff/\xfe/..", "/\xff/../../\xfe", "/\xef\xbf\xbd"} {
		lines = append(lines, "az u "+kit.Esc(q))
	}
	return lines
}

// genCollision: tables in which several entries spell the SAME node (with different privilege lists); queried
// with azn (24 NewUser calls each), so a decision that depends on Go's map iteration order shows up.
func genCollision(r *kit.Rand) []string {
	g := map[string][]int{}
	alt := map[string][]string{
		"/":      {"//", "/.", "/x/.."},
		"/a":     {"/a/", "//a", "/a/.", "/b/../a"},
		"/a/b":   {"/a/b/", "/a//b", "/a/./b", "/a/b/c/.."},
		"/a/b/c": {"/a/b/c/", "/a/b//c"},
		"/a/bc":  {"/a/bc/", "/a/./bc"},
		"/b":     {"/b/", "/a/../b"},
		"/b/a":   {"/b/a/", "/b//a"},
	}
	for _, node := range universe {
		switch r.Intn(4) {
		case 0:
		case 1:
			g[node] = kit.Pick(r, privLists)
		default:
			g[node] = kit.Pick(r, privLists)
			g[kit.Pick(r, alt[node])] = kit.Pick(r, privLists)
			if r.Chance(1, 3) {
				g[kit.Pick(r, alt[node])] = kit.Pick(r, privLists)
			}
		}
	}
	lines := []string{"user u pw 0 " + grantsToken(g)}
	for _, q := range cleanQueries() {
		lines = append(lines, "azn u "+kit.Esc(q))
	}
	return lines
}

func genExhaustiveTables(out *kit.Out) {
	opts := [][]int{nil, {2}, {4}, {16}}
	qs := cleanQueries()
	total := 1
	for range universe {
		total *= len(opts)
	}
	for code := 0; code < total; code++ {
		g := map[string][]int{}
		c := code
		for _, node := range universe {
			if o := opts[c%len(opts)]; o != nil {
				g[node] = o
			}
			c /= len(opts)
		}
		lines := []string{"user u pw 0 " + grantsToken(g)}
		for _, q := range qs {
			lines = append(lines, "az u "+kit.Esc(q))
		}
		emit(out, fmt.Sprintf("x%d", code), execCase(lines))
	}
}

// ---- HTTP ----

var apiNodes = []string{"/", "/api", "/api/tasks", "/api/tasks/x", "/api/write", "/api/ping", "/api/preview", "/api/preview/tasks",
	"/database", "/database/db_clean", "/database/a_b_dirty", "/database/a_b__dirty"}

var urlPaths = []string{
	"/kapacitor/v1/tasks", "/kapacitor/v1/tasks/x", "/kapacitor/v1/tasks/x/y", "/kapacitor/v1/tasks/", "/kapacitor/v1/tasksx",
	"/kapacitor/v1/write", "/write", "/kapacitor/v1/ping", "/kapacitor/v1/nothing", "/", "/kapacitor/v1",
	"/kapacitor/v1preview/tasks", "/kapacitor/v1preview/tasks/x", "/kapacitor/v1preview/write", "/kapacitor/v1preview/ping", "/kapacitor/v1preview/",
	"/kapacitor/v1..", "/kapacitor/v1../database/x",
	"/kapacitor/v1/:routes", "/kapacitor/v1/debug/vars", "/kapacitor/v1/debug/pprof/", "/kapacitor/v1/debug/pprof/cmdline",
	"/kapacitor/v1/debug/pprof/symbol", "/kapacitor/v1/debug/pprof/heap", "/kapacitor/v1preview/debug/vars", "/kapacitor/v1/debug",
	// path tricks: the mux redirects them, nothing may be served
	"/kapacitor/v1/tasks/x/../y", "/kapacitor/v1/tasks//x", "/kapacitor/v1/ping/../tasks", "/kapacitor/v1/./tasks", "/kapacitor/v1/tasks/..",
	"/kapacitor/v1/tasks/x/", "kapacitor/v1/tasks", "/kapacitor/v1/ping/../write", "/kapacitor//v1/write", "/kapacitor/v1preview/../v1/tasks",
}

// raw request targets (as they stand in the request line); what net/http makes of them is observed, not assumed
var rawTargets = []string{
	// encoded slash / dot / dot-dot: decoded once by net/http, then judged by the mux like a literal one
	"/kapacitor/v1/tasks%2Fx", "/kapacitor/v1/tasks%2fx%2Fy", "/kapacitor/v1/tasks/%2e%2e/write", "/kapacitor/v1/tasks/%2E%2E", "/kapacitor/v1/tasks/%2e",
	"/kapacitor/v1%2Ftasks", "/kapacitor/v1/tasks/..%2Fwrite", "/kapacitor/v1/tasks%2F..%2F..%2F..%2Fdatabase%2Fx", "/kapacitor/v1/tasks/.%2e/x",
	"/kapacitor/v1%2e%2e", "/kapacitor/v1%2e%2e/database/x", "/kapacitor/v1%2E./api/tasks", "/kapacitor/v1..%2Fdatabase", "/kapacitor/v1../database/x",
	"/kapacitor/v1/ping%2F..%2Fwrite", "/kapacitor/v1/tasks/x%2F", "/kapacitor/v1/tasks/%2F", "/kapacitor/v1/tasks%2F", "/kapacitor%2Fv1%2Ftasks", "%2Fkapacitor/v1/tasks",
	"/kapacitor/v1preview%2Ftasks", "/kapacitor/v1preview/tasks%2F..%2Fwrite", "/kapacitor/v1preview/%2e%2e/v1/tasks", "/kapacitor/v1preview%2F..%2Fv1%2Fwrite",
	// double encoding: the second layer is never decoded
	"/kapacitor/v1/tasks/%252e%252e/x", "/kapacitor/v1/tasks%252Fx", "/kapacitor/v1/tasks/%25252e", "/kapacitor/v1%252e%252e",
	// bytes that are not valid UTF-8, raw and encoded; overlong encodings of '/' and '.'
	"/kapacitor/v1/tasks/%ff", "/kapacitor/v1/tasks/\xff", "/kapacitor/v1/tasks/\xff/../x", "/kapacitor/v1/tasks/%c0%af..%c0%afwrite", "/kapacitor/v1/tasks/%c0%ae%c0%ae/x",
	"/kapacitor/v1/tasks/\xc0\xae\xc0\xae/\xc0\xafx", "/kapacitor/v1\xc0\xae\xc0\xae", "/kapacitor/v1/tasks/%e2%82", "/kapacitor/v1/tasks/%ed%a0%80", "/kapacitor/v1/tasks/a%00b", "/kapacitor/v1/tasks/%0d%0a",
	"/kapacitor/v1/\xff", "/\xff", "/kapacitor/v1/tasks/%80%2F%2e%2e",
	// encoded letters reach the same routes (incl. write, ping and the exempt pages)
	"/kapacitor/v1/ta%73ks", "/kapacitor/v1/%77rite", "/%77rite", "/kapacitor/v1/%70ing", "/kapacitor/v1/debug/%76ars", "/kapacitor/v1/debug%2Fvars", "/kapacitor/v1/debug/pprof%2Fcmdline",
	"/kapacitor/v1/%3Aroutes", "/kapacitor/v1/tasks%23frag", "/kapacitor/v1/tasks%3Fdb=x", "/kapacitor/v1/tasks/x;y", "/kapacitor/v1/tasks/a+b", "/kapacitor/v1/tasks/a%2Bb", "/kapacitor/v1/tasks#frag",
	// refused by net/http itself
	"/kapacitor/v1/tasks/%", "/kapacitor/v1/tasks/%zz", "/kapacitor/v1/tasks/%2", "/kapacitor/v1/tasks/%2g", "/kapacitor/v1/tasks/a b", "/kapacitor/v1/tasks/\x7f", "/kapacitor/v1/tasks/\x01", "kapacitor/v1/tasks", "%2e%2e",
	// nothing to decode
	"/kapacitor/v1/tasks", "/kapacitor/v1/tasks/x", "/kapacitor/v1/write", "/write", "//kapacitor/v1/tasks", "/kapacitor/v1/tasks/../write", "/kapacitor/v1/./tasks",
}

var httpMethods = []string{"GET", "POST", "PATCH", "PUT", "DELETE", "HEAD", "OPTIONS", "get", "TRACE", "CONNECT"}

func genHTTP(r *kit.Rand) []string {
	var lines []string
	names := []string{"alice", "bob", "carol"}
	for _, n := range names {
		g := map[string][]int{}
		den := r.Range(1, 4)
		for _, node := range apiNodes {
			if r.Intn(6) < den {
				g[node] = kit.Pick(r, privLists)
			}
		}
		if r.Chance(1, 2) {
			// one spelling per node: a table with two entries for the same node is outside the statement
			// (the Go map keeps whichever its random iteration order writes last)
			if k := kit.Pick(r, []string{"/", "/api", "/api/"}); k == "/api/" {
				delete(g, "/api")
				g[k] = kit.Pick(r, [][]int{{2, 4, 8}, {16}, {2, 4}, {4}})
			} else {
				g[k] = kit.Pick(r, [][]int{{2, 4, 8}, {16}, {2, 4}, {4}})
			}
		}
		if r.Chance(1, 2) {
			g[kit.Pick(r, []string{"/database", "/database/db_clean", "/database/a_b__dirty"})] = kit.Pick(r, [][]int{{4}, {16}, {2, 4}, {2}})
		}
		admin := "0"
		if r.Chance(1, 12) {
			admin = "1"
		}
		if r.Chance(1, 15) {
			g = nil
		}
		lines = append(lines, fmt.Sprintf("user %s pw-%s %s %s", n, n, admin, grantsToken(g)))
	}
	{
		g := map[string][]int{}
		for _, node := range apiNodes {
			if r.Chance(1, 3) {
				g[node] = kit.Pick(r, privLists)
			}
		}
		lines = append(lines, fmt.Sprintf("sub tok1 0 %s", grantsToken(g)))
	}
	cred := func() string {
		n := kit.Pick(r, names)
		e := kit.Esc
		k := r.Intn(16)
		if r.Chance(1, 2) {
			k = 16 + r.Intn(4) // half of the requests carry a valid password
		}
		switch k {
		case 0:
			return "absent,%,%,%,%,%"
		case 1:
			return "other,%,%,%,%,%"
		case 2:
			return fmt.Sprintf("basic,%s,%s,%%,%%,%%", e(n), "wrong")
		case 3:
			return fmt.Sprintf("basic,%s,%s,%%,%%,%%", "mallory", "pw-mallory")
		case 4:
			return fmt.Sprintf("basic,%%,%s,%%,%%,%%", e("pw-"+n))
		case 5:
			return fmt.Sprintf("absent,%%,%%,%%,%s,%s", e(n), e("pw-"+n)) // URL parameters
		case 6:
			return fmt.Sprintf("absent,%%,%%,%%,%s,%s", e(n), "wrong")
		case 7:
			return fmt.Sprintf("absent,%%,%%,%%,%s,%%", e(n)) // u without p
		case 8:
			return fmt.Sprintf("bearer,1,3600,%s,%%,%%", e(n))
		case 9:
			return fmt.Sprintf("bearer,0,3600,%s,%%,%%", e(n)) // bad signature
		case 10:
			return fmt.Sprintf("bearer,1,%s,%s,%%,%%", kit.Pick(r, []string{"n", "0", "-3600"}), e(n))
		case 11:
			return fmt.Sprintf("bearer,1,3600,%s,%%,%%", kit.Pick(r, []string{"!none", "%", "mallory"}))
		case 12:
			return fmt.Sprintf("basic,%s,%s,%%,%%,%%", e("~subscriber"), "tok1")
		case 13:
			return fmt.Sprintf("basic,%s,%s,%%,%%,%%", e("~subscriber"), "nope")
		case 14:
			return fmt.Sprintf("other,%%,%%,%%,%s,%s", e(n), e("pw-"+n)) // unknown scheme, falls back to URL parameters
		case 15:
			return fmt.Sprintf("basic,%s,%s,%%,%s,%s", e(n), "wrong", e(n), e("pw-"+n)) // bad header wins over good parameters
		default:
			return fmt.Sprintf("basic,%s,%s,%%,%%,%%", e(n), e("pw-"+n))
		}
	}
	dbs := []string{"", "db", "a/b", "a_b/", "a/b_", "other", "db/"}
	// directed: every method on a plain route and on the write route with each user's valid password
	for _, n := range names {
		for _, m := range httpMethods[:7] {
			lines = append(lines, fmt.Sprintf("http 1 %s %s basic,%s,%s,%%,%%,%% %%", m, kit.Esc(kit.Pick(r, urlPaths[:4])), kit.Esc(n), kit.Esc("pw-"+n)))
		}
		lines = append(lines, fmt.Sprintf("http 1 POST /kapacitor/v1/write basic,%s,%s,%%,%%,%% %s", kit.Esc(n), kit.Esc("pw-"+n), kit.Esc(kit.Pick(r, dbs))))
	}
	for i := 0; i < 120; i++ {
		ra := "1"
		switch r.Intn(10) {
		case 0:
			ra = "0"
		case 1:
			ra = "2"
		case 2, 3, 4:
			ra = "3"
		}
		m := httpMethods[0]
		if r.Chance(9, 10) {
			m = kit.Pick(r, httpMethods[:7])
		} else {
			m = kit.Pick(r, httpMethods)
		}
		p := kit.Pick(r, urlPaths[:26])
		if r.Chance(1, 6) {
			p = kit.Pick(r, urlPaths[26:])
		}
		if r.Chance(1, 3) {
			p = kit.Pick(r, []string{"/kapacitor/v1/write", "/write", "/kapacitor/v1preview/write"})
			m = "POST"
		}
		lines = append(lines, fmt.Sprintf("http %s %s %s %s %s", ra, m, kit.Esc(p), cred(), kit.Esc(kit.Pick(r, dbs))))
	}
	// the same chain, entered through http.ReadRequest with a raw request target
	for i := 0; i < 45; i++ {
		ra := "1"
		switch r.Intn(10) {
		case 0:
			ra = "0"
		case 1, 2, 3:
			ra = "3"
		}
		m := "GET"
		if r.Chance(1, 3) {
			m = kit.Pick(r, httpMethods[:7])
		}
		t := kit.Pick(r, rawTargets)
		db := ""
		if strings.Contains(strings.ToLower(t), "rite") {
			m, db = "POST", kit.Pick(r, dbs)
		}
		n := kit.Pick(r, names)
		c := fmt.Sprintf("basic,%s,%s,%%,%%,%%", kit.Esc(n), kit.Esc("pw-"+n)) // mostly a valid password: the path decides
		if r.Chance(1, 5) {
			c = cred()
		}
		lines = append(lines, fmt.Sprintf("httpraw %s %s %s %s %s", ra, m, kit.Esc(t), c, kit.Esc(db)))
	}
	// requests that carry MORE than credentials: which handler runs must not depend on it
	lines = append(lines, genHeaders(r, cred)...)
	// the URL parameters of a write, against the accounts above plus three of the decisive shapes
	lines = append(lines, genWriteQueries(r)...)
	return lines
}

// ---- extra request headers: the handler that runs is the one whose privilege was checked ----

// header sets a proxy, a browser or an attacker may add (keys beginning with '?' are URL parameters)
var headerSets = [][][2]string{
	{{"X-HTTP-Method-Override", "DELETE"}}, {{"X-HTTP-Method-Override", "delete"}}, {{"X-HTTP-Method-Override", "Delete"}},
	{{"X-HTTP-Method-Override", "PUT"}}, {{"X-HTTP-Method-Override", "PATCH"}}, {{"X-HTTP-Method-Override", "POST"}},
	{{"X-HTTP-Method-Override", "GET"}}, {{"X-HTTP-Method-Override", "HEAD"}}, {{"X-HTTP-Method-Override", "OPTIONS"}},
	{{"X-HTTP-Method-Override", "TRACE"}}, {{"X-HTTP-Method-Override", ""}}, {{"x-http-method-override", "DELETE"}},
	{{"X-HTTP-Method-Override", "GET"}, {"X-HTTP-Method-Override", "DELETE"}},
	{{"X-Method-Override", "DELETE"}}, {{"X-HTTP-Method", "DELETE"}}, {{"?_method", "DELETE"}}, {{"?_method", "HEAD"}},
	{{"Content-Type", "application/x-www-form-urlencoded"}, {"?_method", "DELETE"}},
	{{"X-Original-URL", "/kapacitor/v1/ping"}}, {{"X-Original-URL", "/kapacitor/v1/tasks/x"}}, {{"X-Rewrite-URL", "/kapacitor/v1/ping"}},
	{{"X-Rewrite-URL", "/kapacitor/v1/tasks"}}, {{"X-Forwarded-Uri", "/kapacitor/v1/debug/vars"}}, {{"X-Forwarded-Prefix", "/kapacitor/v1/debug"}},
	{{"X-Forwarded-For", "127.0.0.1"}}, {{"X-Forwarded-Host", "localhost"}}, {{"X-Forwarded-Proto", "https"}}, {{"Forwarded", "for=127.0.0.1;proto=https"}},
	{{"X-Real-IP", "127.0.0.1"}}, {{"X-Forwarded-User", "alice"}}, {{"X-Remote-User", "hroot"}}, {{"X-Forwarded-Method", "DELETE"}},
	{{"Content-Type", "application/json"}}, {{"Content-Type", "text/plain; charset=utf-8"}}, {{"Content-Type", "multipart/form-data; boundary=x"}},
	{{"Content-Type", "application/x-www-form-urlencoded"}}, {{"Origin", "http://elsewhere.example"}},
	{{"Origin", "http://elsewhere.example"}, {"Access-Control-Request-Method", "DELETE"}},
	{{"Accept-Encoding", "gzip"}}, {{"Connection", "Upgrade"}, {"Upgrade", "h2c"}}, {{"Expect", "100-continue"}},
}

func headerToken(h [][2]string) string {
	if len(h) == 0 {
		return "-"
	}
	var parts []string
	for _, kv := range h {
		parts = append(parts, kit.Esc(kv[0])+"="+kit.Esc(kv[1]))
	}
	return strings.Join(parts, "&")
}

// genHeaders: accounts holding exactly one kind of privilege on the API (so every pair "privilege checked for one
// method, handler of another method runs" has an account that tells them apart), every wire method, every header set.
func genHeaders(r *kit.Rand, cred func() string) []string {
	var lines []string
	shapes := []struct {
		n string
		g map[string][]int
	}{
		{"hread", map[string][]int{"/api": {2}}}, {"hwrite", map[string][]int{"/api": {2, 4}}}, {"hdel", map[string][]int{"/api": {8}}},
		{"hnone", map[string][]int{"/api": {}}}, {"hwx", map[string][]int{"/api": {2, 4, 8}, "/api/tasks/x": {4}}},
		{"hrw-ping", map[string][]int{"/api/ping": {2, 4, 8}, "/api/tasks": {2}}},
	}
	for _, a := range shapes {
		lines = append(lines, fmt.Sprintf("user %s pw-%s 0 %s", a.n, a.n, grantsToken(a.g)))
	}
	lines = append(lines, "user hroot pw-hroot 1 -")
	paths := []string{"/kapacitor/v1/tasks", "/kapacitor/v1/tasks/x", "/kapacitor/v1/tasks/", "/kapacitor/v1preview/tasks/x", "/kapacitor/v1/ping", "/kapacitor/v1/nothing"}
	basic := func(n string) string { return fmt.Sprintf("basic,%s,%s,%%,%%,%%", kit.Esc(n), kit.Esc("pw-"+n)) }
	// directed: each single-privilege account, every wire method, a header set naming ANOTHER method / URL / user
	for _, a := range shapes {
		for _, m := range httpMethods[:7] {
			h := kit.Pick(r, headerSets)
			lines = append(lines, fmt.Sprintf("httph 1 %s %s %s %s", m, kit.Esc(kit.Pick(r, paths[:4])), basic(a.n), headerToken(h)))
		}
	}
	// every header set once on the method it could be meant for
	for _, h := range headerSets {
		m := "POST"
		if r.Chance(1, 3) {
			m = kit.Pick(r, httpMethods[:7])
		}
		lines = append(lines, fmt.Sprintf("httph 1 %s %s %s %s", m, kit.Esc(kit.Pick(r, paths[:4])), basic(kit.Pick(r, []string{"hwrite", "hwrite", "hread", "hwx"})), headerToken(h)))
	}
	// random: any configuration, method (also lower case / unknown), path, credential form, one or two header sets
	for i := 0; i < 25; i++ {
		ra := kit.Pick(r, []string{"1", "1", "1", "3", "0"})
		h := append([][2]string{}, kit.Pick(r, headerSets)...)
		if r.Chance(1, 4) {
			h = append(h, kit.Pick(r, headerSets)...)
		}
		if r.Chance(1, 10) {
			h = nil
		}
		c := basic(kit.Pick(r, shapes).n)
		if r.Chance(1, 3) {
			c = cred()
		}
		p := kit.Pick(r, paths)
		if r.Chance(1, 8) {
			p = kit.Pick(r, urlPaths)
		}
		lines = append(lines, fmt.Sprintf("httph %s %s %s %s %s", ra, kit.Pick(r, httpMethods), kit.Esc(p), c, headerToken(h)))
	}
	return lines
}

// ---- the URL parameters of a write ----

var writeRoutes = []string{"/kapacitor/v1/write", "/write", "/kapacitor/v1preview/write"}

// "!" = the parameter is absent
var rpValues = []string{"!", "", "autogen", "a/b", "..", "../mine_clean", "../secret_clean", "../../api/write", "../..", "../../api", "%2e%2e", "%2e%2e/mine_clean",
	"./x", "/", "/database/mine_clean", "../other_clean/../mine_clean", "x/../../mine_clean", "..%2Fmine_clean", "../a_b_dirty", "...", "mine_clean", "\xff/.."}

func queryToken(pairs [][2]string) string {
	if len(pairs) == 0 {
		return "-"
	}
	var parts []string
	for _, kv := range pairs {
		parts = append(parts, kit.Esc(kv[0])+"="+kit.Esc(kv[1]))
	}
	return strings.Join(parts, "&")
}

func basicCred(n string) string {
	return fmt.Sprintf("basic,%s,%s,%%,%%,%%", kit.Esc(n), kit.Esc("pw-"+n))
}

// genWriteQueryProduct: fixed tables, the full product route x account x database x rp.
func genWriteQueryProduct(out *kit.Out) {
	users := []string{
		"user dave pw-dave 0 /api/write=4,/database/mine_clean=4",
		"user erin pw-erin 0 /api/write=4",
		"user frank pw-frank 0 /api=2+4,/database=4,/database/secret_clean=1",
		"user gina pw-gina 0 /=2,/api=4,/database/a_b_dirty=4+2",
		"sub tok2 0 /api/write=4,/database/mine_clean=4",
	}
	creds := []string{basicCred("dave"), basicCred("erin"), basicCred("frank"), basicCred("gina"),
		fmt.Sprintf("basic,%s,tok2,%%,%%,%%", kit.Esc("~subscriber")), "absent,%,%,%,dave,pw-dave"}
	k := 0
	for _, route := range writeRoutes {
		lines := append([]string{}, users...)
		for _, c := range creds {
			for _, db := range []string{"secret", "mine", "a/b", ""} {
				for _, rp := range rpValues {
					var q [][2]string
					if db != "" {
						q = append(q, [2]string{"db", db})
					}
					if rp != "!" {
						q = append(q, [2]string{"rp", rp})
					}
					lines = append(lines, fmt.Sprintf("httpq 1 POST %s %s %s", kit.Esc(route), c, queryToken(q)))
				}
			}
		}
		emit(out, fmt.Sprintf("wq%d", k), execCase(lines))
		k++
	}
}

// genWriteQueries: accounts of the three decisive shapes with randomised details, and write requests whose query
// carries rp, precision, consistency, unknown keys and repeated keys in random order.
func genWriteQueries(r *kit.Rand) []string {
	var lines []string
	wr := [][]int{{4}, {16}, {2, 4}, {4, 8}}
	notWr := [][]int{{1}, {2}, {}, {8}, {1, 2}}
	apiKey := func() string { return kit.Pick(r, []string{"/api/write", "/api", "/api/write/", "/api/./write"}) }
	other := kit.Pick(r, []string{"mine", "other", "a/b"})
	otherRes := map[string]string{"mine": "/database/mine_clean", "other": "/database/other_clean", "a/b": "/database/a_b_dirty"}[other]
	// dave: may use the endpoint, may write ANOTHER database
	lines = append(lines, fmt.Sprintf("user dave pw-dave 0 %s", grantsToken(map[string][]int{apiKey(): kit.Pick(r, wr), otherRes: kit.Pick(r, wr)})))
	// erin: may use the endpoint, nothing below /database (sometimes a read-only grant there)
	ge := map[string][]int{apiKey(): kit.Pick(r, wr)}
	if r.Chance(1, 3) {
		ge["/database"] = kit.Pick(r, notWr)
	}
	lines = append(lines, fmt.Sprintf("user erin pw-erin 0 %s", grantsToken(ge)))
	// frank: write on all databases, but NOT on the target
	lines = append(lines, fmt.Sprintf("user frank pw-frank 0 %s", grantsToken(map[string][]int{apiKey(): kit.Pick(r, wr),
		kit.Pick(r, []string{"/database", "/database/", "/"}): kit.Pick(r, wr), "/database/secret_clean": kit.Pick(r, notWr)})))
	// a subscription token as services/auth grants it: the endpoint and one database
	lines = append(lines, fmt.Sprintf("sub tok2 0 /api/write=4,%s=4", otherRes))
	creds := []string{basicCred("dave"), basicCred("erin"), basicCred("frank"), basicCred("alice"), basicCred("bob"), basicCred("carol"),
		fmt.Sprintf("basic,%s,tok2,%%,%%,%%", kit.Esc("~subscriber")), fmt.Sprintf("basic,%s,tok1,%%,%%,%%", kit.Esc("~subscriber")),
		"bearer,1,3600,dave,%,%", "absent,%,%,%,frank,pw-frank", "basic,dave,wrong,%,%,%", "absent,%,%,%,%,%"}
	dbs := []string{"secret", "secret", "secret", "mine", "other", "a/b", "db", "a_b/", "secret/../mine", ""}
	for i := 0; i < 40; i++ {
		var q [][2]string
		db := kit.Pick(r, dbs)
		if db != "" || r.Chance(1, 2) {
			q = append(q, [2]string{"db", db})
		}
		if rp := kit.Pick(r, rpValues); rp != "!" {
			q = append(q, [2]string{"rp", rp})
		}
		if r.Chance(1, 3) {
			q = append(q, [2]string{"precision", kit.Pick(r, []string{"n", "ns", "u", "ms", "s", "m", "h", "", "../x"})})
		}
		if r.Chance(1, 4) {
			q = append(q, [2]string{"consistency", kit.Pick(r, []string{"all", "one", "any", "quorum", "../mine_clean"})})
		}
		if r.Chance(1, 5) {
			q = append(q, [2]string{kit.Pick(r, []string{"database", "DB", "RP", "q", "resource", "db ", "d\xffb"}), kit.Pick(r, []string{"mine", "..", "/database/mine_clean"})})
		}
		if r.Chance(1, 5) {
			q = append(q, [2]string{"db", kit.Pick(r, []string{"mine", other, ""})}) // a second db=: the first one counts
		}
		if r.Chance(1, 6) {
			q = append(q, [2]string{"rp", kit.Pick(r, rpValues[1:])})
		}
		// random order (which of two equal keys comes first matters)
		for j := len(q) - 1; j > 0; j-- {
			k := r.Intn(j + 1)
			q[j], q[k] = q[k], q[j]
		}
		ra := "1"
		switch r.Intn(12) {
		case 0:
			ra = "0"
		case 1, 2:
			ra = "3"
		}
		m, p := "POST", kit.Pick(r, writeRoutes)
		if r.Chance(1, 12) {
			m = kit.Pick(r, []string{"GET", "PUT", "OPTIONS", "post"})
		}
		if r.Chance(1, 12) {
			p = kit.Pick(r, []string{"/kapacitor/v1/tasks", "/kapacitor/v1/ping", "/kapacitor/v1/write/", "/kapacitor/v1/write/../write"})
		}
		c := kit.Pick(r, creds[:3])
		if r.Chance(1, 2) {
			c = kit.Pick(r, creds)
		}
		lines = append(lines, fmt.Sprintf("httpq %s %s %s %s %s", ra, m, kit.Esc(p), c, queryToken(q)))
	}
	return lines
}

// ---- database names ----

func allNames(maxLen int, alphabet []string) []string {
	var out []string
	var rec func(prefix string, n int)
	rec = func(prefix string, n int) {
		out = append(out, prefix)
		if n == 0 {
			return
		}
		for _, e := range alphabet {
			rec(prefix+e, n-1)
		}
	}
	rec("", maxLen)
	return out
}

func genDB(out *kit.Out, single, pair int) {
	alpha := []string{"a", "_", "/", "."}
	var lines []string
	for _, n := range allNames(single, alpha) {
		lines = append(lines, "dbres "+kit.Esc(n))
	}
	for _, n := range []string{"db", "..", "../x", "a_clean", "a_dirty", "a/_clean", "é/ü", "_clean", "x_dirty_clean",
		"\xff", "\xff/\xfe", "\xc0\xaf", "a\xc0\xafb", "\xff_", "/\xff", "\x80/..", "\xc0\xae\xc0\xae", "\x00", "\xef\xbf\xbd", "\xff\xfe/\xef\xbf\xbd"} {
		lines = append(lines, "dbres "+kit.Esc(n))
	}
	k := 0
	for i := 0; i < len(lines); i += 300 {
		j := i + 300
		if j > len(lines) {
			j = len(lines)
		}
		emit(out, fmt.Sprintf("db%d", k), execCase(lines[i:j]))
		k++
	}
	names := allNames(pair, alpha)
	lines = nil
	// invalid bytes are not merged: 0xff vs 0xfe vs U+FFFD, and the collision pattern with bytes
	for _, pr := range [][2]string{{"\xff", "\xfe"}, {"\xff", "\xef\xbf\xbd"}, {"\xff/\xfe_", "\xff_\xfe/"}, {"\xff/", "\xff_"}, {"a\xc0\xafb", "a/b"}, {"\xc0\xaf", "/"}} {
		lines = append(lines, "dbpair "+kit.Esc(pr[0])+" "+kit.Esc(pr[1]))
	}
	for i, a := range names {
		for _, b := range names[i+1:] {
			// only pairs that can possibly interact (same length) plus a sample of the others
			if len(a) == len(b) || (len(a)+len(b))%5 == 0 {
				lines = append(lines, "dbpair "+kit.Esc(a)+" "+kit.Esc(b))
			}
		}
	}
	for i := 0; i < len(lines); i += 60 {
		j := i + 60
		if j > len(lines) {
			j = len(lines)
		}
		emit(out, fmt.Sprintf("dp%d", k), execCase(lines[i:j]))
		k++
	}
}

func generate(out *kit.Out, f kit.Flags) {
	r := kit.NewRand(f.Seed)
	thorough := f.Tier == "thorough"
	// the exhaustive parts do not depend on the seed: run them once per check, for the base seed only
	// (bin/check starts seeds S, S+1000003, …, and hands VERIF_SEED=S down; default S=1); `-exh 1` forces them.
	base := uint64(1)
	if v, err := strconv.ParseUint(os.Getenv("VERIF_SEED"), 10, 64); err == nil {
		base = v
	}
	exhaustive := f.Extra["noexh"] == "" && (f.Seed == base || f.Extra["exh"] != "")
	if exhaustive {
		if thorough {
			genPathMachine(out, 6)
			genDB(out, 6, 4)
		} else {
			genPathMachine(out, 4)
			genDB(out, 4, 3)
		}
		var ar []string
		for _, pat := range []string{"/x", "x", "", "..", "../database", "/", "/x/", ".", "//x", "\xff", "/\xff", " /x", "%2Fx", "/..", "x/", "?"} {
			ar = append(ar, "addroute 0 "+kit.Esc(pat))
			if pat != "/" {
				ar = append(ar, "addroute 1 "+kit.Esc(pat))
			}
		}
		emit(out, "ar0", execCase(ar))
		genWriteQueryProduct(out)
	}
	for i := 0; i < f.N; i++ {
		emit(out, fmt.Sprintf("t%d", i), execCase(genTable(r.Fork())))
		if i%3 == 0 {
			emit(out, fmt.Sprintf("h%d", i), execCase(genHTTP(r.Fork())))
		}
		if i%4 == 1 {
			emit(out, fmt.Sprintf("c%d", i), execCase(genCollision(r.Fork())))
		}
		if i%5 == 2 {
			emit(out, fmt.Sprintf("bt%d", i), execCase(genByteTable(r.Fork())))
		}
	}
	if thorough && exhaustive && f.Extra["notables"] == "" {
		genExhaustiveTables(out)
	}
}
