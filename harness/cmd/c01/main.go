// vh-c01 runs the REAL kapacitor code (linked from /repo via replace) for property C01 and prints op lines.
package main

import (
	"os"

	"verifharness/c01"
)

func main() { os.Exit(c01.Run(os.Args[1:])) }
