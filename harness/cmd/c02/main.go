// vh-c02 runs the REAL kapacitor code (linked from /repo via replace) for property C02 and prints op lines.
package main

import (
	"os"

	"verifharness/c02"
)

func main() { os.Exit(c02.Run(os.Args[1:])) }
