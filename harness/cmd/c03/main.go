// vh-c03 runs the REAL kapacitor code (linked from /repo via replace) for property C03 and prints op lines.
package main

import (
	"os"

	"verifharness/c03"
)

func main() { os.Exit(c03.Run(os.Args[1:])) }
