// vh-c04 runs the REAL kapacitor code (linked from /repo via replace) for property C04 and prints op lines.
package main

import (
	"os"

	"verifharness/c04"
)

func main() { os.Exit(c04.Run(os.Args[1:])) }
