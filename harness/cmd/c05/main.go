// vh-c05 runs the REAL kapacitor code (linked from /repo via replace) for property C05 and prints op lines.
package main

import (
	"os"

	"verifharness/c05"
)

func main() { os.Exit(c05.Run(os.Args[1:])) }
