// vh-c06 runs the REAL kapacitor code (linked from /repo via replace) for property C06 and prints op lines.
package main

import (
	"os"

	"verifharness/c06"
)

func main() { os.Exit(c06.Run(os.Args[1:])) }
