// vh-c07 runs the REAL kapacitor code (linked from /repo via replace) for property C07 and prints op lines.
package main

import (
	"os"

	"verifharness/c07"
)

func main() { os.Exit(c07.Run(os.Args[1:])) }
