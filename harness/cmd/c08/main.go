// vh-c08 runs the REAL kapacitor code (linked from /repo via replace) for property C08 and prints op lines.
package main

import (
	"os"

	"verifharness/c08"
)

func main() { os.Exit(c08.Run(os.Args[1:])) }
