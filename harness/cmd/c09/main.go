// vh-c09 runs the REAL kapacitor code (linked from /repo via replace) for property C09 and prints op lines.
package main

import (
	"os"

	"verifharness/c09"
)

func main() { os.Exit(c09.Run(os.Args[1:])) }
