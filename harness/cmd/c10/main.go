// vh-c10 runs the REAL kapacitor code (linked from /repo via replace) for property C10 and prints op lines.
package main

import (
	"os"

	"verifharness/c10"
)

func main() { os.Exit(c10.Run(os.Args[1:])) }
