// vh-c11 runs the REAL kapacitor code (linked from /repo via replace) for property C11 and prints op lines.
package main

import (
	"os"

	"verifharness/c11"
)

func main() { os.Exit(c11.Run(os.Args[1:])) }
