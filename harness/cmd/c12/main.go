// vh-c12 runs the REAL kapacitor code (linked from /repo via replace) for property C12 and prints op lines.
package main

import (
	"os"

	"verifharness/c12"
)

func main() { os.Exit(c12.Run(os.Args[1:])) }
