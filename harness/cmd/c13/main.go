// vh-c13 runs the REAL kapacitor code (linked from /repo via replace) for property C13 and prints op lines.
package main

import (
	"os"

	"verifharness/c13"
)

func main() { os.Exit(c13.Run(os.Args[1:])) }
