// vh-c14 runs the REAL kapacitor code (linked from /repo via replace) for property C14 and prints op lines.
package main

import (
	"os"

	"verifharness/c14"
)

func main() { os.Exit(c14.Run(os.Args[1:])) }
