// vh-c15 runs the REAL kapacitor code (linked from /repo via replace) for property C15 and prints op lines.
package main

import (
	"os"

	"verifharness/c15"
)

func main() { os.Exit(c15.Run(os.Args[1:])) }
