// vh-c16 runs the REAL kapacitor code (linked from /repo via replace) for property C16 and prints op lines.
package main

import (
	"os"

	"verifharness/c16"
)

func main() { os.Exit(c16.Run(os.Args[1:])) }
