// vh-c17 runs the REAL kapacitor code (linked from /repo via replace) for property C17 and prints op lines.
package main

import (
	"os"

	"verifharness/c17"
)

func main() { os.Exit(c17.Run(os.Args[1:])) }
