// vh-c18 runs the REAL kapacitor code (linked from /repo via replace) for property C18 and prints op lines.
package main

import (
	"os"

	"verifharness/c18"
)

func main() { os.Exit(c18.Run(os.Args[1:])) }
