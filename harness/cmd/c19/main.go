// vh-c19 runs the REAL kapacitor code (linked from /repo via replace) for property C19 and prints op lines.
package main

import (
	"os"

	"verifharness/c19"
)

func main() { os.Exit(c19.Run(os.Args[1:])) }
