// vh-c20 runs the REAL kapacitor code (linked from /repo via replace) for property C20 and prints op lines.
package main

import (
	"os"

	"verifharness/c20"
)

func main() { os.Exit(c20.Run(os.Args[1:])) }
