// Package kit holds what every property harness shares: the line protocol helpers, the single
// PRNG, and the in-process kapacitor backbone (TaskMaster + alert service + sink UDF).
package kit

import (
	"bufio"
	"fmt"
	"math"
	"os"
	"strconv"
	"strings"
)

// ---- PRNG: splitmix64, the only source of randomness (seeded from VERIF_SEED / -seed) ----

type Rand struct{ s uint64 }

// NewRand mixes the seed through the splitmix64 finaliser first: the generator's state advances by a
// constant per draw, so an unmixed seed s+1 would just be seed s one draw later (consecutive VERIF_SEED
// values would explore almost the same cases).
func NewRand(seed uint64) *Rand {
	z := seed + 0x9E3779B97F4A7C15
	z = (z ^ (z >> 30)) * 0xBF58476D1CE4E5B9
	z = (z ^ (z >> 27)) * 0x94D049BB133111EB
	z = z ^ (z >> 31)
	return &Rand{s: z ^ 0x1234567}
}
func (r *Rand) U64() uint64 {
	r.s += 0x9E3779B97F4A7C15
	z := r.s
	z = (z ^ (z >> 30)) * 0xBF58476D1CE4E5B9
	z = (z ^ (z >> 27)) * 0x94D049BB133111EB
	return z ^ (z >> 31)
}
func (r *Rand) Intn(n int) int {
	if n <= 0 {
		return 0
	}
	return int(r.U64() % uint64(n))
}
func (r *Rand) Bool() bool           { return r.U64()&1 == 1 }
func (r *Rand) Chance(p, q int) bool { return r.Intn(q) < p }
func (r *Rand) Range(lo, hi int) int { return lo + r.Intn(hi-lo+1) }
func (r *Rand) Fork() *Rand          { return NewRand(r.U64()) }
func Pick[T any](r *Rand, xs []T) T  { return xs[r.Intn(len(xs))] }

// ---- token escaping: tokens are space separated; bytes outside [A-Za-z0-9_.:/+-] are %XX ----

func Esc(s string) string {
	if s == "" {
		return "%"
	}
	var b strings.Builder
	for i := 0; i < len(s); i++ {
		c := s[i]
		if c >= 'a' && c <= 'z' || c >= 'A' && c <= 'Z' || c >= '0' && c <= '9' || c == '_' || c == '.' || c == ':' || c == '/' || c == '+' || c == '-' {
			b.WriteByte(c)
		} else {
			fmt.Fprintf(&b, "%%%02X", c)
		}
	}
	return b.String()
}

func Unesc(t string) (string, error) {
	if t == "%" {
		return "", nil
	}
	var b strings.Builder
	for i := 0; i < len(t); i++ {
		if t[i] == '%' {
			if i+2 >= len(t) {
				return "", fmt.Errorf("bad escape in %q", t)
			}
			v, err := strconv.ParseUint(t[i+1:i+3], 16, 8)
			if err != nil {
				return "", err
			}
			b.WriteByte(byte(v))
			i += 2
		} else {
			b.WriteByte(t[i])
		}
	}
	return b.String(), nil
}

// F64 renders a float as its 16-hex-digit IEEE bit pattern (never decimal).
func F64(f float64) string { return fmt.Sprintf("%016x", math.Float64bits(f)) }

// ---- output: one op line at a time, flushed (so a crash loses nothing) ----

type Out struct{ w *bufio.Writer }

func NewOut() *Out { return &Out{w: bufio.NewWriterSize(os.Stdout, 1<<16)} }
func (o *Out) Line(tokens ...string) {
	o.w.WriteString(strings.Join(tokens, " "))
	o.w.WriteByte('\n')
}
func (o *Out) Linef(format string, a ...interface{}) {
	fmt.Fprintf(o.w, format, a...)
	o.w.WriteByte('\n')
}
func (o *Out) Flush() { o.w.Flush() }

// ---- common flags ----

type Flags struct {
	Seed   uint64
	N      int
	Ops    string // file with op lines to replay instead of generating
	Tier   string
	Extra  map[string]string
	Corpus []string
}

func ParseFlags(args []string) Flags {
	f := Flags{Seed: 1, N: 100, Tier: "quick", Extra: map[string]string{}}
	for i := 0; i < len(args); i++ {
		a := args[i]
		next := func() string {
			if i+1 < len(args) {
				i++
				return args[i]
			}
			return ""
		}
		switch a {
		case "-seed":
			v, _ := strconv.ParseUint(next(), 10, 64)
			f.Seed = v
		case "-n":
			v, _ := strconv.Atoi(next())
			f.N = v
		case "-ops":
			f.Ops = next()
		case "-tier":
			f.Tier = next()
		default:
			if strings.HasPrefix(a, "-") {
				f.Extra[strings.TrimLeft(a, "-")] = next()
			} else {
				f.Corpus = append(f.Corpus, a)
			}
		}
	}
	return f
}

// ReadLines returns the non-empty, non-comment lines of a file.
func ReadLines(path string) ([]string, error) {
	b, err := os.ReadFile(path)
	if err != nil {
		return nil, err
	}
	var out []string
	for _, l := range strings.Split(string(b), "\n") {
		l = strings.TrimSpace(l)
		if l == "" || strings.HasPrefix(l, "#") {
			continue
		}
		out = append(out, l)
	}
	return out, nil
}
