package kit

import (
	"errors"
	"fmt"
	"io"
	"os"
	"sort"
	"strings"
	"sync"
	"time"

	"github.com/influxdata/kapacitor"
	"github.com/influxdata/kapacitor/alert"
	"github.com/influxdata/kapacitor/edge"
	"github.com/influxdata/kapacitor/models"
	alertservice "github.com/influxdata/kapacitor/services/alert"
	"github.com/influxdata/kapacitor/services/diagnostic"
	"github.com/influxdata/kapacitor/services/httpd"
	"github.com/influxdata/kapacitor/services/httppost"
	"github.com/influxdata/kapacitor/services/storage/storagetest"
	"github.com/influxdata/kapacitor/udf"
	"github.com/influxdata/kapacitor/udf/agent"
	"github.com/influxdata/kapacitor/uuid"
)

// ---------------------------------------------------------------------------------------------
// Diagnostics (discarded)

var (
	diagOnce sync.Once
	diagSvc  *diagnostic.Service
)

func Diag() *diagnostic.Service {
	diagOnce.Do(func() {
		c := diagnostic.NewConfig()
		c.Level = "ERROR"
		var w io.Writer = io.Discard
		if os.Getenv("VERIF_LOG") != "" {
			w = os.Stderr
			c.Level = "DEBUG"
		}
		diagSvc = diagnostic.NewService(c, w, w)
		if err := diagSvc.Open(); err != nil {
			panic(err)
		}
	})
	return diagSvc
}

// ---------------------------------------------------------------------------------------------
// Server info / trivial fakes

type serverInfo struct{ c, s uuid.UUID }

func (i serverInfo) ClusterID() uuid.UUID    { return i.c }
func (i serverInfo) ServerID() uuid.UUID     { return i.s }
func (i serverInfo) Hostname() string        { return "localhost" }
func (i serverInfo) Version() string         { return "verif" }
func (i serverInfo) Product() string         { return "kapacitor" }
func (i serverInfo) Platform() string        { return "verif" }
func (i serverInfo) NumTasks() int64         { return 0 }
func (i serverInfo) NumEnabledTasks() int64  { return 0 }
func (i serverInfo) NumSubscriptions() int64 { return 0 }
func (i serverInfo) Uptime() time.Duration   { return 0 }

type taskStore struct{}

func (taskStore) SaveSnapshot(string, *kapacitor.TaskSnapshot) error { return nil }
func (taskStore) HasSnapshot(string) bool                            { return false }
func (taskStore) LoadSnapshot(string) (*kapacitor.TaskSnapshot, error) {
	return nil, errors.New("not implemented")
}

type deadman struct{}

func (deadman) Interval() time.Duration { return 0 }
func (deadman) Threshold() float64      { return 0 }
func (deadman) Id() string              { return "" }
func (deadman) Message() string         { return "" }
func (deadman) Global() bool            { return false }

// TempDirer satisfies storagetest.CleanedTest.
type TempDirer struct{ dirs []string }

func (t *TempDirer) TempDir() string {
	base := os.Getenv("VERIF_SCRATCH")
	if base == "" {
		base = os.TempDir()
	}
	d, err := os.MkdirTemp(base, "vh-")
	if err != nil {
		panic(err)
	}
	t.dirs = append(t.dirs, d)
	return d
}
func (t *TempDirer) Cleanup() {
	for _, d := range t.dirs {
		os.RemoveAll(d)
	}
	t.dirs = nil
}

// ---------------------------------------------------------------------------------------------
// Sink UDF service: `@sink()` (stream in, stream out) and `@bsink()` (batch in, batch out) record
// every message they receive under "<taskID>/<nodeName>" and pass it through unchanged.

type Rec struct {
	mu   sync.Mutex
	msgs map[string][]edge.Message
}

func NewRec() *Rec { return &Rec{msgs: map[string][]edge.Message{}} }
func (r *Rec) add(key string, m edge.Message) {
	r.mu.Lock()
	r.msgs[key] = append(r.msgs[key], m)
	r.mu.Unlock()
}
func (r *Rec) Keys() []string {
	r.mu.Lock()
	defer r.mu.Unlock()
	var ks []string
	for k := range r.msgs {
		ks = append(ks, k)
	}
	sort.Strings(ks)
	return ks
}
func (r *Rec) Get(key string) []edge.Message {
	r.mu.Lock()
	defer r.mu.Unlock()
	return append([]edge.Message(nil), r.msgs[key]...)
}
func (r *Rec) Reset() {
	r.mu.Lock()
	r.msgs = map[string][]edge.Message{}
	r.mu.Unlock()
}

type SinkUDFService struct {
	Rec *Rec
	// Gate, when non-nil, is received from before each message is recorded (slow sink control).
	Gate chan struct{}
}

func (s *SinkUDFService) List() []string { return []string{"sink", "bsink"} }
func (s *SinkUDFService) Info(name string) (udf.Info, bool) {
	switch name {
	case "sink":
		return udf.Info{Wants: agent.EdgeType_STREAM, Provides: agent.EdgeType_STREAM, Options: map[string]*agent.OptionInfo{}}, true
	case "bsink":
		return udf.Info{Wants: agent.EdgeType_BATCH, Provides: agent.EdgeType_BATCH, Options: map[string]*agent.OptionInfo{}}, true
	}
	return udf.Info{}, false
}
func (s *SinkUDFService) Create(name, taskID, nodeID string, d udf.Diagnostic, abortCallback func()) (udf.Interface, error) {
	info, ok := s.Info(name)
	if !ok {
		return nil, fmt.Errorf("unknown udf %s", name)
	}
	return &sinkUDF{svc: s, key: taskID + "/" + nodeID, info: info, in: make(chan edge.Message), out: make(chan edge.Message), done: make(chan struct{}), abort: abortCallback, abrt: make(chan struct{})}, nil
}

type sinkUDF struct {
	svc   *SinkUDFService
	key   string
	info  udf.Info
	in    chan edge.Message
	out   chan edge.Message
	done  chan struct{}
	abort func()
	once  sync.Once
	abMu  sync.Mutex
	abrt  chan struct{}
}

func (u *sinkUDF) Open() error {
	go func() {
		defer close(u.done)
		defer close(u.out)
		for m := range u.in {
			if u.svc.Gate != nil {
				select {
				case <-u.svc.Gate:
				case <-u.abrt:
					return
				}
			}
			u.svc.Rec.add(u.key, m)
			select {
			case u.out <- m:
			case <-u.abrt:
				return
			}
		}
	}()
	return nil
}
func (u *sinkUDF) Info() (udf.Info, error)            { return u.info, nil }
func (u *sinkUDF) Init(options []*agent.Option) error { return nil }
func (u *sinkUDF) Abort(err error) {
	u.once.Do(func() {
		close(u.abrt)
		if u.abort != nil {
			go u.abort()
		}
	})
}
func (u *sinkUDF) Close() error {
	close(u.in)
	<-u.done
	return nil
}
func (u *sinkUDF) Snapshot() ([]byte, error)     { return nil, nil }
func (u *sinkUDF) Restore(snapshot []byte) error { return nil }
func (u *sinkUDF) In() chan<- edge.Message       { return u.in }
func (u *sinkUDF) Out() <-chan edge.Message      { return u.out }

// ---------------------------------------------------------------------------------------------
// Recording alert handler

type EventRec struct {
	mu     sync.Mutex
	Events []alert.Event
}

func (h *EventRec) Handle(e alert.Event) {
	h.mu.Lock()
	h.Events = append(h.Events, e)
	h.mu.Unlock()
}
func (h *EventRec) Get() []alert.Event {
	h.mu.Lock()
	defer h.mu.Unlock()
	return append([]alert.Event(nil), h.Events...)
}

// ---------------------------------------------------------------------------------------------
// Backbone

type TM struct {
	TM     *kapacitor.TaskMaster
	Alert  *alertservice.Service
	HTTPD  *httpd.Service
	Store  *storagetest.TestStore
	Rec    *Rec
	Sink   *SinkUDFService
	tmp    *TempDirer
	closed bool
}

type TMOpts struct {
	PersistTopics bool
	NoOpen        bool
}

var httpdOnce sync.Once
var sharedHTTPD *httpd.Service

func sharedHTTPDService() *httpd.Service {
	httpdOnce.Do(func() {
		cfg := httpd.NewConfig()
		cfg.BindAddress = "127.0.0.1:0"
		cfg.LogEnabled = false
		sharedHTTPD = httpd.NewService(cfg, "localhost", nil, Diag().NewHTTPDHandler())
		if err := sharedHTTPD.Open(); err != nil {
			panic(err)
		}
	})
	return sharedHTTPD
}

// NewTM builds a real TaskMaster wired to a real alert service on a real Bolt store.
func NewTM(o TMOpts) (*TM, error) {
	ds := Diag()
	t := &TM{tmp: &TempDirer{}, Rec: NewRec()}
	t.Sink = &SinkUDFService{Rec: t.Rec}
	tm := kapacitor.NewTaskMaster("verif", serverInfo{uuid.New(), uuid.New()}, ds.NewKapacitorHandler())
	t.HTTPD = sharedHTTPDService()
	tm.HTTPDService = t.HTTPD
	tm.TaskStore = taskStore{}
	tm.DeadmanService = deadman{}
	tm.HTTPPostService, _ = httppost.NewService(nil, ds.NewHTTPPostHandler())
	tm.UDFService = t.Sink
	as := alertservice.NewService(ds.NewAlertServiceHandler(), nil, 0)
	as.PersistTopics = o.PersistTopics
	t.Store = storagetest.New(t.tmp, ds.NewStorageHandler())
	as.StorageService = t.Store
	as.HTTPDService = t.HTTPD
	if err := as.Open(); err != nil {
		return nil, err
	}
	tm.AlertService = as
	t.Alert = as
	t.TM = tm
	if !o.NoOpen {
		if err := tm.Open(); err != nil {
			return nil, err
		}
	}
	return t, nil
}

func (t *TM) Close() {
	if t.closed {
		return
	}
	t.closed = true
	t.TM.Close()
	t.Alert.Close()
	t.Store.Close()
	t.tmp.Cleanup()
}

// StartStream defines and starts a stream task.
func (t *TM) StartStream(id, script string, dbrps []kapacitor.DBRP) (*kapacitor.ExecutingTask, error) {
	task, err := t.TM.NewTask(id, script, kapacitor.StreamTask, dbrps, 0, nil)
	if err != nil {
		return nil, err
	}
	return t.TM.StartTask(task)
}

// ---------------------------------------------------------------------------------------------
// Canonical rendering of data values

func FieldVal(v interface{}) string {
	switch x := v.(type) {
	case int64:
		return fmt.Sprintf("i:%d", x)
	case float64:
		return "f:" + F64(x)
	case string:
		return "s:" + Esc(x)
	case bool:
		if x {
			return "b:1"
		}
		return "b:0"
	case time.Duration:
		return fmt.Sprintf("d:%d", int64(x))
	case time.Time:
		return fmt.Sprintf("t:%d", x.UnixNano())
	case nil:
		return "nil"
	default:
		return "x:" + Esc(fmt.Sprintf("%T", v))
	}
}

func FieldsStr(f models.Fields) string {
	if len(f) == 0 {
		return "-"
	}
	ks := make([]string, 0, len(f))
	for k := range f {
		ks = append(ks, k)
	}
	sort.Strings(ks)
	var b []string
	for _, k := range ks {
		b = append(b, Esc(k)+"="+FieldVal(f[k]))
	}
	return strings.Join(b, ",")
}

func TagsStr(t models.Tags) string {
	if len(t) == 0 {
		return "-"
	}
	ks := make([]string, 0, len(t))
	for k := range t {
		ks = append(ks, k)
	}
	sort.Strings(ks)
	var b []string
	for _, k := range ks {
		b = append(b, Esc(k)+"="+Esc(t[k]))
	}
	return strings.Join(b, ",")
}
