-- Root of the `Kap` library: models, specs, proofs and property theorems for kapacitor.
import Kap.Basic
