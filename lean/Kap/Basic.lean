/-
Shared, core-only helpers for the executable models and their drivers:
token (un)escaping for the line protocol, small parsers, a sorted-key association list.
Nothing here is trusted by any theorem except through the definitions that use it.
-/
namespace Kap

/-- Hex digit value. -/
def hexVal (c : Char) : Option Nat :=
  if '0' ≤ c ∧ c ≤ '9' then some (c.toNat - '0'.toNat)
  else if 'a' ≤ c ∧ c ≤ 'f' then some (c.toNat - 'a'.toNat + 10)
  else if 'A' ≤ c ∧ c ≤ 'F' then some (c.toNat - 'A'.toNat + 10)
  else none

/-- Decode a `%XX`-escaped token into bytes (`"%"` alone is the empty string). -/
def unescBytes : List Char → Option (List UInt8)
  | [] => some []
  | '%' :: a :: b :: rest =>
    match hexVal a, hexVal b, unescBytes rest with
    | some x, some y, some r => some (UInt8.ofNat (x * 16 + y) :: r)
    | _, _, _ => none
  | '%' :: _ => none
  | c :: rest =>
    match unescBytes rest with
    | some r => some (UInt8.ofNat c.toNat :: r)
    | none => none

/-- Token → string (UTF-8 decoded; invalid UTF-8 is rejected by returning `none`). -/
def unesc (tok : String) : Option String :=
  if tok == "%" then some "" else
  match unescBytes tok.toList with
  | some bs =>
    let ba := ByteArray.mk bs.toArray
    String.fromUTF8? ba
  | none => none

/-- Token → raw bytes. -/
def unescRaw (tok : String) : Option (List UInt8) :=
  if tok == "%" then some [] else unescBytes tok.toList

def hexDigit (n : Nat) : Char :=
  if n < 10 then Char.ofNat ('0'.toNat + n) else Char.ofNat ('A'.toNat + (n - 10))

def escByte (b : UInt8) : String :=
  let c := Char.ofNat b.toNat
  if ('a' ≤ c ∧ c ≤ 'z') ∨ ('A' ≤ c ∧ c ≤ 'Z') ∨ ('0' ≤ c ∧ c ≤ '9') ∨
     c = '_' ∨ c = '.' ∨ c = ':' ∨ c = '/' ∨ c = '+' ∨ c = '-' then String.singleton c
  else "%" ++ String.singleton (hexDigit (b.toNat / 16)) ++ String.singleton (hexDigit (b.toNat % 16))

/-- String → token, the inverse of `unesc` (same alphabet as the Go harness `kit.Esc`). -/
def esc (s : String) : String :=
  if s.isEmpty then "%" else
  s.toUTF8.toList.foldl (fun acc b => acc ++ escByte b) ""

/-- Split a line into space-separated tokens (empty tokens dropped). -/
def tokens (line : String) : List String :=
  (line.splitOn " ").filter (fun t => !t.isEmpty) |>.map (fun t => (t.trimAscii).toString) |>.filter (fun t => !t.isEmpty)

/-- Split an op line at the `=>` token into (op tokens, observed tokens). -/
def splitObs (toks : List String) : List String × List String :=
  let rec go : List String → List String → List String × List String
    | [], acc => (acc.reverse, [])
    | "=>" :: rest, acc => (acc.reverse, rest)
    | t :: rest, acc => go rest (t :: acc)
  go toks []

def parseInt? (s : String) : Option Int := s.toInt?
def parseNat? (s : String) : Option Nat := s.toNat?

def boolTok (b : Bool) : String := if b then "1" else "0"

/-- Read all lines of stdin. -/
partial def readLines (h : IO.FS.Stream) (acc : Array String := #[]) : IO (Array String) := do
  let line ← h.getLine
  if line.isEmpty then return acc
  let l := if line.endsWith "\n" then (line.dropEnd 1).toString else line
  readLines h (acc.push l)

/-- Group lines into cases: `case <id>` … `end`. Lines outside a case are ignored. -/
def groupCases (lines : Array String) : Array (String × Array String) := Id.run do
  let mut out : Array (String × Array String) := #[]
  let mut cur : Option (String × Array String) := none
  for l in lines do
    let ts := tokens l
    match ts with
    | ["case", id] => cur := some (id, #[])
    | ["end"] =>
      match cur with
      | some c => out := out.push c; cur := none
      | none => pure ()
    | _ =>
      match cur with
      | some (id, ls) => if ts.isEmpty then pure () else cur := some (id, ls.push l)
      | none => pure ()
  return out

/-- Verdict of the driver for one case. -/
inductive Verdict where
  | ok (nontrivial : Bool) (branches : List String)
  | mismatch (detail : String)          -- model output ≠ observed output
  | specfail (clause : String) (detail : String) -- the property's spec is false of the observed output
  | known (key : String) (detail : String)       -- explained by a recorded deviation clause
  | badop (detail : String)

def Verdict.render (id : String) : Verdict → String
  | .ok nt br => s!"case {id} ok nt={boolTok nt} br={",".intercalate br}"
  | .mismatch d => s!"case {id} MISMATCH {d}"
  | .specfail c d => s!"case {id} SPECFAIL {c} {d}"
  | .known k d => s!"case {id} KNOWN {k} {d}"
  | .badop d => s!"case {id} BADOP {d}"

/-- Standard driver main loop: read cases from stdin, judge each, print one verdict line per case. -/
def driverMain (judge : String → Array String → Verdict) : IO Unit := do
  let lines ← readLines (← IO.getStdin)
  let out ← IO.getStdout
  for (id, ls) in groupCases lines do
    out.putStrLn ((judge id ls).render id)
  out.flush

end Kap
