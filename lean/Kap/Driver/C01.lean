/-
Driver for C01: reads the cases produced by the Go harness (which ran the REAL AlertNode through a real TaskMaster),
replays every case on the model (Kap.Model.C01) and on the history spec (Kap.Spec.C01) and judges
  * the spec on the OBSERVED events / forwarded data (the property itself; checked first), and
  * observed = model (the tie between model and code).
-/
import Kap.Spec.C01
open Kap Kap.C01

namespace Kap.C01.Drv

/-! ### parsing -/

def kvOf (toks : List String) (key : String) : Option String :=
  toks.findSome? (fun t => match t.splitOn "=" with
    | [k, v] => if k == key then some v else none
    | _ => none)

def hexU64? (s : String) : Option UInt64 :=
  if s.length != 16 then none else
  s.toList.foldlM (fun (acc : UInt64) ch => (hexVal ch).map (fun d => acc * 16 + UInt64.ofNat d)) 0

def bit (s : String) (i : Nat) : Bool := (s.toList.getD i '0') == '1'

def sym? (ch : Char) : Option (Option Bool) :=
  if ch == '1' then some (some true) else if ch == '0' then some (some false)
  else if ch == 'm' || ch == 'x' then some none else none

def parseVec (t : Int) (vec : String) : Option Pt :=
  match vec.toList.mapM sym? with
  | some [i, w, c, ri, rw, rc] => some { t := t, i := i, w := w, c := c, ri := ri, rw := rw, rc := rc }
  | _ => none

/-- the documented example (pipeline/alert.go:100-127): thresholds on "value" -/
def docPt (t : Int) (v : Int) : Pt :=
  { t := t, i := some (v > 60), ri := some (v < 50), w := some (v > 70), rw := some (v < 60),
    c := some (v > 80), rc := some (v < 70) }

def parseBatchPts (tok : String) : Option (List Pt) :=
  if tok == "-" then some [] else
  (tok.splitOn ",").mapM (fun s => match s.splitOn ":" with
    | [t, vec] => do parseVec (← t.toInt?) vec
    | _ => none)

structure Conf where
  form : String := "s"
  cfg : Cfg := {}
  low : Float := 0.25
  high : Float := 0.5
  hist : Option Int := none

def parseCfg (toks : List String) : Option Conf := do
  let get (k : String) (d : String) : String := (kvOf toks k).getD d
  let form := get "form" "s"
  let lv := get "lv" "111"
  let rs := get "rs" "000"
  let scodur ← (get "scodur" "0").toInt?
  let hist ← (get "hist" "-1").toInt?
  let lo ← hexU64? (get "lo" "3fd0000000000000")
  let hi ← hexU64? (get "hi" "3fe0000000000000")
  let histO : Option Int := if hist < 0 then none else some hist
  let doc := form == "doc"
  let c : Cfg := {
    info := doc || bit lv 0, warn := doc || bit lv 1, crit := doc || bit lv 2,
    infoReset := doc || bit rs 0, warnReset := doc || bit rs 1, critReset := doc || bit rs 2,
    sco := get "sco" "0" == "1", scoDur := scodur * 1000,   -- the harness writes microseconds (`<n>u`)
    noRec := get "norec" "0" == "1", all := get "all" "0" == "1", useFlap := get "flap" "0" == "1",
    history := effHistory histO }
  pure { form := form, cfg := c, low := Float.ofBits lo, high := Float.ofBits hi, hist := histO }

/-! ### per-ID state of model and spec -/

structure GState where
  gid : String
  st : St                    -- model
  tr : Track := {}           -- spec
  ft : FlapTrack := {}       -- spec: levels so far (newest first) and flapping flag
  lastEv : Option Ev := none -- model: the last event delivered for the ID (= its event state in the topic)
  lastSpecEv : Option Ev := none -- spec: the last event the handlers must have received
  restorePending : Bool := false  -- the task was restarted: the next message of the ID creates its state anew

structure Out where
  id : String
  ev : Ev
  tmax : Int := 0            -- batch form: time and size of the batch the event belongs to
  npts : Nat := 0

structure DS where
  conf : Conf := {}
  groups : List GState := []
  modelOut : Array Out := #[]
  specOut : Array Out := #[]
  quiet : Nat := 0           -- points / batches without an event (model)
  branches : List String := []
  sawInput : Bool := false
  -- form i (inhibition world): alert A = `conf` with `.inhibit('x', inhTags…)`, alert B = `confB` with `.category(catB)`
  confB : Conf := {}
  inhTags : List String := ["host"]
  catB : String := "x"
  inhDropped : Nat := 0

def addBr (d : DS) (b : String) : DS := if d.branches.contains b then d else { d with branches := b :: d.branches }
def addBrIf (d : DS) (cond : Bool) (b : String) : DS := if cond then addBr d b else d

/-- form i keys the groups of the two alert nodes as `A/<host>` and `B/<host>`; their measurements are `ma` / `mb` -/
def alertID (gid : String) : String :=
  if gid.startsWith "A/" then "ma:host=" ++ (gid.drop 2).toString
  else if gid.startsWith "B/" then "mb:host=" ++ (gid.drop 2).toString
  else "m:host=" ++ gid

def DS.group (d : DS) (gid : String) : GState :=
  match d.groups.find? (fun g => g.gid == gid) with
  | some g => g
  | none => { gid := gid, st := newAlertState d.conf.cfg }

def DS.setGroup (d : DS) (g : GState) : DS :=
  if d.groups.any (fun x => x.gid == g.gid) then
    { d with groups := d.groups.map (fun x => if x.gid == g.gid then g else x) }
  else { d with groups := d.groups ++ [g] }

/-! ### branch bookkeeping (which structural cases of the model a case went through) -/

def noteLevel (d : DS) (c : Cfg) (p : Pt) (cur : Nat) : DS := Id.run do
  let mut d := d
  let up := findFirstMatchLevel c p (cur - 1) critical
  let errAt (l : Nat) : Bool := levelExpr c l && (p.lv l).isNone
  d := addBrIf d (errAt 1 || errAt 2 || errAt 3) "lvl-eval-error"
  match up with
  | some l => d := addBr d (if l == cur then "dl-up-same" else "dl-up-higher")
  | none =>
    if !resetExpr c cur then d := addBr d (if cur == 0 then "dl-cur-ok" else "dl-no-reset")
    else if (p.rs cur).isNone then d := addBr d "dl-reset-error-falls-through"
    else if p.rs cur == some false then d := addBr d "dl-reset-holds"
    else d := addBr d "dl-reset-passes"
    if !(resetExpr c cur && p.rs cur == some false) then
      match findFirstMatchLevel c p 0 cur with
      | some _ => d := addBr d "dl-down-found"
      | none => d := addBr d "dl-down-ok"
  return d

def noteAdd (d : DS) (c : Cfg) (s s' : St) (t : Int) (l : Nat) : DS := Id.run do
  let mut d := d
  d := addBr d s!"tr-{currentLevel s}{l}"
  d := addBrIf d (s'.idx == 0) "ring-wrap"
  d := addBrIf d (c.scoDur != 0 && !s'.changed && s.lastTriggered.isNone) "exp-zero-time"
  if c.scoDur != 0 && !s'.changed then
    let el := subTime t s.lastTriggered
    d := addBrIf d (el == c.scoDur) "exp-eq"
    d := addBrIf d (el == c.scoDur - 1) "exp-minus1"
    d := addBrIf d (el == c.scoDur + 1) "exp-plus1"
    d := addBrIf d (el < 0) "exp-negative"
  d := addBrIf d (c.useFlap && s'.flapping && !s.flapping) "flap-on"
  d := addBrIf d (c.useFlap && !s'.flapping && s.flapping) "flap-off"
  return d

def noteTrig (d : DS) (s : St) : DS :=
  let p := if s.idx = 0 then s.history.length - 1 else s.idx - 1
  let d := addBrIf d (s.idx == 0) "trig-p-wraps"
  addBr d (if s.history.getD p 0 == 0 then "trig-first-set" else "trig-first-keep")

/-! ### one op on model and spec -/

def decideFn (conf : Conf) (k : FlapConsts) : FlapDecide := floatDecide k conf.low conf.high
def flapFn (conf : Conf) (k : FlapConsts) : FlapFn := goFlap k conf.low conf.high

/-- `NewGroup` after a restart: `restoreEventState(id, first.Time(), …)` from the ID's event state in the topic.
(The spec side resumes at the `restart` line itself: `specRestart` / `flapRestart`.) -/
def restoreIfPending (d : DS) (k : FlapConsts) (g : GState) (t : Int) : DS × GState :=
  if !g.restorePending then (d, g) else
  let (level, stored, dur) := match g.lastEv with
    | some e => (e.level, e.time, e.dur)
    | none => (0, 0, 0)
  let st := restoreEventState d.conf.cfg (flapFn d.conf k) t level stored dur
  (addBr d (if level != 0 then "restore-non-ok" else "restore-ok"), { g with st := st, restorePending := false })

def doPoint (d : DS) (k : FlapConsts) (gid : String) (p : Pt) : DS := Id.run do
  let c := d.conf.cfg
  let (d, g) := restoreIfPending d k (d.group gid) p.t
  let mut d := { d with sawInput := true }
  -- model
  let l := determineLevel c p (currentLevel g.st)
  d := noteLevel d c p (currentLevel g.st)
  let sAdd := addEvent c (flapFn d.conf k) g.st p.t l
  d := noteAdd d c g.st sAdd p.t l
  let (st', e) := pointStep c (flapFn d.conf k) g.st p
  let gd := guards c sAdd l
  if Gen.pointSuppress gd then
    d := addBr d (if c.useFlap && sAdd.flapping then "pt-suppressed-flapping" else "pt-suppressed-sco")
  else if Gen.pointSend gd then
    d := noteTrig d sAdd
    d := addBrIf d (l == 0) "pt-recovery"
    d := addBrIf d (l != 0 && !sAdd.changed && c.sco) "pt-expired-resend"
    d := addBrIf d (Gen.pointWithhold gd) "pt-recovery-withheld"
  else d := addBr d "pt-ok-quiet"
  match e with
  | some ev => d := { d with modelOut := d.modelOut.push { id := alertID gid, ev := ev } }
  | none => d := { d with quiet := d.quiet + 1 }
  -- spec
  let cur := specLevel c p g.tr.level
  let ft' := flapAdvance c (decideFn d.conf k) g.ft cur
  let fl := c.useFlap && ft'.flapping
  let (tr', se) := specPoint c g.tr p fl
  match se with
  | some ev => d := { d with specOut := d.specOut.push { id := alertID gid, ev := ev } }
  | none => pure ()
  let ftT : FlapTrack := { ft' with recent := ft'.recent.take c.history }
  return d.setGroup { g with st := st', tr := tr', ft := ftT,
                             lastEv := e.orElse (fun _ => g.lastEv), lastSpecEv := se.orElse (fun _ => g.lastSpecEv) }

/-- form i: a point of alert B. Its state machine runs as ever; the event is then dropped (model: some registered
inhibitor of A is set and matches; spec: some ID of A that matches is not OK). -/
def doPointB (d : DS) (k : FlapConsts) (host : String) (p : Pt) : DS := Id.run do
  let evTags := [("host", host)]
  let aGroups := d.groups.filter (fun g => g.gid.startsWith "A/")
  let tagsetOf (g : GState) : List (String × String) :=
    d.inhTags.map (fun t => (t, if t == "host" then (g.gid.drop 2).toString else ""))
  let inhM := eventInhibited (aGroups.map (fun g => (g.st.inhibiting, "x", tagsetOf g))) d.catB evTags
  let inhS := aGroups.any (fun g => inhibits g.tr.level "x" (tagsetOf g) d.catB evTags)
  let confA := d.conf
  let nM := d.modelOut.size
  let nS := d.specOut.size
  let mut d := doPoint { d with conf := d.confB } k ("B/" ++ host) p
  d := { d with conf := confA }
  let deliveredM := d.modelOut.size > nM
  if deliveredM && inhM then d := { d with modelOut := d.modelOut.pop, inhDropped := d.inhDropped + 1 }
  if d.specOut.size > nS && inhS then d := { d with specOut := d.specOut.pop }
  if deliveredM then
    d := addBrIf d inhM "inh-dropped"
    let anyNonOK := aGroups.any (fun g => g.tr.level != 0)
    d := addBrIf d (!inhM && anyNonOK && d.catB != "x") "inh-category-mismatch"
    d := addBrIf d (!inhM && anyNonOK && d.catB == "x") "inh-tag-mismatch"
    d := addBrIf d (!inhM && d.catB == "x" && aGroups.any (fun g => (g.gid.drop 2).toString == host && g.tr.level == 0 && g.lastSpecEv.any (·.level != 0)))
      "inh-released-by-withheld-recovery"
    d := addBrIf d (!inhM && d.catB == "x" && aGroups.any (fun g => (g.gid.drop 2).toString == host && g.tr.level == 0 && g.lastSpecEv.any (·.level == 0)))
      "inh-released-by-recovery"
  return d

def doBatch (d : DS) (k : FlapConsts) (gid : String) (b : Batch) : DS := Id.run do
  let c := d.conf.cfg
  let (d, g) := restoreIfPending d k (d.group gid) b.tmax
  let mut d := { d with sawInput := true }
  let (st', e) := batchStep c (flapFn d.conf k) g.st b
  if b.pts.isEmpty then d := addBr d "b-empty"
  else
    let cur := currentLevel g.st
    for p in b.pts do d := noteLevel d c p cur
    let sc := b.pts.foldl (scanStep c cur) {}
    let lvls := b.pts.map (fun p => determineLevel c p cur)
    let l := if Gen.batchUseHighest { all := c.all } then sc.highest else sc.lowest
    d := addBrIf d c.all "b-all"
    d := addBrIf d (c.all && sc.lowest != sc.highest) "b-all-mixed"
    d := addBrIf d ((lvls.filter (· == sc.highest)).length ≥ 2 && b.pts.length ≥ 2 && sc.highest != 0) "b-highest-tie"
    d := addBrIf d (match sc.highestPoint, b.pts.head? with | some hp, some p0 => hp != p0 | _, _ => false) "b-highest-not-first"
    d := addBr d (if Gen.batchUseBatchTime { all := c.all, l := l } then "b-time-batch" else "b-time-point")
    let t := match sc.highestPoint with
      | some hp => if Gen.batchUseBatchTime { all := c.all, l := l } then b.tmax else hp.t
      | none => b.tmax
    let sAdd := addEvent c (flapFn d.conf k) g.st t l
    d := noteAdd d c g.st sAdd t l
    let gd := guards c sAdd l
    if Gen.batchSilent gd then
      d := addBr d (if l == 0 then "b-ok-quiet" else if c.useFlap && sAdd.flapping then "b-suppressed-flapping" else "b-suppressed-sco")
    else
      d := noteTrig d sAdd
      d := addBrIf d (l == 0) "b-recovery"
      d := addBrIf d (l == 0 && c.useFlap && sAdd.flapping) "b-recovery-while-flapping"
      d := addBrIf d (l != 0 && !sAdd.changed && c.sco) "b-expired-resend"
      d := addBrIf d (Gen.batchWithhold gd) "b-recovery-withheld"
  match e with
  | some ev => d := { d with modelOut := d.modelOut.push { id := alertID gid, ev := ev, tmax := b.tmax, npts := b.pts.length } }
  | none => d := { d with quiet := d.quiet + 1 }
  -- spec
  if b.pts.isEmpty then return d.setGroup { g with st := st' }
  let g := { g with lastEv := e.orElse (fun _ => g.lastEv) }
  let cur := batchLevel c g.tr.level b.pts
  let ft' := flapAdvance c (decideFn d.conf k) g.ft cur
  let fl := c.useFlap && ft'.flapping
  let (tr', se) := specBatch c g.tr b fl
  match se with
  | some ev => d := { d with specOut := d.specOut.push { id := alertID gid, ev := ev, tmax := b.tmax, npts := b.pts.length } }
  | none => pure ()
  let ftT : FlapTrack := { ft' with recent := ft'.recent.take c.history }
  return d.setGroup { g with st := st', tr := tr', ft := ftT, lastSpecEv := se.orElse (fun _ => g.lastSpecEv) }

/-! ### comparing with what the implementation did -/

def renderEv (o : Out) : String := s!"{esc o.id}:{o.ev.level}:{o.ev.time}:{o.ev.dur}"
/-- `esc` with ':' escaped too (':' separates the parts of an observation token) -/
def escC (s : String) : String := (esc s).replace ":" "%3A"

def renderFwd (batch : Bool) (o : Out) : String :=
  let f := if batch then specForward o.id o.ev o.tmax o.npts else specForward o.id o.ev o.ev.time 1
  s!"{escC f.dataID}:{escC f.idField}:{escC f.levelField}:{f.time}:{f.durField}:{escC f.msgField}:{escC f.levelTag}:{escC f.idTag}:{f.npts}"

/-- first difference between two lists of forwarded data, with the name of the part that differs -/
def fwdDiff (expected observed : List String) : String :=
  let names := ["data-id", "idField", "levelField", "time", "durationField", "messageField", "levelTag", "idTag", "points"]
  let rec go (i : Nat) : List String → List String → String
    | [], [] => "none"
    | e :: _, [] => s!"#{i} not forwarded: expected {e}"
    | [], o :: _ => s!"#{i} forwarded without an event: {o}"
    | e :: es, o :: os =>
      if e == o then go (i + 1) es os else
      let pe := e.splitOn ":"
      let po := o.splitOn ":"
      let bad := (names.zip (pe.zip po)).filterMap (fun (n, (a, b)) => if a != b then some n else none)
      s!"#{i} differs in {bad}: expected {e} observed {o}"
  go 0 expected observed

def parseList (obs : List String) : Option (List String) :=
  match obs with
  | ["-"] => some []
  | [l] => some (l.splitOn ",")
  | _ => none

/-- Split a rendered event `id:L:t:dur[:n]` from the right (the escaped id may contain ':'). -/
def fieldsR (s : String) (nTail : Nat) : String × List String :=
  let parts := s.splitOn ":"
  let k := parts.length - nTail
  (":".intercalate (parts.take k), parts.drop k)

/-- Which clause of the property the first difference between expected and observed belongs to. -/
def classify (nTail : Nat) (expected observed : List String) : String × String :=
  let rec go (i : Nat) : List String → List String → String × String
    | [], [] => ("none", "")
    | e :: _, [] => ("emission", s!"event #{i} missing: expected {e}")
    | [], o :: _ => ("emission", s!"unexpected event #{i}: {o}")
    | e :: es, o :: os =>
      if e == o then go (i + 1) es os else
      match fieldsR e nTail, fieldsR o nTail with
      | (ei, el :: et :: ed :: erest), (oi, ol :: ot :: od :: orest) =>
        if ei != oi || et != ot then ("emission", s!"event #{i}: expected {e} observed {o}")
        else if el != ol then ("level", s!"event #{i}: expected {e} observed {o}")
        else if ed != od then ("duration", s!"event #{i}: expected {e} observed {o}")
        else if erest != orest then ("batch-size", s!"event #{i}: expected {e} observed {o}")
        else ("emission", s!"event #{i}: expected {e} observed {o}")
      | _, _ => ("emission", s!"event #{i}: expected {e} observed {o}")
  go 0 expected observed

def judge (_id : String) (lines : Array String) : Verdict := Id.run do
  let some k := flapConsts? | return .badop "flapping constants were not extracted from alert.go (Kap.Gen.C01)"
  if Gen.flapStartOffset.isNone then return .badop "the loop of percentChange was not recognised (Kap.Gen.C01)"
  if effHistory none < 2 then return .badop "history default / clamp were not extracted (Kap.Gen.C01)"
  -- a case without cfg / cfgb line runs with the harness defaults (lv=111, nothing else): same defaults here
  let dflt : Conf := (parseCfg []).getD {}
  let mut d : DS := { conf := dflt, confB := dflt }
  -- a model/implementation difference is reported only after the spec has been evaluated on EVERY observation line
  let mut pend : Option Verdict := none
  for l in lines do
    let (opT, obs) := splitObs (tokens l)
    match opT with
    | "cfg" :: rest =>
      if d.sawInput then return .badop "cfg after input"
      let some conf := parseCfg rest | return .badop l
      d := { d with conf := conf }
      d := { d with catB := (kvOf rest "catb").getD "x",
                    inhTags := match (kvOf rest "inh").getD "host" with
                      | "host" => ["host"]
                      | "host+dc" => ["host", "dc"]
                      | _ => ["host"] }
      d := addBr d (match conf.hist with
        | none => "hist-default"
        | some h => if h < 2 then "hist-clamped" else s!"hist-{h}")
      d := addBr d s!"form-{conf.form}"
    | ["p", gid, t, vec] =>
      let some gid := unesc gid | return .badop l
      let some t := t.toInt? | return .badop l
      let some p := parseVec t vec | return .badop l
      -- form w: the points feed a window node; the alert node sees the `wb` batches recorded under the window
      if d.conf.form == "w" then d := { d with sawInput := true } else
      d := doPoint d k gid p
    | ["wb", gid, tmax, pts] =>
      let some gid := unesc gid | return .badop l
      let some tmax := tmax.toInt? | return .badop l
      let some pts := parseBatchPts pts | return .badop l
      if d.conf.form != "w" then return .badop "wb line outside form w"
      d := doBatch d k gid { tmax := tmax, pts := pts }
    | ["v", gid, t, v] =>
      let some gid := unesc gid | return .badop l
      let some t := t.toInt? | return .badop l
      let some v := v.toInt? | return .badop l
      d := doPoint d k gid (docPt t v)
    | ["b", gid, tmax, pts] =>
      let some gid := unesc gid | return .badop l
      let some tmax := tmax.toInt? | return .badop l
      let some pts := parseBatchPts pts | return .badop l
      d := doBatch d k gid { tmax := tmax, pts := pts }
    | ["restart"] =>
      let dec := decideFn d.conf k
      d := { d with groups := d.groups.map (fun g =>
        { g with restorePending := true, tr := specRestart g.lastSpecEv, ft := flapRestart d.conf.cfg dec g.lastSpecEv }) }
      d := addBr d "restart"
    | "cfgb" :: rest =>
      let some conf := parseCfg rest | return .badop l
      d := { d with confB := conf }
    | ["pa", host, t, vec] =>
      let some host := unesc host | return .badop l
      let some t := t.toInt? | return .badop l
      let some p := parseVec t vec | return .badop l
      d := doPoint d k ("A/" ++ host) p
    | ["pb", host, t, vec] =>
      let some host := unesc host | return .badop l
      let some t := t.toInt? | return .badop l
      let some p := parseVec t vec | return .badop l
      d := doPointB d k host p
    | ["events"] =>
      let some observed := parseList obs | return .badop l
      let sp := d.specOut.toList.map renderEv
      let md := d.modelOut.toList.map renderEv
      if observed != sp then
        let (clause, detail) := classify 3 sp observed
        return .specfail clause s!"events: {detail} (model {if observed == md then "agrees with" else "differs from"} the implementation)"
      if observed != md then
        let (_, detail) := classify 3 md observed
        pend := pend.orElse (fun _ => some (Verdict.mismatch s!"events: model vs implementation: {detail}"))
    | ["fwd"] =>
      let some observed := parseList obs | return .badop l
      let batch := d.conf.form == "b" || d.conf.form == "w"
      let sp := d.specOut.toList.map (renderFwd batch)
      let md := d.modelOut.toList.map (renderFwd batch)
      if observed != sp then
        return .specfail "forwarded-data" s!"{fwdDiff sp observed} (model {if observed == md then "agrees with" else "differs from"} the implementation)"
      if observed != md then
        pend := pend.orElse (fun _ => some (Verdict.mismatch s!"forwarded data: model vs implementation: {fwdDiff md observed}"))
    | [which] =>
      if which != "eventsa" && which != "eventsb" then return .badop l
      let pre := if which == "eventsa" then "ma:" else "mb:"
      let some observed := parseList obs | return .badop l
      let sp := (d.specOut.toList.filter (fun o => o.id.startsWith pre)).map renderEv
      let md := (d.modelOut.toList.filter (fun o => o.id.startsWith pre)).map renderEv
      if observed != sp then
        let (clause, detail) := classify 3 sp observed
        let clause := if which == "eventsb" && clause == "emission" then "inhibition-or-emission" else clause
        return .specfail clause s!"{which}: {detail} (model {if observed == md then "agrees with" else "differs from"} the implementation)"
      if observed != md then
        let (_, detail) := classify 3 md observed
        pend := pend.orElse (fun _ => some (Verdict.mismatch s!"{which}: model vs implementation: {detail}"))
    | _ => return .badop l
  if let some v := pend then return v
  let nt := d.modelOut.size ≥ 2 && d.quiet ≥ 1
  return .ok nt d.branches.reverse

end Kap.C01.Drv

def main : IO Unit := Kap.driverMain Kap.C01.Drv.judge
