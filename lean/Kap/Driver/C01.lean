import Kap.Basic

/-- Driver for property C01 (replaced by the property's driver). -/
def main : IO Unit := Kap.driverMain (fun _ _ => .badop "driver not implemented")
