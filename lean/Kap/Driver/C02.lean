/-
Driver for C02: reads cases of op lines produced by the Go harness (which ran the REAL TaskMaster with `@sink()` nodes
under every from()), replays every case on the model and on the history spec, and judges
  * the spec on the OBSERVED sink recordings (the property itself, evaluated on the implementation's output), then
  * observed = model (correspondence).
-/
import Kap.Spec.C02Loop
import Kap.Spec.C02Udp
import Kap.Model.C02Udp
import Kap.Model.C02Bounded
import Kap.Gen.C02Cap
import Kap.Spec.C02Lock
open Kap Kap.C02

namespace Kap.C02.Drv

def splitBar (s : String) : List String := s.splitOn "|"

def parseDBRPs (tok : String) : Option (List (String × String)) :=
  if tok == "-" then some [] else
  (tok.splitOn ",").mapM (fun x =>
    match splitBar x with
    | [a, b] => do pure ((← unesc a), (← unesc b))
    | _ => none)

/-- The from() options the letters of the harness stand for (harness/c02 `optsOf`; a later groupBy call REPLACES the dimensions). -/
def parseOpts (tok : String) : Option FromOpts :=
  if tok == "-" then some {} else
  tok.toList.foldlM (fun (o : FromOpts) c =>
    match c with
    | 'g' => some { o with dims := ["host"], star := false }
    | 'G' => some { o with dims := ["zone", "host"], star := false }
    | 'D' => some { o with dims := ["host", "dc", "host"], star := false }
    | 'a' => some { o with dims := [], star := true }
    | 'm' => some { o with byName := true }
    | 't' => some { o with truncate := 1000000000 }
    | 'T' => some { o with truncate := 7000000000 }
    | 'n' => some { o with truncate := -1000000000 }
    | 'r' => some { o with round := 1000000000 }
    | 'R' => some { o with round := 7000000000 }
    | _ => none) {}

/-- `db;rp;name[;k=v…]` (harness/c02 `loopTok`) -/
def parseLoop (tok : String) : Option Loop :=
  match tok.splitOn ";" with
  | db :: rp :: nm :: tags => do
    let tags ← tags.mapM (fun kv => match kv.splitOn "=" with
      | [k, v] => do pure ((← unesc k), (← unesc v))
      | _ => none)
    pure { db := (← unesc db), rp := (← unesc rp), name := (← unesc nm), tags := tags }
  | _ => none

def parseFrom (tok : String) : Option From :=
  match splitBar tok with
  | [db, rp, nm, wh, opts, par, loops] => do
    let w ← if wh == "-" then pure none else (do pure (some (← wh.toNat?)))
    let pa ← if par == "-" then pure none else (do pure (some (← par.toNat?)))
    pure { db := (← unesc db), rp := (← unesc rp), name := (← unesc nm), wh := w, parent := pa, opts := (← parseOpts opts),
           loops := (← (loops.splitOn "~").mapM parseLoop) }
  | [db, rp, nm, wh] => do
    let w ← if wh == "-" then pure none else (do pure (some (← wh.toNat?)))
    pure { db := (← unesc db), rp := (← unesc rp), name := (← unesc nm), wh := w }
  | [db, rp, nm, wh, opts, par] => do
    let w ← if wh == "-" then pure none else (do pure (some (← wh.toNat?)))
    let pa ← if par == "-" then pure none else (do pure (some (← par.toNat?)))
    pure { db := (← unesc db), rp := (← unesc rp), name := (← unesc nm), wh := w, parent := pa, opts := (← parseOpts opts) }
  | _ => none

def parseFroms (tok : String) : Option (List From) := (tok.splitOn ",").mapM parseFrom

def parsePass (tok : String) : Option (List Nat) :=
  if tok == "-" then some [] else (tok.splitOn ";").mapM (·.toNat?)

/-- `id|name|pass|v|host|dc|time`: tags host / dc (absent when empty; kept sorted by key), fields id and v, time in Unix ns. -/
def parsePoint (tok : String) : Option RawPoint :=
  match splitBar tok with
  | [id, nm, pass, v, host, dc, t] => do
    let id ← id.toNat?
    let host ← unesc host
    let dc ← unesc dc
    let tags := (if dc == "" then [] else [("dc", dc)]) ++ (if host == "" then [] else [("host", host)])
    pure { id := id, name := (← unesc nm), pass := (← parsePass pass),
           pl := { time := (← t.toInt?), tags := tags, fields := [("id", (id : Int)), ("v", (← v.toInt?))] } }
  | _ => none

def parsePoints (tok : String) : Option (List RawPoint) := (tok.splitOn ",").mapM parsePoint

/-- lines of an HTTP body: `!k` = a malformed line, `#k` = a comment / blank line, `<point>@<ts>` = a point with time stamp `ts` -/
def parseLines (tok : String) : Option (List Line) :=
  (tok.splitOn ",").mapM (fun x =>
    if x.startsWith "!" then some Line.bad
    else if x.startsWith "#" then some Line.skip
    else match x.splitOn "@" with
      | [pt, ts] => do pure (Line.point (← parsePoint pt) (← ts.toInt?))
      | _ => none)

def parseEnc (flags : String) : BodyEnc :=
  let fl := flags.splitOn ","
  if fl.contains "gzhdr" then .gzipBadHeader else if fl.contains "gztrunc" then .gzipTruncated
  else if fl.contains "gz" then .gzip else .plain

/-- One recorded point as the harness printed it: (id, the harness' own cross-check flags, `id|name|db|rp|time|byName|dims|tags|fields`). -/
structure ObsPt where
  id : String
  flags : List String
  text : String

def parseObsPts (toks : List String) : List ObsPt :=
  match toks with
  | [t] =>
    if t == "-" then [] else
    (t.splitOn ",").map (fun x =>
      let fs := x.splitOn "|"
      let hd := (fs.headD "").splitOn "!"
      { id := hd.headD "", flags := hd.drop 1, text := "|".intercalate (hd.headD "" :: fs.drop 1) })
  | _ => []

/-- ids a sink recorded; a token that is not an id is dropped -/
def parseObsIds (toks : List String) : List Nat := (parseObsPts toks).filterMap (·.id.toNat?)

def renderList (l : List String) : String := if l.isEmpty then "-" else ";".intercalate l

/-- a recorded point in the harness' format (harness/c02 `obsPoint`) -/
def renderRec (r : Rec) : String :=
  "|".intercalate [toString r.id, esc r.name, esc r.db, esc r.rp, toString r.time, boolTok r.byName,
    renderList (r.tagNames.map esc), renderList (r.tags.map (fun kv => esc kv.1 ++ "=" ++ esc kv.2)),
    renderList (r.fields.map (fun kv => esc kv.1 ++ "=" ++ toString kv.2))]

/-- which part of two renderings differs first -/
def diffPart (a b : String) : String :=
  let names := ["id", "name", "db", "rp", "time", "byName", "dimensions", "tags", "fields"]
  let zs := (a.splitOn "|").zip ((b.splitOn "|").zip names)
  match zs.find? (fun z => z.1 != z.2.1) with
  | some z => z.2.2
  | none => "shape"

/-- One write order for the points of concurrent writers that keeps every writer's own order and agrees with the relative order in
which every sink recorded them (`none`: there is none — no single order explains what the sinks saw). Kahn's algorithm. -/
def mergeOrder (writers : List (List Nat)) (sinkSeqs : List (List Nat)) : Option (List Nat) := Id.run do
  let nodes := writers.flatten
  let restrict (l : List Nat) := l.filter (nodes.contains ·)
  let chains := writers ++ sinkSeqs.map restrict
  let pairs : List (Nat × Nat) := chains.flatMap (fun c => c.zip (c.drop 1))
  let mut remaining := nodes
  let mut out : List Nat := []
  for _ in [0:nodes.length] do
    match remaining.find? (fun n => !pairs.any (fun pr => pr.2 == n && pr.1 != n && remaining.contains pr.1)) with
    | some n => out := n :: out; remaining := remaining.filter (· != n)
    | none => return none
  return some out.reverse

def parseOp (ts : List String) : Option Op :=
  match ts with
  | ["start", id, dbrps, froms] => do
    pure (.start { id := (← unesc id), dbrps := (← parseDBRPs dbrps), froms := (← parseFroms froms) })
  | ["startfail", id, dbrps, froms] => do
    pure (.startfail { id := (← unesc id), dbrps := (← parseDBRPs dbrps), froms := (← parseFroms froms) })
  | ["stop", id] => do pure (.stop (← unesc id))
  | ["delete", id] => do pure (.delete (← unesc id))
  | ["drain"] => some .drain
  | ["swrite", db, rp, pts] => do
    -- fed through a StreamCollector of tm.Stream(name): same forkPoint, no default-rp substitution (rp is never empty here)
    let rp' ← unesc rp
    if rp' == "" then none else pure (.write (← unesc db) rp' (← parsePoints pts))
  | ["write", db, rp, pts] => do pure (.write (← unesc db) (← unesc rp) (← parsePoints pts))
  | _ => none

/-- capacity of the task input edges, as regenerated from the source -/
def edgeCap? : Option Nat :=
  match Gen.edgeCap with
  | .known n => some n
  | .unknown _ => none

def renderIds (l : List Nat) : String := if l.isEmpty then "-" else ",".intercalate (l.map toString)

structure St where
  defaultRP : String := ""
  started : Bool := false          -- a `cfg` line was seen (or defaulted)
  model : TM := {}
  hist : List Op := []             -- reversed history
  running : List String := []      -- ids enabled (for the well-formedness check)
  everStarted : List String := []
  branches : List String := []
  sawDedupe : Bool := false
  sawTwoRunning : Bool := false
  otherOpBetween : Bool := false
  anyDelivered : Bool := false
  hung : Option String := none     -- a call into the real code did not return
  drained : Bool := false          -- Drain was called: WritePoints is closed for good
  http : Bool := false             -- `cfg … http`: the harness sends every plain `write` through POST /write
  done : Src → Nat := fun _ => 0   -- second layer of the model (`LTM.done`; `LTM.tm` = `model`, `LTM.closed` = `drained`)
  lhist : List LOp := []           -- reversed history of the second layer
  sources : List Src := []         -- every loopback node of every definition ever started
  cursors : List ((String × Nat) × Nat) := []   -- per sink: how many of its observed points the replay has explained
  loopDelivered : Bool := false
  bpend : List (LOp × Point) := []   -- points handed to a batch task's loopback node, not yet forked (the node is asynchronous too)

def addBr (st : St) (b : String) : St :=
  if st.branches.contains b then st else { st with branches := b :: st.branches }

/-- Which branch of `FromNode.matches` decides for this from-node and point? -/
def matchBranch (f : From) (p : Point) : String :=
  if f.db != "" && p.db != f.db then "m-db-reject"
  else if f.rp != "" && p.rp != f.rp then "m-rp-reject"
  else if f.name != "" && p.name != f.name then "m-name-reject"
  else match f.wh with
    | some k => if p.pass.contains k then "m-where-pass" else "m-where-reject"
    | none => "m-accept"

def noteWrite (st : St) (db rp : String) (pts : List RawPoint) : St := Id.run do
  let mut st := st
  if rp == "" then st := addBr st (if st.defaultRP == "" then "write-norp-nodefault" else "write-default-rp")
  let rp' := if rp == "" then st.model.defaultRP else rp
  if st.running.length ≥ 2 then st := { st with sawTwoRunning := true }
  for r in pts do
    let p := mkPoint db rp' r
    let exact := st.model.forks (p.db, p.rp, p.name)
    let wild := st.model.forks (p.db, p.rp, "")
    if p.name == "" then st := addBr st "point-empty-name"
    if exact.isEmpty && wild.isEmpty then st := addBr st "fork-nobody"
    else if wild.isEmpty then st := addBr st "fork-exact-only"
    else if exact.isEmpty then st := addBr st "fork-wild-only"
    else
      if wild.any (fun x => exact.any (fun y => y.1 == x.1)) then
        st := { addBr st "fork-both-same-task-once" with sawDedupe := true }
      if wild.any (fun x => !exact.any (fun y => y.1 == x.1)) then st := addBr st "fork-both-distinct-tasks"
    if exact.length + wild.length ≥ 3 then st := addBr st "fork-3+-entries"
    for x in exact ++ wild.filter (fun x => !exact.any (fun y => y.1 == x.1)) do
      for i in [0:x.2.task.froms.length] do
        match x.2.task.froms[i]? with
        | some f =>
          if let some j := f.parent then
            st := addBr st (if sinkGets x.2.task i p then "chained-from-gets"
                            else if sinkGets x.2.task j p then "chained-from-own-reject" else "chained-from-parent-reject")
          if sinkGets x.2.task i p then
            -- the from() options at work on a point that is delivered
            let o := f.opts
            let tin := match f.parent with
              | some j => docTime x.2.task.froms (j + 1) j p.pl.time
              | none => p.pl.time
            let tt := docTruncate o.truncate tin
            if o.truncate > 0 then
              st := addBr st (if tt != tin then "opt-truncate-moves" else "opt-truncate-on-boundary")
              if tt != tin - tin % o.truncate then st := addBr st "opt-truncate-year1-origin-visible"
            if o.truncate < 0 then st := addBr st "opt-truncate-negative-noop"
            if o.round > 0 then
              let r := (tt + goZero) % o.round
              st := addBr st (if r == 0 then "opt-round-on-boundary" else if 2 * r == o.round then "opt-round-halfway-up"
                              else if 2 * r < o.round then "opt-round-down" else "opt-round-up")
            if o.truncate > 0 && o.round > 0 then st := addBr st "opt-truncate-then-round"
            if f.parent.isSome && tin != p.pl.time then st := addBr st "opt-chained-from-gets-restamped-time"
            if o.star then st := addBr st (if p.pl.tags.isEmpty then "opt-groupby-star-no-tags"
                                           else if p.pl.tags.length ≥ 2 then "opt-groupby-star-2-tags" else "opt-groupby-star-1-tag")
            if !o.dims.isEmpty then
              st := addBr st "opt-groupby-names"
              if docTagNames o p.pl.tags != o.dims then st := addBr st "opt-groupby-names-resorted"
              if o.dims.eraseDups.length < o.dims.length then st := addBr st "opt-groupby-duplicate-name-once"
              if o.dims.any (fun n => !p.pl.tags.any (·.1 == n)) then st := addBr st "opt-groupby-listed-tag-absent-still-listed"
            if o.byName then st := addBr st "opt-groupby-measurement"
            -- a sibling (not on this node's chain) re-stamps the same point: this one must see the original
            let restamps (g : From) := g.opts.truncate > 0 || g.opts.round > 0 || g.opts.star || !g.opts.dims.isEmpty || g.opts.byName
            for j in [0:x.2.task.froms.length] do
              match x.2.task.froms[j]? with
              | some g =>
                if !onChain x.2.task.froms (i + 1) i j && sinkGets x.2.task j p && restamps g && !restamps f && f.parent.isNone then
                  st := addBr st "plain-sibling-of-restamping-from"
              | none => pure ()
        | none => pure ()
      for f in x.2.task.froms do
        let b := matchBranch f p
        st := addBr st b
        if b == "m-accept" || b == "m-where-pass" then st := { st with anyDelivered := true }
  return st

def noteOp (st : St) (op : Op) : St :=
  match op with
  | .start d =>
    if d.dbrps.isEmpty then addBr st "start-no-dbrps" else
    if st.model.isLive d.id then addBr st "start-live-refused" else
    let st := if (st.model.tasks d.id).isSome then addBr st "start-of-ended-execution" else st
    let st := addBr st (if st.everStarted.contains d.id then "start-again" else "start-first")
    let st := if d.keys.eraseDups.length < d.keys.length then addBr st "start-duplicate-keys" else st
    let st := if d.froms.any (·.name == "") && d.froms.any (·.name != "") then addBr st "start-exact+wild" else st
    let st := if d.dbrps.any (·.2 == "") then addBr st "start-empty-rp-declared" else st
    let st := if d.froms.any (·.parent.isSome) then addBr st "start-chained-from" else st
    let st := if st.running.length ≥ 1 && !st.hist.isEmpty then { st with otherOpBetween := true } else st
    st
  | .startfail d =>
    if d.dbrps.isEmpty then addBr st "start-no-dbrps" else
    if st.model.isLive d.id then addBr st "start-live-refused" else
    let st := addBr st "startfail"
    if d.keys.any (fun k => !(st.model.forks k).isEmpty) then addBr st "startfail-on-shared-key" else st
  | .stop id =>
    let st := if (st.running.filter (· != id)).length ≥ 1 && st.running.contains id then { st with otherOpBetween := true } else st
    addBr st (if st.running.contains id then "stop-running" else "stop-idle")
  | .delete id =>
    let st := if (st.running.filter (· != id)).length ≥ 1 && st.running.contains id then { st with otherOpBetween := true } else st
    addBr st (if st.running.contains id then "delete-running" else "delete-idle")
  | .drain => addBr st (if st.running.isEmpty then "drain-idle" else "drain-running")
  | .write db rp pts => noteWrite (if st.drained then addBr st "write-through-stream-after-drain" else st) db rp pts

def expectObs (st : St) (op : Op) : String :=
  match op with
  | .start d => if d.dbrps.isEmpty then "err:nodbrp" else if st.model.isLive d.id then "err:executing" else "ok"
  | .startfail d =>
    if d.dbrps.isEmpty then "err:nodbrp" else if st.model.isLive d.id then "err:executing" else "err:snapshot"
  | _ => if st.model.sentOnClosed then "panic" else "ok"

/-! ### second layer: loopback nodes. The harness quiesces before every start / stop / delete / drain, so the looped points of a
write are all forked before the next such operation — but in which order relative to the later points of the same call and to
each other is the scheduler's choice. The replay rebuilds ONE schedule from what the sinks recorded: it repeatedly picks an
enabled action (fork the next external point / the next outstanding point of a loopback node) whose deliveries are exactly what
the receiving sinks recorded next; actions that are both enabled and both fit commute (no sink receives both). Between two calls
of external writers the loopback nodes may lag (their points stay outstanding); at a quiescent point everything outstanding is
forked. When no action fits it takes the first (the final comparison then reports the difference). The history it builds is judged by the spec (`flat`). -/

def ltmOf (st : St) : LTM := { tm := st.model, done := st.done, closed := st.drained }

def cursorOf (st : St) (k : String × Nat) : Nat := ((st.cursors.find? (·.1 == k)).map (·.2)).getD 0

/-- what the sinks record when `q` is forked now: (sink, rendering of the recorded point) -/
def deliveries (s : TM) (q : Point) : List ((String × Nat) × String) :=
  let s' := forkPoint s q
  (s'.log.drop s.log.length).flatMap (fun ep =>
    (List.range ep.1.task.froms.length).filterMap (fun i =>
      (chainEmits ep.1.task.froms (i + 1) i ep.2).map (fun m => ((ep.1.task.id, i), renderRec (mkRec ep.2 m)))))

abbrev SinkObs := List ((String × Nat) × Array String)

def fits (obs : SinkObs) (st : St) (ds : List ((String × Nat) × String)) : Bool :=
  ds.all (fun d =>
    match obs.find? (·.1 == d.1) with
    | some o => o.2[cursorOf st d.1]? == some d.2
    | none => false)

def bump (st : St) (ds : List ((String × Nat) × String)) : St :=
  ds.foldl (fun st d => { st with cursors := (d.1, cursorOf st d.1 + 1) :: st.cursors.filter (·.1 != d.1) }) st

def applyL (st : St) (lop : LOp) : St :=
  let l' := lstep (ltmOf st) lop
  { st with model := l'.tm, done := l'.done, lhist := lop :: st.lhist }

/-- One candidate action: the second-layer operation, the point it forks, the first-layer write it is (external points only). -/
structure Cand where
  lop : LOp
  q : Point
  note : Option Op := none
  isLoop : Bool := false
  isBatch : Bool := false

/-- Forks the pending external points (in their order) and everything the loopback nodes have outstanding, in a schedule that
explains the sinks. -/
def schedule (obs : SinkObs) (st : St) (pend : List Cand) (drainAll : Bool := false) : St := Id.run do
  let mut st := st
  let mut pend := pend
  for _ in [0:200000] do
    let outs : List Cand := st.sources.filterMap (fun src =>
      ((ltmOf st).outstanding src).head?.map (fun q => { lop := .loop src.1 src.2.1 src.2.2 1, q := q, isLoop := true }))
    let bcand : List Cand := (st.bpend.head?.map (fun x => ({ lop := x.1, q := x.2, isBatch := true } : Cand))).toList
    let cands := pend.head?.toList ++ bcand ++ outs
    if cands.isEmpty then break
    -- a loopback write after Drain is refused (nothing is forked); so is the write of a batch task's node
    let dsOf (c : Cand) : List ((String × Nat) × String) :=
      match c.lop with
      | .ext _ => deliveries st.model c.q
      | _ => if st.drained then [] else deliveries st.model c.q
    -- (between two calls of external writers the loopback nodes may lag: their points are only forced out at a quiescent point)
    let some pick := (match cands.find? (fun c => fits obs st (dsOf c)) with
      | some c => some c
      | none => if !pend.isEmpty || drainAll then cands.head? else none) | break
    let ds := dsOf pick
    if pick.isLoop then
      st := addBr st (if st.drained then "loop-write-after-drain-refused-and-dropped"
                      else if ds.isEmpty then "loop-write-reaches-no-sink" else "loop-write-delivered")
      if !pend.isEmpty then st := addBr st "loop-write-forked-between-the-points-of-one-external-call"
      if !ds.isEmpty then st := { st with loopDelivered := true, anyDelivered := true }
      if !st.drained && pick.q.pl.tags.any (fun kv => kv.1 == "lb" && kv.2 == "2") then st := addBr st "loop-write-second-hop"
    else if pick.isBatch then
      st := { st with bpend := st.bpend.drop 1 }
      st := addBr st (if st.drained then "batch-loop-write-after-drain-refused" else if ds.isEmpty then "batch-loop-write-reaches-no-sink"
                      else "batch-loop-write-delivered")
      if !pend.isEmpty then st := addBr st "batch-loop-write-forked-between-the-points-of-one-external-call"
      if !ds.isEmpty then st := { st with loopDelivered := true, anyDelivered := true }
    else
      pend := pend.drop 1
    if let some op := pick.note then st := noteOp st op
    st := bump (applyL st pick.lop) ds
  return st

/-- static shape of the loopback nodes of a definition that is being started (coverage) -/
def noteLoops (st : St) (d : TaskDef) : St := Id.run do
  let mut st := st
  for f in d.froms do
    if f.loops.length ≥ 2 then st := addBr st "two-loopback-nodes-under-one-from"
    for L in f.loops do
      st := addBr st (if L.name == "" then "loop-keeps-measurement" else "loop-sets-measurement")
      if L.tags.any (·.1 == "dc") then st := addBr st "loop-sets-a-tag-points-may-carry"
      if f.opts.truncate > 0 || f.opts.round > 0 then st := addBr st "loop-below-restamping-from"
      if f.opts.star || !f.opts.dims.isEmpty || f.opts.byName then st := addBr st "loop-below-grouping-from-dimensions-dropped"
      if f.parent.isSome then st := addBr st "loop-below-chained-from"
      if f.wh.isSome then st := addBr st "loop-below-where-from"
      if d.dbrps.any (fun x => x.1.startsWith "lo") then st := addBr st "loop-of-a-task-fed-by-a-loop"
  if d.dbrps.any (fun x => x.1.startsWith "lo") && d.dbrps.any (fun x => !x.1.startsWith "lo") then
    st := addBr st "task-declares-external-and-loop-target-pairs"
  return st

/-- UDP ingestion: `udp <db> <rp> <flow|held> <datagram>&<datagram>…` (a datagram = lines as in `hwrite`) is followed, for the replay, by
one synthetic `uwrite <db> <rp> <datagram>` per datagram: the history the spec is evaluated on has ONE write per well-formed
datagram, in arrival order (`Udp.udpHistory`), whatever the implementation did with its buffers. -/
def expandUdp (lines : Array String) : Array String :=
  (lines.toList.flatMap (fun l =>
    match (splitObs (tokens l)).1 with
    | ["udp", db, rp, _, pk] => l :: (pk.splitOn "&").map (fun p => s!"uwrite {db} {rp} {p} => ok")
    | _ => [l])).toArray

/-- the stop-while-writing hammer (harness/c02/hammer.go): `hammer <variant> <n> => <status> <flips> <written> <ranges>`.
The spec (Kap.C02.Lock.keeperSpec, and "the process survives") is evaluated on the observation; the model's answer
(theorems locked_never_sends_on_closed / locked_keeper_unaffected of Kap.Props.C02Lock: under the lock discipline the
keeper's deliveries are 0..written-1 under EVERY schedule) coincides with the spec, so there is no separate MISMATCH. -/
def judgeHammer (variant n : String) (obs : List String) : Verdict :=
  match obs with
  | [status, flips, written, rs] =>
    if !["fork", "forkall", "task"].contains variant || n.toNat?.isNone then .badop s!"ill-formed hammer op: {variant} {n}" else
    if status == "crash" then
      .specfail "no-send-on-closed-edge" s!"hammer {variant}: the process running the real TaskMaster DIED while a task subscribed to the written points was stopped concurrently with the writes (a goroutine of the real code panicked, e.g. forkPoint collected into an edge that delFork had closed: see the check's log); every running task loses its points"
    else if status == "hang" then
      .specfail "running-task-unaffected-by-stops-of-others" s!"hammer {variant}: writes / stops of other tasks never returned (30 s)"
    else if status != "ok" then .badop s!"harness error: the hammer child could not be run ({status})" else
    match written.toNat?, Lock.expandRanges rs with
    | some w, some keeper =>
      if !Lock.keeperSpec w keeper then
        .specfail "delivered-exactly-once-in-order" s!"hammer {variant}: the keeper task (never stopped) recorded {keeper.length} points for the {w} written ones, first deviation at position {Lock.firstDeviation keeper} ({rs}), while other tasks on the same points were started and stopped"
      else
        .ok (flips == "1" && w > 0) ([s!"hammer-{variant}"] ++ (if flips == "1" then ["hammer-stops-concurrent-with-writes"] else [])
                                    ++ (if some w == n.toNat? then [] else ["hammer-writer-cut-short"]))
    | _, _ => .badop s!"harness error: unreadable hammer observation {written} {rs}"
  | _ => .badop "harness error: hammer observation"

def judge (_id : String) (lines : Array String) : Verdict := Id.run do
  match lines.toList.map (fun l => splitObs (tokens l)) with
  | [(["hammer", variant, n], obs)] => return judgeHammer variant n obs
  | _ => pure ()
  let lines := expandUdp lines
  let some cap := edgeCap? | return .badop "the edge capacity was not recognised in the source (Kap/Gen/C02Cap.lean)"
  let mut st : St := {}
  -- what every sink recorded (needed to linearise concurrent writers)
  let sinkSeqs : List (List Nat) := lines.toList.filterMap (fun l =>
    let (opT, obs) := splitObs (tokens l)
    match opT with
    | ["final", _, _] => some (parseObsIds obs)
    | _ => none)
  -- a case with loopback nodes (of stream or batch tasks) anywhere: EVERY write is replayed point by point through `schedule`, so
  -- that the per-sink cursors count every recorded point from the first operation on (a write replayed before the first
  -- loopback node appeared used to leave them at 0: later looped points then never "fitted" and were all placed at the end)
  let loopCase : Bool := lines.toList.any (fun l =>
    match (splitObs (tokens l)).1 with
    | "bloop" :: _ => true
    | [v, _, _, froms] => (v == "start" || v == "startfail") && (froms.splitOn ",").any (fun f => (splitBar f).length == 7)
    | _ => false)
  -- ids of the stream tasks of the case (a batch task of a `bloop` must not reuse one: they share tm.tasks)
  let streamIds : List String := lines.toList.filterMap (fun l =>
    match (splitObs (tokens l)).1 with
    | [v, id, _, _] => if v == "start" || v == "startfail" then some id else none
    | _ => none)
  let sinkObs : SinkObs := lines.toList.filterMap (fun l =>
    let (opT, obs) := splitObs (tokens l)
    match opT with
    | ["final", T, i] => do pure (((← unesc T), (← i.toNat?)), ((parseObsPts obs).map (·.text)).toArray)
    | _ => none)
  for l in lines do
    let (opT, obs) := splitObs (tokens l)
    if obs == ["skip:cycle"] then continue     -- not executed by the harness (it would close a cycle of loopback nodes)
    -- HTTP request / concurrent writers ↦ the WritePoints history they amount to
    let mut opOver : Option Op := none
    match opT with
    | "hwrite" :: db :: rp :: prec :: ls :: rest =>
      let some db' := unesc db | return .badop l
      let some rp' := unesc rp | return .badop l
      let some ls := parseLines ls | return .badop l
      let flags := rest.headD "-"
      let enc := parseEnc flags
      let prec' := if prec == "-" then "" else prec
      let (status, mop) := serveWrite enc db' rp' prec' ls st.drained
      let want := if status == 204 then "ok" else s!"err:{status}"
      let p' := if prec' == "" then "n" else prec'
      let outOfRange := ls.any (fun x => match x with
        | .point _ ts => (safeCalcTime ts p').isNone
        | _ => false)
      st := addBr st (if enc == .gzipBadHeader then "http-rejected-not-gzip" else if enc == .gzipTruncated then "http-rejected-gzip-truncated"
                      else if ls.any (fun x => match x with | .bad => true | _ => false) then "http-rejected-malformed-line"
                      else if outOfRange then "http-rejected-time-out-of-range"
                      else if db' == "" then "http-rejected-no-db"
                      else if st.drained then "http-refused-after-drain-500"
                      else if rp' == "" then (if st.defaultRP == "" then "http-accepted-no-rp-no-default" else "http-accepted-no-rp-default-rp")
                      else "http-accepted")
      if status == 204 then
        if enc == .gzip then st := addBr st "http-gzip-body"
        st := addBr st s!"http-precision-{prec}"
        if (flags.splitOn ",").contains "cons" then st := addBr st "http-consistency-param-ignored"
        if ls.any (fun x => match x with | .skip => true | _ => false) then st := addBr st "http-comment-or-blank-line-skipped"
        if ls.any (fun x => match x with | .point _ ts => ts == 2562048 | _ => false) then st := addBr st "http-large-stamp-in-range-under-this-precision"
      if obs != [want] && st.hung.isNone then
        st := { st with hung := some s!"hwrite: model {want} observed {" ".intercalate obs}" }
      -- the history follows what the implementation ANSWERED: an accepted request wrote its (well-formed) points, a rejected one nothing
      if obs == ["ok"] then
        match mop with
        | some (.write d r pts) => if pts.isEmpty then continue else opOver := some (.write d r pts)
        | _ =>
          -- accepted although the model refuses: judge the sinks against the points of the well-formed lines
          let pts := ls.filterMap (fun x => match x with
            | .point r ts => some { r with pl := { r.pl with time := ts * precisionMult p' } }
            | _ => none)
          if pts.isEmpty then continue else opOver := some (.write db' rp' pts)
      else continue
    | ["cwrite", db, rp, ws] =>
      let some db' := unesc db | return .badop l
      let some rp' := unesc rp | return .badop l
      let some writers := (ws.splitOn "&").mapM parsePoints | return .badop l
      st := addBr st "concurrent-writers"
      if obs != ["ok"] then
        if st.hung.isNone then st := { st with hung := some s!"cwrite: model ok observed {" ".intercalate obs}" }
        continue
      match mergeOrder (writers.map (·.map (·.id))) sinkSeqs with
      | none =>
        return .specfail "concurrent-writers-one-order" s!"no single write order keeps every writer's order and explains all sinks: {ws}"
      | some order =>
        let all := writers.flatten
        let merged := order.filterMap (fun i => all.find? (·.id == i))
        if writers.length ≥ 2 && merged.map (·.id) != all.map (·.id) then st := addBr st "concurrent-writers-interleaved"
        opOver := some (.write db' rp' merged)
    | ["write", db, rp, pts] =>
      if st.http then
        -- `cfg … http`: every plain write of the case is one POST /write (precision absent, one line per point, time stamp in ns)
        let some db' := unesc db | return .badop l
        let some rp' := unesc rp | return .badop l
        let some pts := parsePoints pts | return .badop l
        let (status, _) := serveWrite .plain db' rp' "" (pts.map (fun r => Line.point r r.pl.time)) st.drained
        st := addBr st "write-through-http"
        if status != 204 then
          -- not accepted, nothing is written: after Drain the handler turns ErrTaskMasterClosed into a 500
          st := addBr st (if st.drained then "http-write-after-drain-refused-500" else "http-write-refused")
          if obs != [s!"err:{status}"] && st.hung.isNone then
            st := { st with hung := some s!"write through HTTP: model err:{status} observed {" ".intercalate obs}" }
          if obs != ["ok"] then continue
      else if st.drained then
        -- WritePoints after Drain: ErrTaskMasterClosed, nothing is written
        st := addBr st "write-after-drain-refused"
        if obs != ["err:closed"] && st.hung.isNone then
          st := { st with hung := some s!"write after drain: model err:closed observed {" ".intercalate obs}" }
        if obs != ["ok"] then continue
    | ["udp", db, rp, mode, pk] =>
      -- a real udp.Service (PointsWriter = the TaskMaster behind a gate) was sent these datagrams over loopback
      let some _ := unesc db | return .badop l
      let some rp' := unesc rp | return .badop l
      let some dgs := (pk.splitOn "&").mapM parseLines | return .badop l
      if mode != "held" && mode != "flow" then return .badop l
      let steps := if mode == "held" then Udp.heldSchedule dgs else Udp.flowSchedule dgs
      let m := Udp.run .copy steps
      if !m.quiet then return .badop s!"udp: the model's schedule does not end quiet: {l}"
      let doc := Udp.docCalls dgs
      let docBad := (dgs.filter (fun dg => (Udp.docPacket dg).isNone)).length
      st := addBr st (if mode == "held" then "udp-held" else "udp-flow")
      st := addBr st (if dgs.length ≥ 2 then "udp-several-datagrams" else "udp-single-datagram")
      if mode == "held" then
        -- a later datagram is read (into the receive buffer) while the WritePoints call of an earlier, well-formed one is pending
        let rec laterWhilePending : List (List Line) → Bool
          | [] => false
          | dg :: rest => ((Udp.docPacket dg).isSome && !rest.isEmpty) || laterWhilePending rest
        if laterWhilePending dgs then st := addBr st "udp-held-later-datagram-read-while-write-pending"
        let twoB : Bool := match dgs with
          | a :: b :: _ => (Udp.docPacket a).any (!·.isEmpty) && (Udp.docPacket b).any (!·.isEmpty)
          | _ => false
        if twoB then
          st := addBr st "udp-held-two-packets-with-points-back-to-back"
      if docBad > 0 then st := addBr st "udp-datagram-with-failing-line-dropped-whole"
      if dgs.any (fun dg => dg.any (fun x => match x with | .point _ ts => Udp.lineFails (.point default ts) | _ => false)) then
        st := addBr st "udp-time-stamp-out-of-range-fails"
      if dgs.any (fun dg => (Udp.docPacket dg).isSome && dg.any (fun x => match x with | .skip => true | _ => false)) then
        st := addBr st "udp-comment-or-blank-line-skipped"
      if doc.any (·.isEmpty) then st := addBr st "udp-datagram-without-points"
      if rp' == "" then st := addBr st (if st.defaultRP == "" then "udp-no-rp-no-default" else "udp-no-rp-default-rp")
      if st.drained then st := addBr st "udp-after-drain-refused"
      if m.calls != doc then return .mismatch s!"udp: the model hands on {m.calls.map (·.map (·.id))}, documented {doc.map (·.map (·.id))}"
      let wantCalls := renderList (m.calls.map (fun c => toString c.length ++ (if st.drained then "e" else "")))
      match obs with
      | [status, pf, calls] =>
        if status != "ok" then
          return .mismatch s!"udp: the harness could not complete the operation ({status} {pf} {calls}): datagrams not read or not processed in time"
        -- what a datagram with a failing line writes is not the property's business: the history follows what the implementation
        -- REPORTED; when it does not drop exactly as many datagrams as documented, which packets it wrote cannot be told
        if pf != s!"pf={docBad}" then
          return .mismatch s!"udp: {docBad} datagram(s) have a failing line, the service reports {pf}"
        if pf != s!"pf={m.parseFail}" || calls != s!"calls={wantCalls}" then
          if st.hung.isNone then st := { st with hung := some s!"udp: model pf={m.parseFail} calls={wantCalls} observed {pf} {calls}" }
      | _ => return .badop l
      continue
    | ["uwrite", db, rp, pk] =>
      let some db' := unesc db | return .badop l
      let some rp' := unesc rp | return .badop l
      let some dg := parseLines pk | return .badop l
      if st.drained then continue     -- WritePoints answers ErrTaskMasterClosed: nothing is written
      match Udp.docPacket dg with
      | none => continue              -- dropped whole
      | some pts => if pts.isEmpty then continue else opOver := some (.write db' rp' pts)
    | ["bloop", id, loop, bname, pts] =>
      let some id' := unesc id | return .badop l
      let some L := parseLoop loop | return .badop l
      let some bname' := unesc bname | return .badop l
      let some pts := parsePoints pts | return .badop l
      -- well-formedness (also of shrunk cases): a valid loopback node, not into the batch task's own pair, an id no stream task uses
      if !L.valid || bname' == "" || (L.db == "bd" && L.rp == "autogen") || streamIds.contains id then
        return .badop s!"ill-formed bloop (invalid loopback node, or the id of a stream task): {l}"
      if obs != ["ok"] && st.hung.isNone then st := { st with hung := some s!"bloop: model ok observed {" ".intercalate obs}" }
      if L.name != "" then st := addBr st "batch-loop-with-measurement-property"
      st := { st with bpend := st.bpend ++ pts.map (fun r => (.batch id' L bname' [r], L.batchPoint bname' r)) }
      st := schedule sinkObs st []
      continue
    | ["race", "hammer"] =>
      -- race child: how many of the background writer's points were routed to tasks of the case (recorded by their sinks)
      if obs != ["0"] then st := addBr st "race-hammer-points-routed-to-tasks-being-stopped"
      continue
    | ["race", "check", _] =>
      if obs != ["0"] then
        if (obs.headD "").startsWith "err" then
          return .specfail "no-data-race" s!"the race-detector child did not survive ({" ".intercalate obs}): a goroutine of the real code panicked (e.g. send on a closed edge, concurrent map access) or it could not be built/run - see the check's log"
        return .specfail "no-data-race" s!"the Go race detector reported {" ".intercalate obs} data race(s) in the routing path"
      st := addBr st "race-detector-clean"
      continue
    | _ => pure ()
    match opT with
    | "cfg" :: rp :: mode =>
      let some rp := unesc rp | return .badop l
      if !st.hist.isEmpty then return .badop s!"cfg after operations: {l}"
      st := { st with defaultRP := rp, started := true, model := init rp, http := mode.headD "api" == "http" }
    | ["final", T, i] =>
      let some T := unesc T | return .badop l
      let some i := i.toNat? | return .badop l
      st := schedule sinkObs st [] true
      let ops := flat st.defaultRP st.lhist.reverse
      let sp := renderIds (specDelivered st.defaultRP T i ops)
      let m := renderIds (st.model.delivered T i)
      if sp != "-" then st := addBr st "delivered-nonempty"
      let obsPts := parseObsPts obs
      let obsIds := if obsPts.isEmpty then "-" else ",".intercalate (obsPts.map (·.id))
      if obsIds != sp then
        return .specfail "delivered-exactly-once-in-order" s!"task {esc T} from#{i}: spec {sp} observed {obsIds}"
      -- the recorded POINTS against the documented ones (spec clause from-options-exact), then against the model
      let spPts := (specDeliveredPts st.defaultRP T i ops).map renderRec
      match (obsPts.zip spPts).find? (fun z => z.1.text != z.2) with
      | some z =>
        return .specfail "from-options-exact" s!"task {esc T} from#{i}: point {z.1.id} differs in {diffPart z.1.text z.2}: documented {z.2} recorded {z.1.text}"
      | none => pure ()
      if obsIds != m then return .mismatch s!"task {esc T} from#{i}: model {m} observed {obsIds}"
      let mPts := (st.model.deliveredPts T i).map renderRec
      match (obsPts.zip mPts).find? (fun z => z.1.text != z.2) with
      | some z => return .mismatch s!"task {esc T} from#{i}: point {z.1.id} differs in {diffPart z.1.text z.2}: model {z.2} recorded {z.1.text}"
      | none => pure ()
      -- cross-check: the harness' own comparison with the written point must agree with the spec's verdict
      match obsPts.find? (fun o => !o.flags.isEmpty) with
      | some o => return .mismatch s!"task {esc T} from#{i}: the spec accepts point {o.id} but the harness' own comparison flags it ({"!".intercalate o.flags}): {o.text}"
      | none => pure ()
    | ["close"] =>
      if st.hung.isNone then st := { st with hung := some s!"TaskMaster.Close observed {" ".intercalate obs}" }
    | ["quiesce"] =>
      if let some h := st.hung then return .mismatch s!"implementation and model differ: {h}"
      if obs != ["0"] then return .mismatch s!"the harness timed out waiting for the pipeline: {" ".intercalate obs}"
    | _ =>
      match (match opOver with | some op => some op | none => parseOp opT) with
      | some op =>
        -- everything the loopback nodes still hold is forked first (the harness quiesces before every operation)
        match op with
        | .write .. => pure ()
        | _ => st := schedule sinkObs st [] true
        let selfLoop := match op with
          | .start d | .startfail d => !d.dbrps.isEmpty && !st.model.isLive d.id && d.selfLoop
          | _ => false
        if selfLoop then
          -- "loop detected": refused by NewExecutingTask, before newFork
          st := addBr st "start-self-loop-refused"
          if obs != ["err:loop"] && st.hung.isNone then
            st := { st with hung := some s!"{" ".intercalate (opT.take 2)}: model err:loop observed {" ".intercalate obs}" }
          st := { applyL st (.ext op) with hist := op :: st.hist }
          continue
        match op with
        | .write db rp pts =>
          if loopCase then
            -- loopback nodes exist: the points of the call are forked one by one, interleaved with what is written back
            if obs != ["ok"] && st.hung.isNone then
              st := { st with hung := some s!"{" ".intercalate (opT.take 2)}: model ok observed {" ".intercalate obs}" }
            if st.drained then st := addBr st "write-through-stream-after-drain"
            let rp' := if rp == "" then st.model.defaultRP else rp
            st := schedule sinkObs st (pts.map (fun r =>
              { lop := .ext (.write db rp [r]), q := mkPoint db rp' r, note := some (.write db rp [r]) }))
            st := { st with hist := op :: st.hist }
            continue
        | .start d =>
          if !d.dbrps.isEmpty && !st.model.isLive d.id then
            st := noteLoops st d
            let srcs : List Src := (List.range d.froms.length).flatMap (fun i =>
              (List.range ((d.froms[i]?.map (·.loops.length)).getD 0)).map (fun k => (d.id, i, k)))
            st := { st with sources := st.sources ++ srcs.filter (fun x => !st.sources.contains x) }
        | _ => pure ()
        st := { st with lhist := .ext op :: st.lhist }
        st := noteOp st op
        -- the bounded model with the capacity read from the source (theorem bounded_edges_never_block: = `step`, never blocked)
        let b' := stepB cap { tm := st.model } op
        let model' := b'.tm
        let want := if b'.blocked then "hang" else match op with
          | .start _ | .startfail _ => expectObs st op            -- decided on the state before the call
          | _ => expectObs { st with model := model' } op
        if obs == [want] then pure ()
        else if obs == ["hang"] then
          -- the call never returned: keep judging what the sinks recorded (a loss is a SPECFAIL), report the hang otherwise
          if st.hung.isNone then st := { st with hung := some s!"{" ".intercalate (opT.take 2)} did not return" }
        else if obs != [want] then
          -- judged after the sinks (a violated spec has priority over a broken tie)
          if st.hung.isNone then st := { st with hung := some s!"{" ".intercalate (opT.take 2)}: model {want} observed {" ".intercalate obs}" }
        let running := match op with
          | .start d => if d.dbrps.isEmpty || st.model.isLive d.id then st.running else d.id :: st.running.filter (· != d.id)
          | .startfail _ => st.running
          | .drain => []
          | .stop id => st.running.filter (· != id)
          | .delete id => st.running.filter (· != id)
          | .write _ _ _ => st.running
        let ever := match op with
          | .start d => if d.dbrps.isEmpty || st.everStarted.contains d.id then st.everStarted else d.id :: st.everStarted
          | _ => st.everStarted
        let drained := match op with
          | .drain => true
          | _ => st.drained
        st := { st with model := model', hist := op :: st.hist, running := running, everStarted := ever, drained := drained }
      | none => return .badop l
  -- non-trivial: something was delivered AND (the two-key case occurred, or another task was started/stopped while one was running)
  if let some h := st.hung then return .mismatch s!"implementation and model differ: {h}"
  let nt := st.anyDelivered && (st.sawDedupe || (st.sawTwoRunning && st.otherOpBetween) || st.loopDelivered)
  return .ok nt st.branches.reverse

end Kap.C02.Drv

def main : IO Unit := Kap.driverMain Kap.C02.Drv.judge
