/-
Driver for C03: reads cases of op lines produced by the Go harness (which ran the REAL window code), and
for every case
  1. evaluates the property (Kap/Spec/C03.lean) on the OBSERVED batches  → SPECFAIL,
  2. replays the case on the model (Kap/Model/C03.lean) and compares batches, ring indexes and nextEmit
     with what the implementation did                                      → MISMATCH,
  3. reports which structural branches of the model the case went through  → `br=`.
Case kinds: `tw …` / `cw …` (one window receiver driven through the hook, observation per message) and
`task tw …` / `task cw …` (a real task with interleaved groups, observation = all batches per group; with
`… barrier <idle> <delete>` the task has a real `barrier()` node above the window and the messages that entered
the window — points, barriers, group deletions — are observed at a stream sink between the two nodes), and
`def <name>` (is a task definition with this window accepted?).
-/
import Kap.Spec.C03
open Kap Kap.C03

namespace Kap.C03.Drv

/-- observed output of one message -/
inductive Obs where
  | none
  | batch (b : Batch)
  | bad (what : String)     -- panic / err / malformed
deriving Repr, Inhabited

def lookupT (sent : List (Nat × Int)) (id : Nat) : Option Int :=
  (sent.find? (fun p => p.1 == id)).map (·.2)

/-- `<tmax>:<id>,<id>,…` or `<tmax>:-` -/
def parseBatch (sent : List (Nat × Int)) (tok : String) : Option Batch :=
  match tok.splitOn ":" with
  | [T, ids] => do
    let T ← T.toInt?
    if ids == "-" then pure { tmax := T, pts := [] } else
    let pts ← (ids.splitOn ",").mapM (fun s => do
      let id ← s.toNat?
      let t ← lookupT sent id
      pure ({ t := t, id := id } : Pt))
    pure { tmax := T, pts := pts }
  | _ => none

def parseObs (sent : List (Nat × Int)) (tok : String) : Obs :=
  if tok == "-" then .none
  else if tok == "panic" || tok == "err" then .bad tok
  else match parseBatch sent tok with
    | some b => .batch b
    | none => .bad s!"malformed:{tok}"

def renderBatch (b : Batch) : String :=
  s!"{b.tmax}:" ++ (if b.pts.isEmpty then "-" else ",".intercalate (b.pts.map (fun p => toString p.id)))

def renderOut : Option Batch → String
  | none => "-"
  | some b => renderBatch b

structure St where
  branches : List String := []
  nontrivial : Bool := false

def St.add (st : St) (b : String) : St :=
  if st.branches.contains b then st else { st with branches := b :: st.branches }

def St.addAll (st : St) (bs : List String) : St := bs.foldl St.add st

/-! ### branch tags (computed from the model state before a step) -/

def insertTags (b : Buf) : List String :=
  let g := if b.size == b.cap then
      [if b.size == 0 then "ins:grow-empty" else if b.stop > b.start then "ins:grow-lin" else "ins:grow-wrapped"]
    else []
  let b := if b.size == b.cap then b.growWith nilPt else b
  let wrap := b.window.length == b.cap && b.stop == b.window.length
  let wtag := if wrap then [if b.start == b.window.length then "ins:wrap-drained-start-at-len" else "ins:wrap"] else []
  let b := b.wrap
  g ++ wtag ++ [if b.stop == b.window.length then "ins:append" else
    (if b.size == 0 then "ins:overwrite-into-empty" else "ins:overwrite")]

def purgeTags (b : Buf) (oldest : Int) (incl : Bool) : List String :=
  let inc := includes oldest incl
  let l := b.window.length
  if l == 0 then ["pg:nil-window"] else
  let r := b.purge oldest incl
  let eff := if r.size == 0 then (if b.size == 0 then "already-empty" else "drain")
             else if r.size < b.size then "partial" else "keep-all"
  let br :=
    if b.start < b.stop then "pg:lin"
    else if b.size == 0 then "pg:empty-ring"
    else if inc (b.window.getD (l - 1) nilPt).t then (if b.start == b.stop then "pg:full-ring-tail-in" else "pg:wr-tail-in")
    else (if b.start == b.stop then "pg:full-ring-tail-out" else "pg:wr-tail-out")
  let atEnd := if r.size == 0 && r.start == l then ["pg:drained-start-at-len"] else []
  [br ++ "/" ++ eff] ++ atEnd

def pointsTags (b : Buf) : List String :=
  [if b.size == 0 then "pts:empty" else if b.stop > b.start then "pts:lin" else
    (if b.start == b.window.length then "pts:wrapped-start-at-len" else "pts:wrapped")]

def shapeTag (b : Buf) : String :=
  if b.size == 0 then "shape:empty"
  else if b.size == b.cap then (if b.start == 0 then "shape:full-lin" else "shape:full-wrapped")
  else if b.stop > b.start then "shape:lin" else "shape:wrapped"

def cfgTags (c : TCfg) : List String :=
  [if c.every == 0 then "cfg:every=0" else if c.every < c.period then "cfg:every<period"
    else if c.every == c.period then "cfg:every=period" else "cfg:every>period",
   match c.fill, c.align with
    | false, false => "init:plain" | false, true => "init:align"
    | true, false => "init:fill" | true, true => "init:fill-align"] ++
  (if c.align && c.every > 0 && (86400000000000 : Int) % c.every != 0 then ["trunc:non-day-dividing"] else [])

def stepTags (w : TW) (m : Msg) : List String :=
  let kind := match m with | .point _ => "pt" | .barrier _ => "bar"
  let e0 := w.cfg.every == 0
  let emit := !decide (m.t < w.nextEmit)
  let bnd := if m.t == w.nextEmit then ["sched:t=due"] else if m.t + 1 == w.nextEmit then ["sched:t=due-1"] else []
  let main := s!"{kind}:{if e0 then "e0" else "en"}-{if emit then "emit" else "hold"}"
  let bufBefore := match m with
    | .point p => if e0 then w.buf.insert p else w.buf
    | .barrier _ => w.buf
  let oldest := if e0 then m.t - w.cfg.period else w.nextEmit - w.cfg.period
  let pg := if emit then purgeTags bufBefore oldest (!e0) ++ pointsTags (bufBefore.purge oldest (!e0)) else []
  let edge := if emit && bufBefore.points.any (fun q => q.t == oldest) then ["content:point-on-left-edge"] else []
  let ins := match m with
    | .point _ =>
      if e0 then insertTags w.buf
      else insertTags (if emit then w.buf.purge oldest true else w.buf)
    | .barrier _ => []
  [main] ++ bnd ++ pg ++ edge ++ ins

/-! ### time windows through the hook -/

structure TLine where
  raw : String
  msg : Msg
  obs : Obs
  ring : List Int      -- start stop size len cap nextEmit (observed)

def parseMsgLine (sent : List (Nat × Int)) (l : String) : Option (TLine × List (Nat × Int)) :=
  let (opT, obsT) := splitObs (tokens l)
  let mk (m : Msg) (sent : List (Nat × Int)) : Option (TLine × List (Nat × Int)) :=
    match obsT with
    | [o] => some ({ raw := l, msg := m, obs := parseObs sent o, ring := [] }, sent)
    | o :: rest =>
      match rest.mapM String.toInt? with
      | some r => some ({ raw := l, msg := m, obs := parseObs sent o, ring := r }, sent)
      | none => none
    | [] => none
  match opT with
  | ["p", t, id] => do
    let t ← t.toInt?; let id ← id.toNat?
    mk (.point { t := t, id := id }) ((id, t) :: sent)
  | ["b", t] => do
    let t ← t.toInt?
    mk (.barrier t) sent
  | _ => none

def parseLines (lines : List String) : Option (List TLine) :=
  let rec go (sent : List (Nat × Int)) : List String → List TLine → Option (List TLine)
    | [], acc => some acc.reverse
    | l :: ls, acc =>
      match parseMsgLine sent l with
      | some (tl, sent') => go sent' ls (tl :: acc)
      | none => none
  go [] lines []

def hypTime (c : TCfg) (msgs : List Msg) : Bool :=
  decide (c.period > 0) && decide (c.every ≥ 0) && nondecreasing (msgs.map Msg.t)

def judgeTime (c : TCfg) (ls : List TLine) : Verdict := Id.run do
  let msgs := ls.map (·.msg)
  let hyp := hypTime c msgs
  let mut st : St := {}
  st := st.addAll (cfgTags c)
  if !hyp then st := st.add "hyp:out-of-order"
  -- 1. the property on the observed output
  if hyp then
    let mut tr : Trace := []
    for l in ls do
      match l.obs with
      | .bad w => return .specfail "no-panic" s!"step {tr.length} ({l.raw}): implementation answered {w}"
      | .none => tr := tr ++ [(l.msg, none)]
      | .batch b => tr := tr ++ [(l.msg, some b)]
    match traceViolation c tr with
    | some (k, cl) =>
      let (m, o) := tr.getD k (default, none)
      let t0 := (tr.head?.map (·.1.t)).getD 0
      let d := due c t0 (tr.take k)
      let T := if c.every = 0 then m.t else d
      let want := specContent c T (received ((tr.take k).map (·.1) ++ [m]))
      return .specfail cl s!"step {k}: due {d}, message time {m.t}, observed {renderOut o}, required content {renderBatch ⟨T, want⟩}"
    | none => pure ()
  -- 2. the model against the observed output and ring indexes
  let mut w? : Option TW := none
  let mut k := 0
  let mut emitted := 0
  let mut nonempty := false
  let mut dropped := false
  for l in ls do
    let w := match w? with | some w => w | none => TW.init c l.msg.t
    st := st.addAll (stepTags w l.msg)
    let (w', o) := w.step l.msg
    st := st.add (shapeTag w'.buf)
    if w'.buf.panicked then
      match l.obs with
      | .bad "panic" => return .ok st.nontrivial st.branches.reverse
      | _ => return .mismatch s!"step {k}: model panics, observed {l.raw}"
    let obsOut : Option (Option Batch) := match l.obs with | .none => some none | .batch b => some (some b) | .bad _ => none
    if obsOut != some o then
      return .mismatch s!"step {k} ({l.raw}): model emits {renderOut o}"
    let mring : List Int := [w'.buf.start, w'.buf.stop, w'.buf.size, w'.buf.window.length, w'.buf.cap, w'.nextEmit]
    if !l.ring.isEmpty && l.ring.take 6 != mring then
      return .mismatch s!"step {k} ({l.raw}): model ring/nextEmit {mring}"
    match o with
    | some b =>
      emitted := emitted + 1
      if !b.pts.isEmpty then nonempty := true
      if w'.buf.size < w.buf.size + 1 then dropped := true
    | none => pure ()
    w? := some w'
    k := k + 1
  return .ok (hyp && emitted ≥ 2 && nonempty && dropped) st.branches.reverse

/-! ### count windows through the hook -/

def cwTags (w : CW) : List String :=
  let full := w.size == w.period
  let w1 := (w.point ⟨0, 0⟩).1
  let emit := w.count + 1 == w.nextEmit
  [if full then "cw:full-advance" else "cw:filling", if emit then "cw:emit" else "cw:hold"] ++
  (if emit then [if w1.stop > w1.start then "cwpts:lin" else if w1.start == 0 then "cwpts:full-from-0" else "cwpts:wrapped"] else [])

def judgeCount (period every : Nat) (fill : Bool) (ls : List TLine) : Verdict := Id.run do
  let hyp := period ≥ 1 && every ≥ 1
  let mut st : St := {}
  st := st.add (if every < period then "cfg:cw-every<period" else if every == period then "cfg:cw-every=period" else "cfg:cw-every>period")
  st := st.add (if fill then "cfg:cw-fill" else "cfg:cw-nofill")
  if period == 1 then st := st.add "cfg:cw-period=1"
  -- 1. the property on the observed output
  if hyp then
    let mut tr : List (Pt × Option Batch) := []
    for l in ls do
      match l.msg, l.obs with
      | _, .bad w => return .specfail "no-panic" s!"({l.raw}): implementation answered {w}"
      | .point p, .none => tr := tr ++ [(p, none)]
      | .point p, .batch b => tr := tr ++ [(p, some b)]
      | .barrier _, .none => pure ()
      | .barrier _, .batch _ => return .specfail "count-early-emit" s!"({l.raw}): a barrier emitted a batch"
    match countViolationFrom period every fill [] tr with
    | some (k, cl) =>
      let want := specCountOut period every fill ((tr.take (k + 1)).map (·.1))
      return .specfail cl s!"after point {k + 1}: observed {renderOut ((tr.getD k (default, none)).2)}, required {renderOut want}"
    | none => pure ()
  -- 2. the model
  let mut w := CW.init period every fill
  let mut k := 0
  let mut nt := false
  for l in ls do
    match l.msg with
    | .barrier _ =>
      st := st.add "cw:barrier-forwarded"
      match l.obs with
      | .none => pure ()
      | _ => return .mismatch s!"step {k} ({l.raw}): model emits nothing on a barrier"
    | .point p =>
      st := st.addAll (cwTags w)
      let (w', o) := w.point p
      let obsOut : Option (Option Batch) := match l.obs with | .none => some none | .batch b => some (some b) | .bad _ => none
      if obsOut != some o then return .mismatch s!"step {k} ({l.raw}): model emits {renderOut o}"
      let mring : List Int := [w'.start, w'.stop, w'.size, w'.buf.length, w'.buf.length, w'.nextEmit, w'.count]
      if !l.ring.isEmpty && l.ring != mring then return .mismatch s!"step {k} ({l.raw}): model ring {mring}"
      if o.isSome && w'.count > period then nt := true
      w := w'
    k := k + 1
  return .ok (hyp && nt) st.branches.reverse

/-! ### real tasks with interleaved groups -/

/-- Align the batches a group's sink received with the messages of ONE incarnation of the group's window: the
property decides, from the trace so far, whether a message must emit. Returns the trace and the batches left
for later incarnations, or the violated schedule clause. -/
def alignTime (c : TCfg) (t0 : Int) : List Msg → List Batch → Trace → Except String (Trace × List Batch)
  | [], bs, tr => .ok (tr, bs)
  | m :: ms, bs, tr =>
    if m.t < due c t0 tr then alignTime c t0 ms bs (tr ++ [(m, none)])
    else match bs with
      | [] => .error s!"schedule-missed-emit {tr.length} message at {m.t} reached due time {due c t0 tr} but no batch was emitted"
      | b :: bs' => alignTime c t0 ms bs' (tr ++ [(m, some b)])

def alignCount (period every : Nat) (fill : Bool) : List Pt → List Batch → List Pt → List (Pt × Option Batch) → Except String (List (Pt × Option Batch) × List Batch)
  | [], bs, _, tr => .ok (tr, bs)
  | p :: ps, bs, pre, tr =>
    if countDue period every fill (pre.length + 1) then
      match bs with
      | [] => .error s!"count-missed-emit {tr.length} no batch after point {pre.length + 1}"
      | b :: bs' => alignCount period every fill ps bs' (pre ++ [p]) (tr ++ [(p, some b)])
    else alignCount period every fill ps bs (pre ++ [p]) (tr ++ [(p, none)])

inductive Win where
  | time (c : TCfg)
  | count (period every : Nat) (fill : Bool)

/-- what entered the window node for one group: messages and group deletions -/
inductive InMsg where
  | msg (m : Msg)
  | del

/-- split at deletions: each part is the history of one incarnation of the group's window -/
def incarnations (l : List InMsg) : List (List Msg) :=
  let rec go : List InMsg → List Msg → List (List Msg) → List (List Msg)
    | [], cur, acc => (cur.reverse :: acc).reverse
    | .msg m :: r, cur, acc => go r (m :: cur) acc
    | .del :: r, cur, acc => go r [] (cur.reverse :: acc)
  (go l [] []).filter (fun x => !x.isEmpty)

def parseIn (sent : List (Nat × Int)) (toks : List String) : Option (List InMsg) :=
  if toks == ["none"] then some [] else
  toks.mapM (fun tok =>
    if tok == "d" then some InMsg.del else
    match tok.splitOn ":" with
    | ["p", id] => do
      let id ← id.toNat?
      let t ← lookupT sent id
      pure (InMsg.msg (.point ⟨t, id⟩))
    | ["b", t] => do
      let t ← t.toInt?
      pure (InMsg.msg (.barrier t))
    | _ => none)

def judgeTask (win : Win) (viaBarrier : Bool) (lines : List String) : Verdict := Id.run do
  -- parse
  let mut sent : List (Nat × Int) := []
  let mut byGroup : List (String × List Pt) := []
  let mut finals : List (String × List String) := []
  let mut ins : List (String × List String) := []
  for l in lines do
    let (opT, obsT) := splitObs (tokens l)
    match opT with
    | ["w", g, t, id] =>
      let some g := unesc g | return .badop l
      let some t := t.toInt? | return .badop l
      let some id := id.toNat? | return .badop l
      sent := (id, t) :: sent
      byGroup := if byGroup.any (·.1 == g) then byGroup.map (fun p => if p.1 == g then (g, p.2 ++ [⟨t, id⟩]) else p)
                 else byGroup ++ [(g, [⟨t, id⟩])]
    | ["final", g] =>
      let some g := unesc g | return .badop l
      finals := finals ++ [(g, obsT)]
    | ["in", g] =>
      let some g := unesc g | return .badop l
      ins := ins ++ [(g, obsT)]
    | ["idle"] => pure ()
    | _ => return .badop l
  let mut st : St := {}
  st := st.add "task"
  if byGroup.length ≥ 2 then st := st.add "task:interleaved-groups"
  if byGroup.length ≥ 6 then st := st.add "task:many-groups"
  let mut nt := false
  for (g, obsT) in finals do
    let pts := (byGroup.find? (·.1 == g)).map (·.2) |>.getD []
    let obsBatches : Option (List Batch) :=
      if obsT == ["none"] then some [] else obsT.mapM (parseBatch sent)
    -- the histories of the group's window incarnations: from the sink directly above the window when the task
    -- has a barrier node (barriers and group deletions are produced by the real node), else the points written
    let mut incs : List (List Msg) := [pts.map Msg.point]
    if viaBarrier then
      st := st.add "task:barrier-node"
      let some inT := (ins.find? (·.1 == g)).map (·.2) | return .badop s!"no `in` line for group {esc g}"
      let some inMsgs := parseIn sent inT | return .specfail "no-panic" s!"group {esc g}: sink above the window answered {inT}"
      -- sanity: the window only saw points that were written for this group
      for im in inMsgs do
        match im with
        | .msg (.point p) => if !pts.contains p then return .mismatch s!"group {esc g}: point {p.id} reached the window but was not written for the group"
        | .msg (.barrier _) => st := st.add "task:barrier-msg"
        | .del => st := st.add "task:delete-group"
      incs := incarnations inMsgs
      if incs.length ≥ 2 then st := st.add "task:group-recreated"
      if incs.any (fun i => match i.head? with | some (.barrier _) => true | _ => false) then
        st := st.add "task:window-created-by-barrier"
    incs := incs.filter (fun i => !i.isEmpty)
    match win with
    | .time c =>
      st := st.addAll (cfgTags c)
      let hyp := incs.all (fun msgs => hypTime c msgs)
      if !hyp then st := st.add "hyp:out-of-order"
      -- 1. property on observed
      if hyp then
        let some bs := obsBatches | return .specfail "no-panic" s!"group {esc g}: implementation answered {obsT}"
        let mut rest := bs
        let mut k := 0
        for msgs in incs do
          match msgs with
          | [] => pure ()
          | m0 :: _ =>
            match alignTime c m0.t msgs rest [] with
            | .error e => return .specfail ((e.splitOn " ").headD "schedule") s!"group {esc g} incarnation {k}: {e}"
            | .ok (tr, rest') =>
              rest := rest'
              match traceViolation c tr with
              | some (j, cl) => return .specfail cl s!"group {esc g} incarnation {k} step {j}: observed {renderOut ((tr.getD j (default, none)).2)}"
              | none => pure ()
          k := k + 1
        match rest with
        | b :: _ => return .specfail "schedule-extra-emit" s!"group {esc g}: batch {renderBatch b} has no triggering message"
        | [] => pure ()
      -- 2. model
      let mo := incs.flatMap (fun msgs => (runTime c msgs).filterMap id)
      if mo.length ≥ 2 && mo.any (fun b => !b.pts.isEmpty) then nt := true
      if incs.any (fun msgs => (msgs.zip (runTime c msgs)).any (fun x => match x with | (.barrier _, some _) => true | _ => false)) then
        st := st.add "task:barrier-emits"
      if obsBatches != some mo then
        return .mismatch s!"group {esc g}: model emits {" ".intercalate (mo.map renderBatch)} observed {obsT}"
    | .count period every fill =>
      let hyp := period ≥ 1 && every ≥ 1
      st := st.add "task:count"
      let incPts := incs.map (fun msgs => received msgs)
      if hyp then
        let some bs := obsBatches | return .specfail "no-panic" s!"group {esc g}: implementation answered {obsT}"
        let mut rest := bs
        for ps in incPts do
          match alignCount period every fill ps rest [] [] with
          | .error e => return .specfail ((e.splitOn " ").headD "count") s!"group {esc g}: {e}"
          | .ok (tr, rest') =>
            rest := rest'
            match countViolationFrom period every fill [] tr with
            | some (k, cl) => return .specfail cl s!"group {esc g} after point {k + 1}: observed {renderOut ((tr.getD k (default, none)).2)}"
            | none => pure ()
        match rest with
        | b :: _ => return .specfail "count-early-emit" s!"group {esc g}: batch {renderBatch b} has no triggering point"
        | [] => pure ()
      let mo := incPts.flatMap (fun ps => (runCount period every fill ps).filterMap id)
      if mo.length ≥ 1 && pts.length > period then nt := true
      if obsBatches != some mo then
        return .mismatch s!"group {esc g}: model emits {" ".intercalate (mo.map renderBatch)} observed {obsT}"
  return .ok nt st.branches.reverse

/-- `pipeline.WindowNode.validate` + `newWindowNode` + the edge types of the window node (wants a stream edge,
provides a batch edge): which task definitions are accepted. -/
def defAccepted (name : String) : Option Bool :=
  match name with
  | "stream-window" => some true
  | "stream-window-count" => some true
  | "batch-query-window" => some false        -- a window node cannot be attached to a batch edge
  | "window-after-window" => some false       -- … nor to the batch edge another window provides
  | "window-no-period" => some false          -- neither period nor periodCount
  | "window-period-and-count" => some false
  | "window-count-align" => some false
  | "window-count-no-every" => some false     -- everyCount must be > 0
  | "window-count-every-neg" => some false
  | "window-every-only" => some false         -- every without period
  | _ => none

def judgeDef (h : String) : Verdict :=
  let (opT, obsT) := splitObs (tokens h)
  match opT with
  | ["def", name] =>
    match defAccepted name with
    | none => .badop h
    | some acc =>
      let want := if acc then "accepted" else "rejected"
      if obsT == [want] then .ok false [s!"def:{name}"]
      else .mismatch s!"definition {name}: model says {want}, observed {obsT}"
  | _ => .badop h

def b01? (s : String) : Option Bool := if s == "1" then some true else if s == "0" then some false else none

def judge (_id : String) (lines : Array String) : Verdict :=
  match lines.toList with
  | [] => .badop "empty case"
  | h :: rest =>
    match tokens h with
    | ["tw", p, e, a, f] =>
      match p.toInt?, e.toInt?, b01? a, b01? f, parseLines rest with
      | some p, some e, some a, some f, some ls => judgeTime ⟨p, e, a, f⟩ ls
      | _, _, _, _, _ => .badop h
    | ["cw", p, e, f] =>
      match p.toNat?, e.toNat?, b01? f, parseLines rest with
      | some p, some e, some f, some ls => judgeCount p e f ls
      | _, _, _, _ => .badop h
    | ["task", "tw", p, e, a, f] =>
      match p.toInt?, e.toInt?, b01? a, b01? f with
      | some p, some e, some a, some f => judgeTask (.time ⟨p, e, a, f⟩) false rest
      | _, _, _, _ => .badop h
    | ["task", "tw", p, e, a, f, "barrier", _, _] =>
      match p.toInt?, e.toInt?, b01? a, b01? f with
      | some p, some e, some a, some f => judgeTask (.time ⟨p, e, a, f⟩) true rest
      | _, _, _, _ => .badop h
    | ["task", "cw", p, e, f] =>
      match p.toNat?, e.toNat?, b01? f with
      | some p, some e, some f => judgeTask (.count p e f) false rest
      | _, _, _ => .badop h
    | ["task", "cw", p, e, f, "barrier", _, _] =>
      match p.toNat?, e.toNat?, b01? f with
      | some p, some e, some f => judgeTask (.count p e f) true rest
      | _, _, _ => .badop h
    | "def" :: _ => judgeDef h
    | _ => .badop h

end Kap.C03.Drv

def main : IO Unit := Kap.driverMain Kap.C03.Drv.judge
