/-
Driver for C04: reads cases produced by the Go harness (which compiled the expression with the REAL
`stateful.NewExpression` and evaluated it over a history of scopes through `Eval`, `Type`+`EvalBool`, direct
`EvalX`, on the expression and on `CopyReset` copies), replays every case on the model (`World.step` / `World.copy`:
`evalC` with the copy's own `Funcs`, lambda-node states and copied node evaluators, everything else shared; float
operations = Lean `Float`, table/signatures = regenerated `Kap.C04.Gen`) and on the reference semantics
(`Kap.C04.expect`, one history per group), and judges
  * the property itself on the OBSERVED answer (SPECFAIL, checked first; no recorded deviation is left: the clause for
    `nested-lambda-state-shared` went with `fix:` 8ed14ac), and
  * observed = model (MISMATCH).
Regex matching (`=~` `!~`): patterns of the DEFINED fragment (literal bytes and the text anchors, Model/C04Re.lean) are
answered by `Re.matchB` in model and reference; every other pattern by the `re` lines, which the harness computes with
`regexp.MatchString` itself (never through kapacitor). The `re` lines of fragment patterns are compared with the definition.
-/
import Kap.Spec.C04
import Kap.Model.C04Re
import Kap.Gen.C04
import Kap.Gen.C04Sigs
open Kap Kap.C04

namespace Kap.C04.Drv

/-- Go's `int64(f)` on amd64 (`CVTTSD2SI`): NaN and out-of-range give `MinInt64`. -/
def goToI64 (f : Float) : Int :=
  if f.isNaN || f ≥ 9223372036854775808.0 || f < -9223372036854775808.0 then -9223372036854775808
  else f.toInt64.toInt

def signBit (f : Float) : Bool := f.toBits >>> 63 == 1

/-- `math.Min`: −Inf wins, then NaN, then −0 before +0, else the smaller. -/
def goMin (x y : Float) : Float :=
  if x == -1.0 / 0.0 || y == -1.0 / 0.0 then -1.0 / 0.0
  else if x.isNaN || y.isNaN then 0.0 / 0.0
  else if x == 0.0 && x == y then (if signBit x then x else y)
  else if x < y then x else y

/-- `math.Max`: +Inf wins, then NaN, then +0 before −0, else the larger. -/
def goMax (x y : Float) : Float :=
  if x == 1.0 / 0.0 || y == 1.0 / 0.0 then 1.0 / 0.0
  else if x.isNaN || y.isNaN then 0.0 / 0.0
  else if x == 0.0 && x == y then (if signBit x then y else x)
  else if x > y then x else y

def floatOps : FOps Float where
  add := (· + ·)
  sub := (· - ·)
  mul := (· * ·)
  div := (· / ·)
  lt a b := decide (a < b)
  le a b := decide (a ≤ b)
  gt a b := decide (a > b)
  ge a b := decide (a ≥ b)
  eq a b := a == b
  ne a b := a != b
  ofInt i := (Int64.ofInt i).toFloat
  toI64 := goToI64
  abs := Float.abs
  min := goMin
  max := goMax
  sqrt := Float.sqrt
  posInf := 1.0 / 0.0
  negInf := -1.0 / 0.0

abbrev V := Value Float
abbrev E := Expr Float

def hexNat (s : String) : Option Nat :=
  s.toList.foldlM (fun acc c => (hexVal c).map (fun d => acc * 16 + d)) 0

def hex16 (n : Nat) : String :=
  String.ofList ((List.range 16).map (fun i => hexDigit ((n / 16 ^ (15 - i)) % 16))) |>.toLower

def splitFirst (s : String) (c : Char) : String × String :=
  match s.splitOn (String.singleton c) with
  | [] => ("", "")
  | a :: rest => (a, (String.singleton c).intercalate rest)

def parseVal (tok : String) : Option V :=
  if tok == "m" then some .missing else
  let (k, body) := splitFirst tok ':'
  match k with
  | "b" => some (.bool (body == "1"))
  | "i" => body.toInt?.map .int
  | "d" => body.toInt?.map .dur
  | "t" => body.toInt?.map .time
  | "f" => (hexNat body).map (fun n => .float (Float.ofBits (UInt64.ofNat n)))
  | "s" => (unescRaw body).map .str
  | "r" => (unescRaw body).map .regex
  | _ => none

/-- bytes → token (same alphabet as `kit.Esc`). -/
def escB (s : Bytes) : String := if s.isEmpty then "%" else s.foldl (fun acc b => acc ++ escByte b) ""

def renderVal : V → String
  | .bool b => s!"b:{boolTok b}"
  | .int i => s!"i:{i}"
  | .dur d => s!"d:{d}"
  | .time t => s!"t:{t}"
  | .float f => if f.isNaN then "f:nan" else s!"f:{hex16 f.toBits.toNat}"
  | .str s => s!"s:{escB s}"
  | .regex p => s!"r:{escB p}"
  | .missing => "m"

/-- canonical form of an observed value token (all NaNs are one value). -/
def canonObs (tok : String) : String :=
  match parseVal tok with
  | some v => renderVal v
  | none => tok

def parseBOp : String → Option BOp
  | "and" => some .and | "or" => some .or | "eq" => some .eq | "ne" => some .ne | "lt" => some .lt
  | "le" => some .le | "gt" => some .gt | "ge" => some .ge | "reEq" => some .reEq | "reNe" => some .reNe
  | "plus" => some .plus | "minus" => some .minus | "mult" => some .mult | "div" => some .div | "mod" => some .mod
  | _ => none

def tyName : Ty → String
  | .invalid => "invalid" | .float => "float" | .int => "int" | .string => "string" | .bool => "bool"
  | .regex => "regex" | .time => "time" | .duration => "duration" | .missing => "missing"

partial def parseExpr : List String → Option (E × List String)
  | "L" :: v :: rest => (parseVal v).map (fun x => (.lit x, rest))
  | "R" :: n :: rest => (unesc n).map (fun x => (.ref x, rest))
  | "U" :: op :: rest => do
    let o ← (match op with | "not" => some UOp.not | "neg" => some UOp.neg | _ => none)
    let (e, rest) ← parseExpr rest
    pure (.un o e, rest)
  | "B" :: op :: rest => do
    let o ← parseBOp op
    let (l, rest) ← parseExpr rest
    let (r, rest) ← parseExpr rest
    pure (.bin o l r, rest)
  | "LAM" :: rest => do
    let (e, rest) ← parseExpr rest
    pure (.lam 0 e, rest)       -- numbered afterwards (`numberLams`)
  | "FM" :: fn :: rest => some (.callMany fn, rest)
  | "F" :: fn :: "0" :: rest => some (.call0 fn, rest)
  | "F" :: fn :: "1" :: rest => do
    let (a, rest) ← parseExpr rest
    pure (.call1 fn a, rest)
  | "F" :: fn :: "2" :: rest => do
    let (a, rest) ← parseExpr rest
    let (b, rest) ← parseExpr rest
    pure (.call2 fn a b, rest)
  | "F" :: fn :: "3" :: rest => do
    let (a, rest) ← parseExpr rest
    let (b, rest) ← parseExpr rest
    let (c, rest) ← parseExpr rest
    pure (.call3 fn a b c, rest)
  | "F" :: fn :: "4" :: rest => do
    let (a, rest) ← parseExpr rest
    let (b, rest) ← parseExpr rest
    let (c, rest) ← parseExpr rest
    let (d, rest) ← parseExpr rest
    pure (.call4 fn a b c d, rest)
  | _ => none

/-- give the lambda nodes pairwise different ids (preorder): one `ExecutionState` per node. -/
def numberLams : E → Nat → E × Nat
  | .un op e, n => let (e', n') := numberLams e n; (.un op e', n')
  | .bin op l r, n =>
    let (l', n1) := numberLams l n
    let (r', n2) := numberLams r n1
    (.bin op l' r', n2)
  | .call1 fn a, n => let (a', n') := numberLams a n; (.call1 fn a', n')
  | .call2 fn a b, n =>
    let (a', n1) := numberLams a n
    let (b', n2) := numberLams b n1
    (.call2 fn a' b', n2)
  | .call3 fn a b c, n =>
    let (a', n1) := numberLams a n
    let (b', n2) := numberLams b n1
    let (c', n3) := numberLams c n2
    (.call3 fn a' b' c', n3)
  | .call4 fn a b c d, n =>
    let (a', n1) := numberLams a n
    let (b', n2) := numberLams b n1
    let (c', n3) := numberLams c n2
    let (d', n4) := numberLams d n3
    (.call4 fn a' b' c' d', n4)
  | .lam _ e, n => let (e', n') := numberLams e (n + 1); (.lam n e', n')
  | e, n => (e, n)

def parseScope : List String → Option (Scope Float)
  | [] => some []
  | n :: v :: rest => do
    let n ← unesc n
    let v ← parseVal v
    let r ← parseScope rest
    pure ((n, v) :: r)
  | _ => none

/-- `<time> (F <name> <val> | T <name> <s:string>)*` -/
def parsePoint : List String → Option (Point Float)
  | t :: rest => do
    let tm ← t.toInt?
    let rec go : List String → Point Float → Option (Point Float)
      | [], p => some p
      | "F" :: n :: v :: more, p => do
        let n ← unesc n
        let v ← parseVal v
        go more { p with fields := p.fields ++ [(n, v)] }
      | "T" :: n :: v :: more, p => do
        let n ← unesc n
        let v ← unescRaw v
        go more { p with tags := p.tags ++ [(n, v)] }
      | _, _ => none
    go rest { time := tm, fields := [], tags := [] }
  | [] => none

/-- oracle tables of one case -/
structure Ora where
  calls : List (String × List String × ORes Float) := []   -- fn, rendered args, result
  res : List (Bytes × Bytes × Bool) := []

/-- regex matching: patterns of the defined fragment (literal bytes and text anchors, `Re.native`) are answered by the
definition - for ANY subject, computed operands included -, every other pattern by the library's answer in the case's
`re` table. (Each `re` line of a fragment pattern is also compared with the definition, see `judge`.) -/
def reMatchOf (o : Ora) (p s : Bytes) : Option Bool :=
  match Re.native p s with
  | some b => some b
  | none => (o.res.find? (fun x => x.1 == p && x.2.1 == s)).map (·.2.2)

def mkCtx (o : Ora) : Ctx Float :=
  { ops := floatOps, tbl := Gen.table, sigs := Gen.sigs,
    reMatch := reMatchOf o,
    call := fun fn args =>
      let key := args.map renderVal
      (o.calls.find? (fun x => x.1 == fn && x.2.1 == key)).map (·.2.2) }

/-- the value of a leaf operand (literal, bound reference, a lambda around one). -/
def leafVal (σ : Scope Float) : E → Option V
  | .lit v => some v
  | .ref n => σ.get n
  | .lam _ e => leafVal σ e
  | _ => none

/-- structural cases of one `=~` / `!~` evaluation: is the pattern in the defined fragment, how is it anchored, how does
the subject relate to the literal, and - the case that separates an anchored literal from a substring search - do the
anchors DECIDE the answer (the subject contains the literal, yet the pattern does not match). -/
def reBr (ctx : Ctx Float) (σ : Scope Float) (l r : E) : List String :=
  match leafVal σ l, leafVal σ r with
  | some (.str s), some (.regex p) =>
    match Re.atoms p with
    | none =>
      ["re-oracle-pattern"] ++
      (match ctx.reMatch p s with | some true => ["re-match"] | some false => ["re-nomatch"] | none => ["re-no-oracle-entry"])
    | some as =>
      ["re-defined-fragment", if Re.matchB as s then "re-match" else "re-nomatch"] ++
      (match Re.shape as with
       | some (st, w, en) =>
         [if st && en then "re-anchored-both" else if st then "re-anchored-start" else if en then "re-anchored-end" else "re-unanchored"] ++
         (if w.isEmpty then ["re-empty-literal"] else []) ++
         (if s == w then ["re-subject-is-literal"] else if Lib.contains s w then ["re-subject-contains-literal"] else ["re-subject-without-literal"]) ++
         (if Re.matchB as s != Lib.contains s w then
            [if st && en then "re-both-anchors-decide" else if st then "re-start-anchor-decides" else "re-end-anchor-decides"] else [])
       | none => ["re-anchor-inside"])
  | _, _ => ["re-operand-not-a-string-value"]

/-- model branches visible at one evaluation (node-local conditions on the actual operand types). -/
partial def brOf (ctx : Ctx Float) (σ : Scope Float) : E → Cache → List String
  | .lit _, _ => []
  | .ref n, _ => (match σ.get n with | none => ["ref-undefined"] | some .missing => ["ref-missing"] | _ => [])
  | .un op e, c =>
    (match op, typeP ctx σ e with
     | .neg, some .bool => ["neg-bool-err"]
     | .neg, some .int => ["neg-int"] | .neg, some .float => ["neg-float"] | .neg, some .duration => ["neg-dur"]
     | .neg, _ => ["neg-other"]
     | .not, some .bool => ["not-bool"] | .not, _ => ["not-nonbool"]) ++ brOf ctx σ e c.k1
  | .bin op l r, c =>
    let dyn := isDyn ctx l || isDyn ctx r
    let here :=
      if dyn then
        match typeP ctx σ l, typeP ctx σ r with
        | some tl, some tr =>
          let flip := if (c.lt != .invalid || c.rt != .invalid) && (c.lt != tl || c.rt != tr) then ["dyn-typeflip"] else ["dyn-sametypes"]
          (match lookup ctx.tbl op tl tr with
           | some ent =>
             flip ++ (if ent.zeroGuard then ["entry-zeroguard"] else []) ++
               (match ent.shape with | .andSC => ["entry-and"] | .orSC => ["entry-or"] | _ => []) ++
               (if tl != tr then ["entry-mixed-types"] else [])
           | none => flip ++ ["dyn-lookup-nil"])
        | none, _ => ["dyn-left-type-err"]
        | _, none => ["dyn-right-type-err"]
      else ["const-node"]
    let re := if op == .reEq || op == .reNe then reBr ctx σ l r else []
    here ++ re ++ brOf ctx σ l c.k1 ++ brOf ctx σ r c.k2
  | .call0 fn, _ => [if stateful (F := Float) (.call0 fn) then "call-stateful" else "call0"]
  | .call1 fn a, c =>
    [if stateful (F := Float) (.call0 fn) then "call-stateful" else if fn == "isPresent" then "call-isPresent"
     else if (Lib.builtin floatOps fn [match typeP ctx σ a with | some .string => Value.str [] | some .int => .int 0 | some .bool => .bool true | some .duration => .dur 0 | _ => .float 0.0]).isSome then "call1-native" else "call1-oracle"] ++
      (if typeP ctx σ a == some .missing then ["arg-missing"] else []) ++ brOf ctx σ a c.k1
  | .call2 fn a b, c =>
    [if Lib.nativeFns.contains fn then "call2-native" else "call2-oracle"] ++
      (if ["strTrim", "strTrimLeft", "strTrimRight", "strContainsAny", "strIndexAny", "strLastIndexAny"].contains fn then
         -- rune-set functions: what kind of set (second argument, when it is a literal or a bound reference)
         let cut : Option Bytes := match b with
           | .lit (.str s) => some s
           | .ref n => (match σ.get n with | some (.str s) => some s | _ => none)
           | _ => none
         match cut with
         | some s =>
           ["runeset"] ++
           (if s.isEmpty then ["runeset-empty"] else []) ++
           (if (Lib.runes s).any (fun r => r.2 ≥ 2) then ["runeset-multibyte-member"] else []) ++
           (if (Lib.runes s).any (fun r => r.2 == 1 && r.1.length == 3) then ["runeset-invalid-byte-member"] else []) ++
           (if s.all (fun x => x < 0x80) && !s.isEmpty then ["runeset-ascii"] else [])
         | none => ["runeset-computed"]
       else []) ++ brOf ctx σ a c.k1 ++ brOf ctx σ b c.k2
  | .call3 fn a b d, c =>
    [if fn == "if" then "call-if" else if fn == "strSubstring" then "call-substr" else "call3"] ++
      brOf ctx σ a c.k1 ++ brOf ctx σ b c.k2 ++ brOf ctx σ d c.k3
  | .call4 _ a b d e, c =>
    ["call4"] ++ brOf ctx σ a c.k1 ++ brOf ctx σ b c.k2 ++ brOf ctx σ d c.k3a ++ brOf ctx σ e c.k3b
  | .callMany _, _ => ["call-too-many-args"]
  | .lam _ e, c =>
    ["lambda-node", if stateful e then "lambda-stateful-body" else "lambda-stateless-body"] ++
      (match e with | .lam _ _ => ["lambda-directly-in-lambda"] | _ => []) ++
      (match typeP ctx σ e with
       | some .time => ["lambda-time-refused"]
       | some .missing => ["lambda-missing"]
       | none => ["lambda-type-err"]
       | _ => []) ++ brOf ctx σ e c.k1

structure St where
  expr : Option E := none
  ora : Ora := {}
  compiled : Bool := false
  world : World Float :=
    { shared := .leaf, own := fun _ => .leaf, lams := fun _ _ => FnBase.init floatOps, groups := fun _ => FnBase.init floatOps }
  insts : List Nat := []           -- the copies that exist
  asked : List Nat := []           -- the copies that have been evaluated
  hists : List (Nat × Option (Hist Float)) := []
  branches : List String := []
  evals : Nat := 0
  okSeen : Bool := false
  flipSeen : Bool := false

def St.addBr (st : St) (bs : List String) : St :=
  { st with branches := bs.foldl (fun acc b => if acc.contains b then acc else b :: acc) st.branches }

def getI {α} (l : List (Nat × α)) (k : Nat) : Option α := (l.find? (fun p => p.1 == k)).map (·.2)
def setI {α} (l : List (Nat × α)) (k : Nat) (a : α) : List (Nat × α) := (k, a) :: l.filter (fun p => p.1 != k)

def renderOut : Outcome V → String
  | .ok v => s!"ok {renderVal v}"
  | .err => "err"
  | .trap => "panic"

def parseWant : String → Option Ty
  | "dInt" => some .int | "dFloat" => some .float | "dString" => some .string
  | "dBool" => some .bool | "dDuration" => some .duration
  | _ => none

/-- the property on one observed answer: `.ok branch` = holds, `.error (clause, detail)` = fails. -/
def specOn (l obsC : String) : Expect Float → Except (String × String) String
  | .exactly o =>
    if obsC != renderOut o then
      .error ((match o with | .ok _ => "value-is-reference-value" | _ => "fault-is-error"), s!"{l}: reference {renderOut o} observed {obsC}")
    else .ok (match o with | .ok _ => "spec-welltyped-value" | _ => "spec-welltyped-fault")
  | .errOr v =>
    if obsC != "err" && obsC != s!"ok {renderVal v}" then
      .error ("value-is-reference-value", s!"{l}: reference err-or {renderVal v} observed {obsC}")
    else .ok "spec-illtyped-unreached"
  | .mustErr =>
    if obsC != "err" then .error ("type-error-is-error", s!"{l}: reference err observed {obsC}") else .ok "spec-illtyped-err"

def judge (_id : String) (lines : Array String) : Verdict := Id.run do
  let mut st : St := {}
  for l in lines do
    let (opT, obs) := splitObs (tokens l)
    match opT with
    | "expr" :: rest =>
      match parseExpr rest with
      | some (e, []) => st := { st with expr := some (numberLams e 0).1 }
      | _ => return .badop l
    | ["re", p, s, b] =>
      let some p := unescRaw p | return .badop l
      let some s := unescRaw s | return .badop l
      -- the library's answer against the DEFINITION of the fragment (ties Model/C04Re.lean to regexp.MatchString)
      match Re.native p s with
      | some d =>
        if d != (b == "1") then
          return .mismatch s!"regex fragment: the definition answers {boolTok d}, the Go library {b}: {l}"
      | none => pure ()
      st := { st with ora := { st.ora with res := (p, s, b == "1") :: st.ora.res } }
    | "ora" :: fn :: rest =>
      -- ora <fn> <args…> <res>
      match rest.reverse with
      | res :: argsRev =>
        let args := argsRev.reverse
        let some avs := args.mapM parseVal | return .badop l
        let r : Option (ORes Float) := if res == "err" then some .err else (parseVal res).map .ok
        let some r := r | return .badop l
        st := { st with ora := { st.ora with calls := (fn, avs.map renderVal, r) :: st.ora.calls } }
      | [] => return .badop l
    | ["compile"] =>
      let some e := st.expr | return .badop l
      let ctx := mkCtx st.ora
      let m := if compileOk ctx e then "ok" else "err"
      if obs != [m] then return .mismatch s!"compile: model {m} observed {obs}"
      st := { st with compiled := m == "ok", world := World.init ctx e, insts := [0], hists := [(0, some {})] }
      st := st.addBr [if m == "ok" then "compile-ok" else "compile-err"]
    | ["inst", k] =>
      let some k := k.toNat? | return .badop l
      -- CopyReset: fresh functions and fresh lambda nodes for this copy (World.copy); the shared node evaluators stay
      let ctx := mkCtx st.ora
      st := { st with world := st.world.copy ctx k,
                      insts := if st.insts.contains k then st.insts else k :: st.insts, hists := setI st.hists k (some {}) }
      st := st.addBr ["copy-reset"]
    | "pt" :: k :: ptoks =>
      -- kapacitor.EvalPredicate against a point (fillScope + Type + EvalBool)
      let some e := st.expr | return .badop l
      if !st.compiled then return .badop s!"pt on an expression that did not compile: {l}"
      let some k := k.toNat? | return .badop l
      let some pt := parsePoint ptoks | return .badop l
      if !st.insts.contains k then return .badop s!"unknown instance {l}"
      let some hs := getI st.hists k | return .badop s!"unknown instance {l}"
      let ctx := mkCtx st.ora
      let obsC := match obs with
        | ["ok", v] => s!"ok {canonObs v}"
        | o => " ".intercalate o
      st := { st with evals := st.evals + 1, asked := if st.asked.contains k then st.asked else k :: st.asked }
      let refs := refsOf e
      let brs : List String :=
        ["path-point"] ++
        (if refs.any (fun n => (denote pt n).isNone) then ["pt-field-tag-collision"] else []) ++
        (if refs.contains "time" then ["pt-time"] else []) ++
        (if refs.any (fun n => n != "time" && (assoc pt.fields n).isNone && (assoc pt.tags n).isSome) then ["pt-tag"] else []) ++
        (if refs.any (fun n => n != "time" && (assoc pt.fields n).isNone && (assoc pt.tags n).isNone) then ["pt-missing"] else [])
      let brs := brs ++ (match fillScope refs pt with | some σ => brOf ctx σ e (st.world.cacheOf e k) | none => [])
      if brs.contains "dyn-typeflip" then st := { st with flipSeen := true }
      st := st.addBr brs
      if obsC == "panic" then return .specfail "no-trap" s!"{l}: EvalPredicate panicked"
      -- the model's answer: the copy's own functions and lambda-node states, its own and the shared node evaluators
      let w := st.world
      let (o, c', fs') := evalPoint ctx e pt (w.cacheOf e k) { toFnBase := w.groups k, lams := w.lams k }
      let w' : World Float :=
        { shared := c', own := fun j => if j = k then c' else w.own j,
          lams := fun j => if j = k then fs'.lams else w.lams j,
          groups := fun j => if j = k then fs'.toFnBase else w.groups j }
      let mut newH : Option (Hist Float) := none
      match hs with
      | some h =>
        let (ex, h') := expectPoint ctx e pt h
        newH := h'
        match specOn l obsC ex with
        | .ok tag => st := st.addBr [tag]
        | .error (cl, d) => return .specfail cl d
      | none => st := st.addBr ["spec-history-unfixed"]
      if obsC != renderOut o then return .mismatch s!"{l}: model {renderOut o} observed {obsC}"
      if obsC.startsWith "ok" then st := { st with okSeen := true }
      st := st.addBr [if obsC.startsWith "ok" then "out-ok" else "out-err"]
      st := { st with world := w', hists := setI st.hists k newH }
    | "ev" :: k :: path :: binds =>
      let some e := st.expr | return .badop l
      if !st.compiled then return .badop s!"ev on an expression that did not compile: {l}"
      let some k := k.toNat? | return .badop l
      let some σ := parseScope binds | return .badop l
      if !st.insts.contains k then return .badop s!"unknown instance {l}"
      let some hs := getI st.hists k | return .badop s!"unknown instance {l}"
      let ctx := mkCtx st.ora
      let obsC := match obs with
        | ["ok", v] => s!"ok {canonObs v}"
        | o => " ".intercalate o
      let brs := brOf ctx σ e (st.world.cacheOf e k)
      if brs.contains "dyn-typeflip" then st := { st with flipSeen := true }
      st := st.addBr (("path-" ++ path) :: brs)
      st := { st with evals := st.evals + 1 }
      if path == "type" then
        -- Type(scope)
        let m := match typeP ctx σ e with | some t => s!"ok {tyName t}" | none => "err"
        match typeRef ctx σ e with
        | some t => if obsC != s!"ok {tyName t}" then
            return .specfail "type-of-well-typed" s!"{l}: reference type {tyName t} observed {obsC}"
        | none => pure ()
        if obsC == "panic" then return .specfail "no-trap" s!"{l}: Type panicked"
        if obsC != m then return .mismatch s!"{l}: model {m} observed {obsC}"
        st := { st with world := (st.world.step ctx e k .type σ).2 }
      else
        st := { st with asked := if st.asked.contains k then st.asked else k :: st.asked }
        -- the property on the observed answer
        let want : Option Ty := if path == "eval" then none else if path == "pred" then some .bool else parseWant path
        if path != "eval" && want.isNone then return .badop l
        if obsC == "panic" then return .specfail "no-trap" s!"{l}: the evaluation panicked"
        -- the model's answer
        let p : Path := if path == "eval" then .eval else if path == "pred" then .pred else .direct (want.getD .bool)
        let (o, w') := st.world.step ctx e k p σ
        let mut newH : Option (Hist Float) := none
        match hs with
        | some h =>
          let (ex, h') := expect ctx σ e want h
          newH := h'
          match specOn l obsC ex with
          | .ok tag => st := st.addBr [tag]
          | .error (cl, d) => return .specfail cl d
        | none => st := st.addBr ["spec-history-unfixed"]
        -- the tie
        if obsC != renderOut o then return .mismatch s!"{l}: model {renderOut o} observed {obsC}"
        if obsC.startsWith "ok" then st := { st with okSeen := true }
        st := st.addBr [if obsC.startsWith "ok" then "out-ok" else "out-err"]
        st := { st with world := w', hists := setI st.hists k newH }
    | _ => return .badop l
  let nt := st.okSeen && st.evals ≥ 2 && (st.flipSeen || (match st.expr with | some e => stateful e | none => false))
  let brs := st.branches.reverse ++
    (match st.expr with
     | some e => if statefulLam e then [if st.asked.length ≥ 2 then "lambda-several-groups-agree" else "lambda-one-group"] else []
     | none => [])
  return .ok nt brs

end Kap.C04.Drv

def main : IO Unit := Kap.driverMain Kap.C04.Drv.judge
