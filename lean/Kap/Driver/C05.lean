/-
Driver for C05: reads the cases produced by the Go harness (which ran the REAL code in child processes),
and for every op line
  * evaluates the property (Kap/Spec/C05.lean) on the OBSERVED outcome            → SPECFAIL
  * compares the observed outcome with the model's prediction (Kap/Model/C05.lean,
    instantiated with the facts extracted from the source, Kap/Gen/C05.lean)      → MISMATCH
-/
import Kap.Spec.C05
import Kap.Gen.C05
import Kap.Model.C05Parse
import Kap.Model.C05Eval
import Kap.Model.C05Rr
import Kap.Model.C05Tags
open Kap Kap.C05

namespace Kap.C05.Drv

def parseCls (tok : String) : Option Cls :=
  if tok == "-" then some Cls.none else do
    let ents ← (tok.splitOn ",").mapM (fun e =>
      match e.splitOn ":" with
      | [h, k] => do
        let r ← h.toList.foldlM (fun acc ch => do let v ← hexVal ch; pure (acc * 16 + v)) 0
        pure (r, k)
      | _ => none)
    let look (k : String) (r : Nat) : Bool := ents.any (fun e => e.1 == r && e.2 == k)
    pure ⟨look "L", look "D", look "S"⟩

def parseTok (s : String) : Option Tok :=
  match s.splitOn ":" with
  | [t, p, l] => do
    let t ← t.toNat?; let p ← p.toInt?
    if l == "e" then pure ⟨t, p, none⟩ else do let l ← l.toInt?; pure ⟨t, p, some l⟩
  | _ => none

def parseLexObs (obs : List String) : Option LexObs :=
  match obs with
  | ["X", how] => some (.died how)
  | "T" :: rest =>
    match rest.reverse with
    | fin :: toksRev => do
      let ts ← toksRev.reverse.mapM parseTok
      if fin == "C" then pure (.toks ts true) else if fin == "O" then pure (.toks ts false) else none
    | [] => none
  | _ => none

def renderTok (t : Tok) : String :=
  match t.len with
  | some l => s!"{t.typ}:{t.pos}:{l}"
  | none => s!"{t.typ}:{t.pos}:e"

def stName : St → String
  | .token => "token" | .unary => "unary" | .binopSp => "binopSp" | .binopMain => "binopMain"
  | .regexOpSp => "regexOpSp" | .ident => "ident"
  | .number fd first => s!"number{boolTok fd}{boolTok first}"
  | .reference => "reference"
  | .strOuter _ => "strOuter"
  | .strInner _ t => s!"strInner{t}"
  | .regexStart => "regexStart" | .regexBody => "regexBody"
  | .commentStart => "commentStart" | .commentBody => "commentBody" | .commentNL => "commentNL"

/-- States visited by the model run (coverage only). -/
def visited (c : Ctx) : Nat → Lx → St → List String → List String
  | 0, _, _, acc => acc
  | k + 1, l, s, acc =>
    let acc := if acc.contains (stName s) then acc else stName s :: acc
    match step c l s with
    | .cont l' s' => if l'.trapped then acc else visited c k l' s' acc
    | .done _ => acc

/-! ### The parser model's literal oracles, as the Go library decides them -/

def isAsciiDigit (b : Nat) : Bool := 0x30 ≤ b && b ≤ 0x39
def natOfDigits (base : Nat) (bs : Bytes) : Nat := bs.foldl (fun a b => a * base + (b - 0x30)) 0
def maxInt64 : Nat := 9223372036854775807

/-- `newNumber`: a `.` → `strconv.ParseFloat`, a leading 0 → octal `ParseInt`, otherwise decimal `ParseInt`. -/
def numOk (t : Bytes) : Bool :=
  if t.contains 0x2E then (t.filter (· != 0x2E)).all isAsciiDigit && t.length < 300
  else if !(t.all isAsciiDigit) then false
  else if t.head? == some 0x30 && t.length > 1 then t.all (fun b => b < 0x38) && natOfDigits 8 t ≤ maxInt64
  else natOfDigits 10 t ≤ maxInt64

/-- `influxql.ParseDuration` on digits + one unit (what the scanner emits as a duration token). -/
def durOk (t : Bytes) : Bool :=
  let ds := t.takeWhile isAsciiDigit
  let n := natOfDigits 10 ds
  let mult : Option Nat := match t.drop ds.length with
    | [0x75] => some 1000 | [0xC2, 0xB5] => some 1000 | [0x6D, 0x73] => some 1000000
    | [0x73] => some 1000000000 | [0x6D] => some 60000000000 | [0x68] => some 3600000000000
    | [0x64] => some 86400000000000 | [0x77] => some 604800000000000 | _ => none
  if ds.isEmpty || n > maxInt64 then false
  else match mult with
    | none => false
    | some m => (n * m) % 18446744073709551616 < 9223372036854775808      -- `d < 0` after int64 wrap-around

def isAlnum (b : Nat) : Bool := isAsciiDigit b || (0x41 ≤ b && b ≤ 0x5A) || (0x61 ≤ b && b ≤ 0x7A)

/-- `regexp.Compile` decided for the fragment without repetition / class syntax: literals, `.`, `|`, `^`, `$`,
groups, `\` + punctuation, `\a`, `\1`; `none` = outside the fragment (the tie is then skipped). -/
def reDecide : Nat → Bytes → Option Bool
  | depth, [] => some (depth == 0)
  | depth, b :: rest =>
    if b == 0x2A || b == 0x2B || b == 0x3F || b == 0x7B || b == 0x5B then none
    else if b == 0x28 then reDecide (depth + 1) rest
    else if b == 0x29 then (if depth == 0 then some false else reDecide (depth - 1) rest)
    else if b == 0x5C then
      match rest with
      | [] => some false
      | x :: rest' =>
        if x ≥ 0x80 then some false
        else if !isAlnum x then reDecide depth rest'
        else if x == 0x61 then reDecide depth rest'
        else if x == 0x31 then
          match rest' with
          | y :: _ => if 0x30 ≤ y && y ≤ 0x37 then none else some false
          | [] => some false
        else none
    else if b ≥ 0x80 then
      let d := decodeRune (b :: rest)
      if d.1 == runeError && d.2 == 1 then none else reDecide depth (rest.drop (d.2 - 1))
    else reDecide depth rest
termination_by _ bs => bs.length
decreasing_by all_goals simp_wf <;> omega

/-- The model's verdict on `ast.Parse` (`lambda = false`) / `ast.ParseLambda`; `none` when it hinges on a
regex outside the decided fragment. -/
def modelParse (c : Ctx) (lambda : Bool) : Option POut :=
  let mkE (d : Bool) : PEnv := ⟨c, ⟨numOk, durOk, fun u => (reDecide 0 u).getD d⟩⟩
  let run (e : PEnv) := if lambda then parseLambda e (parseDepth e) else parseScript e (parseDepth e)
  let a := run (mkE true)
  let b := run (mkE false)
  if a == b then some a else none

/-- Compare with what the entry point answered (`ok` / `err`); `some msg` = the tie is broken. -/
def tieParse (c : Ctx) (lambda : Bool) (res : String) : Option String × String :=
  match modelParse c lambda with
  | none => (none, "parsetie.skipped-regex")
  | some .ok => (if res == "ok" then none else some s!"parser model ok, observed {res}", "parsetie.ok")
  | some .err => (if res == "err" then none else some s!"parser model err, observed {res}", "parsetie.err")
  | some .trap => (some s!"parser model TRAPS, observed {res}", "parsetie.trap")
  | some .fuel => (some s!"parser model out of depth, observed {res}", "parsetie.fuel")

/-! ### The evaluator model on the AST the real parser returned -/

section EvalTie
open Kap.C05.Ev

/-- must agree with `evalPredefined` in harness/c05/evalast.go -/
def evalPre : List PVar :=
  [⟨"pi", .int, none⟩, ⟨"ps", .str, none⟩, ⟨"pl", .list, some (true, 1)⟩, ⟨"pbad", .list, none⟩]

def ftOf : String → Option FT
  | "g" => some .global | "c" => some .chain | "p" => some .property | "d" => some .dynamic | _ => none

def litOf : String → Option VT
  | "Lb" => some .bool | "Li" => some .int | "Lf" => some .float | "Ld" => some .dur | "Ls" => some .str
  | "Lr" => some .regex | "L*" => some .star | _ => none

mutual
/-- The prefix form printed by `serAst` (fuel = number of tokens + 1). -/
def parseAst : Nat → List String → Option (Ast × List String)
  | 0, _ => none
  | _ + 1, [] => none
  | k + 1, t :: rest =>
    match litOf t with
    | some vt => some (.lit vt, rest)
    | none =>
      if t == "X" then some (.other, rest)
      else if t == "U" then
        match rest with
        | op :: rest => do let op ← op.toNat?; let (x, rest) ← parseAst k rest; pure (.unary op x, rest)
        | [] => none
      else if t == "O" then do
        let (l, rest) ← parseAst k rest; let (r, rest) ← parseAst k rest; pure (.binary l r, rest)
      else if t == "M" then do let (x, rest) ← parseAst k rest; pure (.lambda x, rest)
      else if t == "C" then do
        let (l, rest) ← parseAst k rest; let (r, rest) ← parseAst k rest; pure (.chain l r, rest)
      else if t == "[" then
        match rest with
        | n :: rest => do let n ← n.toNat?; let (xs, rest) ← parseAstL k n rest; pure (.list xs, rest)
        | [] => none
      else if t == "P" then
        match rest with
        | n :: rest => do let n ← n.toNat?; let (xs, rest) ← parseAstL k n rest; pure (.program xs, rest)
        | [] => none
      else if t == "T" then
        match rest with
        | a :: b :: rest => do let a ← unesc a; let b ← unesc b; pure (.typeDecl a b, rest)
        | _ => none
      else if t == "V" then
        match rest with
        | a :: rest => do let a ← unesc a; let (x, rest) ← parseAst k rest; pure (.decl a x, rest)
        | [] => none
      else if t == "I" then
        match rest with
        | a :: rest => do let a ← unesc a; pure (.ident a, rest)
        | [] => none
      else if t == "F" then
        match rest with
        | ft :: name :: n :: rest => do
          let ft ← ftOf ft; let name ← unesc name; let n ← n.toNat?
          let (xs, rest) ← parseAstL k n rest; pure (.func ft name xs, rest)
        | _ => none
      else none
def parseAstL : Nat → Nat → List String → Option (AstL × List String)
  | 0, _, _ => none
  | _ + 1, 0, rest => some (.nil, rest)
  | k + 1, n + 1, rest => do
    let (x, rest) ← parseAst k rest; let (xs, rest) ← parseAstL k n rest; pure (.cons x xs, rest)
end

mutual
def astKinds : Ast → List String → List String
  | .lit _, acc => "lit" :: acc
  | .unary _ x, acc => astKinds x ("unary" :: acc)
  | .binary _ _, acc => "binary" :: acc
  | .lambda _, acc => "lambda" :: acc
  | .list xs, acc => astKindsL xs ("list" :: acc)
  | .typeDecl _ _, acc => "typeDecl" :: acc
  | .decl _ r, acc => astKinds r ("decl" :: acc)
  | .chain l r, acc => astKinds r (astKinds l ("chain" :: acc))
  | .func ft _ xs, acc => astKindsL xs ((match ft with | .global => "func.global" | .chain => "func.chain" | .property => "func.property" | .dynamic => "func.dynamic") :: acc)
  | .program xs, acc => astKindsL xs acc
  | .ident _, acc => "ident" :: acc
  | .other, acc => "other" :: acc
def astKindsL : AstL → List String → List String
  | .nil, acc => acc
  | .cons x xs, acc => astKindsL xs (astKinds x acc)
end

def evalVerdict {α : Type} : R α → String
  | .ok _ _ => "ok" | .err => "err" | .empty => "empty" | .trap => "trap"

/-- The model's verdicts under three constant oracles (every call fails / answers an object / answers an int). -/
def modelEval (root : Ast) (ignoreMissing : Bool) : List String :=
  let mk (a : List OAns) : Env :=
    { refl := a, lib := a, pre := evalPre, ignoreMissing := ignoreMissing,
      defersRec := Gen.evalFuncDefersRec == some true, recShape := Gen.evalFuncRecover }
  [[], List.replicate 256 (.val .other), List.replicate 256 (.val (.lit .int))].map fun a =>
    evalVerdict (evalTop (mk a) root [])

end EvalTie

structure Acc where
  br : List String := []
  nt : Bool := false

def Acc.add (a : Acc) (bs : List String) : Acc :=
  { a with br := bs.foldl (fun acc b => if acc.contains b then acc else b :: acc) a.br }

def bodyOf : String → Option Body
  | "ret-nil" => some (.ret false)
  | "ret-err" => some (.ret true)
  | "panic-err" => some (.panics .errorVal)
  | "panic-str" => some (.panics .other)
  | "panic-rt" => some (.panics .runtimeErr)
  | "panic-div" => some (.panics .runtimeErr)
  | _ => none

def parseResp (t : String) : Option Resp :=
  match t.toList with
  | ['K'] => some .keepalive | ['I'] => some .info | ['T'] => some .init | ['S'] => some .snapshot
  | ['R'] => some .restore | ['X'] => some .error | ['P'] => some .point | ['E'] => some .endB
  | ['N'] => some .nilMsg | ['G'] => some .garbage
  | 'B' :: rest => (String.ofList rest).toInt?.map .begin
  | 'H' :: rest => (String.ofList rest).toNat?.map .huge
  | _ => none

def renderOuts (o : List UOut) : String :=
  if o.isEmpty then "-" else ",".intercalate (o.map fun | .p => "p" | .b n => s!"b{n}")

def renderFrame : Frame → String
  | .msg off => s!"m{off}" | .eof => "eof" | .vtrunc => "vtrunc" | .vover => "vover"
  | .ueof => "ueof" | .big => "big" | .trap => "panic"

def cmpFrames : List String → List String → Bool
  | [], [] => true
  | x :: xs, y :: ys =>
    if x == y then cmpFrames xs ys
    else (y.startsWith "perr" && x == "m" ++ (y.drop 4).toString && ys.isEmpty)
  | _, _ => false

def fail (r : String × String) : Verdict := .specfail r.1 r.2

/-! ### request / response pairing of udf.Server (`udfrr`) -/

section RrTie
open Kap.C05.Rr

def rrKind : Char → Option Kind
  | 'I' => some .info | 'T' => some .init | 'S' => some .snapshot | 'R' => some .restore | _ => none

def rrTok : Kind → String
  | .info => "I" | .init => "T" | .snapshot => "S" | .restore => "R"

/-- step tokens → model steps; the tag of a response is the 1-based position of its step. -/
def parseRrSteps : Nat → List String → Option (List Rr.Step)
  | _, [] => some []
  | i, t :: rest => do
    let st ← match t.toList with
      | ['s', 'K'] => some Rr.Step.keepalive
      | ['s', c] => if c == 'X' || c == 'N' || c == 'G' then some Rr.Step.bad else (rrKind c).map (Rr.Step.send · (i + 1))
      | ['q', c] => (rrKind c).map Rr.Step.req
      | ['w', c] => (rrKind c).map Rr.Step.wait
      | _ => none
    let more ← parseRrSteps (i + 1) rest
    pure (st :: more)

def renderRes : Res → String
  | .got _ t => s!"g{t}" | .trap _ => "panic" | .abort => "abort" | .blocked => "blocked" | .none => "none"

/-- which structural case of the model a step meets (coverage only) -/
def rrLabels (R : Routing) (s : Rr.St) : Rr.Step → List String
  | .keepalive => ["rr.keepalive"]
  | .bad =>
    if s.aborted then ["rr.bad-after-abort"]
    else if Kind.all.any (fun k => s.reqs k == .waiting) then ["rr.abort-releases-waiting"] else ["rr.abort-idle"]
  | .send j _ =>
    if s.aborted then ["rr.send-after-abort"]
    else if Kind.all.any (fun k => R.reads k == R.route j && s.reqs k == .waiting) then [s!"rr.answer.{rrTok j}"]
    else if s.slots.any (fun e => e.1 == R.route j) then [s!"rr.stray-dropped.{rrTok j}"]
    else if Kind.all.any (fun k => s.reqs k == .waiting) then [s!"rr.stray-parked-while-another-waits.{rrTok j}"]
    else [s!"rr.stray-parked.{rrTok j}"]
  | .req k =>
    match s.reqs k with
    | .idle =>
      if s.aborted then ["rr.req-after-abort"]
      else
        let others := (s.slots.filter (fun e => e.2.1 != k)).map (fun e => s!"rr.parked.{rrTok e.2.1}.then-req.{rrTok k}")
        (if s.slots.any (fun e => e.1 == R.reads k) then s!"rr.req-takes-parked.{rrTok k}" else s!"rr.req-waits.{rrTok k}") :: others
    | _ => ["rr.req-twice"]
  | .wait k =>
    match s.reqs k with
    | .done (.got _ _) => ["rr.wait-got"] | .done .abort => ["rr.wait-abort"] | .done _ => ["rr.wait-other"]
    | .waiting => ["rr.wait-blocked"] | .idle => ["rr.wait-none"]

def rrTrace (R : Routing) : Rr.St → List Rr.Step → List String → List String
  | _, [], acc => acc
  | s, st :: rest, acc => rrTrace R (Rr.step R s st) rest (acc ++ rrLabels R s st)

def srcRouting : Routing := Routing.ofLists Gen.udfRoute Gen.udfReads Gen.udfAsserts

end RrTie

def judgeLine (a : Acc) (l : String) : Except Verdict Acc := do
  let (op, obs) := splitObs (tokens l)
  match op with
  | ["lex", inp, cls] =>
    let some bs := unescRaw inp | throw (.badop l)
    let some cl := parseCls cls | throw (.badop l)
    let c : Ctx := { inp := bs.map (·.toNat), cls := cl, fixed := Gen.peekRestoresWidth == some true }
    let some o := parseLexObs obs | throw (.badop l)
    if let some r := lexSpec c o then throw (fail r)
    let m := lexRun c
    let mt := match m with | .done ts => ts | .trap ts => ts | .fuel ts => ts
    match o, m with
    | .toks ts true, .done _ =>
      if ts != mt then
        throw (.mismatch s!"lex {inp}: model {" ".intercalate (mt.map renderTok)} observed {" ".intercalate (ts.map renderTok)}")
    | _, _ => throw (.mismatch s!"lex {inp}: model does not end in done although the implementation did")
    let br := (visited c (lexFuel c) {} .token []).map (fun s => "st." ++ s)
    let br := br ++ (mt.map (fun t => s!"tok.{t.typ}"))
    pure { (a.add br) with nt := a.nt || mt.length ≥ 3 }
  | ["parse", kind, inp, cls] =>
    let some bs := unescRaw inp | throw (.badop l)
    let some cl := parseCls cls | throw (.badop l)
    let c : Ctx := { inp := bs.map (·.toNat), cls := cl, fixed := Gen.peekRestoresWidth == some true }
    let (res, leak) ← match obs with
      | ["X", how] => pure (how, 0)
      | [r, n] => match n.toNat? with | some n => pure (r, n) | none => throw (.badop l)
      | _ => throw (.badop l)
    if let some r := defineSpec res leak then throw (fail r)
    -- tie: a scanner error token can only surface as an error of the entry point
    let lexErr := match lexRun c with | .done ts => endsInError ts | _ => true
    if lexErr && res != "err" then throw (.mismatch s!"parse {kind} {inp}: lexer model ends in an error token but the entry point answered {res}")
    -- tie: the lexer goroutine is gone afterwards, however many tokens the parser took
    if !lexerGoroutineExits c (Gen.stopParseDrains == some true) 0 then
      throw (.mismatch s!"parse {kind} {inp}: model says the lexer goroutine stays blocked, none was observed")
    -- tie: the parser model's ok / err verdict is the entry point's
    let mut tieBr : List String := []
    if kind == "prog" || kind == "lambda" then
      let (bad, b) := tieParse c (kind == "lambda") res
      if let some m := bad then throw (.mismatch s!"parse {kind} {inp}: {m}")
      tieBr := [b]
    pure ((a.add (s!"parse.{kind}.{res}" :: tieBr)))
  | ["getnode", tag] =>
    let some tag := unesc tag | throw (.badop l)
    let res := match obs with | ["X", how] => how | [r] => r | _ => "?"
    if let some r := defineSpec res 0 then throw (fail r)
    match getNode Gen.getNodeTags (Gen.getNodeDefaultErr == some true) tag with
    | .unmarshal => pure (a.add ["getnode.known"])
    | .error => if res != "err" then throw (.mismatch s!"getnode {tag}: model err observed {res}") else pure (a.add ["getnode.unknown-is-error"])
    | .trap => throw (.mismatch s!"getnode {tag}: model traps, observed {res}")
  | ["json", kind, _] =>
    let (res, leak) ← match obs with
      | ["X", how] => pure (how, 0)
      | [r, n] => match n.toNat? with | some n => pure (r, n) | none => throw (.badop l)
      | _ => throw (.badop l)
    if let some r := defineSpec res leak then throw (fail r)
    pure (a.add [s!"json.{kind}.{res}"])
  | ["nodestart", body] =>
    let some b := bodyOf body | throw (.badop l)
    let res := match obs with | ["X", how] => how | [r] => r | _ => "?"
    if let some r := nodeSpec b res then throw (fail r)
    let m := match runDeferred Gen.nodeStart b with
      | .returns false => "ok" | .returns true => "err" | .propagates _ => "crash"
    if m != res then throw (.mismatch s!"nodestart {body}: model {m} observed {res}")
    pure { (a.add [s!"nodestart.{body}"]) with nt := true }
  | ["udfread", inp, _k] =>
    let some bs := unescRaw inp | throw (.badop l)
    if let some r := peerSpec obs then throw (fail r)
    let m := (readAll true (bs.map (·.toNat))).map renderFrame
    -- the protobuf decoder is not modelled: a complete frame may be reported as `perr<off>` (and ends the loop)
    if !cmpFrames m obs then throw (.mismatch s!"udfread {inp}: model {m} observed {obs}")
    pure { (a.add (m.map (fun s => "frame." ++ String.ofList (s.toList.takeWhile (fun ch => !ch.isDigit))))) with nt := a.nt || m.length ≥ 2 }
  | "udfsrv" :: resps =>
    let some rs := resps.mapM parseResp | throw (.badop l)
    if let some r := peerSpec obs then throw (fail r)
    let (mo, mf) := udfRun true none rs
    let ms := [renderOuts mo, match mf with | .clean => "ok" | .err => "err" | .trap => "crash"]
    if ms != obs then throw (.mismatch s!"udfsrv: model {ms} observed {obs}")
    let br := rs.map (fun r => match r with
      | .begin n => if n < 0 then "udf.begin-negative" else if n > 1000000 then "udf.begin-huge" else "udf.begin"
      | .endB => "udf.end" | .point => "udf.point" | .nilMsg => "udf.nil" | .garbage => "udf.garbage"
      | .huge _ => "udf.huge-frame" | .error => "udf.error" | _ => "udf.ctl")
    let br := br ++ (if mo.any (fun o => match o with | .b _ => true | _ => false) then ["udf.batch-out"] else [])
    pure { (a.add br) with nt := a.nt || rs.length ≥ 3 }
  | "udfwrite" :: kinds =>
    let some ks := kinds.mapM (fun k => match k with
      | "i" => some FKind.int | "f" => some .float | "s" => some .str | "b" => some .bool
      | "d" => some .dur | "n" => some .nil | "t" => some .time | "u" => some .uint | _ => none) | throw (.badop l)
    let written := match obs with
      | [w, _] => if w == "-" then 0 else (w.splitOn ",").length
      | _ => 0
    if let some r := udfWriteSpec ks.length written obs then throw (fail r)
    let (mw, mf) := udfWrite (Gen.udfPanicSites.isEmpty) ks
    let ms := [if mw.isEmpty then "-" else ",".intercalate (mw.map (fun b => if b then "cv" else "c")),
               match mf with | .clean => "ok" | .err => "err" | .trap => "crash"]
    if ms != obs then throw (.mismatch s!"udfwrite: model {ms} observed {obs}")
    pure { (a.add (ks.map (fun k => if k.supported then "udfwrite.supported" else "udfwrite.skipped-field"))) with nt := true }
  | "udfrr" :: stepToks =>
    let some steps := parseRrSteps 0 stepToks | throw (.badop l)
    let results ← obs.mapM (fun t => match t.splitOn ":" with
      | [k, r] => pure (k, r)
      | _ => if t == "X" || t == "crash" || t == "hang" then pure ("X", t) else throw (Verdict.badop l))
    if let some r := rrSpec obs results then throw (fail r)
    let sEnd := Rr.runFrom srcRouting ({} : Rr.St) steps
    let (mres, racy) := Rr.finish sEnd
    let finErr := sEnd.aborted || Rr.Kind.all.any (fun k => sEnd.reqs k != .idle)
    let ms := mres.map (fun kr => s!"{rrTok kr.1}:{renderRes kr.2}") ++ [if finErr then "fin:err" else "fin:ok"]
    let br := rrTrace srcRouting ({} : Rr.St) steps []
    if racy then pure (a.add ("rr.racy-not-compared" :: br))
    else
      if ms != obs then throw (.mismatch s!"udfrr: model {ms} observed {obs}")
      let hasReq := steps.any (fun st => match st with | .req _ => true | _ => false)
      let hasSend := steps.any (fun st => match st with | .send _ _ => true | _ => false)
      pure { (a.add br) with nt := a.nt || (hasReq && hasSend) }
  | ["udftask", when_, stray] =>
    match obs with
    | ["X", how] =>
      let what := if when_.startsWith "slow" then "a task with a snapshot interval whose UDF takes longer to start than the interval"
        else if when_.startsWith "stop" then "a task stopped while its UDF is still starting"
        else "a task with a snapshot interval whose UDF sent one well-formed response nobody asked for"
      if how == "stoppanic" then
        throw (.specfail "peer-error-at-most" s!"udftask {when_} {stray}: the goroutine that stopped the task panicked ({what})")
      throw (.specfail (if how == "hang" then "terminates" else "process-survives") s!"udftask {when_} {stray}: {how} ({what})")
    | ["stopped"] => pure { (a.add [s!"udftask.{when_}"]) with nt := true }
    | [cn, te, by_, snap] =>
      let some cn := cn.toNat? | throw (.badop l)
      let some te := te.toNat? | throw (.badop l)
      let (got, all) ← match by_.splitOn "/" with
        | [g, t] => match g.toNat?, t.toNat? with
          | some g, some t => pure (g, t)
          | _, _ => throw (.badop l)
        | _ => throw (.badop l)
      match liveSpec false cn 6 te got all with
      | some r => throw (.specfail r.1 s!"udftask {when_} {stray}: {r.2}")
      | none =>
        if snap == "1" then pure { (a.add [s!"udftask.{when_}.{stray}", "udftask.snapshots-after-stray"]) with nt := true }
        else pure (a.add ["udftask.no-snapshot-seen"])
    | _ => throw (.badop l)
  | ["jsoncover", tag, field, st] =>
    if st == "hole" then throw (.mismatch s!"jsoncover: field {field} of typeOf {tag} is read by an unmarshal method but occurs in no base document (coverage hole)")
    pure (a.add ["jsoncover"])
  | ["jsoneval", kind, _doc] =>
    match obs with
    | ["X", how] => throw (.specfail (if how == "hang" then "terminates" else "process-survives") s!"jsoneval {kind}: {how}")
    | [r] =>
      let cs := r.toList
      if cs.length != 5 then throw (.badop l)
      if (cs.take 3).contains 'p' then throw (.specfail "returns-task-or-error" s!"jsoneval {kind}: decode/format/compile = {r} (p = panicked)")
      if (cs.drop 3).contains 'p' then throw (.specfail "keeps-processing-after-bad-point" s!"jsoneval {kind}: evaluating the decoded expression panicked ({r})")
      pure { (a.add [s!"jsoneval.{kind}.{r}"]) with nt := a.nt || r != "e----" }
    | _ => throw (.badop l)
  | ["jsontask", _doc] =>
    match obs with
    | ["X", how] => throw (.specfail (if how == "hang" then "terminates" else "process-survives") s!"jsontask: {how}")
    | [d, st, te, by_] =>
      if d == "p" || st == "p" then throw (.specfail "returns-task-or-error" s!"jsontask: decode={d} start={st} (p = panicked)")
      if te != "0" then throw (.specfail "bad-point-does-not-kill-task" "jsontask: the task ended with an error")
      match by_.splitOn "/" with
      | [g, t] => if g != t then throw (.specfail "other-tasks-unaffected" s!"jsontask: bystander saw {by_}")
      | _ => throw (.badop l)
      pure { (a.add [s!"jsontask.{d}{st}"]) with nt := a.nt || st == "o" }
    | _ => throw (.badop l)
  | "pbatch" :: cls :: strs =>
    let some cl := parseCls cls | throw (.badop l)
    match obs with
    | ["X", how] => throw (.specfail (if how == "hang" then "terminates" else "process-survives") s!"pbatch: {how}")
    | _ =>
      if obs.length != strs.length + 1 then throw (.badop l)
      let leak := (obs.getLast?.bind String.toNat?).getD 0
      let mut acc := a
      for (inp, res) in strs.zip obs do
        let some bs := unescRaw inp | throw (.badop l)
        if res.contains 'p' then throw (.specfail "returns-task-or-error" s!"pbatch {inp}: Parse/Format/ParseLambda = {res} (p = panicked)")
        let c : Ctx := { inp := bs.map (·.toNat), cls := cl, fixed := Gen.peekRestoresWidth == some true }
        let lexErr := match lexRun c with | .done ts => endsInError ts | _ => true
        if lexErr && res != "eee" then throw (.mismatch s!"pbatch {inp}: lexer model ends in an error token but the entry points answered {res}")
        -- tie: the parser model's ok / err verdict is the entry point's (Parse = 1st letter, ParseLambda = 3rd)
        let word (ch : Char) : String := if ch == 'o' then "ok" else if ch == 'e' then "err" else "panic"
        let (bad1, b1) := tieParse c false (word (res.toList.getD 0 '?'))
        if let some m := bad1 then throw (.mismatch s!"pbatch {inp}: Parse: {m}")
        let (bad2, b2) := tieParse c true (word (res.toList.getD 2 '?'))
        if let some m := bad2 then throw (.mismatch s!"pbatch {inp}: ParseLambda: {m}")
        acc := acc.add [s!"pbatch.{res}", b1, "l" ++ b2]
      if leak != 0 then throw (.specfail "no-goroutine-leak" s!"pbatch: {leak} goroutine(s) left behind")
      pure { acc with nt := true }
  | ["evalast", mode, _script] =>
    match obs with
    | ["X", how] => throw (.specfail (if how == "hang" then "terminates" else "process-survives") s!"evalast: {how}")
    | res :: astToks =>
      if let some r := defineSpec res 0 then throw (fail r)
      if astToks == ["-"] then
        -- ast.Parse refused the script: Evaluate returns that error
        if res != "err" then throw (.mismatch s!"evalast: the script does not parse but Evaluate answered {res}")
        pure (a.add ["evalast.parse-error"])
      else
        let some (root, []) := parseAst (astToks.length + 1) astToks | throw (.badop l)
        -- tie of the shape assumption of the stack-depth theorem: what the real parser built is `parserShaped`
        if !Ev.parserShaped root then
          throw (.mismatch s!"evalast: the AST of the real parser is outside the shape the model assumes (parserShaped): {" ".intercalate astToks}")
        let vs := modelEval root (mode == "1")
        if vs.contains "trap" then throw (.mismatch s!"evalast: evaluator model TRAPS, observed {res}")
        if vs.contains "empty" then throw (.mismatch s!"evalast: evaluator model pops the empty stack, observed {res}")
        let kinds := (astKinds root []).map (fun k => "evalast.node." ++ k)
        match vs with
        | v :: rest =>
          if rest.all (· == v) then
            if v != res then throw (.mismatch s!"evalast: evaluator model {v}, observed {res}: {" ".intercalate astToks}")
            pure { (a.add (s!"evalast.tied.{v}" :: kinds)) with nt := true }
          else pure (a.add ("evalast.oracle-dependent" :: kinds))
        | [] => throw (.badop l)
    | [] => throw (.badop l)
  | ["http", method, _path, enc, _body] =>
    match obs with
    | ["X", how] => throw (.specfail (if how == "hang" then "terminates" else "process-survives") s!"http {method}: {how}")
    | ["noresp"] => throw (.specfail "returns-task-or-error" s!"http {method}: the server dropped the connection without a response (handler panic)")
    | ["badreq"] => pure (a.add ["http.client-refused"])
    | [st] =>
      let some n := st.toNat? | throw (.badop l)
      pure (a.add [s!"http.{method}.{n / 100}xx", s!"http.enc.{enc}"])
    | _ => throw (.badop l)
  | "livex" :: node :: fn :: _expr :: pts =>
    match obs with
    | ["X", how] => throw (.specfail (if how == "hang" then "terminates" else "process-survives") s!"livex {node} {fn}: {how}")
    | ["nocanary"] => pure (a.add ["livex.canary-rejected"])
    | ["defineerr"] => pure (a.add ["livex.define-error"])
    | [cn, te, by_] =>
      let some cn := cn.toNat? | throw (.badop l)
      let some te := te.toNat? | throw (.badop l)
      let (got, all) ← match by_.splitOn "/" with
        | [g, t] => match g.toNat?, t.toNat? with
          | some g, some t => pure (g, t)
          | _, _ => throw (.badop l)
        | _ => throw (.badop l)
      match liveSpec false cn 5 te got all with
      | some r => throw (.specfail r.1 s!"livex {node} {fn}: {r.2}")
      | none => pure { (a.add [s!"livex.{node}", s!"fn.{fn}"]) with nt := a.nt || pts.length ≥ 1 }
    | _ => throw (.badop l)
  | ["tagscopy", n, key] =>
    let some n := n.toInt? | throw (.badop l)
    let src := Tags.source (if n < 0 then none else some n.toNat)
    let model := Tags.observe Tags.copy src key
    let obsS := " ".intercalate obs
    if obsS != model then throw (.mismatch s!"tagscopy {n} {key}: model {model} observed {obsS}")
    pure { (a.add [s!"tagscopy.{if n < 0 then "nil" else if n == 0 then "empty" else "nonempty"}",
                   if src.get key == "" then "tagscopy.new-key" else "tagscopy.existing-key"]) with nt := a.nt }
  | ["live", node, bad] =>
    match obs with
    | ["X", how] => throw (.specfail (if how == "hang" then "terminates" else "process-survives") s!"live {node} {bad}: {how}")
    | [cn, te, by_] =>
      let some cn := cn.toNat? | throw (.badop l)
      let some te := te.toNat? | throw (.badop l)
      let some by_ := by_.toNat? | throw (.badop l)
      match liveSpec (node == "boom") cn 4 te by_ 5 with
      | some r => throw (.specfail r.1 s!"live {node} {bad}: {r.2}")
      | none =>
        -- model: the node runner turns a panicking node into a task error (extracted shape)
        if node == "boom" then
          match runDeferred Gen.nodeStart (.panics .other) with
          | .returns true => pure ()
          | _ => throw (.mismatch "live boom: model says the panic is not turned into an error, the implementation did")
        pure { (a.add [s!"live.{node}", s!"bad.{bad}"]) with nt := true }
    | _ => throw (.badop l)
  | _ => throw (.badop l)

def judge (_id : String) (lines : Array String) : Verdict :=
  let r := lines.foldl (fun (acc : Except Verdict Acc) l => acc >>= fun a => judgeLine a l) (pure {})
  match r with
  | .ok a => .ok a.nt a.br.reverse
  | .error v => v

end Kap.C05.Drv

def main : IO Unit := Kap.driverMain Kap.C05.Drv.judge
