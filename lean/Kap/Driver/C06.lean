/-
Driver for C06: reads the cases the Go harness produced by running the REAL code and judges each one
  * spec on the OBSERVED output first (identity: equal ids ⇔ same group; group-by tags as configured;
    isolation: full run filtered to g = run on g alone) → SPECFAIL / KNOWN,
  * then observed = model (toGroupID, determineTagNames/computeTagNames, the demultiplexer with the concrete
    receivers) → MISMATCH.
-/
import Kap.Spec.C06
import Kap.Spec.C06Slot
open Kap Kap.C06

namespace Kap.C06.Drv

/-! ### parsing -/

def parseList (tok : String) : Option (List String) :=
  if tok == "-" then some [] else (tok.splitOn ",").mapM unesc

def parseKV (kv : String) : Option (String × String) :=
  match kv.splitOn "=" with
  | [k, v] => do pure ((← unesc k), (← unesc v))
  | _ => none

def parseTags (tok : String) : Option Tags :=
  if tok == "-" then some [] else (tok.splitOn ",").mapM parseKV

/-- the value of field `v` in a fields token (`k=i:5,k=s:abc,…`) -/
def parseV (tok : String) : Option Val :=
  if tok == "-" then some .missing else
  match (tok.splitOn ",").find? (fun kv => kv.startsWith "v=") with
  | none => some .missing
  | some kv =>
    let x := (kv.drop 2).toString
    if x.startsWith "i:" then (x.drop 2).toString.toInt?.map Val.int
    else if x.startsWith "s:" then (unesc (x.drop 2).toString).map Val.str
    else if x.startsWith "b:" then some (.bool ((x.drop 2).toString == "1"))
    else if x.startsWith "f:" then some (.flt (x.drop 2).toString)
    else none

def b01? (s : String) : Option Bool := if s == "1" then some true else if s == "0" then some false else none

/-- rendering of the structured group key, identical to the harness' `gkey` -/
def gkey (byName : Bool) (name : String) (dims : List String) (tags : Tags) : String :=
  let b := if byName then "1" else "0"
  let n := if byName then esc name else "%"
  let ps := dims.eraseDups.map (fun d => esc d ++ "=" ++ esc (tagVal tags d))
  b ++ "~" ++ n ++ "~" ++ (if ps.isEmpty then "-" else ",".intercalate ps)

def renderList (l : List String) : String := if l.isEmpty then "-" else ",".intercalate (l.map esc)

def addBr (brs : List String) (b : String) : List String := if brs.contains b then brs else brs ++ [b]

/-! ### identity verdict shared by gid and gb cases -/

/-- all pairs violating "equal ids ⇔ same group" -/
def badPairs : List (GPoint × String) → List ((GPoint × String) × (GPoint × String))
  | [] => []
  | (p, i) :: rest =>
    (rest.filter (fun (q, j) => (i == j) != sameGroup p q)).map (fun qj => ((p, i), qj)) ++ badPairs rest

def modelId (p : GPoint) : String := toGroupID p.byName p.name p.tags p.dims

/-- a violating pair is the recorded deviation iff it is a COLLISION of two different groups, predicted by the
transcribed encoding, with a non-clean point -/
def explained (pr : (GPoint × String) × (GPoint × String)) : Bool :=
  let ((p, i), (q, j)) := pr
  i == j && i == modelId p && j == modelId q && devDelimiter p q

def describe (p : GPoint) : String :=
  s!"{boolTok p.byName}/{esc p.name}/{renderList p.dims}/{",".intercalate (p.dims.map (fun d => esc (tagVal p.tags d)))}"

def identityVerdict (obs : List (GPoint × String)) : Option Verdict :=
  let bad := badPairs obs
  match bad.find? (fun pr => !explained pr) with
  | some ((p, i), (q, j)) =>
    some (.specfail "same-group-iff-same-id" s!"{describe p} id {esc i} vs {describe q} id {esc j} sameGroup={boolTok (sameGroup p q)}")
  | none =>
    match bad with
    | ((p, i), (q, _)) :: _ => some (.known "groupid-delimiter-collision" s!"{describe p} and {describe q} share id {esc i}")
    | [] => none

def pairBranches (obs : List (GPoint × String)) (brs : List String) : List String := Id.run do
  let mut b := brs
  for (p, _) in obs do
    b := addBr b (match p.dims, p.byName with
      | [], true => "id-name-only" | [], false => "id-nil-group"
      | [_], true => "id-name+1dim" | [_], false => "id-1dim"
      | _, true => "id-name+dims" | _, false => "id-dims")
    if p.dims.any (fun d => !(p.tags.any (fun kv => kv.1 == d))) then b := addBr b "id-missing-tag"
    if !cleanPoint p then b := addBr b "id-unclean"
  let rec pairs : List (GPoint × String) → List String → List String
    | [], b => b
    | (p, _) :: rest, b =>
      let b := rest.foldl (fun b (q, _) => addBr b (if sameGroup p q then "pair-same-group" else
        if p.dims == q.dims then "pair-diff-group" else "pair-diff-dims")) b
      pairs rest b
  pairs obs b

/-! ### gid cases -/

def judgeGid (lines : Array String) : Verdict := Id.run do
  let mut obs : List (GPoint × String) := []
  for l in lines do
    let (opT, o) := splitObs (tokens l)
    match opT, o with
    | ["gid", b, name, dims, tags], [id] =>
      let some b := b01? b | return .badop l
      let some name := unesc name | return .badop l
      let some dims := parseList dims | return .badop l
      let some tags := parseTags tags | return .badop l
      if id == "panic" then return .specfail "same-group-iff-same-id" s!"ToGroupID panicked: {l}"
      let some id := unesc id | return .badop l
      obs := obs ++ [({ byName := b, name := name, tags := tags, dims := dims }, id)]
    | _, _ => return .badop l
  let iv := identityVerdict obs
  if let some (.specfail c d) := iv then return .specfail c d
  for (p, i) in obs do
    if modelId p != i then return .mismatch s!"ToGroupID {describe p}: model {esc (modelId p)} observed {esc i}"
  if let some v := iv then return v
  let brs := pairBranches obs []
  return .ok (obs.length ≥ 2 && obs.any (fun pi => !pi.1.dims.isEmpty)) brs

/-! ### gb cases -/

def judgeGb (lines : Array String) : Verdict := Id.run do
  let mut cfg : Option (Bool × Bool × Bool × List String × List String) := none  -- from?, byName, star, dims, excl
  let mut obs : List (GPoint × String) := []
  let mut brs : List String := []
  let mut mism : Option String := none
  for l in lines do
    let (opT, o) := splitObs (tokens l)
    match opT with
    | ["gb", mode, b, star, dims, excl] =>
      let some b := b01? b | return .badop l
      let some star := b01? star | return .badop l
      let some dims := parseList dims | return .badop l
      let some excl := parseList excl | return .badop l
      cfg := some (mode == "from", b, star, dims, excl)
      brs := addBr brs (if mode == "from" then "gb-from" else "gb-node")
      brs := addBr brs (if star then (if excl.isEmpty then "gb-star" else "gb-star-exclude") else
        (if dims.isEmpty then "gb-nodims" else if sortStrings dims != dims then "gb-named-unsorted" else "gb-named"))
      if !star && dims.eraseDups.length < dims.length then brs := addBr brs "gb-named-duplicate"
      if b then brs := addBr brs "gb-byname"
    | ["pt", name, tags, _fields, _time] =>
      let some (isFrom, b, star, dims, excl) := cfg | return .badop l
      let some name := unesc name | return .badop l
      let some tags := parseTags tags | return .badop l
      match o with
      | [id, ob, od] =>
        let some id := unesc id | return .badop l
        let some ob := b01? ob | return .badop l
        let some od := parseList od | return .badop l
        -- spec on the observed grouping
        if !dimsOk star dims (if isFrom then [] else excl) tags od then
          return .specfail "group-by-tags-as-configured" s!"point tags {renderList (tags.map (·.1))}: observed dimensions {renderList od}"
        if ob != b then
          return .specfail "group-by-tags-as-configured" s!"byName observed {boolTok ob} configured {boolTok b}"
        obs := obs ++ [({ byName := ob, name := name, tags := tags, dims := od }, id)]
        -- model
        let ex := if isFrom then [] else excl
        let md := computeTagNames tags star (determineTagNames dims ex) ex
        let mid := toGroupID b name tags md
        if (md, mid) != (od, id) && mism.isNone then
          mism := some s!"groupBy point {esc name}: model {renderList md} {esc mid} observed {renderList od} {esc id}"
      | [st] => return .specfail "group-by-tags-as-configured" s!"run status {st}"
      | _ => return .badop l
    | _ => return .badop l
  let iv := identityVerdict obs
  if let some (.specfail c d) := iv then return .specfail c d
  if let some m := mism then return .mismatch m
  if let some v := iv then return v
  return .ok (obs.length ≥ 2) (pairBranches obs brs)

/-! ### iso cases -/

def parseMsgTok (tok : String) : Option (ObsMsg × String) :=   -- (message, "key|time|proj")
  match tok.splitOn "|" with
  | _kind :: key :: time :: proj :: _ => some ({ key := key, tok := tok }, s!"{key}|{time}|{proj}")
  | _ => none

/-- observed run: either a status (anything but a message list) or the messages -/
def parseRun (toks : List String) : Except String (List (ObsMsg × String)) :=
  match toks with
  | ["-"] => .ok []
  | [] => .error "empty"
  | t :: _ =>
    if t.startsWith "P|" || t.startsWith "B|" then
      match toks.mapM parseMsgTok with
      | some l => .ok l
      | none => .error "unparsable"
    else .error t

inductive ModelKind where
  | sample (n : Nat) | statecount (t : Int) | wherecount (m r : Nat) | evalcount
  | alert (pr : CountPred) | iql (m : Method)
  | wherenested (m r : Nat) | evalnested | alertnested (k : Nat)
  | stateduration (t : Int) | changedetect | derivative (nn : Bool) | windowc (p e : Nat) (fill : Bool)
  | alertthr (a : Int) (sco : Bool)
  | statecountfn (m : Nat) | statedurationfn (m : Nat)
  | win2 (p e : Nat) (stage : String)     -- |window().periodCount(p).everyCount(e)|<batch receiver>
  | windowt (p e : Nat) (align fill : Bool)   -- |window().period(p s).every(e s)[.align()][.fillPeriod()]
  | alertflap (a : Int)                   -- |alert().crit(lambda: "v" > a).flapping(0.25, 0.5).history(5)

def modelKind? (kind : String) (p1 p2 : Nat) : Option ModelKind :=
  match kind with
  | "sample" => some (.sample p1)
  | "statecount" => some (.statecount p1)
  | "wherecount" => some (.wherecount p1 p2)
  | "evalcount" => some .evalcount
  | "alertgt" => some (.alert (.gt p1))
  | "alertmod" => some (.alert (.mod p1))
  | "sum" => some (.iql .sum)
  | "count" => some (.iql .count)
  | "wherenested" => some (.wherenested p1 p2)
  | "evalnested" => some .evalnested
  | "alertnested" => some (.alertnested p1)
  | "stateduration" => some (.stateduration p1)
  | "statecountfn" => some (.statecountfn p1)
  | "statedurationfn" => some (.statedurationfn p1)
  | "changedetect" => some .changedetect
  | "derivative" => some (.derivative false)
  | "derivativenn" => some (.derivative true)
  | "windowc" => some (.windowc p1 p2 false)
  | "windowcfill" => some (.windowc p1 p2 true)
  | "alertthr" => some (.alertthr p1 false)
  | "alertthrsco" => some (.alertthr p1 true)
  | "winsample" | "winstatecount" | "winwhere" | "winchange" | "winderiv" | "winsum" | "wincount" | "winstatecountfn"
  | "winalert" | "winalertcount" | "wineval" => some (.win2 p1 p2 kind)
  | "windowt" => some (.windowt p1 p2 false false)
  | "windowtalign" => some (.windowt p1 p2 true false)
  | "windowtfill" => some (.windowt p1 p2 false true)
  | "alertflap" => some (.alertflap p1)
  | _ => none

def renderOuts (l : List (GroupID × Out)) : List String := l.map (fun go => s!"{go.2.key}|{go.2.time}|{go.2.proj}")

/-- thresholds of `alertthr`: info > a, warn > a + 2, crit > a + 4 -/
def thrOf (a : Int) (l : Nat) : Option Int :=
  match l with
  | 1 => some a | 2 => some (a + 2) | 3 => some (a + 4) | _ => none

/-- `.crit(lambda: "v" > a)` only -/
def critOnly (a : Int) (l : Nat) : Option Int := if l == 3 then some a else none

/-- the model of the node AS THE CODE IS TODAY -/
def runModel (k : ModelKind) (items : List (Item Pt)) : List String :=
  match k with
  | .sample n => renderOuts (runNode (sampleNode n) () items)
  | .statecount t => renderOuts (runNode (stateCountNode t) () items)
  | .wherecount m r => renderOuts (runNode (whereCountNode m r) () items)
  | .evalcount => renderOuts (runNode evalCountNode () items)
  | .alert pr => renderOuts (runNode (alertNode pr) () items)
  | .iql m => renderOuts (runNode (iqlNode m) {} items)
  | .wherenested m r => renderOuts (runNode (whereNestedNode m r) () items)
  | .evalnested => renderOuts (runNode evalNestedNode () items)
  | .alertnested k => renderOuts (runNode (alertNode (.gt k)) () items)
  | .stateduration t => renderOuts (runNode (stateDurationNode t) () items)
  | .statecountfn m => renderOuts (runNode (stateCountFnNode m) () items)
  | .statedurationfn m => renderOuts (runNode (stateDurationFnNode m) () items)
  | .changedetect => renderOuts (runNode changeDetectNode () items)
  | .derivative nn => renderOuts (runNode (derivativeNode nn) () items)
  | .windowc p e fill => renderOuts (runNode (windowCountNode p e fill) () items)
  | .alertthr a sco => renderOuts (runNode (alertThrNode (thrOf a) sco) () items)
  | .win2 p e stage =>
    -- two demultiplexers in a row: the window's batches travel on a batch edge under the batch-edge id
    let pipe {Γ σ : Type} (B : Node Γ σ Batch Out) (γ : Γ) := renderOuts (runPipe (windowCountNodeB p e false) () onBatchEdge B γ items)
    match stage with
    | "winsample" => pipe (sampleNodeB 2) ()
    | "winstatecount" => pipe (stateCountNodeB 3) ()
    | "winstatecountfn" => pipe stateCountFnNodeB ()
    | "winwhere" => pipe whereCountNodeB ()
    | "winchange" => pipe changeDetectNodeB ()
    | "winderiv" => pipe derivativeNodeB ()
    | "winsum" => pipe (iqlNodeB .sum) {}
    | "winalert" => pipe (alertThrNodeB (critOnly 5)) ()
    | "winalertcount" => pipe (alertCountNodeB (.gt 4)) ()
    | "wineval" => pipe evalCountAddNodeB ()
    | _ => pipe (iqlNodeB .count) {}
  | .windowt p e align fill =>
    -- C03's window model as a grouped receiver; the sink sees the batches themselves
    renderOuts ((runNode (windowTimeNodeB { period := p * 1000000000, every := e * 1000000000, align := align, fill := fill }) () items).map
      (fun gb => (gb.1, batchOut gb.2 (gb.2.pts.map (fun q => (q.time, none))))))
  | .alertflap a => renderOuts (runNode (alertHistNode (critOnly a) false true 5 (goFlapDecide 0.25 0.5)) () items)

/-- float sums / float comparisons are outside the concrete models -/
def modelApplies (k : ModelKind) (pts : List Pt) : Bool :=
  match k with
  | .iql .sum | .win2 _ _ "winsum" => pts.all (fun p => match p.v with | .flt _ => false | _ => true)
  | _ => true

/-- branches of `alertDetermine` taken by the points of one group (by isolation = what the group does alone) -/
def alertBranches (pr : CountPred) (n : Nat) (brs : List String) : List String := Id.run do
  let mut b := brs
  let mut cnt := 0
  let mut cur := 0
  for _ in [0:n] do
    let c1 := cnt + 1
    if pr.eval c1 then b := addBr b "alert-first-eval-pass"
    else if cur == 3 then b := addBr b (if pr.eval (c1 + 1) then "alert-second-eval-pass" else "alert-second-eval-fail")
    else b := addBr b "alert-stays-ok"
    let r := alertDetermine pr cnt cur
    cnt := r.1; cur := r.2
  return b

def distinctKeys (ks : List String) : List String := ks.foldl (fun acc k => if acc.contains k then acc else acc ++ [k]) []

def switches : List String → Nat
  | a :: b :: rest => (if a != b then 1 else 0) + switches (b :: rest)
  | _ => 0

/-- the stage token of a `node` line: `-` | `fromgb` | `del:<tags>` | `gb:<0|1>:<dims>` | `deftag:<k>:<v>` | `evaltag:<k>:<v>` -/
def parsePre (tok : String) : Option (Bool × Option Stage) :=   -- (grouping done by from().groupBy()?, stage)
  match tok.splitOn ":" with
  | ["-"] => some (false, none)
  | ["fromgb"] => some (true, none)
  | ["del", l] => do pure (false, some (.delete (← parseList l)))
  | ["gb", b, l] => do pure (false, some (.groupBy (← b01? b) (← parseList l)))
  | ["deftag", k, v] => do pure (false, some (.defaultTag (← unesc k) (← unesc v)))
  | ["evaltag", k, v] => do pure (false, some (.evalTag (← unesc k) (← unesc v)))
  | _ => none

def stageTok : Option Stage → String
  | none => "-"
  | some (.delete l) => s!"del:{renderList l}"
  | some (.groupBy b l) => s!"gb:{boolTok b}:{renderList l}"
  | some (.defaultTag k v) => s!"deftag:{esc k}:{esc v}"
  | some (.evalTag k v) => s!"evaltag:{esc k}:{esc v}"

/-- the structured key an emitted message carries, read back: (by-name flag, name, (dimension, value) pairs) -/
def parseKey (key : String) : Option GPoint :=
  match key.splitOn "~" with
  | [b, n, l] => do
    let b ← b01? b
    let name ← if b then unesc n else some ""
    let pairs ← if l == "-" then some [] else (l.splitOn ",").mapM parseKV
    pure { byName := b, name := name, tags := pairs, dims := pairs.map (·.1) }
  | _ => none

/-- two points grouped by measurement, of different measurements, that agree on every group-by tag value -/
def twinMeasurements (gps : List GPoint) : Bool :=
  gps.any (fun p => gps.any (fun q => p.byName && q.byName && p.name != q.name && p.dims == q.dims &&
    p.dims.all (fun d => tagVal p.tags d == tagVal q.tags d)))

def judgeIso (lines : Array String) : Verdict := Id.run do
  let mut cfg : Option (String × Nat × Nat × String × List String) := none
  let mut dupCfg := false   -- the script names a dimension twice
  let mut pre : Option Stage := none   -- a stateless stage between the groupBy and NODE that rebuilds the group identity
  let mut fromGb := false              -- grouping configured on from() instead of a groupBy node
  let mut gps0 : List GPoint := []     -- the points as they leave the groupBy
  let mut pts : List (Pt × GroupID) := []
  let mut gps : List (GPoint × String) := []   -- (point as grouping sees it, its structured key)
  let mut full : Option (List (ObsMsg × String)) := none
  let mut solo : List (String × List ObsMsg) := []
  for l in lines do
    let (opT, o) := splitObs (tokens l)
    match opT with
    | "node" :: kind :: p1 :: p2 :: b :: dims :: rest =>
      let some p1 := p1.toNat? | return .badop l
      let some p2 := p2.toNat? | return .badop l
      if !(["0", "1", "2"].contains b) then return .badop l
      let some dims := parseList dims | return .badop l
      -- the dimension list every point of the run carries: the model of determineTagNames (sorted, each dimension once)
      cfg := some (kind, p1, p2, b, determineTagNames dims [])
      dupCfg := dims.eraseDups.length < dims.length
      match rest with
      | [] => pure ()
      | [tok] =>
        let some (fg, st) := parsePre tok | return .badop l
        fromGb := fg; pre := st
      | _ => return .badop l
    | ["pt", name, tags, fields, time] =>
      let some (_, _, _, mode, dims) := cfg | return .badop l
      let some name := unesc name | return .badop l
      -- mode 2: mixed by-name flags after a union (measurement cpu grouped by measurement, m not)
      let b := mode == "1" || (mode == "2" && name == "cpu")
      let some tags := parseTags tags | return .badop l
      let some v := parseV fields | return .badop l
      let some time := time.toInt? | return .badop l
      -- the point as it leaves the groupBy, and as it reaches NODE behind the stage (model of the stage)
      let p0 : GPoint := { byName := b, name := name, tags := tags, dims := dims }
      let q := applyStages pre.toList p0
      gps0 := gps0 ++ [p0]
      pts := pts ++ [({ name := q.name, key := gkey q.byName q.name q.dims q.tags, v := v, time := time,
                        bid := toGroupID q.byName q.name q.tags q.dims.eraseDups }, toGroupID q.byName q.name q.tags q.dims)]
      gps := gps ++ [(q, gkey q.byName q.name q.dims q.tags)]
    | ["full"] =>
      match parseRun o with
      | .ok ms => full := some ms
      | .error st =>
        if st == "err:compile" then return .badop s!"script does not compile: {l}"
        return .specfail "isolation" s!"full run status {st}"
    | ["solo", g] =>
      match parseRun o with
      | .ok ms => solo := solo ++ [(g, ms.map (·.1))]
      | .error st => return .specfail "isolation" s!"solo run of {g} status {st}"
    | _ => return .badop l
  let some (kind, p1, p2, mode, _) := cfg | return .badop "no node line"
  let some fullR := full | return .badop "no full line"
  let keys := pts.map (·.1.key)
  if distinctKeys keys != solo.map (·.1) then
    return .badop s!"solo groups {solo.map (·.1)} are not the groups of the input {distinctKeys keys}"
  -- the property, on what the implementation emitted
  let fullMsgs := fullR.map (·.1)
  let ptsOnly := pts.map (·.1)
  -- (1) identity of every EMITTED message: the grouping it carries is the configured one as it must be behind the stage
  -- (by measurement survives every node that does not regroup), and equal ids <=> same group among the emitted messages
  let inGroupings := (gps0.map (fun p => (p.byName, p.dims.eraseDups))).eraseDups
  let mut emitted : List (String × GPoint × String) := []
  for m in fullMsgs do
    if emitted.any (fun e => e.1 == m.key) then continue
    let some gp := parseKey m.key | return .badop s!"unparsable group key {m.key}"
    let some id := ((m.tok.splitOn "|").getLast?).bind unesc | return .badop s!"no group id in {m.tok}"
    if !(inGroupings.any (fun g => groupingOkAfter pre g (gp.byName, gp.dims))) then
      return .specfail "group-by-tags-as-configured" s!"node {kind}: an emitted message is grouped byName={boolTok gp.byName} dims={renderList gp.dims}; configured {inGroupings.map (fun g => s!"byName={boolTok g.1} dims={renderList g.2}")} stage {stageTok pre}"
    emitted := emitted ++ [(m.key, gp, id)]
  let emIds := emitted.map (fun e => (e.2.1, e.2.2))
  if let some (.specfail c d) := identityVerdict emIds then return .specfail c s!"emitted by node {kind}: {d}"
  for (p, i) in emIds do
    if modelId p != i then return .mismatch s!"node {kind}: emitted message {describe p} carries id {esc i}, ToGroupID of its own name/tags/dimensions is {esc (modelId p)}"
  -- behind a union the arrival order at the node is the union's, not the input's: no prediction of the full output
  let modelFull : Option (List String) := if mode == "2" then none else match modelKind? kind p1 p2 with
    | some mk => if modelApplies mk ptsOnly then some (runModel mk (pts.map (fun pg => Item.point pg.2 pg.1))) else none
    | none => none
  if !isolationHolds fullMsgs solo then
    -- recorded deviation: groups whose ids collide (devDelimiter) share one receiver; every group that is NOT
    -- isolated must be one of them, and for a modelled node the output must be what the model predicts
    let colliding := gps.filterMap (fun (p, k) =>
      if gps.any (fun (q, k') => k' != k && devDelimiter p q) then some k else none)
    let failing := (solo.filter (fun gs => !isolatedFor fullMsgs gs.1 gs.2)).map (·.1)
    let foreign := fullMsgs.any (fun m => !(solo.any (fun gs => gs.1 == m.key)))
    let predicted := match modelFull with | some m => m == fullR.map (·.2) | none => true
    if !failing.isEmpty && failing.all (fun g => colliding.contains g) && !foreign && predicted then
      return .known "groupid-delimiter-collision" s!"node {kind}: groups {failing} share a receiver because their ids collide"
    let g := failing.headD "output-for-a-group-without-input"
    return .specfail "isolation" s!"node {kind}: group {g}: full run filtered to the group differs from the run on the group alone"
  -- the tie
  let mut brs : List String := [kind]
  if (distinctKeys keys).length ≥ 3 then brs := addBr brs "groups>=3"
  if mode == "2" then brs := addBr brs "mixed-byname-union"
  if dupCfg then brs := addBr brs "duplicate-dimension"
  if fromGb then brs := addBr brs "head-from-groupby"
  let finals := gps.map (·.1)
  if twinMeasurements finals then brs := addBr brs "byname-twin-measurements"
  if (distinctKeys (gps0.map (fun p => gkey p.byName p.name p.dims p.tags))).length > (distinctKeys keys).length then
    brs := addBr brs "stage-merges-groups"
  match pre with
  | none => pure ()
  | some (.delete del) =>
    let cfgDims := (gps0.headD default).dims
    if checkForDeletedDimension del cfgDims then
      brs := addBr brs (if (deleteDimensions del false cfgDims).2.isEmpty then "stage-delete-last-dimension" else "stage-delete-dimension")
      if twinMeasurements finals then brs := addBr brs "stage-delete-dimension+byname-twin"
    else brs := addBr brs "stage-delete-other-tag"
  | some (.groupBy b nd) =>
    let cfgDims := (gps0.headD default).dims
    brs := addBr brs (if nd.all (cfgDims.contains ·) then "stage-groupby-coarser" else "stage-groupby-finer")
    if b && gps0.any (fun p => !p.byName) then brs := addBr brs "stage-groupby-adds-byname"
    if twinMeasurements finals then brs := addBr brs "stage-groupby+byname-twin"
  | some (.defaultTag k _) =>
    brs := addBr brs (if gps0.any (fun p => p.dims.contains k) then "stage-default-tag-dimension" else "stage-default-other-tag")
    if gps0.any (fun p => p.dims.contains k && tagVal p.tags k == "") then brs := addBr brs "stage-default-tag-applied"
  | some (.evalTag k _) =>
    brs := addBr brs (if gps0.any (fun p => p.dims.contains k) then "stage-eval-tag-dimension" else "stage-eval-other-tag")
  if switches keys ≥ 3 then brs := addBr brs "interleaved"
  if (distinctKeys (pts.map (·.2))).length < (distinctKeys keys).length then brs := addBr brs "id-collision-in-run"
  if ptsOnly.any (fun p => p.v == .missing) then brs := addBr brs "field-missing"
  let kinds := distinctKeys (ptsOnly.filterMap (fun p => p.v.kind?.map (fun k => reprStr k)))
  if kinds.length ≥ 2 then brs := addBr brs "mixed-field-types"
  match modelKind? kind p1 p2, modelFull with
  | none, _ => brs := addBr brs "relational-only"
  | some _, none => brs := addBr brs "model-not-applicable"
  | some mk, some m =>
    let o := fullR.map (·.2)
    if m != o then return .mismatch s!"node {kind} {p1} {p2}: model {m} observed {o}"
    brs := addBr brs "modelled"
    match mk with
    | .iql meth =>
      if ptsOnly.any (fun p => match p.v.kind? with | some k => (determine meth k).isNone | none => false) then
        brs := addBr brs "iql-unsupported-kind"
      if switches (ptsOnly.map (fun p => s!"{p.key}|{p.time}")) < ptsOnly.length - 1 then brs := addBr brs "iql-equal-time-run"
      if (distinctKeys keys).any (fun k =>
          (distinctKeys ((ptsOnly.filter (fun p => p.key == k)).filterMap (fun p => p.v.kind?.map (fun x => reprStr x)))).length ≥ 2) then
        brs := addBr brs "iql-kind-change-in-group"
      if m.any (fun t => t.endsWith "|i:0") then brs := addBr brs "iql-emit-zero"
    | .alert pr =>
      if m.any (fun t => t.endsWith "|s:OK") then brs := addBr brs "alert-recovery"
      for k in distinctKeys keys do
        brs := alertBranches pr (keys.filter (· == k)).length brs
    | .win2 _ _ stage =>
      brs := addBr brs "batch-side"
      if m.any (fun t => t.endsWith "|n:0") then brs := addBr brs "batch-emptied"
      if stage == "winalert" || stage == "winalertcount" then
        if m.any (fun t => t.endsWith "=s:OK") then brs := addBr brs "batch-alert-recovery"
        if m.any (fun t => t.endsWith "=s:CRITICAL") then brs := addBr brs "batch-alert-critical"
    | .windowt _ _ align fill =>
      brs := addBr brs (if align then "wint-align" else if fill then "wint-fill" else "wint-plain")
      if m.any (fun t => t.endsWith "|n:0") then brs := addBr brs "wint-empty-window"
      if m.any (fun t => !(t.endsWith "|n:0") && !(t.endsWith "|n:1")) then brs := addBr brs "wint-window>=2"
    | .alertflap a =>
      -- the flapping flag made a difference: the same node without flap detection emits more
      let plain := renderOuts (runNode (alertHistNode (critOnly a) false false 5 (fun f _ => f)) () (pts.map (fun pg => Item.point pg.2 pg.1)))
      brs := addBr brs (if plain.length > m.length then "flap-suppressed" else "flap-never-on")
      if m.any (fun t => t.endsWith "|s:OK") then brs := addBr brs "alert-recovery"
    | .statecount _ =>
      if m.length < ptsOnly.length then brs := addBr brs "statecount-eval-error-drop"
      if m.any (fun t => t.endsWith "|i:-1") then brs := addBr brs "statecount-reset"
    | _ => pure ()
  return .ok ((distinctKeys keys).length ≥ 2 && switches keys ≥ 2 && !fullR.isEmpty) brs

/-! ### dmx cases: the real groupedConsumer with the recording receiver -/

def judgeDmx (lines : Array String) : Verdict := Id.run do
  let mut items : List (Item Nat) := []
  let mut full : Option (List ObsMsg) := none
  let mut solo : List (String × List ObsMsg) := []
  let mut brs : List String := ["dmx"]
  let parseRecs (toks : List String) : Except String (List ObsMsg) :=
    match toks with
    | ["-"] => .ok []
    | _ =>
      if toks.all (fun t => (t.splitOn "|").length == 4) && !toks.isEmpty then
        .ok (toks.map (fun t => { key := (t.splitOn "|").headD "", tok := t }))
      else .error (toks.headD "empty")
  for l in lines do
    let (opT, o) := splitObs (tokens l)
    match opT with
    | ["dmx"] => pure ()
    | ["it", kind, g] =>
      let some g := unesc g | return .badop l
      match kind with
      | "point" => items := items ++ [.point g 0]; brs := addBr brs "dmx-point"
      | "barrier" => items := items ++ [.barrier g 0]; brs := addBr brs "dmx-barrier"
      | "delete" => items := items ++ [.delete g 0]; brs := addBr brs "dmx-delete"
      | _ => return .badop l
    | ["it", kind, g, n] =>
      let some g := unesc g | return .badop l
      let some n := n.toNat? | return .badop l
      match kind with
      | "buffered" => items := items ++ [.buffered g n]; brs := addBr brs "dmx-buffered"
      | "batch" => items := items ++ [.batch g 0 (List.replicate n 0) 0]; brs := addBr brs (if n == 0 then "dmx-batch-empty" else "dmx-batch")
      | _ => return .badop l
    | ["full"] =>
      match parseRecs o with
      | .ok ms => full := some ms
      | .error st => return .specfail "isolation" s!"groupedConsumer full run status {st}"
    | ["solo", g] =>
      match parseRecs o with
      | .ok ms => solo := solo ++ [(g, ms)]
      | .error st => return .specfail "isolation" s!"groupedConsumer solo run of {g} status {st}"
    | _ => return .badop l
  let some fullR := full | return .badop "no full line"
  let keys := items.map (fun it => esc it.group)
  if distinctKeys keys != solo.map (·.1) then return .badop "solo groups are not the groups of the input"
  if !isolationHolds fullR solo then
    return .specfail "isolation" s!"groupedConsumer: a group's calls on the full stream differ from its calls alone"
  let m := (runNode recNode () items).map (fun go => s!"{esc go.1}|{go.2.call}|{go.2.n}|{go.2.first}")
  if m != fullR.map (·.tok) then return .mismatch s!"groupedConsumer: model {m} observed {fullR.map (·.tok)}"
  -- structural branches of Demux.step
  let rec walk : List (Item Nat) → List String → List String → List String
    | [], _, b => b
    | it :: rest, live, b =>
      let g := it.group
      match it with
      | .delete _ _ =>
        walk rest (live.filter (· != g)) (addBr b (if live.contains g then "delete-existing" else "delete-absent"))
      | _ => walk rest (if live.contains g then live else g :: live) (addBr b (if live.contains g then "group-hit" else "group-create"))
  brs := walk items [] brs
  -- a group deleted and created again
  let rec recreated : List (Item Nat) → List String → Bool
    | [], _ => false
    | .delete g _ :: rest, dead => recreated rest (g :: dead)
    | it :: rest, dead => dead.contains it.group || recreated rest dead
  if recreated items [] then brs := addBr brs "recreate-after-delete"
  return .ok ((distinctKeys keys).length ≥ 2 && switches keys ≥ 2) brs

/-! ### slot cases: httpOut's slot table behind a deleting barrier (real task, served result read through the route) -/

def parseRow (tok : String) : Option Slot.Row :=
  match tok.splitOn "=" with
  | [g, v] => do pure ((← unesc g), (← v.toInt?))
  | _ => none

/-- a read: `-` = nothing served; `nil` entries (slot without a row) are kept apart -/
def parseRead (toks : List String) : Option (List Slot.Row × Nat) :=
  if toks == ["-"] then some ([], 0) else do
    let rows ← (toks.filter (· != "nil")).mapM parseRow
    pure (rows, (toks.filter (· == "nil")).length)

def sortRows (rs : List Slot.Row) : List Slot.Row :=
  (rs.toArray.qsort (fun a b => a.1 < b.1 || (a.1 == b.1 && a.2 < b.2))).toList

def judgeSlot (lines : Array String) : Verdict := Id.run do
  let mut hist : List Slot.Op := []
  let mut st : Slot.St := Slot.St.empty
  let mut reads : List (List Slot.Op × List Slot.Row × Nat) := []
  let mut solo : List (String × List (List Slot.Row)) := []
  let mut groups : List String := []
  let mut brs : List String := ["slot"]
  let mut shifted : List String := []   -- live groups whose slot number was decremented by a deletion
  let mut strong := false
  let mut ended := ""
  for l in lines do
    let (opT, o) := splitObs (tokens l)
    match opT with
    | ["slot", _] => pure ()
    | ["status"] => if o != ["ok"] then ended := s!"task status {o}"
    | ["sp", g, v] =>
      let some g := unesc g | return .badop l
      let some v := v.toInt? | return .badop l
      if !o.isEmpty then
        return (if o == ["panic"] then .specfail "isolation" s!"httpOut task status {o}" else .mismatch s!"httpOut task status {o}")
      if !groups.contains g then groups := groups ++ [g]
      match Slot.find st g with
      | none => brs := addBr brs (if hist.any (· == .delete g) then "slot-recreate-after-delete" else "slot-create")
      | some _ =>
        brs := addBr brs "slot-update"
        if shifted.contains g then
          brs := addBr brs "slot-update-of-renumbered-group"; strong := true
      hist := hist ++ [.point g v]
      st := Slot.step st (.point g v)
    | ["sd", g] =>
      let some g := unesc g | return .badop l
      match o with
      | ["deleted"] =>
        match Slot.find st g with
        | none => return .mismatch s!"httpOut: group {g} deleted, the model has no such live group"
        | some i =>
          let n := st.recv.length
          brs := addBr brs (if i + 1 == n then "slot-delete-newest" else if i == 0 then "slot-delete-first" else "slot-delete-middle")
          if n ≥ 3 then brs := addBr brs "slot-delete-among-3+"
          shifted := (shifted.filter (· != g)) ++ ((st.recv.drop (i + 1)).map (·.1))
        hist := hist ++ [.delete g]
        st := Slot.step st (.delete g)
      | ["absent"] => brs := addBr brs "slot-delete-absent"
      | ["dead"] => ended := "the node had stopped before the deletion of " ++ g
      | ["panic"] => return .specfail "isolation" s!"httpOut task status {o}"
      | _ => return .mismatch s!"httpOut: deletion of idle group {g}: {o}"
    | ["sr"] =>
      match parseRead o with
      | some (rows, nils) => reads := reads ++ [(hist, rows, nils)]
      | none => return (if o == ["panic"] then .specfail "isolation" s!"httpOut task status {o}" else .mismatch s!"httpOut read {o}")
    | ["solo", g] =>
      let some g := unesc g | return .badop l
      let rs := o.map (fun t => if t == "-" then some [] else ((t.splitOn ",").filter (· != "nil")).mapM parseRow)
      if rs.any (·.isNone) then
        return (if o == ["panic"] then .specfail "isolation" s!"httpOut solo run of {g} status {o}" else .mismatch s!"httpOut solo run of {g}: {o}")
      solo := solo ++ [(g, rs.filterMap id)]
    | _ => return .badop l
  if solo.map (·.1) != groups then return .badop "solo groups are not the groups of the input"
  -- SPEC (isolation, in the property's own terms): at every read, the rows served under g's tags on the full history
  -- are the rows served by the run fed g's operations alone
  for (g, rs) in solo do
    if rs.length != reads.length then return .badop s!"solo run of {g}: {rs.length} reads, full run {reads.length}"
    for ((_, full, _), k) in reads.zipIdx do
      let own := rs.getD k []
      if !Slot.isolatedObs g full own then
        return .specfail "isolation" s!"httpOut read {k}: rows served for group {g} on the full history {full.filter (·.1 == g)} differ from the rows served when {g} is fed alone {own.filter (·.1 == g)} (full result {full})"
  -- a task that did not end well although no group's served rows depended on another group: not the model's behaviour
  if ended != "" then return .mismatch s!"httpOut: {ended}"
  -- MODEL: the served rows are those of the transcribed slot table (compared per content; slot order of the model
  -- is reported when the content agrees and the order does not: a survivor that idled out under load is re-created
  -- at the end, so order alone is no verdict)
  for ((h, full, nils), k) in reads.zipIdx do
    let m := Slot.served (Slot.run h)
    if sortRows m != sortRows full then return .mismatch s!"httpOut read {k}: model {m} observed {full}"
    if nils != 0 then return .mismatch s!"httpOut read {k}: {nils} slots without a row"
    if m == full then brs := addBr brs "slot-order-as-model"
  for (g, rs) in solo do
    for ((h, _, _), k) in reads.zipIdx do
      if rs.getD k [] != Slot.expectFor g h then
        return .mismatch s!"httpOut solo run of {g} read {k}: model {Slot.expectFor g h} observed {rs.getD k []}"
  return .ok (groups.length ≥ 3 && strong && !reads.isEmpty) brs

def judge (_id : String) (lines : Array String) : Verdict :=
  if lines.isEmpty then .badop "empty case" else
  let first := (tokens lines[0]!).headD ""
  if first == "gid" then judgeGid lines
  else if first == "gb" then judgeGb lines
  else if first == "node" then judgeIso lines
  else if first == "dmx" then judgeDmx lines
  else if first == "slot" then judgeSlot lines
  else .badop s!"unknown case kind {first}"

end Kap.C06.Drv

def main : IO Unit := Kap.driverMain Kap.C06.Drv.judge
