/-
Driver for C07. One op line per case (printed by harness/c07, which ran a REAL task on a real TaskMaster):

  run <chain> <stop> <class> <n> => <acc> <stopres> <census> <outs> <late> <nodeerr>

The driver
  * evaluates the property (Kap.C07.holds, Spec/C07.lean) on the OBSERVED outcome — a violation is a SPECFAIL
    unless a recorded deviation clause holds for the input, the violated clause is the one that finding is
    about and the observation lies inside what the model predicts for that input (then KNOWN <key>);
  * replays the schedule CLASS of the case on the model (Model/C07.lean) under two extreme scheduling
    policies (stop goroutine first / pipeline first) and compares the observation with the predicted
    outcome interval (MISMATCH when outside). Classes whose real execution is deterministic have a
    one-point interval.
  * fork topologies (`prefix;branch;branch…`, several children below the last node of the prefix) are replayed on the
    TREE model (Model/C07Tree.lean: nodes in the task's walk order, which the harness reports and the driver
    compares with its own) exactly like chains; every chain case is ALSO replayed on the tree model with the chain
    topology and must give the chain model's prediction;
  * topologies with a union / join node (`…;=union,tail`: several PARENTS) have no model: spec oracle only;
  * `minflux:<B>.<K>.<F>` = influxDBOut().buffer(B) WITHOUT .database() in a task with K DBRPs, the fake client rejecting
    the databases of the bit mask F: in the stop-protocol models it is an influxDBOut node like any other; per database
    the property is evaluated on what the client was handed (Spec: `unservedDestinations`), and the sizes of the Write
    calls per database are compared with the write-buffer model (Model/C07Wb.lean).
-/
import Kap.Basic
import Kap.Gen.C07
import Kap.Model.C07
import Kap.Model.C07Tree
import Kap.Model.C07Buf
import Kap.Model.C07Wb
import Kap.Spec.C07
open Kap Kap.C07

namespace Kap.C07.Drv

/-- `defaultEdgeBufferSize` (edge.go) and `alert.DefaultEventBufferSize` (alert/topics.go), regenerated from the
Go source by extract/c07consts on every run. -/
def edgeCap : Nat := Kap.C07.Gen.edgeCap
def handlerQueue : Nat := Kap.C07.Gen.handlerQueue

structure NodeTok where
  kind : Kind
  shape : NodeShape

def parseNode (t : String) : Option NodeTok :=
  match t.splitOn ":" with
  | ["from"] | ["where"] | ["hout"] => some ⟨.pass, .plain⟩
  | ["post"] => some ⟨.post, .syncOutput⟩
  | ["alert"] => some ⟨.alert handlerQueue, .alertOutput⟩
  | ["udf"] => some ⟨.udf, .udf⟩
  | ["loop"] => some ⟨.loop, .loopback⟩
  | ["barrier", _] | ["pbarrier", _] => some ⟨.barrier true, .plain⟩
  | ["barriernd", _] => some ⟨.barrier false, .plain⟩
  | ["influx", b] => b.toNat?.map (fun b => ⟨.influx b, .influxOutput⟩)
  | ["minflux", a] => match a.splitOn "." with
    | [b, k, f] => do
      let b ← b.toNat?
      let k ← k.toNat?
      let _ ← f.toNat?
      if k = 0 then none else pure ⟨.influx b, .influxOutput⟩
    | _ => none
  | ["fail", k] => k.toNat?.map (fun k => ⟨.fail k, .failing⟩)
  | _ => none

def parseStop : String → Option StopKind
  | "task" => some .task | "delete" => some .delete | "close" => some .close | _ => none

def parseClass : String → Option Class
  | "drained" => some .drained | "gated" => some .gated | "gatedslow" => some .gated | "immediate" => some .immediate | "early" => some .early | _ => none

/-- number of points: a plain number, or `<k>c+<m>` = k edge buffers + m -/
def parseN (t : String) : Option Nat :=
  match t.splitOn "c+" with
  | [k, m] => do pure ((← k.toNat?) * edgeCap + (← m.toNat?))
  | [v] => v.toNat?
  | _ => none

structure OutObs where
  idx : Nat
  total : Nat
  distinct : Nat
  missing : Nat
  calls : String := "-"

def parseOut (t : String) : Option OutObs :=
  match t.splitOn ":" with
  | [i, tot, d, m, c] => do pure ⟨← i.toNat?, ← tot.toNat?, ← d.toNat?, ← m.toNat?, c⟩
  | _ => none

/-! ### Outputs with several destinations (`minflux:<B>.<K>.<F>`) -/

structure Keyed where
  idx : Nat      -- declaration index of the node
  size : Nat     -- .buffer(B)
  nkeys : Nat    -- databases of the task
  mask : Nat     -- bit mask of the rejecting databases

/-- the `minflux` nodes of a chain / fork topology with their declaration indexes (all node tokens in textual order) -/
def keyedOf (chainT : String) : List Keyed :=
  let toks := (chainT.splitOn ";").flatMap (·.splitOn ",")
  toks.zipIdx.filterMap (fun p => match p.1.splitOn ":" with
    | ["minflux", a] => match (a.splitOn ".").map String.toNat? with
      | [some b, some k, some f] => some ⟨p.2 + 1, b, k, f⟩
      | _ => none
    | _ => none)

def Keyed.rejects (kd : Keyed) : List Nat := (List.range kd.nkeys).filter (fun k => (kd.mask >>> k) % 2 == 1)
def Keyed.cfg (kd : Keyed) : Wb.Cfg := { size := kd.size, nkeys := kd.nkeys, rejects := kd.rejects }

/-- `<k><h|r>@<size>x<count>.<size>x<count>…` joined by `/`: per database (in order 0 …) whether the client rejects it
and the sizes of the Write calls it was handed -/
def parseKeyedCalls (t : String) : Option (List (Bool × List Nat)) :=
  ((t.splitOn "/").zipIdx).mapM (fun p => match p.1.splitOn "@" with
    | [hd, runs] => do
      let rej ← (if hd == s!"{p.2}r" then some true else if hd == s!"{p.2}h" then some false else none)
      if runs == "-" then pure (rej, []) else
      let rs ← (runs.splitOn ".").mapM (fun r => match r.splitOn "x" with
        | [a, c] => do pure (List.replicate (← c.toNat?) (← a.toNat?))
        | _ => none)
      pure (rej, rs.flatten)
    | _ => none)

/-- accepted points that belong to destination `k` (point i of `acc` was written to database i mod K) -/
def wantOf (acc K k : Nat) : Nat := ((List.range acc).filter (fun i => i % K == k)).length

def parseOuts (t : String) : Option (List OutObs) :=
  if t == "-" then some [] else (t.splitOn ",").mapM parseOut

/-! ### Scheduling policies -/

def nodeOrderPipe : List NAct := [.handle, .put, .take, .init, .closeOut, .exit, .putErr, .enqDrop]
def nodeOrderStop : List NAct := [.timerFire, .helperExit, .enqDrop, .putErr, .exit, .closeOut, .init, .put, .take, .handle]

/-- pipeline first, downstream nodes first; the stop goroutine and the write-buffer exit last. -/
def prioPipe (s : State) : List Act :=
  let idx := (List.range s.nodes.length).reverse
  idx.flatMap (fun i => nodeOrderPipe.map (Act.node i)) ++
  [.forkPut, .forkLock, .forkTake, .forkExit, .write, .thrExit, .stop] ++
  idx.map (fun i => Act.node i .helperExit) ++ [.forkDrop]

/-- the stop goroutine first, then everything that loses, then the pipeline upstream first. -/
def prioStop (s : State) : List Act :=
  let idx := List.range s.nodes.length
  [.stop, .thrExit] ++ idx.map (fun i => Act.node i .helperExit) ++ [.forkDrop, .write, .forkTake, .forkLock, .forkPut, .forkExit] ++
  idx.flatMap (fun i => nodeOrderStop.map (Act.node i))

/-- a failing node first: downstream nodes first, errors before progress (used for chains with a failing node). -/
def prioFail (s : State) : List Act :=
  let idx := (List.range s.nodes.length).reverse
  idx.flatMap (fun i => nodeOrderStop.map (Act.node i)) ++
  [.forkDrop, .forkPut, .forkLock, .forkTake, .forkExit, .write, .thrExit, .stop]

/-- Closed output gate: which actions are blocked inside an output call. -/
def gateBlocks (s : State) : Act → Bool
  | .node i a =>
    match s.nodes[i]? with
    | some nd =>
      match nd.kind, a with
      | .post, .put => true                       -- the node sits in doPost
      | .alert _, .handle => true                 -- the handler goroutine sits in the POST
      | .influx _, .put => nd.deliv > 0           -- writeBuffer.run sits in cli.Write
      | .influx _, .closeOut => nd.deliv > 0 || nd.buf > 0   -- the node's final flush() waits for that Write / writes itself
      | _, _ => false
    | none => false
  | _ => false

def actName : Act → String
  | .write => "write" | .forkTake => "forkTake" | .forkLock => "forkLock" | .forkPut => "forkPut" | .forkDrop => "forkDrop"
  | .forkExit => "forkExit" | .stop => "stop" | .thrExit => "thrExit"
  | .node _ a => match a with
    | .init => "init" | .take => "take" | .put => "put" | .putErr => "putErr" | .enqDrop => "enqDrop" | .closeOut => "closeOut"
    | .exit => "exit" | .tick => "tick" | .handle => "handle" | .helperExit => "helperExit" | .timerFire => "timerFire"

structure Run where
  s : State
  seen : List String := []     -- names of the loss / error actions that were executed

def lossy : List String := ["forkDrop", "putErr", "enqDrop"]

/-- Run the model under a priority policy until nothing allowed is enabled (or the fuel is spent). -/
def runPol (stp : State → Act → Option State) (prio : State → List Act) (allowed : State → Act → Bool) : Nat → Run → Run
  | 0, r => r
  | fuel + 1, r =>
    match (prio r.s).findSome? (fun a => if allowed r.s a then (stp r.s a).map (fun s' => (a, s')) else none) with
    | some (a, s') =>
      let nm := actName a
      let seen := if lossy.contains nm && !r.seen.contains nm then nm :: r.seen else r.seen
      runPol stp prio allowed fuel { s := s', seen := seen }
    | none => r

def noStop (_ : State) (a : Act) : Bool := a != .stop
def noTick (a : Act) : Bool := match a with | .node _ .tick => false | _ => true

structure Pred where
  returned : Bool
  leaked : Nat
  deliv : List (Nat × Nat)   -- (node index, delivered) per output node
  lostIngest : Nat
  lostAt : List (Nat × Nat)  -- (node index, lost) for nodes that lost something
  failed : Bool
  crashed : Bool
  seen : List String

def isOutput : Kind → Bool
  | .post | .alert _ | .influx _ => true
  | _ => false

/-- `decl`: walk index → declaration index (the index the harness reports outputs under). -/
def predOf (decl : List Nat) (r : Run) : Pred :=
  let s := r.s
  let ns := s.nodes.zipIdx.map (fun p => (p.1, decl.getD p.2 p.2))
  { returned := s.ph = .finished
    leaked := (ns.filter (fun p => !p.1.done)).length + (ns.filter (fun p => !p.1.helperDone)).length + (if s.thrDone then 0 else 1)
    deliv := (ns.filter (fun p => isOutput p.1.kind)).map (fun p => (p.2, p.1.deliv))
    lostIngest := s.lostIngest
    lostAt := (ns.filter (fun p => p.1.lost + p.1.dropped > 0 || (p.1.done && p.1.inq > 0))).map (fun p => (p.2, p.1.lost + p.1.dropped + p.1.inq))
    failed := s.nodes.any (fun nd => nd.failed)
    crashed := s.nodes.any (fun nd => nd.panicked)
    seen := r.seen }

/-- Replay the class of the case under one of the two extreme policies. -/
def simulate (stp : State → Act → Option State) (decl : List Nat) (kinds : List Kind) (cls : Class) (n : Nat) (pol : Nat) : Pred :=
  let predOf := predOf decl
  let fuel := 40 * (n + 10) * (kinds.length + 3) + 1000
  let s0 := init kinds n
  let stopFirst := pol == 0
  let prio := if pol == 0 then prioStop else if pol == 1 then prioPipe else prioFail
  let all := fun (_ : State) (a : Act) => noTick a
  match cls with
  | .drained =>
    let r := runPol stp prio (fun s a => noStop s a && noTick a) fuel { s := s0 }
    predOf (runPol stp prio all fuel r)
  | .gated =>
    let r1 := runPol stp prioPipe (fun s a => noStop s a && noTick a && !gateBlocks s a) fuel { s := s0 }
    let r2 := runPol stp prioStop (fun s a => noTick a && !gateBlocks s a) fuel r1
    predOf (runPol stp prio all fuel r2)
  | .immediate =>
    -- all writes return first (with as little / as much pipeline progress as the policy wants)
    let rec writes (fuel : Nat) (r : Run) : Run :=
      match fuel with
      | 0 => r
      | f + 1 =>
        if r.s.toWrite = 0 then r else
        let r' := runPol stp (if stopFirst then prioStop else prioPipe) (fun s a => noStop s a && noTick a) 1 r
        writes f r'
    let r1 := if stopFirst then writes fuel { s := s0 } else runPol stp prio (fun s a => noStop s a && noTick a) fuel { s := s0 }
    predOf (runPol stp prio all fuel r1)
  | .early =>
    predOf (runPol stp prio all fuel { s := s0 })

def between (x a b : Nat) : Bool := (min a b ≤ x) && (x ≤ max a b)

/-- A parsed topology: the nodes in the task's WALK order (index 0 = the stream source). -/
structure Topo where
  kinds : List Kind
  shapes : List NodeShape     -- without the source
  par : List Nat              -- parent (walk index) of every node
  decl : List Nat             -- walk index → declaration index
  fork : Bool

def parseChainTopo (chainT : String) : Option Topo := do
  let toks ← (chainT.splitOn ",").mapM parseNode
  let n := toks.length + 1
  pure { kinds := Kind.pass :: toks.map (·.kind), shapes := toks.map (·.shape), par := Tree.chainPar n, decl := List.range n, fork := false }

/-- `prefix;branch;branch…`: every branch hangs below the last node of the prefix. Pipeline.sort() (reverse
post-order of a DFS over Children()) puts the branches in REVERSE declaration order; `n.outs` of the forking node
are linked in that order. The harness reports the real walk order (`w:` token), the driver compares. -/
def parseForkTopo (chainT : String) : Option Topo := do
  let pre :: brs := chainT.splitOn ";" | none
  let preT ← (pre.splitOn ",").mapM parseNode
  let brT ← brs.mapM (fun b => (b.splitOn ",").mapM parseNode)
  let m := preT.length
  -- (declaration index, token) per branch, in declaration order
  let brDecl := (brT.foldl (fun (acc : Nat × List (List (Nat × NodeTok))) b =>
      (acc.1 + b.length, acc.2 ++ [b.zipIdx.map (fun p => (acc.1 + p.2, p.1))])) (m + 1, [])).2
  -- (declaration index, token, parent walk index) in walk order
  let init : List (Nat × NodeTok × Nat) := preT.zipIdx.map (fun p => (p.2 + 1, p.1, p.2))
  let all := brDecl.reverse.foldl (fun acc b =>
      let start := acc.length + 1
      acc ++ b.zipIdx.map (fun q => (q.1.1, q.1.2, if q.2 = 0 then m else start + q.2 - 1))) init
  pure { kinds := Kind.pass :: all.map (·.2.1.kind), shapes := all.map (·.2.1.shape), par := 0 :: all.map (·.2.2),
         decl := 0 :: all.map (·.1), fork := true }

/-- Topologies with a union / join node (several PARENTS): no model, the property on the observed outcome only.
an output below a union must have been handed every accepted point once per parent that lets it through, below a join once. -/
def judgeMerge (l chainT clsT stopT : String) (obs : List String) : Verdict := Id.run do
  let parts := chainT.splitOn ";"
  let some last := parts.getLast? | return .badop l
  -- head of the merging part: union | join | ojoin:<lag> (OUTER join with .fill) | lunion:<lag>; with a lag every branch
  -- but the first ends in a filter that keeps its last <lag> points out: the merging node still BUFFERS the sets /
  -- points of the leading parent when its input ends and has to flush them (JoinNode.Finish -> emitAll, UnionNode.Finish ->
  -- emitReady(true)) before it closes its child edge
  let headT : String := (((last.splitOn ",").headD "").splitOn "=").getD 1 ""
  let (headK, lag) := match headT.splitOn ":" with
    | [k, l] => (k, l.toNat?.getD 0)
    | _ => (headT, 0)
  let isUnion := headK == "union" || headK == "lunion"
  let nbranch := parts.length - 2
  let before := ((parts.dropLast.map (fun p => (p.splitOn ",").length)).foldl (· + ·) 0)   -- nodes declared before the merging node
  match obs with
  | ["panic"] => return .specfail "no-crash" "the real code panicked (the harness child process died) on a union/join topology"
  | ["stuck"] => return .specfail "stop-completes" "the harness child process got stuck on a union/join topology"
  | accT :: stopres :: censusT :: outsT :: _lateT :: nodeErrT :: _ =>
    let some acc := accT.toNat? | return .badop l
    let some census := censusT.toNat? | return .badop l
    let some outs := parseOuts outsT | return .badop l
    let outcome : Outcome :=
      { accepted := acc, returned := stopres == "ok" || stopres == "err", leaked := census,
        delivered := outs.map (fun o => acc - o.missing), nodeFailed := nodeErrT == "1" }
    let detail := s!"union/join topology: observed acc={acc} stop={stopres} census={census} outs={outsT} nodeerr={nodeErrT}"
    match failingClause outcome with
    | some clause => return .specfail clause detail
    | none =>
      if nodeErrT == "1" then return .specfail "stop-completes" s!"a node of a healthy union/join pipeline failed: {detail}"
      -- the buffering join on the model (Model/C07Buf.lean; two parents): what the child edge was handed when the node returned
      let joinModel : Option Nat := if headK == "ojoin" && nbranch == 2 then
          some (Buf.run false (Buf.init acc (acc - lag)) (Buf.canon acc)).e else none
      for o in outs do
        let below := o.idx > before
        -- a lagging union hands the points of the leading parent once and those the other parents let through once each
        let want := if below && isUnion then acc + (nbranch - 1) * (acc - lag) else acc
        if o.distinct != acc || o.total != want then
          return .specfail "accepted-points-delivered" s!"output {o.idx} must have been handed every accepted point ({want} deliveries, {acc} distinct; lag {lag} of the other parents: the merging node has to flush what it still buffers when its input ends): {detail}"
        if below then
          match joinModel with
          | some e => if o.total != e then return .mismatch s!"the join model (Model/C07Buf.lean) emits {e} sets, output {o.idx} got {o.total}: {detail}"
          | none => pure ()
      let tags := if lag > 0 then ["buffering-merge", s!"lag{min lag 3}"] else []
      return .ok true ((if joinModel.isSome then ["merge-join-model"] else ["merge-spec-only"]) ++ [headK, clsT, stopT] ++ tags)
  | _ => return .mismatch s!"the harness could not run the union/join case: {l}"

def judge (_id : String) (lines : Array String) : Verdict := Id.run do
  if lines.size != 1 then return .badop s!"expected one op line, got {lines.size}"
  let l := lines[0]!
  let (opT, obs) := splitObs (tokens l)
  -- thorough tier: the summary of the cases that were repeated under the Go race detector
  if opT == ["race"] then
    match obs with
    | [k, races] =>
      if races == "0" then return .ok (k != "0") ["race-detector-run"]
      else return .specfail "no-data-race" s!"the Go race detector reported {races} data race(s) in {k} real-task cases (stderr of the check)"
    | _ => return .mismatch s!"the race-detector run could not be made: {obs}"
  let [_, chainT, stopT, clsT, nT] := opT | return .badop l
  if chainT.contains '=' then return judgeMerge l chainT clsT stopT obs
  let isFork := chainT.contains ';'
  let some topo := (if isFork then parseForkTopo chainT else parseChainTopo chainT) | return .badop l
  let some stop := parseStop stopT | return .badop l
  let some cls := parseClass clsT | return .badop l
  let some n := parseN nT | return .badop l
  let kinds := topo.kinds
  let keyed := keyedOf chainT
  let input : Input := { chain := topo.shapes, stop := stop, cls := cls, n := n }
  let cfg : Cfg := { cap := edgeCap, viaClose := stop == .close, hookLock := false, alertLeak := false }
  -- model predictions for this class: forks on the tree model, chains on the chain model
  let stp : State → Act → Option State := if isFork then Tree.step cfg topo.par else step cfg
  let pS := simulate stp topo.decl kinds cls n 0
  let pP := simulate stp topo.decl kinds cls n 1
  let hasFail := topo.shapes.any (· == .failing)
  let pF := if hasFail then simulate stp topo.decl kinds cls n 2 else pP
  -- the tree model on the chain topology is the chain model
  if !isFork then
    let tS := simulate (Tree.step cfg topo.par) topo.decl kinds cls n 0
    let tF := if hasFail then simulate (Tree.step cfg topo.par) topo.decl kinds cls n 2 else tS
    let same (a b : Pred) : Bool := a.returned == b.returned && a.leaked == b.leaked && a.deliv == b.deliv &&
      a.lostIngest == b.lostIngest && a.lostAt == b.lostAt && a.failed == b.failed && a.crashed == b.crashed && a.seen == b.seen
    if !(same tS pS) || (hasFail && !(same tF pF)) then
      return .mismatch s!"the tree model on the chain topology differs from the chain model: chain deliv={pS.deliv} lost={pS.lostAt} returned={pS.returned}; tree deliv={tS.deliv} lost={tS.lostAt} returned={tS.returned}"
  -- Barrier nodes put CONTROL messages (BarrierMessage from the timer goroutine into the child edge, DeleteGroup into
  -- the node's own input edge and on downstream) into the same bounded edges; the model does not count them. Against
  -- blocked outputs they take slots away from points, so fewer points fit below the TaskMaster's ingest edge than the
  -- model says and StopTask/DeleteTask lose the rest at the ingest (the recorded finding; never under Close, which
  -- drains that edge). For such chains the prediction is widened by a stop-first run with every edge `ctlSlack` slots
  -- smaller (witness: corpus finding-ingest…barrier-control-messages, class `gatedslow`).
  let ctlSlack := 40
  let barrierCtl := kinds.any isBarrier && stop != .close && (cls == .gated || cls == .immediate) && !isFork
  let pB := if barrierCtl then simulate (step { cfg with cap := edgeCap - ctlSlack }) topo.decl kinds cls n 0 else pS
  -- (coverage tag only) a barrier().period().delete(TRUE) node under back-pressure: its own input edge can be full when
  -- its timer fires. It used to deadlock there (periodicBarrier.DeleteGroup -> Stop -> wg.Wait for the timer goroutine
  -- blocked on that edge; repaired by 93b2e57, witness corpus/C07/fixed-periodic-barrier-delete-deadlock.ops); a hang
  -- of such a chain is a violation like any other.
  let pbDead := !isFork && (chainT.splitOn ",").any (·.startsWith "pbarrier:") && (cls == .gated || cls == .immediate)
  let canHang := !pS.returned || !pP.returned || !pF.returned
  let mustHang := !pS.returned && !pP.returned && !pF.returned
  let anyFailed := pS.failed || pP.failed || pF.failed
  let mut br : List String := [clsT, stopT] ++ (kinds.drop 1 |>.map (fun k => match k with
      | .barrier _ => "k-barrier" | .pass => "k-pass" | .post => "k-post" | .alert _ => "k-alert" | .influx _ => "k-influx" | .udf => "k-udf" | .fail _ => "k-fail" | .loop => "k-loop")).eraseDups
  for nm in (pS.seen ++ pP.seen).eraseDups do br := br ++ [nm]
  if pS.lostIngest > 0 || pP.lostIngest > 0 then br := br ++ ["ingest-loss"]
  if !pS.lostAt.isEmpty || !pP.lostAt.isEmpty then br := br ++ ["node-loss"]
  if canHang then br := br ++ ["model-hang"]
  if anyFailed then br := br ++ ["node-failed"]
  if pS.deliv == pP.deliv && pF.deliv == pP.deliv then br := br ++ ["deterministic"] else br := br ++ ["interval"]
  if n > edgeCap then br := br ++ ["backlog>cap"]
  if barrierCtl then br := br ++ ["barrier-ctl-slack"]
  if pbDead then br := br ++ ["pbarrier-backpressure"]
  if isFork then br := br ++ ["fork-tree-model", if anyFailed then "fork-branch-failed" else "fork-healthy"]
  else br := br ++ ["tree=chain"]
  -- fork cases: the harness reports the walk order of the real task after the six observation tokens
  let (obs, walkT) := if isFork && obs.length == 7 then (obs.take 6, obs.getD 6 "") else (obs, "")
  if isFork && walkT != "" then
    let mine := "w:" ++ ".".intercalate (topo.decl.map toString)
    if walkT != mine then
      return .mismatch s!"walk order of the real task {walkT} differs from the model's topology {mine}"
  -- the observation
  match obs with
  | ["invalid"] => return .mismatch s!"the harness could not run the case: {l}"
  | ["panic"] =>
    -- the process died: the property is violated; no recorded deviation allows it
    let canCrash := pS.crashed || pP.crashed || pF.crashed
    return .specfail "no-crash" s!"the real code panicked (the harness child process died); model can crash: {canCrash}"
  | ["stuck"] => return .specfail "stop-completes" "the harness child process got stuck"
  | [accT, stopres, censusT, outsT, lateT, nodeErrT] =>
    let some acc := accT.toNat? | return .badop l
    let some census := censusT.toNat? | return .badop l
    let some outs := parseOuts outsT | return .badop l
    let some _late := lateT.toNat? | return .badop l
    let nodeErr := nodeErrT == "1"
    if acc != n then return .mismatch s!"accepted {acc} of {n} writes"
    let returned := stopres == "ok" || stopres == "err"
    let outcome : Outcome :=
      { accepted := acc, returned := returned, leaked := census,
        delivered := outs.map (fun o => acc - o.missing), nodeFailed := nodeErr }
    -- is the observation inside the model's interval?
    let inModel : Bool := Id.run do
      if returned && mustHang then return false
      if !returned && !canHang then return false
      if returned then
        if !(between census pS.leaked pP.leaked || between census pS.leaked pF.leaked) then return false
        if !(nodeErr == pS.failed || nodeErr == pP.failed || nodeErr == pF.failed) then return false
        if stopres == "err" && !nodeErr then return false
        for o in outs do
          match pS.deliv.lookup o.idx, pP.deliv.lookup o.idx, pF.deliv.lookup o.idx with
          | some a, some b, some c =>
            -- the model's UDF node is ONE stage; the real one is three goroutines (reader, process, forwarder)
            -- holding a message each, and Abort drops the two that are not in the forwarder
            -- the failing UDF counts EVERY message, the barrier / delete messages of a barrier node above it included
            -- (not in the model): it may die up to `ctlSlack` points earlier than `fail K` says
            let failCtl := if hasFail && kinds.any isBarrier then ctlSlack else 0
            let slack := (if isFork then 0 else 2 * ((kinds.take o.idx).filter (· == Kind.udf)).length) + failCtl
            let lo := match pB.deliv.lookup o.idx with | some d => min d (min a (min b c)) | none => min a (min b c)
            if !(lo ≤ o.total + slack && o.total ≤ max a (max b c)) then return false
            if o.total != o.distinct then return false
            if o.total + o.missing != acc && !nodeErr then return false
          | _, _, _ => return false
        if outs.length != pS.deliv.length then return false
      return true
    -- outputs with several destinations: per database, the accepted points it was handed (Write calls attempted there)
    let mut keyedNote := ""
    let mut keyedUnserved := false
    let mut keyedObs : List (Keyed × List (Bool × List Nat)) := []
    for kd in keyed do
      let some o := outs.find? (·.idx == kd.idx) | return .badop l
      let some pk := parseKeyedCalls o.calls | return .badop l
      if pk.length != kd.nkeys then return .badop l
      keyedObs := keyedObs ++ [(kd, pk)]
      let want := (List.range kd.nkeys).map (wantOf acc kd.nkeys)
      let handed := pk.map (fun p => p.2.foldl (· + ·) 0)
      let bad := unservedDestinations want handed
      if !bad.isEmpty then
        keyedUnserved := true
        keyedNote := keyedNote ++ s!"; output {kd.idx}: destinations {bad} of {kd.nkeys} (rejecting: {kd.rejects}) were NOT handed all their accepted points when the stop returned (handed {handed} of {want})"
    let detail := s!"observed acc={acc} stop={stopres} census={census} outs={outsT} nodeerr={nodeErrT}{keyedNote}; model stop-first returned={pS.returned} leaked={pS.leaked} deliv={pS.deliv} lostIngest={pS.lostIngest} lost={pS.lostAt}; pipeline-first returned={pP.returned} leaked={pP.leaked} deliv={pP.deliv} lostIngest={pP.lostIngest} lost={pP.lostAt}" ++ (if hasFail then s!"; failing-first deliv={pF.deliv} lost={pF.lostAt}" else "") ++ (if barrierCtl then s!"; control messages of the barrier node (edges {ctlSlack} slots smaller) deliv={pB.deliv} lostIngest={pB.lostIngest}" else "")
    match failingClause outcome with
    | some clause =>
      if !inModel then return .specfail clause detail
      -- explained by a recorded deviation?
      if clause == "stop-completes" then
        if devLoop input then return .known "loopback-stop-deadlock" detail
        return .specfail clause detail
      if clause == "accepted-points-delivered" then
        if devUdf input && (pS.lostAt.any (fun p => kinds[p.1]? == some .udf)) then
          return .known "udf-stop-aborts-backlog" detail
        if devIngest input && (pS.lostIngest > 0 || pB.lostIngest > 0) then return .known "ingest-edge-not-drained-on-stop" detail
        return .specfail clause detail
      return .specfail clause detail
    | none =>
      if keyedUnserved && returned && !nodeErr then return .specfail "accepted-points-delivered" detail
      if !inModel then return .mismatch detail
      -- the write-buffer model (Model/C07Wb.lean): per database the sizes of the Write calls, in order
      let mut wbNt := false
      for (kd, pk) in keyedObs do
        -- (a pipeline in which a node failed may have handed the output a part of the accepted points only: the
        -- arrivals the model is replayed on are not known then)
        let complete := outs.any (fun o => o.idx == kd.idx && o.total == acc && o.missing == 0)
        if !complete then
          br := br ++ ["wb-multikey", "wb-partial-input"]
          continue
        let sched := Wb.canon acc kd.nkeys []
        let before := Wb.run kd.cfg Wb.init sched.dropLast
        let fin := Wb.run kd.cfg Wb.init sched
        let mine := (List.range kd.nkeys).map (fun k => (kd.rejects.contains k, Wb.callSizes fin k))
        if mine != pk then
          return .mismatch s!"the write-buffer model (Model/C07Wb.lean) makes the Write calls {mine} per database (rejecting, sizes), the client of output {kd.idx} saw {pk}: {detail}"
        let rem := (List.range kd.nkeys).filter (fun k => !(before.buf k).isEmpty)
        let rejRem := rem.filter (fun k => kd.rejects.contains k)
        br := br ++ ["wb-multikey", if kd.rejects.isEmpty then "wb-all-healthy" else "wb-some-reject"]
        br := br ++ [if rem.isEmpty then "wb-final-flush-empty" else if rem.length == 1 then "wb-final-flush-1" else "wb-final-flush-several"]
        if !rejRem.isEmpty && rejRem.length < rem.length then
          br := br ++ ["wb-reject-in-final-flush"]
          wbNt := true
        if !rejRem.isEmpty && rejRem.length == rem.length then br := br ++ ["wb-final-flush-all-rejected"]
        if kd.rejects.any (fun k => (Wb.callSizes before k).length > 0) then br := br ++ ["wb-reject-at-threshold"]
        if fin.errors > 0 && fin.written > 0 then br := br ++ ["wb-errors-and-writes"]
      let nt := (cls != Class.drained && n > 0) || cls == Class.early || anyFailed || wbNt
      return .ok nt br.eraseDups
  | _ => return .badop l

end Kap.C07.Drv

def main : IO Unit := Kap.driverMain Kap.C07.Drv.judge
