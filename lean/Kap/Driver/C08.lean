/-
Driver for C08. Reads the cases printed by the Go harness (which ran the REAL alert service / TaskMaster over a
real Bolt file, restarted on a copy of the file taken at each transaction boundary and continued), and for every
crash point
  1. evaluates the property (Kap/Spec/C08.lean) on the OBSERVED dumps of the two real runs  → SPECFAIL / KNOWN,
  2. compares every observed dump with the model's (Kap/Model/C08.lean)                      → MISMATCH.
-/
import Kap.Spec.C08
import Kap.Driver.C08Mig
open Kap Kap.C08

namespace Kap.C08.Drv

abbrev Dump := List (String × List ES)

def parseES (tok : String) : Option ES :=
  match tok.splitOn "|" with
  | [i, l, t] => do
    let id ← unesc i; let lv ← l.toNat?; let tm ← t.toInt?
    pure { id := id, level := lv, time := { time := tm } }
  | [i, l, t, d, m, x] => do     -- duration / message / details are printed only when one of them is not empty
    let id ← unesc i; let lv ← l.toNat?; let tm ← t.toInt?
    pure { id := id, level := lv, time := { time := tm, duration := ← d.toInt?, message := ← unesc m, details := ← unesc x } }
  | _ => none

def parseDump (tok : String) : Option Dump :=
  if tok == "-" then some [] else
  (tok.splitOn ";").mapM fun part =>
    match part.splitOn "=" with
    | [T, l] => do
      let T ← unesc T
      let es ← if l == "-" then some [] else (l.splitOn ",").mapM parseES
      pure (T, es)
    | _ => none

def sortES (l : List ES) : List ES := l.mergeSort (fun a b => decide (a.id ≤ b.id))
def sortTopics (d : Dump) : Dump := d.mergeSort (fun a b => decide (a.1 ≤ b.1))
/-- canonical form of a state dump (entries by id) -/
def canon (d : Dump) : Dump := sortTopics (d.map fun (T, es) => (T, sortES es))
/-- canonical form of a handler log dump (entries keep their order) -/
def canonLog (d : Dump) : Dump := sortTopics d

def renderES (e : ES) : String :=
  if e.time.duration == 0 && e.time.message.isEmpty && e.time.details.isEmpty then s!"{esc e.id}|{e.level}|{e.time.time}"
  else s!"{esc e.id}|{e.level}|{e.time.time}|{e.time.duration}|{esc e.time.message}|{esc e.time.details}"

/-- the state of an id in a dump, whole -/
def stOf (d : Dump) : String → String → Option ES := fun T id =>
  match d.find? (·.1 == T) with
  | some (_, es) => es.find? (·.id == id)
  | none => none

/-- a dump reduced to what the node-level model computes (id, level, time) -/
def proj (d : Dump) : Dump := d.map fun (T, es) => (T, es.map fun e => { e with time := { time := e.time.time } })
def renderDump (d : Dump) : String :=
  if d.isEmpty then "-" else
  ";".intercalate (d.map fun (T, es) => esc T ++ "=" ++ (if es.isEmpty then "-" else ",".intercalate (es.map renderES)))

def dumpOfStore (st : Store) (topics ids : List String) : Dump :=
  canon (topics.map fun T => (T, ids.filterMap (st T)))

def dumpOfTold (evs : List Ev) (topics : List String) : Dump :=
  canonLog (topics.map fun T => (T, (evs.filter (·.topic == T)).map fun e => { id := e.id, level := e.level, time := e.time }))

def lvOf (d : Dump) : Lv := fun T id =>
  match d.find? (·.1 == T) with
  | some (_, es) => (match es.find? (·.id == id) with | some e => e.level | none => 0)
  | none => 0

def presentIn (d : Dump) (T id : String) : Bool :=
  match d.find? (·.1 == T) with
  | some (_, es) => es.any (·.id == id)
  | none => false

def evsOf (d : Dump) : List Ev :=
  d.flatMap fun (T, es) => es.map fun e => { topic := T, id := e.id, level := e.level, time := e.time }

def idsOf (d : Dump) : List String := d.flatMap fun (_, es) => es.map (·.id)

def dedup (l : List String) : List String := l.foldl (fun acc x => if acc.contains x then acc else acc ++ [x]) []

/-- observation sections: `kw dump kw dump …` -/
def sections (obs : List String) : Option (List (String × Dump)) :=
  let rec go : List String → Option (List (String × Dump))
    | [] => some []
    | kw :: d :: rest => do
      let dd ← parseDump d
      let r ← go rest
      pure ((kw, dd) :: r)
    | _ => none
  go obs

def sec (s : List (String × Dump)) (kw : String) : Dump := ((s.find? (·.1 == kw)).map (·.2)).getD []

inductive Mode where
  | svc (topics : List String)
  | node (cfg : Cfg)

def anonName : String := "verif:c08task:alert2"
def namedName : String := "named"

def parseMode (ts : List String) : Option Mode :=
  match ts with
  | "mode" :: "svc" :: topics => (topics.mapM unesc).map Mode.svc
  | ["mode", "node", a, n, s, r] =>
    some (.node { anon := if a == "1" then some anonName else none, named := if n == "1" then some namedName else none,
                  sco := s == "1", noRec := r == "1" })
  | _ => none

def parseOp (ts : List String) : Option Op :=
  match ts with
  | ["collect", T, i, l, t] => do pure (.collect (← unesc T) (← unesc i) (← l.toNat?) { time := ← t.toInt? })
  | ["update", T, i, l, t] => do pure (.update (← unesc T) (← unesc i) (← l.toNat?) { time := ← t.toInt? })
  | ["collect", T, i, l, t, d, m, x] => do
    pure (.collect (← unesc T) (← unesc i) (← l.toNat?) { time := ← t.toInt?, duration := ← d.toInt?, message := ← unesc m, details := ← unesc x })
  | ["update", T, i, l, t, d, m, x] => do
    pure (.update (← unesc T) (← unesc i) (← l.toNat?) { time := ← t.toInt?, duration := ← d.toInt?, message := ← unesc m, details := ← unesc x })
  | ["close", T] => do pure (.closeTopic (← unesc T))
  | ["restore", T] => do pure (.restoreTopic (← unesc T))
  | ["deltopic", T] => do pure (.deleteTopic (← unesc T))
  | _ => none

def parseNOp (ts : List String) : Option NOp :=
  match ts with
  | ["point", i, l, t] => do pure (.point (← unesc i) (← l.toNat?) { time := ← t.toInt? })
  | ["point", i, l, t, _note] => do pure (.point (← unesc i) (← l.toNat?) { time := ← t.toInt? })   -- the note tag only feeds the message template
  | ["taskrestart"] => some .taskRestart
  | _ => none

def _root_.Kap.C08.Op.topic : Op → String
  | .collect T .. | .update T .. | .closeTopic T | .restoreTopic T | .deleteTopic T => T
def _root_.Kap.C08.Op.id? : Op → Option String
  | .collect _ i .. | .update _ i .. => some i
  | _ => none

structure Acc where
  known : Option (String × String) := none
  mm : Option String := none        -- first model/implementation disagreement (reported only if no clause of the spec fails)
  branches : List String := []
  nontrivial : Bool := false

def Acc.mismatch (a : Acc) (d : String) : Acc := if a.mm.isSome then a else { a with mm := some d }

def Acc.br (a : Acc) (b : String) : Acc := if a.branches.contains b then a else { a with branches := a.branches ++ [b] }

def keysOf (topics ids : List String) : List (String × String) := topics.flatMap fun T => ids.map fun i => (T, i)

def showKeys (ks : List (String × String)) : String := ",".intercalate (ks.map fun (T, i) => esc T ++ "/" ++ esc i)

/-- Compare the six dumps of a crash line with the model's. -/
def cmpDumps (what : String) (pairs : List (String × Dump × Dump)) : Option String :=
  match pairs.find? (fun (_, o, m) => o != m) with
  | some (kw, o, m) => some s!"{what} {kw}: model {renderDump m} observed {renderDump o}"
  | none => none

/-! ### service-level cases -/

def levelsAre (lv : Lv) (ops : List Op) (keys : List (String × String)) : Bool :=
  keys.all fun (T, id) => lv T id == lastLevel ops T id

/-- One `crash`/`crash2` line of a service-level case: `cs` = the crash points `(k, m, post)`, each relative to the
operations remaining after the previous one. -/
def judgeSvcCrash (topics ids : List String) (fops : List FOp) (unint : Option Dump) (cs : List (Nat × Nat × Bool))
    (what : String) (obs : List String) (acc : Acc) : Except Verdict Acc := do
  -- walk the crash points on the model
  let mut s : Svc := {}
  let mut c : Svc := {}
  let mut remaining := fops
  let mut rec_ : List Op := []
  let mut seen : List Op := []          -- everything the handlers/memory saw complete before the last crash (failed persists too)
  let mut present := true
  let mut windowKeys : List (String × String) := []
  let mut lastDone := true
  let mut classes : List String := []
  for (k, m, post) in cs do
    if present then
      let micros := ((remaining[k]?).map FOp.micros).getD []
      let j? : Option Nat := if m == 0 then (if post && k < remaining.length then some micros.length else none)
                             else txIndex Micro.isTx micros m post
      match j? with
      | none => present := false
      | some j =>
        let done := j == micros.length
        lastDone := done
        c := fcrashAt s remaining k j
        rec_ := rec_ ++ effective (remaining.take k ++ (if done then (remaining[k]?).toList else []))
        seen := seen ++ (remaining.take k ++ (if done then (remaining[k]?).toList else [])).map (·.1)
        let inWin := !post && (match micros[j]?, (if j == 0 then none else micros[j - 1]?) with
          | some x, some (.notify ..) => x.isTx
          | _, _ => false)
        if inWin then
          match (remaining[k]?).bind (fun f => f.1.id?.map fun i => (f.1.topic, i)) with
          | some key => windowKeys := key :: windowKeys
          | none => pure ()
        classes := classes ++ [if m == 0 then "crash-after-op" else if post then "crash-post-commit" else
                               if inWin then "crash-in-window" else "crash-pre-commit-silent"]
        s := c.restart
        remaining := remaining.drop (k + 1)
  if obs == ["none"] then
    if present then return acc.mismatch s!"{what}: the model has this crash point, the implementation had no such transaction"
    else return acc.br "crash-point-absent"
  if obs == ["panic"] then throw (.specfail "restart-panics" what)
  if obs == ["openerr"] then throw (.specfail "restart-fails" s!"{what}: the service does not open on the storage as it stood")
  let some ss := sections obs | return acc.mismatch s!"{what}: unparsable observation"
  if !present then return acc.mismatch s!"{what}: the implementation had a transaction the model does not have"
  let r := frun s remaining
  let resume := canon (sec ss "resume"); let rdisk := canon (sec ss "rdisk")
  let final := canon (sec ss "final"); let fdisk := canon (sec ss "fdisk")
  let toldb := canonLog (sec ss "toldb"); let tolda := canonLog (sec ss "tolda")
  let ids := dedup (ids ++ idsOf resume ++ idsOf rdisk ++ idsOf final ++ idsOf fdisk)
  let keys := keysOf topics ids
  let anyFail := fops.any (fun f => f.2 != 0)
  let survDisk := rec_ ++ effective remaining            -- what the disk must hold at the end
  let survMem := rec_ ++ remaining.map (·.1)              -- what the running service believes at the end
  -- 1. the property on the observed output
  let badDisk := keys.filter fun (T, i) =>
    lvOf rdisk T i != lastLevel rec_ T i || presentIn rdisk T i != recordExpected rec_ T i ||
    lvOf fdisk T i != lastLevel survDisk T i || presentIn fdisk T i != recordExpected survDisk T i
  if !badDisk.isEmpty then
    throw (.specfail "disk-tracks-last-non-ok" s!"{what}: {showKeys badDisk} rdisk {renderDump rdisk} fdisk {renderDump fdisk}")
  if !levelsAre (lvOf resume) rec_ keys then
    throw (.specfail "resume-level" s!"{what}: resumed {renderDump resume}")
  -- every state shown — on disk and in memory, right after the restart and at the end — is the state last
  -- recorded for that id, in ALL its fields (level, time, duration, message, details)
  if !statesOK (stOf rdisk) rec_ keys || !statesOK (stOf resume) rec_ keys || !statesOK (stOf fdisk) survDisk keys then
    throw (.specfail "final-state-equals-uninterrupted" s!"{what}: a stored/resumed state is not the state last recorded: resume {renderDump resume} rdisk {renderDump rdisk} fdisk {renderDump fdisk}")
  if !anyFail && !statesOK (stOf final) survMem keys then
    throw (.specfail "final-state-equals-uninterrupted" s!"{what}: final {renderDump final}")
  let live := keys.filter fun (T, _) => !dormant survMem T
  let expectFinal : Lv := match cs.length == 1 && lastDone && !anyFail, unint with
    | true, some u => lvOf u
    | _, _ => lastLevel survMem
  -- (with failed transactions in the history the running service may be ahead of or behind its disk by exactly
  -- the failed operations; what that means for the final memory is left to the tie with the model)
  if !anyFail && !finalOK (lvOf final) expectFinal live then
    throw (.specfail "same-final-state" s!"{what}: final {renderDump final}")
  let told := evsOf toldb ++ evsOf tolda
  let hk := live.filter fun (T, i) => !silent (seen ++ remaining.map (·.1)) T i
  let badH := hk.filter fun (T, i) => lastTold told T i != lvOf final T i
  let mut acc := acc
  if !badH.isEmpty then
    -- deviation clause: only ids whose Collect was in flight in a notify→transaction window, or whose persist
    -- failed, and exactly the violation the transcribed code (the model) exhibits on this input
    let failedKeys := fops.filterMap fun f => if f.2 != 0 then f.1.id?.map (fun i => (f.1.topic, i)) else none
    let predicted := fun (key : String × String) => lastTold r.told key.1 key.2 != r.mem.level key.1 key.2
    if badH.all (fun key => (windowKeys.contains key || failedKeys.contains key) && predicted key) then
      acc := { acc with known := acc.known <|> some ("notify-before-persist", s!"{what}: handlers of {showKeys badH} were told a level that never reached the disk") }
    else
      throw (.specfail "handlers-not-misled" s!"{what}: {showKeys badH} final {renderDump final} told {renderDump toldb} ++ {renderDump tolda}")
  -- 2. the tie: model = implementation
  match cmpDumps what [
      ("resume", resume, dumpOfStore s.mem topics ids), ("rdisk", rdisk, dumpOfStore c.disk topics ids),
      ("final", final, dumpOfStore r.mem topics ids), ("fdisk", fdisk, dumpOfStore r.disk topics ids),
      ("toldb", toldb, dumpOfTold c.told topics), ("tolda", tolda, dumpOfTold (r.told.drop c.told.length) topics)] with
  | some d => acc := acc.mismatch d
  | none => pure ()
  for cl in classes do acc := acc.br cl
  if cs.length > 1 then acc := acc.br "two-crashes"
  if !windowKeys.isEmpty && badH.isEmpty then acc := acc.br "window-harmless"
  if keys.any (fun (T, i) => lvOf resume T i != 0) && !remaining.isEmpty then acc := { acc with nontrivial := true }
  if keys.any (fun (T, i) => lvOf resume T i != 0) then acc := acc.br "resume-non-ok"
  if keys.any (fun (T, i) => presentIn resume T i && lvOf resume T i == 0) then acc := acc.br "resume-ok-record"
  return acc

def svcOpBranch (s : Svc) (op : Op) : String :=
  match op with
  | .collect T _ l _ => (if s.closed T then "collect-on-closed-" else "collect-") ++ (if l == 0 then "ok-delete" else "put")
  | .update _ _ l _ => if l == 0 then "update-puts-ok" else "update"
  | .closeTopic _ => "close"
  | .restoreTopic T => if s.closed T then "restore-closed" else "restore-live"
  | .deleteTopic _ => "deltopic"

def parseCrash (ts : List String) : Option (List (Nat × Nat × Bool)) :=
  let one (k m ph : String) : Option (Nat × Nat × Bool) := do
    let k ← k.toNat?; let m ← m.toNat?
    if ph == "pre" then pure (k, m, false) else if ph == "post" then pure (k, m, true) else none
  match ts with
  | ["crash", k, m, ph] => do pure [← one k m ph]
  | ["crash2", k, m, ph, k2, m2, ph2] => do pure [← one k m ph, ← one k2 m2 ph2]
  | _ => none

def judgeSvc (topics : List String) (lines : Array String) : Verdict := Id.run do
  let mut fops : List FOp := []
  let mut acc : Acc := {}
  let mut unint : Option Dump := none
  let mut ids : List String := []
  for l in lines do
    let (opT, obs) := splitObs (tokens l)
    match opT with
    | "mode" :: _ => pure ()
    | ["uninterrupted"] =>
      let some ss := sections obs | return .mismatch "uninterrupted: unparsable observation"
      let s := frun {} fops
      let ops := fops.map (·.1)
      let eff := effective fops
      let mem := canon (sec ss "mem"); let disk := canon (sec ss "disk"); let told := canonLog (sec ss "told")
      let ids' := dedup (ids ++ idsOf mem ++ idsOf disk)
      let keys := keysOf topics ids'
      let bad := keys.filter fun (T, i) => lvOf disk T i != lastLevel eff T i || presentIn disk T i != recordExpected eff T i
      if !bad.isEmpty then return .specfail "disk-tracks-last-non-ok" s!"uninterrupted: {showKeys bad} disk {renderDump disk}"
      -- without any crash: every live topic shows the last level of every id (failed persists included: the
      -- running service is ahead of its disk, which only matters at the next restart)
      let badM := keys.filter fun (T, i) => !dormant ops T && lvOf mem T i != lastLevel ops T i
      if !badM.isEmpty && !fops.any (fun f => f.2 != 0) then return .specfail "same-final-state" s!"uninterrupted: memory of {showKeys badM} is not the last level: {renderDump mem}"
      if !statesOK (stOf disk) eff keys || (!fops.any (fun f => f.2 != 0) && !statesOK (stOf mem) ops keys) then
        return .specfail "final-state-equals-uninterrupted" s!"uninterrupted: a state shown is not the state last recorded (all fields): mem {renderDump mem} disk {renderDump disk}"
      match cmpDumps "uninterrupted" [("mem", mem, dumpOfStore s.mem topics ids'), ("disk", disk, dumpOfStore s.disk topics ids'),
                                      ("told", told, dumpOfTold s.told topics)] with
      | some d => acc := acc.mismatch d
      | none => pure ()
      unint := some mem
    | ["stalebak"] =>
      -- the storage as it stood when a process died during an earlier topic-store migration (its backup copy is
      -- still lying around): the service must open on it
      if obs == ["openerr"] then
        return .specfail "restart-fails" "stalebak: a left-over <db>.v1.bak keeps the alert service from opening"
      acc := acc.br "stale-backup-opens"
    | "crash" :: _ | "crash2" :: _ =>
      let some cs := parseCrash opT | return .badop l
      match judgeSvcCrash topics ids fops unint cs (" ".intercalate opT) obs acc with
      | .ok a => acc := a
      | .error v => return v
    | _ =>
      let (fail, opT') : Nat × List String := match opT with
        | "failtx" :: n :: rest => (n.toNat?.getD 99, rest)
        | _ => (0, opT)
      let isV1 := opT'.head? == some "v1"
      let opT'' := if isV1 then "update" :: opT'.drop 1 else opT'
      match parseOp opT'' with
      | some op =>
        if !topics.contains op.topic then return .badop s!"topic not declared in the mode line: {l}"
        if isV1 && fops.any (fun f => !(match f.1 with | .update .. => true | _ => false)) then return .badop s!"v1 lines must come first: {l}"
        let ntx := (op.micros.filter Micro.isTx).length
        if fail > ntx || fail > 1 then return .badop s!"failtx: no such transaction: {l}"
        let s := frun {} fops
        acc := acc.br (if isV1 then "v1-migrated" else svcOpBranch s op)
        if fail != 0 then acc := acc.br "persist-fails"
        if !obs.isEmpty then
          -- a failed persist must be reported to the caller, a successful one must not
          let reported := obs.getLast? == some "err"
          if reported != FOp.reportsError (op, fail) then
            return .specfail "persist-failure-reported" s!"op {fops.length} ({l}): error reported = {reported}"
          if obs.take 2 != ["tx", toString ntx] then acc := acc.mismatch s!"op {fops.length} ({l}): model has {ntx} transactions"
        fops := fops ++ [(op, fail)]
        match op.id? with
        | some i => ids := dedup (ids ++ [i])
        | none => pure ()
      | none => return .badop l
  match acc.mm, acc.known with
  | some d, _ => return .mismatch d
  | none, some (k, d) => return .known k d
  | none, none => return .ok acc.nontrivial acc.branches

/-! ### node-level cases -/

def _root_.Kap.C08.NOp.id? : NOp → Option String
  | .point i .. => some i
  | .taskRestart => none

/-- number of `Collect` transactions (a transaction whose predecessor sub-step is the handler notification) among
the first `j` sub-steps -/
def collectTxBefore (ms : List NMicro) (j : Nat) : Nat :=
  let rec go : List NMicro → Bool → Nat → Nat → Nat
    | [], _, _, n => n
    | x :: rest, prevNotify, pos, n =>
      if pos ≥ j then n else
      let isN := match x with | .svc (.notify ..) => true | _ => false
      go rest isN (pos + 1) (if x.isTx && prevNotify then n + 1 else n)
  go ms false 0 0

def nodeOpBranches (cfg : Cfg) (w : World) (op : NOp) : List String :=
  match op with
  | .taskRestart => ["taskrestart"]
  | .point id l _ =>
    match w.groups id with
    | some cur => [if emits cfg cur l then "emit" else if cfg.sco && cur == l then "suppressed-unchanged" else if cfg.noRec && l == 0 && cur != 0 then "suppressed-norecovery" else "quiet-ok"]
    | none =>
      let (cur, fix) := restoreEvent cfg w.svc id
      let a := cfg.anon.bind (fun T => w.svc.mem T id); let n := cfg.named.bind (fun T => w.svc.mem T id)
      [if fix.isEmpty then (if cur == 0 then "newgroup-ok" else "newgroup-restored") else
        (if a.isSome && n.isSome then "restore-anon-wins" else "restore-named-to-anon"),
       if emits cfg cur l then "emit" else if cfg.sco && cur == l then "suppressed-unchanged" else if cfg.noRec && l == 0 && cur != 0 then "suppressed-norecovery" else "quiet-ok"]

def judgeNodeCrash (cfg : Cfg) (topics ids : List String) (ops : List NOp) (unint : Option (Dump × Dump))
    (cs : List (Nat × Nat × Bool)) (what : String) (obs : List String) (acc : Acc) : Except Verdict Acc := do
  -- walk the crash points on the model
  let mut w : World := {}
  let mut c : World := {}
  let mut remaining := ops
  let mut processed : List NOp := []      -- points completely processed before the last crash (if all crashes were at boundaries)
  let mut present := true
  let mut allDone := true
  let mut split := false
  let mut windowT : List (String × String) := []   -- (topic, id) told while its transaction had not committed
  let mut inflightIds : List String := []
  let mut classes : List String := []
  let mut firstKJ : Option (Nat × Nat) := none    -- the (k, j) of the first crash, in terms of the whole history
  for (k, m, post) in cs do
    if present then
      let b := nrun cfg w (remaining.take k)
      let micros := ((remaining[k]?).map (nplan cfg b)).getD []
      let j? : Option Nat := if m == 0 then (if post && k < remaining.length then some micros.length else none)
                             else txIndex NMicro.isTx micros m post
      match j? with
      | none => present := false
      | some j =>
        let lastTx := (micros.drop j).all (fun x => !x.isTx)
        let done := j == micros.length || (post && lastTx)
        if !done then allDone := false
        c := nrunMicros b (micros.take j)
        if firstKJ.isNone then firstKJ := some (k, j)
        processed := processed ++ remaining.take k ++ (if done then (remaining[k]?).toList else [])
        let inflight := (remaining[k]?).bind NOp.id?
        let nCollectTx := collectTxBefore micros micros.length
        let doneCollectTx := collectTxBefore micros j
        let thisSplit := !done && nCollectTx == 2 && doneCollectTx == 1
        if thisSplit then split := true
        let inWindow : Option String :=
          if !post then
            match micros[j]?, (if j == 0 then none else micros[j - 1]?) with
            | some (.svc (.txPut T _)), some (.svc (.notify ..)) => some T
            | some (.svc (.txDel T _)), some (.svc (.notify ..)) => some T
            | _, _ => none
          else none
        if !done then
          match inflight with
          | some i => inflightIds := i :: inflightIds
          | none => pure ()
        match inWindow, inflight with
        | some T, some i => windowT := (T, i) :: windowT
        | _, _ => pure ()
        let cls : String :=
          if done then "crash-after-op" else if thisSplit then "crash-between-topics" else
          match inWindow with
          | some T => if T == anonName then "crash-in-window-anon" else "crash-in-window-named"
          | none => if post then "crash-post-update" else "crash-pre-update"
        classes := classes ++ [cls]
        w := c.restart cfg
        remaining := remaining.drop (k + 1)
  if obs == ["none"] then
    if present then return acc.mismatch s!"{what}: the model has this crash point, the implementation had no such transaction"
    else return acc.br "crash-point-absent"
  if obs == ["panic"] then throw (.specfail "restart-panics" what)
  if obs == ["openerr"] then throw (.specfail "restart-fails" s!"{what}: the service does not open on the storage as it stood")
  let some ss := sections obs | return acc.mismatch s!"{what}: unparsable observation"
  if !present then return acc.mismatch s!"{what}: the implementation had a transaction the model does not have"
  let r0 := w
  let r := nrun cfg r0 remaining
  -- whole states as observed (…F), and their (id, level, time) part, which is what the node-level model computes
  let resumeF := canon (sec ss "resume"); let rdiskF := canon (sec ss "rdisk")
  let finalF := canon (sec ss "final"); let fdiskF := canon (sec ss "fdisk")
  let resume := proj resumeF; let rdisk := proj rdiskF
  let final := proj finalF; let fdisk := proj fdiskF
  let toldb := canonLog (proj (sec ss "toldb")); let tolda := canonLog (proj (sec ss "tolda"))
  let ids := dedup (ids ++ idsOf resume ++ idsOf rdisk ++ idsOf final ++ idsOf fdisk)
  let keys := keysOf topics ids
  -- 1. the property on the observed output
  -- after a restart the memory is what the disk says
  let badLoad := keys.filter fun (T, i) => lvOf resume T i != lvOf rdisk T i
  if !badLoad.isEmpty then throw (.specfail "resume-level" s!"{what}: memory after restart differs from disk at {showKeys badLoad}")
  -- … and it is the WHOLE stored state (level, time, duration, message, details) of that id, nobody else's
  let badWhole := keys.filter fun (T, i) => stOf resumeF T i != stOf rdiskF T i
  if !badWhole.isEmpty then
    throw (.specfail "final-state-equals-uninterrupted" s!"{what}: the state resumed for {showKeys badWhole} is not the state stored for it: resume {renderDump resumeF} disk {renderDump rdiskF}")
  -- at the end memory and bucket hold the same whole state for every id that is not OK
  let badEnd := keys.filter fun (T, i) => lvOf fdisk T i != 0 && stOf finalF T i != stOf fdiskF T i
  if !badEnd.isEmpty then
    throw (.specfail "final-state-equals-uninterrupted" s!"{what}: memory and bucket disagree on {showKeys badEnd}: final {renderDump finalF} fdisk {renderDump fdiskF}")
  let toldBefore := evsOf toldb
  if allDone then
    -- every crash fell after a completed point: every id resumes, on every topic of the node, at the level the
    -- processed points left it at (= last announced), and ends where the uninterrupted run of all points ends
    let allOps := processed ++ remaining
    let badR := keys.filter fun (T, i) => lvOf resume T i != lastTold toldBefore T i ||
      lvOf resume T i != nodeLevel cfg.noRec processed i || lvOf final T i != nodeLevel cfg.noRec allOps i
    if !badR.isEmpty then throw (.specfail "resume-level" s!"{what}: {showKeys badR} resumed {renderDump resume} final {renderDump final} told {renderDump toldb}")
    match unint with
    | some (u, ud) =>
      if !finalOK (lvOf final) (lvOf (proj u)) keys then
        throw (.specfail "same-final-state" s!"{what}: final {renderDump final} uninterrupted {renderDump u}")
      -- the same final topic state as the uninterrupted run in ALL fields, in memory and as persisted (without
      -- `.noRecoveries()`: a recovery the node kept quiet restarts its duration clock, the restored state does not)
      if !cfg.noRec then
        let badF := keys.filter fun (T, i) => lvOf final T i != 0 && (stOf finalF T i != stOf u T i || stOf fdiskF T i != stOf ud T i)
        if !badF.isEmpty then
          throw (.specfail "final-state-equals-uninterrupted" s!"{what}: {showKeys badF} final {renderDump finalF} fdisk {renderDump fdiskF} uninterrupted {renderDump u} / {renderDump ud}")
    | none => pure ()
  let told := toldBefore ++ evsOf tolda
  let badH := keys.filter fun (T, i) => lastTold told T i != lvOf final T i
  let mut acc := acc
  match cs.length == 1 && cfg.anon.isSome && cfg.named.isSome, firstKJ with
  | true, some (k, j) =>
    -- the characterisation is EXACT: what it names must be observed misled (otherwise the tie is broken)
    let missed := keys.filter fun (T, i) => nodeMisledChar cfg.sco cfg.noRec ops k j (cfg.anon == some T) i && !badH.contains (T, i)
    if !missed.isEmpty then acc := acc.mismatch s!"{what}: characterised as misled but observed informed: {showKeys missed}"
    if keys.any (fun (T, i) => nodeMisledChar cfg.sco cfg.noRec ops k j (cfg.anon == some T) i) then acc := acc.br "characterised-misled"
    else if !allDone then acc := acc.br "inside-point-not-misled"
  | _, _ => pure ()
  if !badH.isEmpty then
    if allDone then
      throw (.specfail "handlers-not-misled" s!"{what}: {showKeys badH} final {renderDump final} told {renderDump toldb} ++ {renderDump tolda}")
    else if badH.all (fun (T, i) => inflightIds.contains i && (split || windowT.contains (T, i)) &&
        (match cs.length == 1 && cfg.anon.isSome && cfg.named.isSome, firstKJ with
          | true, some (k, j) =>
            -- one process death, node with both topics: the deviation clause is the PROVED characterisation
            -- (Props.C08.node_handlers_not_misled_except_characterised): a predicate on (history, k, j) and the
            -- exact (last word, final level) it predicts — no model run
            let isA := cfg.anon == some T
            nodeMisledChar cfg.sco cfg.noRec ops k j isA i &&
              (lastTold told T i, lvOf final T i) == nodeDeviation cfg.sco cfg.noRec ops k j isA
          | _, _ => lastTold r.svc.told T i != r.svc.mem.level T i)) then
      if split then
        acc := { acc with known := acc.known <|> some ("two-topic-split", s!"{what}: event recorded on the anonymous topic only; {showKeys badH} end in a level their handlers were not told") }
      else
        acc := { acc with known := acc.known <|> some ("notify-before-persist", s!"{what}: handlers of {showKeys badH} were told a level that never reached the disk") }
    else
      throw (.specfail "handlers-not-misled" s!"{what}: {showKeys badH} final {renderDump final} told {renderDump toldb} ++ {renderDump tolda}")
  -- 2. the tie
  match cmpDumps what [
      ("resume", resume, dumpOfStore r0.svc.mem topics ids), ("rdisk", rdisk, dumpOfStore c.svc.disk topics ids),
      ("final", final, dumpOfStore r.svc.mem topics ids), ("fdisk", fdisk, dumpOfStore r.svc.disk topics ids),
      ("toldb", toldb, dumpOfTold c.svc.told topics), ("tolda", tolda, dumpOfTold (r.svc.told.drop c.svc.told.length) topics)] with
  | some d => acc := acc.mismatch d
  | none => pure ()
  for cl in classes do acc := acc.br cl
  if cs.length > 1 then acc := acc.br "two-crashes"
  if keys.any (fun (T, i) => lvOf resume T i != 0) && !remaining.isEmpty then acc := { acc with nontrivial := true }
  if keys.any (fun (T, i) => lvOf resume T i != 0) then acc := acc.br "resume-non-ok"
  -- branches taken by the restarted run
  let mut ww := r0
  for op in remaining do
    for b in nodeOpBranches cfg ww op do
      if b.startsWith "restore-" || b == "newgroup-restored" then acc := acc.br ("restarted-" ++ b)
    ww := nstep cfg ww op
  return acc

def judgeNode (cfg : Cfg) (lines : Array String) : Verdict := Id.run do
  let topics := cfg.anon.toList ++ cfg.named.toList
  let mut ops : List NOp := []
  let mut acc : Acc := {}
  let mut unint : Option (Dump × Dump) := none
  let mut ids : List String := []
  for l in lines do
    let (opT, obs) := splitObs (tokens l)
    match opT with
    | "mode" :: _ => pure ()
    | ["uninterrupted"] =>
      let some ss := sections obs | return .mismatch "uninterrupted: unparsable observation"
      let w := nrun cfg {} ops
      let memF := canon (sec ss "mem"); let diskF := canon (sec ss "disk")
      let mem := proj memF; let disk := proj diskF; let told := canonLog (proj (sec ss "told"))
      let ids' := dedup (ids ++ idsOf mem ++ idsOf disk)
      let keys := keysOf topics ids'
      -- memory and bucket hold the same WHOLE state for every id that is not OK (also after graceful task restarts,
      -- which reload the anonymous topic from its bucket)
      let badW := keys.filter fun (T, i) => lvOf disk T i != 0 && stOf memF T i != stOf diskF T i
      if !badW.isEmpty then return .specfail "final-state-equals-uninterrupted" s!"uninterrupted: memory and bucket disagree on {showKeys badW}: mem {renderDump memF} disk {renderDump diskF}"
      -- uninterrupted run: what is on disk is the last announced level, and nothing is recorded for an id that is OK
      let bad := keys.filter fun (T, i) => lvOf disk T i != lastTold (evsOf told) T i || (presentIn disk T i && lvOf disk T i == 0) ||
        lvOf disk T i != nodeLevel cfg.noRec ops i || lvOf mem T i != nodeLevel cfg.noRec ops i
      if !bad.isEmpty then return .specfail "disk-tracks-last-non-ok" s!"uninterrupted: {showKeys bad} disk {renderDump disk} told {renderDump told}"
      match cmpDumps "uninterrupted" [("mem", mem, dumpOfStore w.svc.mem topics ids'), ("disk", disk, dumpOfStore w.svc.disk topics ids'),
                                      ("told", told, dumpOfTold w.svc.told topics)] with
      | some d => acc := acc.mismatch d
      | none => pure ()
      unint := some (memF, diskF)
    | "crash" :: _ | "crash2" :: _ =>
      let some cs := parseCrash opT | return .badop l
      match judgeNodeCrash cfg topics ids ops unint cs (" ".intercalate opT) obs acc with
      | .ok a => acc := a
      | .error v => return v
    | _ =>
      match parseNOp opT with
      | some op =>
        let w := nrun cfg {} ops
        for b in nodeOpBranches cfg w op do acc := acc.br b
        let ntx := ((nplan cfg w op).filter NMicro.isTx).length
        if !obs.isEmpty && obs != ["tx", toString ntx] then acc := acc.mismatch s!"op {ops.length} ({l}): model has {ntx} transactions"
        ops := ops ++ [op]
        match op.id? with
        | some i => ids := dedup (ids ++ [i])
        | none => pure ()
      | none => return .badop l
  match acc.mm, acc.known with
  | some d, _ => return .mismatch d
  | none, some (k, d) => return .known k d
  | none, none => return .ok acc.nontrivial acc.branches

def judge (_id : String) (lines : Array String) : Verdict :=
  match lines.toList.head? with
  | none => .badop "empty case"
  | some first =>
    if tokens first == ["mode", "mig"] then Kap.C08.MigDrv.judge lines else
    match parseMode (tokens first) with
    | some (.svc topics) => judgeSvc topics lines
    | some (.node cfg) => judgeNode cfg lines
    | none => .badop s!"first line must be the mode line: {first}"

end Kap.C08.Drv

def main : IO Unit := Kap.driverMain Kap.C08.Drv.judge
