/-
Driver part for the `mode mig` cases of C08 (crash points inside MigrateTopicStoreV1V2); see Kap/Model/C08Mig.lean.
-/
import Kap.Model.C08Mig
open Kap Kap.C08

namespace Kap.C08.MigDrv

def judge (_lines : Array String) : Verdict := .badop "mode mig: not implemented yet"

end Kap.C08.MigDrv
