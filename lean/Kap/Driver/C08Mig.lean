/-
Driver part for the `mode mig` cases of C08 (process deaths INSIDE MigrateTopicStoreV1V2); model: Kap/Model/C08Mig.lean,
harness: harness/c08/mig.go (which runs the REAL Service.Open on a real Bolt file, copies database and backup file at
every sub-step boundary of the migration, restarts a fresh service on each pair of copies).

Case format (first line exactly `mode mig`; the v1/v2/stale lines describe the files before the first Open wherever
they stand in the case):

    mode mig
    v1 <T> <id> <level> <time>    event state in the VERSION 1 layout (id may be `%` = empty)
    v2 <T> <id> <level> <time>    event state already in the V2 layout, version key unset (id non-empty)
    stale <0|1>                   a left-over <db>.v1.bak (a copy of the initial database) exists
    uninterrupted                 => <run>                      one Open on the initial files
    migcrash <j>                  => at <fs> re <run> | none    files after j sub-steps, then the restart on them
    migcrash2 <j1> <j2>           => at <fs> re <run> | none    second death after j2 sub-steps of the attempt restarted
                                                                after the first; <fs> = files at the second death
    migfail <n>                   => <run> re <run>             the n-th transaction of the migration fails (no crash),
                                                                then a second Open
    <run> = open <ok|err> mem <dump> <fs>  | panic
    <fs>  = ver <0|1|err> v1 <dump> v2 <dump> bak <0|1> bakdb <-| ver <0|1|err> v1 <dump> v2 <dump>>

Per line: 1. the property on the OBSERVED output (SPECFAIL `migration-restart`): the restarted service opens, and its
database is `Mig.migrated` of the INITIAL database (version key set, V1 layout empty, V2 = V1 laid over the old V2),
its memory shows exactly that V2 content, and no backup file is left, except when the version key was already set at
the crash (the call is skipped, the copy stays: branch `stale-backup-left`);
2. the tie (MISMATCH): files at the crash = `Mig.crashAt true`, result of the restart = `Mig.attempt true none`.
Non-trivial: a V1 record with a non-empty id and a crash point while the backup exists (2 ≤ j ≤ 5).
-/
import Kap.Model.C08Mig
open Kap Kap.C08

namespace Kap.C08.MigDrv

/-! helpers copied from Kap/Driver/C08.lean (that file imports this one) -/

abbrev Dump := List (String × List ES)

def parseES (tok : String) : Option ES :=
  match tok.splitOn "|" with
  | [i, l, t] => do
    let id ← unesc i; let lv ← l.toNat?; let tm ← t.toInt?
    pure { id := id, level := lv, time := { time := tm } }
  | _ => none

def parseDump (tok : String) : Option Dump :=
  if tok == "-" then some [] else
  (tok.splitOn ";").mapM fun part =>
    match part.splitOn "=" with
    | [T, l] => do
      let T ← unesc T
      let es ← if l == "-" then some [] else (l.splitOn ",").mapM parseES
      pure (T, es)
    | _ => none

def sortES (l : List ES) : List ES := l.mergeSort (fun a b => decide (a.id ≤ b.id))
def sortTopics (d : Dump) : Dump := d.mergeSort (fun a b => decide (a.1 ≤ b.1))
def canon (d : Dump) : Dump := sortTopics (d.map fun (T, es) => (T, sortES es))

def renderES (e : ES) : String := s!"{esc e.id}|{e.level}|{e.time.time}"
def renderDump (d : Dump) : String :=
  if d.isEmpty then "-" else
  ";".intercalate (d.map fun (T, es) => esc T ++ "=" ++ (if es.isEmpty then "-" else ",".intercalate (es.map renderES)))

def dumpOfStore (st : Store) (topics ids : List String) : Dump :=
  canon (topics.map fun T => (T, ids.filterMap (st T)))

def dedup (l : List String) : List String := l.foldl (fun acc x => if acc.contains x then acc else acc ++ [x]) []

/-! observed files -/

/-- content of one Bolt file as the harness read it -/
structure ODb where
  readable : Bool := true
  ver : Bool := false
  v1 : Dump := []
  v2 : Dump := []
deriving BEq

structure OFs where
  db : ODb
  bak : Option ODb
deriving BEq

/-- one process start -/
structure ORun where
  opened : Bool
  mem : Dump
  fs : OFs

def renderDb (d : ODb) : String :=
  if !d.readable then "unreadable" else s!"ver {boolTok d.ver} v1 {renderDump d.v1} v2 {renderDump d.v2}"

def renderFs (f : OFs) : String :=
  renderDb f.db ++ (match f.bak with | none => " bak -" | some b => s!" bak [{renderDb b}]")

def parseDb : List String → Option (ODb × List String)
  | "ver" :: b :: "v1" :: d1 :: "v2" :: d2 :: rest =>
    if b == "err" then some ({ readable := false }, rest) else do
      let v ← if b == "1" then some true else if b == "0" then some false else none
      let v1 ← parseDump d1; let v2 ← parseDump d2
      pure ({ ver := v, v1 := canon v1, v2 := canon v2 }, rest)
  | _ => none

def parseFs (ts : List String) : Option (OFs × List String) := do
  let (db, rest) ← parseDb ts
  match rest with
  | "bak" :: "0" :: "bakdb" :: "-" :: rest' => pure ({ db := db, bak := none }, rest')
  | "bak" :: "1" :: "bakdb" :: rest' => do
    let (b, r) ← parseDb rest'
    pure ({ db := db, bak := some b }, r)
  | _ => none

def parseRun : List String → Option (ORun × List String)
  | "open" :: o :: "mem" :: m :: rest => do
    let ok ← if o == "ok" then some true else if o == "err" then some false else none
    let mem ← parseDump m
    let (fs, r) ← parseFs rest
    pure ({ opened := ok, mem := canon mem, fs := fs }, r)
  | _ => none

/-- `at <fs> re <run>` -/
def parseCrashObs : List String → Option (OFs × ORun)
  | "at" :: rest => do
    let (a, r) ← parseFs rest
    match r with
    | "re" :: r' => do
      let (run, tail) ← parseRun r'
      if tail.isEmpty then pure (a, run) else none
    | _ => none
  | _ => none

/-! the model's files in the same shape -/

def ofDb (topics ids : List String) (db : Mig.Db) : ODb :=
  { ver := db.v2flag, v1 := dumpOfStore db.v1 topics ids, v2 := dumpOfStore db.v2 topics ids }

def ofFs (topics ids : List String) (fs : Mig.Fs) : OFs :=
  { db := ofDb topics ids fs.db, bak := fs.bak.map (ofDb topics ids) }

structure Acc where
  mm : Option String := none        -- first model/implementation disagreement (reported only if no clause of the spec fails)
  branches : List String := []
  nontrivial : Bool := false

def Acc.mismatch (a : Acc) (d : String) : Acc := if a.mm.isSome then a else { a with mm := some d }
def Acc.br (a : Acc) (b : String) : Acc := if a.branches.contains b then a else { a with branches := a.branches ++ [b] }

/-- The property on the observed result of a (re)start: `expect` = what the migration is supposed to make of the
INITIAL database. `verAtCrash`: the version key was already "2" on the files the service was started on. -/
def specRestart (clause what : String) (expect : ODb) (verAtCrash : Bool) (r : ORun) (acc : Acc) : Except Verdict Acc := do
  if !r.opened then
    throw (.specfail clause s!"{what}: the alert service does not open on the files as they stood ({renderFs r.fs})")
  if !r.fs.db.readable then throw (.specfail clause s!"{what}: the database is unreadable after the start")
  if r.fs.db != expect then
    throw (.specfail clause s!"{what}: database after the start is [{renderDb r.fs.db}], the migrated initial database is [{renderDb expect}]")
  if r.mem != expect.v2 then
    throw (.specfail clause s!"{what}: the started service shows {renderDump r.mem}, the migrated topic states are {renderDump expect.v2}")
  match r.fs.bak with
  | none => return acc
  | some _ =>
    -- version key already set at the crash: the call returns at once and the copy stays (harmless: the next
    -- migration, if there ever is one, removes it first)
    if verAtCrash then return acc.br "stale-backup-left"
    throw (.specfail clause s!"{what}: a backup file is left behind after a start that migrated")

/-- the tie for one process start -/
def cmpRun (what : String) (topics ids : List String) (r : ORun) (m : Mig.Fs × Bool) (acc : Acc) : Acc :=
  let mf := ofFs topics ids m.1
  if r.opened != m.2 then acc.mismatch s!"{what}: open ok = {r.opened}, model {m.2}"
  else if r.fs != mf then acc.mismatch s!"{what}: files after the start: model [{renderFs mf}] observed [{renderFs r.fs}]"
  else if r.opened && r.mem != mf.db.v2 then acc.mismatch s!"{what}: memory: model {renderDump mf.db.v2} observed {renderDump r.mem}"
  else acc

def parseRec (T i l t : String) : Option (String × ES) := do
  pure (← unesc T, { id := ← unesc i, level := ← l.toNat?, time := { time := ← t.toInt? } })

def judge (lines : Array String) : Verdict := Id.run do
  -- pass 1: the files before the first Open
  let mut v1 : List (String × ES) := []
  let mut v2 : List (String × ES) := []
  let mut stale := false
  for l in lines do
    match (splitObs (tokens l)).1 with
    | ["v1", T, i, lv, t] =>
      let some r := parseRec T i lv t | return .badop l
      v1 := v1 ++ [r]
    | ["v2", T, i, lv, t] =>
      let some r := parseRec T i lv t | return .badop l
      if r.2.id == "" then return .badop s!"v2 record with an empty id: {l}"
      v2 := v2 ++ [r]
    | ["stale", b] => stale := b == "1"
    | _ => pure ()
  let topics := dedup ((v1 ++ v2).map (·.1))
  let ids := dedup ((v1 ++ v2).map (·.2.id))
  let mk (rs : List (String × ES)) : Store := rs.foldl (fun s (T, e) => s.put T e) Store.empty
  let db0 : Mig.Db := { v2flag := false, v1 := mk v1, v2 := mk v2 }
  let fs0 : Mig.Fs := { db := db0, bak := if stale then some db0 else none }
  let expect := ofDb topics ids (Mig.migrated db0)
  let hasRec := v1.any (fun r => r.2.id != "")
  let exists? (fs : Mig.Fs) (j : Nat) : Bool := j ≤ (Mig.migSteps true fs).length
  let inWindow (j : Nat) : Bool := 2 ≤ j && j ≤ 5
  -- pass 2
  let mut acc : Acc := {}
  let mut judged := false
  for l in lines do
    let (opT, obs) := splitObs (tokens l)
    let what := " ".intercalate opT
    match opT with
    | ["mode", "mig"] | "v1" :: _ | "v2" :: _ | "stale" :: _ => pure ()
    | ["uninterrupted"] =>
      if obs == ["panic"] then return .specfail "restart-panics" what
      let some (run, []) := parseRun obs | return .mismatch s!"{what}: unparsable observation"
      match specRestart (if stale then "migration-restart" else "migration-completes") what expect false run acc with
      | .ok a => acc := a
      | .error v => return v
      acc := cmpRun what topics ids run (Mig.attempt true none fs0) acc
      acc := acc.br "uninterrupted"
      judged := true
    | ["migcrash", j] | ["migcrash2", j, _] =>
      let some j1 := j.toNat? | return .badop l
      let j2? : Option Nat := match opT with | [_, _, x] => x.toNat? | _ => none
      if opT.length == 3 && j2?.isNone then return .badop l
      -- the files at the (last) crash point, on the model
      let c1 := Mig.crashAt true fs0 j1
      let present := exists? fs0 j1 && (match j2? with | some j2 => exists? c1 j2 | none => true)
      let c := match j2? with | some j2 => Mig.crashAt true c1 j2 | none => c1
      if obs == ["none"] then
        if present then acc := acc.mismatch s!"{what}: the model has this crash point, the implementation did not get there"
        else acc := acc.br "crash-point-absent"
        continue
      if obs == ["panic"] then return .specfail "restart-panics" what
      let some (at_, run) := parseCrashObs obs | return .mismatch s!"{what}: unparsable observation"
      if !at_.db.readable then return .specfail "migration-restart" s!"{what}: the database is unreadable at the crash point"
      match specRestart "migration-restart" what expect at_.db.ver run acc with
      | .ok a => acc := a
      | .error v => return v
      if !present then
        acc := acc.mismatch s!"{what}: the implementation has a crash point the model does not have"
        continue
      let mc := ofFs topics ids c
      if at_ != mc then acc := acc.mismatch s!"{what}: files at the crash: model [{renderFs mc}] observed [{renderFs at_}]"
      acc := cmpRun what topics ids run (Mig.attempt true none c) acc
      match j2? with
      | none => acc := acc.br s!"mig-crash-j{j1}"
      | some j2 =>
        acc := acc.br "two-crashes"
        if (Mig.migSteps true c1).isEmpty then acc := acc.br "second-attempt-skipped"
        else if c1.bak.isSome && j2 ≥ 2 then acc := acc.br "second-attempt-replaces-backup"
      if hasRec && (inWindow j1 || (match j2? with | some j2 => inWindow j2 | none => false)) then
        acc := { acc with nontrivial := true }
      judged := true
    | ["migfail", n] =>
      let some n := n.toNat? | return .badop l
      if n < 1 || n > 3 then return .badop l
      if obs == ["panic"] then return .specfail "restart-panics" what
      let some (run1, "re" :: rest) := parseRun obs | return .mismatch s!"{what}: unparsable observation"
      let some (run2, []) := parseRun rest | return .mismatch s!"{what}: unparsable observation"
      match specRestart "migration-restart" s!"{what} (the start after the failed one)" expect false run2 acc with
      | .ok a => acc := a
      | .error v => return v
      let m1 := Mig.attempt true (some n) fs0
      acc := cmpRun s!"{what} (failing start)" topics ids run1 m1 acc
      acc := cmpRun s!"{what} (next start)" topics ids run2 (Mig.attempt true none m1.1) acc
      acc := acc.br s!"tx-fails-{n}"
      judged := true
    | _ => return .badop l
  if judged then
    if stale then acc := acc.br "stale-removed"
    if v1.any (fun r => r.2.id == "") then acc := acc.br "empty-id-skipped"
    if v2.any (fun r => r.2.id != "" && v1.any (fun s => s.1 == r.1 && s.2.id == r.2.id)) then acc := acc.br "v2-overlaid"
    if v2.any (fun r => !v1.any (fun s => s.1 == r.1 && s.2.id == r.2.id)) then acc := acc.br "v2-kept"
  match acc.mm with
  | some d => return .mismatch d
  | none => return .ok acc.nontrivial acc.branches

end Kap.C08.MigDrv
