/-
Driver for C09: reads cases of op lines produced by the Go harness (which ran the REAL alert.Topics),
replays every case on the model and on the history spec, and judges
  * observed = model  (correspondence), and
  * observed satisfies the spec (the property itself, evaluated on the implementation's output).
-/
import Kap.Spec.C09
import Kap.Driver.C09Svc
import Kap.Driver.C09Agg
import Kap.Driver.C09Drain
open Kap Kap.C09

namespace Kap.C09.Drv

def parseES (tok : String) : Option ES :=
  match tok.splitOn ":" with
  | [i, l, t] => do
    let id ← unesc i; let lv ← l.toNat?; let tm ← t.toInt?
    pure { id := id, level := lv, time := tm }
  | _ => none

def parseESList (tok : String) : Option (List ES) :=
  if tok == "-" then some [] else (tok.splitOn ",").mapM parseES

def renderES (e : ES) : String := s!"{esc e.id}:{e.level}:{e.time}"
def renderEv (e : Ev) : String := s!"{esc e.id}:{e.level}:{e.time}:{e.prev}"

def sortById (l : List ES) : List ES := l.mergeSort (fun a b => decide (a.id ≤ b.id))

def renderList (l : List String) : String := if l.isEmpty then "-" else ",".intercalate l

def parseOp (ts : List String) : Option Op :=
  match ts with
  | ["collect", T, i, l, t] => do pure (.collect (← unesc T) (← unesc i) (← l.toNat?) (← t.toInt?))
  | ["update", T, i, l, t] => do pure (.update (← unesc T) (← unesc i) (← l.toNat?) (← t.toInt?))
  | ["reg", T, h] => do pure (.reg (← unesc T) (← unesc h))
  | ["dereg", T, h] => do pure (.dereg (← unesc T) (← unesc h))
  | ["replace", T, o, n] => do pure (.replace (← unesc T) (← unesc o) (← unesc n))
  | ["deltopic", T] => do pure (.deltopic (← unesc T))
  | ["restore", T, sts] => do pure (.restore (← unesc T) (← parseESList sts))
  | _ => none

/-- `path.Match` restricted to `*`, `?` and literals over ids without '/'. -/
partial def glob : List Char → List Char → Bool
  | [], [] => true
  | '*' :: ps, s => glob ps s || (match s with | [] => false | _ :: s' => glob ('*' :: ps) s')
  | '?' :: ps, _ :: s => glob ps s
  | p :: ps, c :: s => p == c && glob ps s
  | _, _ => false

def patternMatch (pat id : String) : Bool := pat.isEmpty || glob pat.toList id.toList

def topicStateModel (s : Topics) (pat : String) (min : Nat) : List String :=
  let rows := s.topics.filter (fun p => patternMatch pat p.1 && p.2.maxLevel ≥ min)
  let rows := rows.mergeSort (fun a b => decide (a.1 ≤ b.1))
  rows.map (fun p => s!"{esc p.1}:{p.2.maxLevel}:{p.2.collected}")

structure St where
  model : Topics := {}
  hist : List Op := []      -- reversed history
  branches : List String := []
  nontrivial : Bool := false

def addBr (st : St) (b : String) : St := if st.branches.contains b then st else { st with branches := b :: st.branches }

def noteBranches (st : St) (op : Op) : St :=
  match op with
  | .collect T id level _ | .update T id level _ =>
    match (st.model.ensure T).find id with
    | none => let st := addBr st "new-id"; if (st.model.ensure T).sorted.length ≥ 1 then { st with nontrivial := true } else st
    | some cur => if cur.level == level then addBr st "overwrite-same-level" else { addBr st "overwrite-resort" with nontrivial := true }
  | .dereg T h | .replace T h _ =>
    match st.model.get T with
    | some t =>
      match t.handlers.findIdx? (fun x => x.hid == h) with
      | some i => if i + 1 < t.handlers.length then addBr st "swap-remove-middle" else addBr st "remove-last"
      | none => addBr st "remove-absent"
    | none => addBr st "remove-no-topic"
  | .deltopic _ => addBr st "deltopic"
  | .restore _ _ => addBr st "restore"
  | .reg T h => if ((st.model.ensure T).handlers.any (fun x => x.hid == h)) then addBr st "reg-duplicate" else addBr st "reg"

def judge (_id : String) (lines : Array String) : Verdict := Id.run do
  let mut st : St := {}
  for l in lines do
    let (opT, obs) := splitObs (tokens l)
    match opT with
    | ["q", "maxlevel", T] =>
      let some T := unesc T | return .badop l
      let m := toString (st.model.maxLevel T)
      let sp := toString (specMaxLevel T st.hist.reverse)
      if obs != [sp] then return .specfail "topic-level-is-max" s!"maxlevel {esc T}: spec {sp} observed {obs}"
      if obs != [m] then return .mismatch s!"maxlevel {esc T}: model {m} observed {obs}"
    | ["q", "states", T, mn] =>
      let some T := unesc T | return .badop l
      let some mn := mn.toNat? | return .badop l
      let raw := st.model.eventStates T mn
      if raw.length < ((st.model.ensure T).sorted.length) then st := addBr st "states-break-early"
      let m := renderList ((sortById raw).map renderES)
      let sp := renderList ((sortById (specStates T mn st.hist.reverse)).map renderES)
      if obs != [sp] then return .specfail "states-at-or-above-min" s!"states {esc T} {mn}: spec {sp} observed {obs}"
      if obs != [m] then return .mismatch s!"states {esc T} {mn}: model {m} observed {obs}"
    | ["q", "topicstate", pat, mn] =>
      let some pat := unesc pat | return .badop l
      let some mn := mn.toNat? | return .badop l
      let m := renderList (topicStateModel st.model pat mn)
      if obs != [m] then return .mismatch s!"topicstate {esc pat} {mn}: model {m} observed {obs}"
    | ["final", "delivered", h, T] =>
      let some h := unesc h | return .badop l
      let some T := unesc T | return .badop l
      let m := renderList ((st.model.delivered T h).map renderEv)
      let sp := renderList ((specDelivered T h st.hist.reverse).map renderEv)
      if sp != "-" then st := addBr st "delivered-nonempty"
      if obs != [sp] then return .specfail "delivery-exactly-once-fifo" s!"delivered {esc h} {esc T}: spec {sp} observed {obs}"
      if obs != [m] then return .mismatch s!"delivered {esc h} {esc T}: model {m} observed {obs}"
    | _ =>
      match parseOp opT with
      | some op =>
        if !op.wf then return .badop s!"ill-formed op {l}"
        st := noteBranches st op
        st := { st with model := step st.model op, hist := op :: st.hist }
      | none => return .badop l
  return .ok st.nontrivial st.branches.reverse

end Kap.C09.Drv

/-- service-layer cases are recognised by their ops (srec/sreg/sdereg/supd/scollect) -/
def isSvc (ls : Array String) : Bool :=
  ls.any (fun l => match Kap.tokens l with
    | t :: _ => t == "srec" || t == "sreg" || t == "sdereg" || t == "supd" || t == "scollect"
    | [] => false)

def main : IO Unit := do
  -- self-test of the schedule-quantified judge: a lost, duplicated or reordered copy on a diamond must be rejected
  let bad := Kap.C09.AsyncDrv.selfTestFailures
  if !bad.isEmpty then throw (IO.userError s!"C09 driver self-test failed: {bad}")
  Kap.driverMain (fun id ls =>
  if Kap.C09.DrainDrv.isK ls then Kap.C09.DrainDrv.judge id ls
  else if Kap.C09.AggDrv.isAgg ls then Kap.C09.AggDrv.judge id ls
  else if isSvc ls then Kap.C09.SvcDrv.judge id ls else Kap.C09.Drv.judge id ls)
