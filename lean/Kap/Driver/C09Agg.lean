/-
Driver part for the C09 aggregate-handler cases (ops aagg/arec/acollect/await). The real handler's ticker decides
how the collected events are cut into groups; the observed aggregate events carry their count, so the cut is
read off the observation. Judged on the OBSERVED output (`Agg.judgeSeq`, Kap/Spec/C09Agg.lean): the counts cover
the collected events exactly once with non-empty groups, every aggregate event has the maximum level / latest
time of its group, and its previous level is the level of the aggregate before. Then every group is replayed on
the model (`Agg.tick`, the transcribed loop).
-/
import Kap.Basic
import Kap.Spec.C09Agg
open Kap Kap.C09

namespace Kap.C09.AggDrv

def parseSeen (tok : String) : Option (List Agg.Seen) :=
  if tok == "-" then some [] else
  (tok.splitOn ",").mapM (fun e => match e.splitOn ":" with
    | [c, l, t, p] => do pure { count := ← c.toNat?, level := ← l.toNat?, time := ← t.toInt?, prev := ← p.toNat? }
    | _ => none)

def isAgg (ls : Array String) : Bool :=
  ls.any (fun l => match Kap.tokens l with
    | t :: _ => t == "aagg"
    | [] => false)

def judge (_id : String) (lines : Array String) : Verdict := Id.run do
  let mut pending : List Agg.In := []
  let mut prev : Nat := 0
  let mut src : String := ""
  let mut br : List String := []
  let mut nt := false
  let add := fun (br : List String) (b : String) => if br.contains b then br else b :: br
  for l in lines do
    let (opT, obs) := splitObs (tokens l)
    match opT with
    | ["aagg", T, _, _, _, _] =>
      if src != "" then return .badop "more than one aggregate spec in a case"
      src := T
      if obs != ["ok"] then return .mismatch s!"{l}: model ok observed {obs}"
    | ["arec", _, _] => pure ()
    | ["asleep", _] => pure ()   -- the harness lets ticks pass in the middle of a burst
    | ["acollect", T, _, lv, tm] =>
      if T != src then return .badop s!"collect on a topic without the aggregate spec: {l}"
      let some lv := lv.toNat? | return .badop l
      let some tm := tm.toInt? | return .badop l
      if tm ≤ 0 then return .badop s!"event time not after the zero time: {l}"
      pending := pending ++ [{ level := lv, time := tm }]
    | ["await", _, _, n] =>
      let some n := n.toNat? | return .badop l
      if n != pending.length then return .badop s!"await for {n} events, but {pending.length} are pending"
      let some seen := (match obs with | [o] => parseSeen o | _ => none) | return .badop l
      -- the property, on the observed output
      match Agg.judgeSeq pending prev seen with
      | some clause => return .specfail ((clause.splitOn ":").headD clause) s!"{clause}; pending {repr pending}, observed {obs}"
      | none => pure ()
      -- the model, group by group
      let mut rest := pending
      for o in seen do
        let grp := rest.take o.count
        rest := rest.drop o.count
        let m := Agg.tick grp
        if m != some { level := o.level, time := some o.time, count := o.count } then
          return .mismatch s!"aggregate of {repr grp}: model {repr m} observed {o.count}:{o.level}:{o.time}"
        br := add br (if o.count == 1 then "agg-group-1" else "agg-group-many")
        if o.count ≥ 2 then nt := true
        if (grp.getLast?.map (·.time)) != some o.time then br := add br "agg-latest-not-last"
        if (grp.getLast?.map (·.level)) != some o.level then br := add br "agg-max-not-last"
        if o.prev != 0 then br := add br "agg-prev-nonzero"
      if seen.length ≥ 2 then br := add br "agg-split-by-tick"
      if pending.isEmpty then br := add br "agg-empty-tick"
      match seen.getLast? with
      | some o => prev := o.level
      | none => pure ()
      pending := []
    | _ => return .badop l
  return .ok nt br.reverse

end Kap.C09.AggDrv
