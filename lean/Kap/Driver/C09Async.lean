/-
Driver part for the C09 service-layer cases whose topics may have SEVERAL ways in: the OBSERVED recorder logs of the
real Service are judged with the schedule-quantified specification of Kap/Spec/C09Async.lean — the clauses are the
theorems of Kap/Props/C09Async.lean, which hold of the asynchronous model for EVERY schedule, so whatever the
goroutines' interleaving was, a log that breaks one of them is a property violation:
  * no loss / no duplication per chain: for every collect since the recorder registered, the number of copies of
    that event in the log lies between the number of chains (of the specs registered at that moment, from the
    collected topic to the recorder's topic) whose match expressions CERTAINLY hold and the number of chains none of
    whose expressions certainly fails — equal numbers, hence an exact multiset, whenever no `changed()` is involved;
    nothing else is in the log, and the copies carry the collected id and level;
  * per-chain FIFO: when every chain is certain, the log must be an order-preserving merge of the per-chain streams
    (`mergeOK`, frontier search);
  * previous levels: read in the recorder's own order, every event whose id was seen before carries the level of
    that preceding event (`prevOKb`); two recorders of one topic see one arrival order (one log is a suffix of the
    other).
The harness makes the implementation quiescent before every operation other than a collect, so each event travels
under the configuration of the moment of its collect (`CfgWhenQuiet`).
-/
import Kap.Spec.C09Async
import Kap.Model.C09AsyncCap
open Kap Kap.C09 Kap.C09.Svc Kap.C09.Async Kap.C09.AsyncSpec

namespace Kap.C09.AsyncDrv

structure Col where
  idx : Nat
  topic : String
  ev : SEv
  specs : List Spec

structure Book where
  cols : List Col := []
  /-- (topic, recorder, number of collects before it registered there) -/
  regs : List (String × String × Nat) := []
  /-- observed logs seen so far at the `final` lines: (recorder, topic, log) -/
  finals : List (String × String × List SEv) := []
  /-- queue capacity of the service the case runs on (`scap`) -/
  cap : Option Nat := none
  /-- gated recorders (topic, name): they hold one event inside `Handle`, their queue then fills up -/
  gates : List (String × String) := []

def parseObs (tok : String) : Option (List SEv) :=
  if tok == "-" then some [] else
  (tok.splitOn ",").mapM (fun e => match e.splitOn ":" with
    | [i, l, t, p] => do
      pure { id := ← unesc i, level := ← l.toNat?, time := ← t.toInt?, prev := ← p.toNat?, tags := [] }
    | _ => none)

def Book.collect (b : Book) (T : String) (ev : SEv) (specs : List Spec) : Book :=
  { b with cols := b.cols ++ [{ idx := b.cols.length, topic := T, ev := { ev with prev := 0 }, specs := specs }] }

def Book.recorder (b : Book) (T n : String) : Book :=
  if b.regs.any (fun r => r.1 == T && r.2.1 == n) then b else { b with regs := b.regs ++ [(T, n, b.cols.length)] }

def isSuffixOf (a b : List SEv) : Bool := decide (b.drop (b.length - a.length) = a) && decide (a.length ≤ b.length)

def addStream (streams : List (List Key × List Int)) (p : List Key) (t : Int) : List (List Key × List Int) :=
  if streams.any (fun s => s.1 == p) then streams.map (fun s => if s.1 == p then (s.1, s.2 ++ [t]) else s)
  else streams ++ [(p, [t])]

structure Out where
  br : List String := []
  nt : Bool := false

/-- The schedule-quantified clauses on one observed log. `Except (clause, detail)`. -/
def judgeFinal (b : Book) (ord : List String) (n T : String) (obs : List SEv) : Except (String × String) Out := do
  match b.regs.find? (fun r => r.1 == T && r.2.1 == n) with
  | none =>
    if !obs.isEmpty then
      throw ("no-cross-topic-delivery", s!"recorder {esc n} is not registered on {esc T} but received {obs.length} event(s)")
    return {}
  | some (_, _, since) =>
    let gated := b.gates.contains (T, n)
    let mut out : Out := {}
    -- a gated handler accepts one event (held inside Handle) plus a full queue; what arrives while its OWN queue is
    -- full is not queued for it (non-blocking delivery) - and for nobody else this is an excuse
    let mut room : Nat := match b.cap with | some c => c + 1 | none => 0
    let mut exact := true
    let mut streams : List (List Key × List Int) := []
    for e in obs do
      if !(b.cols.any (fun c => c.ev.time == e.time)) then
        throw ("delivered-only-what-was-collected", s!"recorder {esc n} topic {esc T} received an event with time {e.time} that was never collected")
    for c in b.cols do
      let chains := if c.idx < since then [] else (chains3 c.specs c.ev ord c.topic).filter (fun ch => ch.1 == T)
      let lo := (chains.filter (fun ch => ch.2.2)).length
      let hi := chains.length
      let copies := obs.filter (fun e => e.time == c.ev.time)
      let k := copies.length
      if gated && b.cap.isSome then
        if k > hi then
          throw ("no-duplication-per-chain", s!"gated recorder {esc n} topic {esc T}: {k} copies of the event collected at time {c.ev.time}, at most {hi} chain(s)")
        if lo == hi then
          let want := Nat.min lo room
          if k != want then
            throw ("handler-gets-all-but-own-overflow", s!"gated recorder {esc n} topic {esc T}: with {room} place(s) left (one event held, queue capacity {b.cap.getD 0}) it must get {want} of the {lo} cop(ies) of the event collected at time {c.ev.time}, got {k}")
          if want < lo then out := { out with br := if out.br.contains "overflow" then out.br else "overflow" :: out.br, nt := true }
          room := room - want
        else
          exact := false
          room := room - Nat.min k room
        if copies.any (fun e => e.id != c.ev.id || e.level != c.ev.level) then
          throw ("event-content", s!"recorder {esc n} topic {esc T}: a copy of the event collected at time {c.ev.time} does not carry its id/level")
        continue
      if k < lo then
        throw ("no-loss-per-chain", s!"recorder {esc n} topic {esc T}: the event collected at time {c.ev.time} on {esc c.topic} has {lo} chain(s) of registered handlers with holding match expressions to {esc T}, but only {k} cop(ies) arrived")
      if k > hi then
        throw ("no-duplication-per-chain", s!"recorder {esc n} topic {esc T}: the event collected at time {c.ev.time} on {esc c.topic} has at most {hi} chain(s) of registered handlers to {esc T}, but {k} copies arrived")
      if copies.any (fun e => e.id != c.ev.id || e.level != c.ev.level) then
        throw ("event-content", s!"recorder {esc n} topic {esc T}: a copy of the event collected at time {c.ev.time} does not carry its id/level")
      if hi ≥ 2 then out := { out with br := if out.br.contains "join-of-chains" then out.br else "join-of-chains" :: out.br, nt := true }
      if lo != hi then exact := false
      else
        for ch in chains do
          streams := addStream streams ch.2.1 c.ev.time
    if gated then
      if !prevOKb obs.reverse then
        throw ("prev-follows-arrival-order", s!"gated recorder {esc n} topic {esc T}: an event does not carry the level of the preceding event with its id in the recorder's own order")
      return out
    if exact then
      if !mergeOK (obs.map (·.time)) (streams.map (·.2)) then
        throw ("per-chain-fifo", s!"recorder {esc n} topic {esc T}: the log is not an order-preserving merge of the {streams.length} per-chain stream(s) of the history")
      if streams.length ≥ 2 then out := { out with br := "merge-of-streams" :: out.br }
    else out := { out with br := "bounded-by-changed" :: out.br }
    if !prevOKb obs.reverse then
      throw ("prev-follows-arrival-order", s!"recorder {esc n} topic {esc T}: an event does not carry the level of the preceding event with its id in the recorder's own order")
    for f in b.finals do
      if f.2.1 == T && f.1 != n && !b.gates.contains (T, f.1) && (b.regs.any (fun r => r.1 == T && r.2.1 == f.1)) then
        if !(isSuffixOf obs f.2.2 || isSuffixOf f.2.2 obs) then
          throw ("one-arrival-order-per-topic", s!"recorders {esc n} and {esc f.1} of topic {esc T} saw different arrival orders")
    return out

/-! ### self-test (run by the driver's `main` before any case is judged): on a diamond t0 → p0 → p2, t0 → p1 → p2
the honest log is accepted; a lost copy, a duplicated copy, a reordered chain and a broken previous-level chain are
each rejected with the right clause. -/

def diamondBook : Book :=
  let specs : List Spec :=
    [ { topic := "t0", hid := "h0", midx := 0, targets := ["p0", "p1"] },
      { topic := "p0", hid := "h1", midx := 0, targets := ["p2"] },
      { topic := "p1", hid := "h2", midx := 1, targets := ["p2"] } ]
  let b : Book := {}
  let b := b.recorder "p2" "r"
  let b := b.collect "t0" { id := "a", level := 1, time := 1, prev := 0, tags := [] } specs
  let b := b.collect "t0" { id := "a", level := 3, time := 2, prev := 0, tags := [] } specs
  b.collect "t0" { id := "a", level := 2, time := 3, prev := 0, tags := [] } specs

def ev (l : Nat) (t : Int) (p : Nat) : SEv := { id := "a", level := l, time := t, prev := p, tags := [] }

def clauseOf (r : Except (String × String) Out) : String :=
  match r with
  | .ok _ => "ok"
  | .error e => e.1

/-- (name, observed log at p2, expected clause). Chains to p2: via h1 (all events) and via h2 (level ≥ 2: events 2,3). -/
def selfTests : List (String × List SEv × String) :=
  [ ("honest", [ev 1 1 0, ev 3 2 1, ev 3 2 3, ev 2 3 3, ev 2 3 2], "ok"),
    ("honest-other-interleaving", [ev 1 1 0, ev 3 2 1, ev 2 3 3, ev 3 2 2, ev 2 3 3], "ok"),
    ("lost-copy", [ev 1 1 0, ev 3 2 1, ev 2 3 3, ev 2 3 2], "no-loss-per-chain"),
    ("duplicated-copy", [ev 1 1 0, ev 1 1 1, ev 3 2 1, ev 3 2 3, ev 2 3 3, ev 2 3 2], "no-duplication-per-chain"),
    ("reordered-chain", [ev 1 1 0, ev 2 3 1, ev 2 3 2, ev 3 2 2, ev 3 2 3], "per-chain-fifo"),
    ("broken-prev", [ev 1 1 0, ev 3 2 1, ev 3 2 1, ev 2 3 3, ev 2 3 2], "prev-follows-arrival-order"),
    ("never-collected", [ev 1 1 0, ev 3 2 1, ev 3 2 3, ev 2 3 3, ev 2 3 2, ev 1 9 2], "delivered-only-what-was-collected") ]

/-- overflow self-test: t0 → (p0, p1), a gated recorder `g` on p0 with capacity 1 (so it gets 2 of 3 events), a plain
recorder `r` on p1 must get all three whatever happened on p0 -/
def gateBook : Book :=
  let specs : List Spec := [ { topic := "t0", hid := "h0", midx := 0, targets := ["p0", "p1"] } ]
  let b : Book := { cap := some 1, gates := [("p0", "g")] }
  let b := (b.recorder "p0" "g").recorder "p1" "r"
  let b := b.collect "t0" { id := "a", level := 1, time := 1, prev := 0, tags := [] } specs
  let b := b.collect "t0" { id := "a", level := 3, time := 2, prev := 0, tags := [] } specs
  b.collect "t0" { id := "a", level := 2, time := 3, prev := 0, tags := [] } specs

def gateTests : List (String × String × String × List SEv × String) :=
  [ ("gate-honest", "g", "p0", [ev 1 1 0, ev 3 2 1], "ok"),
    ("gate-got-too-few", "g", "p0", [ev 1 1 0], "handler-gets-all-but-own-overflow"),
    ("gate-got-the-overflow", "g", "p0", [ev 1 1 0, ev 3 2 1, ev 2 3 3], "handler-gets-all-but-own-overflow"),
    ("other-target-honest", "r", "p1", [ev 1 1 0, ev 3 2 1, ev 2 3 3], "ok"),
    ("other-target-starved-by-the-overflow", "r", "p1", [ev 1 1 0, ev 3 2 1], "no-loss-per-chain") ]

def selfTestFailures : List String :=
  selfTests.filterMap (fun t =>
    let got := clauseOf (judgeFinal diamondBook harnessOrder "r" "p2" t.2.1)
    if got == t.2.2 then none else some s!"{t.1}: expected {t.2.2}, got {got}") ++
  gateTests.filterMap (fun t =>
    let got := clauseOf (judgeFinal gateBook harnessOrder t.2.1 t.2.2.1 t.2.2.2.1)
    if got == t.2.2.2.2 then none else some s!"{t.1}: expected {t.2.2.2.2}, got {got}")

end Kap.C09.AsyncDrv
