/-
Driver part for the CONCURRENT C09 cases on the real `alert.Topics` (ops `kdo` / `ktok` / `kend` / `final klog`, see
harness/c09/drain.go): gated handlers with a backlog, a removal in progress (draining) and operations issued
meanwhile. Every line carries, as observation, the labels of the operations that had NOT returned when the case was
quiescent again (a blocked call is an observation, not a hang); `final klog h` carries the handler's log of `Handle`
entries and exits.

Judged on the OBSERVED output with the clauses of Kap/Spec/C09Drain.lean (SPECFAIL per-handler-one-at-a-time,
per-handler-fifo, delivery-exactly-once-while-registered), then compared with the concurrent model
Kap/Model/C09Drain.lean: the set of blocked operations after every line and the final logs must be what SOME schedule
of the model produces (MISMATCH otherwise).
-/
import Kap.Spec.C09Drain
import Kap.Model.C09Drain
open Kap Kap.C09

namespace Kap.C09.DrainDrv
open Kap.C09.Drain

def isK (ls : Array String) : Bool :=
  ls.any (fun l => match Kap.tokens l with
    | "kdo" :: _ => true
    | "ktok" :: _ => true
    | "kend" :: _ => true
    | "final" :: "klog" :: _ => true
    | _ => false)

def parseCall (ts : List String) : Option Call :=
  match ts with
  | ["collect", T, i, l, t] => do pure (.collect (← unesc T) (← unesc i) (← l.toNat?) (← t.toInt?))
  | ["reg", T, h] => do pure (.reg (← unesc T) (← unesc h))
  | ["dereg", T, h] => do pure (.dereg (← unesc T) (← unesc h))
  | ["replace", T, o, n] => do pure (.replace (← unesc T) (← unesc o) (← unesc n))
  | _ => none

/-- the atomic effects of a call, in the terms of the sequential history specification -/
def effsOf : Call → List Op
  | .collect T i l t => [.collect T i l t]
  | .reg T h => [.reg T h]
  | .dereg T h => [.dereg T h]
  | .replace T o n => [.dereg T o, .reg T n]

def parseEntry (tok : String) : Option Entry :=
  match tok.splitOn ":" with
  | ["i", T, i, l, t, p] => do
    pure (.enter { topic := ← unesc T, id := ← unesc i, level := ← l.toNat?, time := ← t.toInt?, prev := ← p.toNat? })
  | ["o", T, t] => do pure (.exit (← unesc T) (← t.toInt?))
  | _ => none

def parseLog (tok : String) : Option (List Entry) :=
  if tok == "-" then some [] else (tok.splitOn ",").mapM parseEntry

/-- observation of a `k` line: the blocked labels, and whether some operation panicked -/
def parseBlocked (obs : List String) : Option (List String × Bool) :=
  match obs with
  | [b] => some (if b == "-" then [] else b.splitOn ",", false)
  | [b, p] => if p.startsWith "panic:" then some (if b == "-" then [] else b.splitOn ",", true) else none
  | _ => none

def renderEv (e : Ev) : String := s!"{esc e.topic}/{esc e.id}:{e.level}:{e.time}:{e.prev}"
def renderEvs (l : List Ev) : String := if l.isEmpty then "-" else ",".intercalate (l.map renderEv)

def addBr (bs : List String) (b : String) : List String := if bs.contains b then bs else bs ++ [b]

def callTopic : Call → String
  | .collect T .. | .reg T _ | .dereg T _ | .replace T .. => T

def isRemovalOf (c : Call) (T h : String) : Bool :=
  match c with
  | .dereg T' h' => T' == T && h' == h
  | .replace T' o _ => T' == T && o == h
  | _ => false

def isRemoval (c : Call) : Bool :=
  match c with
  | .dereg .. | .replace .. => true
  | _ => false

structure KSt where
  line : Nat := 0
  ops : List POp := []                      -- in order of invocation
  calls : List (String × Call) := []        -- label ↦ call
  blocked : List String := []               -- after the previous line
  logs : List (String × List Entry) := []   -- handler ↦ log
  topics : List String := []
  br : List String := []
  nontrivial : Bool := false
  /-- the model states (one per way the races may have gone) that agree with everything observed so far -/
  cands : List St := [{ free := fun h => !h.startsWith "g" }]
  modelLost : Option String := none          -- first line at which no model schedule agreed with the observation

def KSt.callOf (st : KSt) (l : String) : Option Call := (st.calls.find? (fun p => p.1 == l)).map (·.2)

/-- mark as returned every operation that is no longer blocked -/
def markReturned (ops : List POp) (i : Nat) (blocked : List String) : List POp :=
  ops.map (fun o => if o.ret.isNone && !blocked.contains o.label then { o with ret := some i } else o)

def noteTopic (st : KSt) (T : String) : KSt := if st.topics.contains T then st else { st with topics := st.topics ++ [T] }

/-- coverage of the structural cases of a concurrent history -/
def noteInvoke (st : KSt) (c : Call) (nowBlocked : List String) (lab : String) : KSt := Id.run do
  let mut st := st
  let pendingRemovals := st.blocked.filterMap (fun l => match st.callOf l with
    | some c' => if isRemoval c' then some c' else none
    | none => none)
  let selfBlocked := nowBlocked.contains lab
  if isRemoval c then
    st := { st with br := addBr st.br (if selfBlocked then "k-removal-drains-backlog" else "k-removal-idle") }
  match c with
  | .replace _ o n => if o == n then st := { st with br := addBr st.br "k-replace-by-itself" }
  | _ => pure ()
  if !pendingRemovals.isEmpty then
    st := { st with nontrivial := true }
    match c with
    | .reg T h =>
      if pendingRemovals.any (fun r => isRemovalOf r T h) then
        st := { st with br := addBr st.br (if selfBlocked then "k-rereg-same-handler-while-draining-blocked" else "k-rereg-same-handler-while-draining-returned") }
      else if pendingRemovals.any (fun r => callTopic r == T) then
        st := { st with br := addBr st.br "k-reg-other-handler-while-draining" }
      else st := { st with br := addBr st.br "k-reg-other-topic-while-draining" }
    | .collect T .. =>
      if pendingRemovals.any (fun r => callTopic r == T) then
        st := { st with br := addBr st.br (if selfBlocked then "k-collect-while-draining-blocked" else "k-collect-while-draining-returned") }
      else st := { st with br := addBr st.br (if selfBlocked then "k-collect-other-topic-blocked-behind-register" else "k-collect-other-topic-while-draining") }
    | _ => st := { st with br := addBr st.br "k-second-removal-while-draining" }
  return st

def pairDetail (T h : String) (want : List Ev) : String := s!"handler {esc h} topic {esc T} entered {renderEvs want}"

/-- the spec clauses on the observed logs -/
def judgeSpec (st : KSt) : Option Verdict := Id.run do
  -- one at a time, FIFO against real time
  for (h, log) in st.logs do
    let ts := log.foldl (fun acc e => match e with
      | .enter ev => if acc.contains ev.topic then acc else acc ++ [ev.topic]
      | .exit T _ => if acc.contains T then acc else acc ++ [T]) st.topics
    for T in ts do
      if !oneAtATime T log then
        return some (.specfail "per-handler-one-at-a-time" s!"{pairDetail T h (enteredOf T log)}: Handle entered while the previous call for this topic had not returned")
      match fifoViolation st.ops T (enteredOf T log) with
      | some (a, b) =>
        return some (.specfail "per-handler-fifo" s!"{pairDetail T h (enteredOf T log)}: {renderEv b} handed over before {renderEv a}, whose collect had returned before the other was invoked")
      | none => pure ()
  -- exactly once while registered, nothing else: a linearisation exists (first pair by pair, then jointly)
  let mut tracks : List Track := []
  for (h, log) in st.logs do
    let ts := log.foldl (fun acc e => match e with
      | .enter ev => if acc.contains ev.topic then acc else acc ++ [ev.topic]
      | .exit _ _ => acc) st.topics
    for T in ts do
      tracks := tracks ++ [{ topic := T, hid := h, want := enteredOf T log }]
  for t in tracks do
    match linearisable st.ops [t] with
    | some true => pure ()
    | some false =>
      return some (.specfail "delivery-exactly-once-while-registered" s!"{pairDetail t.topic t.hid t.want}: no order of the operations that respects real time makes this the events collected while the handler was registered, once each, in order, with the previous levels of their ids")
    | none => return some (.badop s!"linearisation search exhausted for handler {esc t.hid} topic {esc t.topic}")
  match linearisable st.ops tracks with
  | some true => pure ()
  | some false =>
    return some (.specfail "delivery-exactly-once-while-registered" "every handler's log has a linearisation of its own, but no single order of the operations explains all handlers together")
  | none => return some (.badop "joint linearisation search exhausted")
  return none

/-- names of the topics and handlers the comparison of model states looks at -/
def namesOf (st : KSt) : List String × List String :=
  let hs := st.calls.foldl (fun acc p => match p.2 with
    | .reg _ h | .dereg _ h => if acc.contains h then acc else acc ++ [h]
    | .replace _ o n => let acc := if acc.contains o then acc else acc ++ [o]; if acc.contains n then acc else acc ++ [n]
    | _ => acc) []
  (st.topics, hs)

def renderLogE (e : LogE) : Option (String × Entry) :=
  match e with
  | .enter _ h ev => some (h, .enter ev)
  | .exit T h ev => some (h, .exit T ev.time)

def modelLog (s : St) (h : String) : List Entry :=
  s.log.filterMap (fun e => match renderLogE e with
    | some (h', en) => if h' == h then some en else none
    | none => none)

def judge (_id : String) (lines : Array String) : Verdict := Id.run do
  let mut st : KSt := {}
  let mut ended := false
  for l in lines do
    let (opT, obs) := splitObs (tokens l)
    let i := st.line
    match opT with
    | "kdo" :: lab :: rest =>
      let some c := parseCall rest | return .badop l
      let some (blk, pan) := parseBlocked obs | return .badop s!"no observation: {l}"
      if pan then return .mismatch s!"an operation panicked: {l}"
      if st.calls.any (fun p => p.1 == lab) then return .badop s!"label used twice: {l}"
      st := noteTopic st (callTopic c)
      st := { st with calls := st.calls ++ [(lab, c)], ops := st.ops ++ [{ label := lab, inv := i, ret := none, effs := effsOf c }] }
      st := noteInvoke st c blk lab
      let (ts, hs) := namesOf st
      if st.modelLost.isNone then
        let next := (st.cands.flatMap (fun s => quiescents ts hs (invoke s lab c))).filter (fun s => blockedLabels s == blk)
        let next := dedup ts hs next
        if next.isEmpty then st := { st with modelLost := some s!"{l}: no schedule of the model leaves exactly these operations blocked" }
        else st := { st with cands := next }
      st := { st with ops := markReturned st.ops i blk, blocked := blk, line := i + 1 }
    | ["ktok", T, h, n] =>
      let some T := unesc T | return .badop l
      let some h := unesc h | return .badop l
      let some n := n.toNat? | return .badop l
      let some (blk, pan) := parseBlocked obs | return .badop s!"no observation: {l}"
      if pan then return .mismatch s!"an operation panicked: {l}"
      if !blk.isEmpty && blk.length == st.blocked.length && st.blocked.any (fun lb => match st.callOf lb with
          | some c => isRemoval c | none => false) then
        st := { st with br := addBr st.br "k-partial-release-still-draining" }
      if st.blocked.length ≥ blk.length + 2 then st := { st with br := addBr st.br "k-race-at-release" }
      let (ts, hs) := namesOf st
      if st.modelLost.isNone then
        let next := (st.cands.flatMap (fun s => quiescents ts hs (addTokens s T h n))).filter (fun s => blockedLabels s == blk)
        let next := dedup ts hs next
        if next.isEmpty then st := { st with modelLost := some s!"{l}: no schedule of the model leaves exactly these operations blocked" }
        else st := { st with cands := next }
      st := { st with ops := markReturned st.ops i blk, blocked := blk, line := i + 1 }
    | ["kend"] =>
      let some (blk, pan) := parseBlocked obs | return .badop s!"no observation: {l}"
      if pan then return .mismatch s!"an operation panicked: {l}"
      ended := true
      let (ts, hs) := namesOf st
      if st.modelLost.isNone then
        let next := (st.cands.flatMap (fun s => quiescents ts hs (openAll s))).filter (fun s => blockedLabels s == blk)
        let next := dedup ts hs next
        if next.isEmpty then st := { st with modelLost := some s!"{l}: no schedule of the model leaves exactly these operations blocked" }
        else st := { st with cands := next }
      st := { st with ops := markReturned st.ops i blk, blocked := blk, line := i + 1 }
    | ["final", "klog", h] =>
      let some h := unesc h | return .badop l
      let [tok] := obs | return .badop s!"no observation: {l}"
      let some log := parseLog tok | return .badop l
      if !ended then
        -- the harness opens every gate before the first `final` when the case has no `kend`
        ended := true
        let (ts, hs) := namesOf st
        if st.modelLost.isNone then
          let next := dedup ts hs (st.cands.flatMap (fun s => quiescents ts hs (openAll s)))
          st := { st with cands := next, ops := markReturned st.ops i [], blocked := [], line := i + 1 }
      st := { st with logs := st.logs ++ [(h, log)] }
    | _ => return .badop l
  -- 1. the property itself on the observed output
  match judgeSpec st with
  | some v => return v
  | none => pure ()
  -- 2. model = implementation, up to the schedule
  match st.modelLost with
  | some d => return .mismatch d
  | none => pure ()
  for (h, log) in st.logs do
    for T in st.topics do
      if !allReturned T log then return .mismatch s!"handler {esc h}: a Handle call for topic {esc T} never returned although every gate is open"
  let agree := st.cands.filter (fun s => st.logs.all (fun (h, log) => st.topics.all (fun T =>
    enteredOf T (modelLog s h) == enteredOf T log)))
  if agree.isEmpty then
    return .mismatch s!"no schedule of the model that agrees with the observed blocked sets produces the observed handler logs (model candidates: {st.cands.length})"
  let mut br := st.br
  if st.logs.any (fun (_, log) => !log.isEmpty) then br := addBr br "k-delivered-nonempty"
  if st.cands.length > 1 then br := addBr br "k-several-model-schedules"
  return .ok st.nontrivial br

end Kap.C09.DrainDrv
