/-
Driver part for the C09 service-layer cases (case ids starting with `s`): model = Kap.C09.Svc; the spec clauses
evaluated on the OBSERVED output:
  * a recorder registered only on other topics received nothing tagged with this topic (no cross-topic delivery);
  * on a directly collected topic a recorder receives exactly the events collected there after it registered,
    once each, in order, with the id's preceding level as previous level;
  * delivered only along registered handlers, at most once, one-hop match (specific messages for common failures);
  * **chain semantics**: what every recorder observed for every topic must be EXACTLY the declarative specification
    of Kap/Spec/C09Svc.lean (`SvcSpec.received`: per collect, the event iff a chain of registered specs with holding
    match expressions leads there, any depth, with the prescribed previous level) — evaluated through the
    incremental table `SvcSpec.Tbl`, proved equal to the specification (`table_is_spec`). It uses no model state.
The model is then compared as well (by `svc_delivery_is_chain_semantics` it can only differ from the observed output
when the specification clause has already failed, or when the history is outside the hypotheses).
A case in which some topic has SEVERAL ways in (a diamond, a topic collected directly and published to) is no longer
rejected: there the delivery depends on the goroutines' interleaving, the exact clauses above and the comparison with
the synchronous model do not apply, and the observed logs are judged with the schedule-quantified specification
(Kap/Driver/C09Async.lean: per-chain counts, per-chain FIFO merge, previous levels in the topic's own order) — those
clauses are evaluated on EVERY case, single-entry or not. On single-entry cases the ASYNCHRONOUS model
(Kap/Model/C09Async.lean, run with a canonical schedule) is compared with the observed output as well.
-/
import Kap.Model.C09Svc
import Kap.Spec.C09Svc
import Kap.Driver.C09Async
open Kap Kap.C09 Kap.C09.Svc

namespace Kap.C09.SvcDrv

def parseTags (tok : String) : Option (List (String × String)) :=
  if tok == "-" then some [] else
  (tok.splitOn ",").mapM (fun kv => match kv.splitOn "=" with
    | [k, v] => do pure (← unesc k, ← unesc v)
    | _ => none)

def parseTargets (tok : String) : Option (List String) :=
  if tok == "-" then some [] else (tok.splitOn ",").mapM unesc

def renderSEv (e : SEv) : String := s!"{esc e.id}:{e.level}:{e.time}:{e.prev}"
def renderL (l : List String) : String := if l.isEmpty then "-" else ",".intercalate l

def parseOp (ts : List String) : Option Svc.Op :=
  match ts with
  | ["srec", T, n] => do pure (.recorder (← unesc T) (← unesc n))
  | ["sreg", T, h, m, tg] => do pure (.reg { topic := ← unesc T, hid := ← unesc h, midx := ← m.toNat?, targets := ← parseTargets tg })
  | ["sdereg", T, h] => do pure (.dereg (← unesc T) (← unesc h))
  | ["supd", T, o, h, m, tg] => do
      pure (.upd (← unesc T) (← unesc o) { topic := ← unesc T, hid := ← unesc h, midx := ← m.toNat?, targets := ← parseTargets tg })
  | ["scollect", T, i, l, t, tags] => do
      pure (.collect (← unesc T) { id := ← unesc i, level := ← l.toNat?, time := ← t.toInt?, prev := 0, tags := ← parseTags tags })
  | _ => none

/-- topics reachable from `T` through the currently registered publish specs (matches ignored: an
over-approximation of where an event collected on `T` may legitimately be delivered) -/
def reach (specs : List Spec) : Nat → List String → List String
  | 0, acc => acc
  | fuel + 1, acc =>
    let next := (specs.filter (fun sp => acc.contains sp.topic)).flatMap (·.targets)
    let acc' := next.foldl (fun a t => if a.contains t then a else a ++ [t]) acc
    if acc'.length == acc.length then acc else reach specs fuel acc'

def obsTimes (tok : String) : List Int :=
  if tok == "-" then [] else
  (tok.splitOn ",").filterMap (fun e => match e.splitOn ":" with
    | [_, _, t, _] => t.toInt?
    | _ => none)

/-- number of hops from the collected topic `T` to `X` along the unique ways in -/
def chainDepth (specs : List Spec) (T : String) : Nat → String → Nat
  | 0, _ => 0
  | n + 1, X => if X == T then 0 else match SvcSpec.pred specs X with
    | some sp => chainDepth specs T n sp.topic + 1
    | none => 0

structure DSt where
  /-- per collect (identified by its unique time): the topics it may legitimately reach -/
  reachOf : List (Int × List String) := []
  /-- per collect: the event as its own (direct) topic hands it to handlers, and the publish specs registered on
  that topic at that moment — an event seen on a target one hop away must satisfy that spec's match -/
  hop1 : List (Int × SEv × List Spec) := []
  model : Svc.St := {}
  /-- the specification, carried along incrementally (never looks at the model) -/
  tbl : SvcSpec.Tbl := {}
  direct : List String := []                         -- topics collected directly so far
  /-- independent bookkeeping for the spec clauses: per direct topic the collects so far (id, level, time, prev) -/
  directLog : List (String × SEv) := []
  /-- (topic, recorder, number of direct collects on topic before it registered) -/
  recSince : List (String × String × Nat) := []
  /-- some topic has had several ways in: the delivery is schedule dependent -/
  multi : Bool := false
  /-- bookkeeping of the schedule-quantified clauses -/
  book : AsyncDrv.Book := {}
  /-- the asynchronous model, settled after every operation (compared on single-entry cases) -/
  amodel : Async.ASt := {}
  /-- gated recorders whose goroutine already holds its one event inside `Handle` -/
  holding : List Async.Key := []
  /-- the gates have been opened (first `final` line) -/
  released : Bool := false
  br : List String := []
  nt : Bool := false

def addBr (st : DSt) (b : String) : DSt := if st.br.contains b then st else { st with br := b :: st.br }

def judge (_id : String) (lines : Array String) : Verdict := Id.run do
  let mut st : DSt := {}
  for l in lines do
    let (opT, obs) := splitObs (tokens l)
    match opT with
    | ["final", "srec", n, T] =>
      let some n := unesc n | return .badop l
      let some T := unesc T | return .badop l
      if !st.released then
        -- the harness opens every gate before the first `final`: the gated handlers drain their queues
        st := { st with released := true, amodel := Async.settleC st.book.cap [] (st.amodel.specs.length + 2) st.amodel }
      let m := renderL ((st.model.received n T).map renderSEv)
      -- the schedule-quantified clauses (valid whatever the interleaving was): every case
      let some obsEvs := (match obs with | [tok] => AsyncDrv.parseObs tok | _ => none) | return .badop l
      match AsyncDrv.judgeFinal st.book harnessOrder n T obsEvs with
      | .error (clause, detail) => return .specfail clause detail
      | .ok o =>
        for b in o.br do st := addBr st b
        if o.nt then st := { st with nt := true }
      st := { st with book := { st.book with finals := (n, T, obsEvs) :: st.book.finals } }
      if st.multi then continue
      -- from here on: single-entry cases only (deterministic delivery)
      let am := renderL ((st.amodel.received n T).map renderSEv)
      if obs != [am] then return .mismatch s!"recorder {esc n} topic {esc T}: asynchronous model {am} observed {obs}"
      -- a gated recorder misses what overflowed its own queue: the clauses below (unbounded queues) are not about it
      if st.book.gates.contains (T, n) then continue
      -- spec clauses on the observed output
      let registered := st.recSince.find? (fun r => r.1 == T && r.2.1 == n)
      match registered with
      | none =>
        if obs != ["-"] then return .specfail "no-cross-topic-delivery" s!"recorder {esc n} is not registered on {esc T} but received {obs}"
      | some (_, _, since) =>
        if st.direct.contains T && !((st.model.specs.flatMap (·.targets)).contains T) then
          let evs := (st.directLog.filter (fun p => p.1 == T)).map (·.2)
          let sp := renderL ((evs.drop since).map renderSEv)
          if obs != [sp] then return .specfail "delivery-exactly-once-fifo" s!"recorder {esc n} on direct topic {esc T}: spec {sp} observed {obs}"
      -- delivered only along registered handlers, and at most once (every topic has a single way in)
      for o in obs do
        let ts := obsTimes o
        for t in ts do
          match st.reachOf.find? (fun p => p.1 == t) with
          | none => return .specfail "delivered-only-what-was-collected" s!"recorder {esc n} topic {esc T} received an event with time {t} that was never collected"
          | some (_, r) =>
            if !r.contains T then
              return .specfail "delivered-only-through-registered-handlers" s!"recorder {esc n} topic {esc T} received the event collected at time {t}, but no registered handler chain leads to {esc T}"
          -- one hop from the collected topic: the (single) spec publishing to T must match the event
          match st.hop1.find? (fun p => p.1 == t) with
          | some (_, ev', sps) =>
            match sps.filter (fun sp => sp.targets.contains T) with
            | [sp] =>
              if (matchTable.getD sp.midx .all).eval ev' != some true then
                return .specfail "match-condition-holds" s!"recorder {esc n} topic {esc T} received the event collected at time {t} through handler {esc sp.hid}, whose match expression #{sp.midx} does not hold for it"
            | _ => pure ()
          | none => pure ()
        if ts.eraseDups.length != ts.length then
          return .specfail "delivery-exactly-once" s!"recorder {esc n} topic {esc T} received an event twice: {o}"
      -- the global clause: exactly the chain semantics, at any depth
      let spec := renderL ((st.tbl.gotOf n T).map renderSEv)
      if obs != [spec] then
        return .specfail "chain-semantics" s!"recorder {esc n} topic {esc T}: the chain semantics of the history gives {spec}, observed {obs}"
      if (st.tbl.gotOf n T).any (fun e => e.prev != 0) then st := addBr st "spec-prev-nonzero"
      if m != "-" then st := addBr st "recorder-nonempty"
      if obs != [m] then return .mismatch s!"recorder {esc n} topic {esc T}: model {m} observed {obs}"
    | ["scap", c] =>
      let some c := c.toNat? | return .badop l
      if obs != [toString c] then return .mismatch s!"{l}: the harness runs the service with another topic buffer length: {obs}"
      st := { addBr st "bounded-queues" with book := { st.book with cap := some c } }
    | ["ssync"] =>
      -- every gated handler whose queue holds something takes its one event and blocks inside Handle
      for g in st.book.gates do
        if !st.holding.contains g && !(st.amodel.rq g).isEmpty then
          st := { st with amodel := Async.runR st.amodel g, holding := g :: st.holding }
    | _ =>
      let (opT, isGate) := match opT with
        | "sgate" :: rest => ("srec" :: rest, true)
        | _ => (opT, false)
      match parseOp opT with
      | none => return .badop l
      | some op =>
        -- bookkeeping for the independent spec clauses
        match op with
        | .collect T ev =>
          let prev := match ((st.directLog.filter (fun p => p.1 == T)).map (·.2)).reverse.find? (fun e => e.id == ev.id) with
            | some p => p.level
            | none => 0
          st := { st with reachOf := (ev.time, reach st.model.specs (st.model.specs.length + 1) [T]) :: st.reachOf,
                          hop1 := (ev.time, { ev with prev := prev }, st.model.specs.filter (fun sp => sp.topic == T)) :: st.hop1 }
          st := { st with direct := if st.direct.contains T then st.direct else T :: st.direct,
                          directLog := st.directLog ++ [(T, { ev with prev := prev })] }
        | .recorder T n =>
          if !(st.recSince.any (fun r => r.1 == T && r.2.1 == n)) then
            st := { st with recSince := st.recSince ++ [(T, n, (st.directLog.filter (fun p => p.1 == T)).length)] }
        | .reg sp => st := addBr st s!"match-{sp.midx}"
        | .upd T old _ =>
          if !(st.model.specs.any (fun x => x.topic == T && x.hid == old)) then
            return .badop s!"update of a handler spec that does not exist: {l}"
          st := addBr st "update-spec"
        | .dereg _ _ => st := addBr st "dereg-spec"
        let before := st.model.log.length
        let arrBefore := st.tbl.arr.length
        match op with
        | .collect T ev =>
          if st.book.cols.any (fun c => c.ev.time == ev.time) then return .badop s!"two collects with the same time: {l}"
          st := { st with book := st.book.collect T ev st.model.specs }
          if (st.model.specs.flatMap (·.targets)).contains T then st := addBr st "direct+published"
        | .recorder T n =>
          st := { st with book := st.book.recorder T n }
          if isGate then st := { addBr st "gated-recorder" with book := { st.book with gates := (T, n) :: st.book.gates } }
        | _ => pure ()
        let (m', ok) := Svc.step st.model op
        st := { st with model := m', tbl := st.tbl.step op,
                        amodel := Async.stepSettledC st.book.cap st.book.gates st.amodel op }
        if !Async.quietG st.book.gates st.amodel then return .badop s!"the asynchronous model did not settle: {l}"
        -- protocol of the bounded-queue cases: a gate takes its first event (`ssync`) long before its queue is full
        if st.book.gates.any (fun g => !st.holding.contains g && Async.full st.book.cap (st.amodel.rq g)) then
          return .badop s!"the queue of a gated recorder is full before the gate has taken its first event (no ssync): {l}"
        if st.amodel.specs.any (fun sp => Async.full st.book.cap (st.amodel.hq sp.key)) then st := addBr st "full-spec-queue"
        -- how deep the chain semantics carried this event (coverage of the spec's own branches)
        match op with
        | .collect T _ =>
          let newArr := (st.tbl.arr.drop arrBefore).map (·.1)
          let depth := newArr.foldl (fun d X => Nat.max d (chainDepth st.tbl.specs T (st.tbl.specs.length + 1) X)) 0
          st := addBr st s!"chain-depth-{depth}"
        | _ => pure ()
        if !forwardOnly harnessOrder m'.specs then return .badop s!"publish edge that does not go forward in the harness order (outside the modelled class): {l}"
        if m'.overflow then return .badop "cyclic handler configuration (outside the modelled class)"
        if !Async.fwd harnessOrder m'.specs then return .badop s!"publish edge that does not go forward in the harness order (outside the modelled class): {l}"
        if !singleEntry m' st.direct && !st.multi then st := { addBr st "multi-entry" with multi := true }
        match op with
        | .collect _ _ =>
          let n := m'.log.length - before
          if n ≥ 2 then st := { addBr st "republished" with nt := true }
          if n == 0 then st := addBr st "nobody-listening"
        | .reg _ =>
          let o := if ok then "ok" else "err"
          if !ok then st := addBr st "duplicate-spec-id"
          if obs != [o] then return .mismatch s!"{l}: model {o} observed {obs}"
        | _ => pure ()
  return .ok st.nt st.br.reverse

end Kap.C09.SvcDrv
