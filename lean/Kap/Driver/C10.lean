/-
Driver for C10. A case describes one real kapacitor task (a tree of nodes under `stream|from()`), the points written
and what the recording sink under EVERY node saw. For every node the driver takes what the PARENT's sink observed as the
input and
  * evaluates the documented function (Kap/Spec/C10.lean) on it and compares with what the node's own sink observed
    → SPECFAIL (or KNOWN for a recorded deviation);
  * runs the model (Kap/Model/C10.lean) on it and compares → MISMATCH.
Aliasing: sink 0 must show exactly the written points, and every sink's final view must equal the copy it took at
ingestion (a sibling that wrote into a shared map changes the final view).
Carriers (log, httpOut, httpPost, union) do not transform: their sink is a LATE consumer (it starts reading when its
producer has emitted everything) and must find every batch with exactly the points that entered; the model of a carrier
that re-buffers (parent = a per-point node on a batch edge) is `Kap.C10.Buf` run with the program EXTRACTED from
edge/buffered.go (Kap/Gen/C10.lean: bufferProg), one buffer per node / group / parent edge, every emitted message read in
the final heap.
-/
import Kap.Spec.C10
import Kap.Gen.C10
open Kap Kap.C10

namespace Kap.C10.Drv

/-! ### parsing -/

def hexU64? (s : String) : Option UInt64 :=
  if s.length != 16 then none else
  s.toList.foldl (fun acc c => match acc, hexVal c with
    | some a, some d => some (a * 16 + UInt64.ofNat d)
    | _, _ => none) (some 0)

def hexOfU64 (u : UInt64) : String :=
  let digs := (List.range 16).map (fun i => (u >>> (UInt64.ofNat (4 * (15 - i)))) &&& 0xF)
  String.ofList (digs.map (fun d => let n := d.toNat; if n < 10 then Char.ofNat (48 + n) else Char.ofNat (87 + n)))

/-- split at the first occurrence of a character -/
def splitFirst (s : String) (c : Char) : Option (String × String) :=
  match s.splitOn (String.singleton c) with
  | [] => none
  | [_] => none
  | a :: rest => some (a, (String.singleton c).intercalate rest)

def parseVal (s : String) : Option Val :=
  match splitFirst s ':' with
  | some ("i", v) => v.toInt?.map Val.int
  | some ("f", v) => (hexU64? v).map Val.flt
  | some ("s", v) => (unesc v).map Val.str
  | some ("b", "1") => some (.bool true)
  | some ("b", "0") => some (.bool false)
  | some ("x", _) => some .missing
  | _ => none

def parseKV {α : Type} (pv : String → Option α) (s : String) : Option (List (String × α)) :=
  if s == "-" || s == "" then some [] else
  (s.splitOn ",").mapM (fun kv => do
    let (k, v) ← splitFirst kv '='
    pure ((← unesc k), (← pv v)))

def parseFields := parseKV parseVal
def parseTags := parseKV unesc

def parseStrList (s : String) : Option (List String) :=
  if s == "-" || s == "" then some [] else (s.splitOn ",").mapM unesc

def parsePoint (tok : String) : Option Point :=
  match tok.splitOn ";" with
  | ["P", name, dims, byName, _gid, tags, fields, time] => do
    pure { name := (← unesc name), tags := (← parseTags tags), fields := (← parseFields fields), time := (← time.toInt?),
           dims := (← parseStrList dims), byName := byName == "1" }
  | _ => none

def pointGidTok (tok : String) : String :=
  match tok.splitOn ";" with
  | [_, _, _, _, gid, _, _, _] => gid
  | _ => "?"

def parseBPoint (tok : String) : Option BPoint :=
  match tok.splitOn ";" with
  | ["b", tags, fields, time] => do pure { tags := (← parseTags tags), fields := (← parseFields fields), time := (← time.toInt?) }
  | _ => none

/-- tokens of a stream sink → points (with the observed group ids) -/
def parseStream (toks : List String) : Option (List (Point × String)) :=
  toks.mapM (fun t => do pure ((← parsePoint t), pointGidTok t))

/-- tokens of a batch sink → batches (with observed dims and group id tokens) -/
partial def parseBatches (toks : List String) : Option (List (Batch × String × String)) :=
  match toks with
  | [] => some []
  | t :: rest =>
    match t.splitOn ";" with
    | ["B", name, dims, byName, gid, tags, tmax, n] => do
      let n ← n.toNat?
      let pts ← (rest.take n).mapM parseBPoint
      if pts.length != n then none else
      let b : Batch := { name := (← unesc name), tags := (← parseTags tags), byName := byName == "1",
                         tmax := (if tmax == "z" then none else tmax.toInt?), points := pts }
      let more ← parseBatches (rest.drop n)
      pure ((b, dims, gid) :: more)
    | _ => none

partial def parseExprToks : List String → Option (Expr × List String)
  | [] => none
  | t :: rest =>
    let bin (op : BinOp) : Option (Expr × List String) :=
      match parseExprToks rest with
      | some (a, r1) =>
        match parseExprToks r1 with
        | some (b, r2) => some (.bin op a b, r2)
        | none => none
      | none => none
    match t with
    | "eq" => bin .eq | "ne" => bin .ne | "lt" => bin .lt | "le" => bin .le | "gt" => bin .gt | "ge" => bin .ge
    | "add" => bin .add | "sub" => bin .sub | "mul" => bin .mul | "and" => bin .and | "or" => bin .or
    | _ =>
      match splitFirst t ':' with
      | some ("r", n) => (unesc n).map (fun n => (.ref n, rest))
      | _ => (parseVal t).map (fun v => (.lit v, rest))

def parseExpr (tok : String) : Option Expr :=
  match parseExprToks (tok.splitOn ",") with
  | some (e, []) => some e
  | _ => none

def parseExprs (tok : String) : Option (List Expr) := (tok.splitOn "|").mapM parseExpr

structure NodeLine where
  id : Nat
  parent : Option Nat
  kind : String
  args : List (String × String)

def NodeLine.arg (n : NodeLine) (k : String) : String := (aget n.args k).getD ""

def parseNodeLine (ts : List String) : Option NodeLine :=
  match ts with
  | "node" :: id :: parent :: kind :: rest => do
    let id ← id.toNat?
    let parent := if parent == "-" then none else parent.toNat?
    let args := rest.filterMap (fun kv => splitFirst kv '=')
    pure { id := id, parent := parent, kind := kind, args := args }
  | _ => none

def parseNode (n : NodeLine) : Option Node :=
  match n.kind with
  | "where" => (parseExpr (n.arg "e")).map Node.where_
  | "eval" => do
    pure (.eval { exprs := (← parseExprs (n.arg "e")), as := (← parseStrList (n.arg "as")), tags := (← parseStrList (n.arg "tags")),
                  keep := n.arg "keep" == "1", keepList := (← parseStrList (n.arg "keeplist")) })
  | "default" => do pure (.default_ (← parseFields (n.arg "f")) (← parseTags (n.arg "t")))
  | "delete" => do pure (.delete (← parseStrList (n.arg "f")) (← parseStrList (n.arg "t")))
  | "shift" => (n.arg "d").toInt?.map Node.shift
  | "sample" => do pure (.sample (← (n.arg "n").toInt?) (← (n.arg "d").toInt?))
  | "derivative" => do
    pure (.derivative { field := (← unesc (n.arg "f")), as := (← unesc (n.arg "as")), unit := (← (n.arg "unit").toInt?), nonNeg := n.arg "nn" == "1" })
  | "changeDetect" => (parseStrList (n.arg "f")).map Node.changeDetect
  | "stateCount" => do pure (.stateCount (← parseExpr (n.arg "e")) (← unesc (n.arg "as")))
  | "stateDuration" => do pure (.stateDuration (← parseExpr (n.arg "e")) (← unesc (n.arg "as")) (← (n.arg "unit").toInt?))
  | "flatten" => do
    pure (.flatten { on := (← parseStrList (n.arg "on")), delim := (← unesc (n.arg "delim")), tol := (← (n.arg "tol").toInt?), drop := n.arg "drop" == "1" })
  | "combine" => do
    let mx ← (n.arg "max").toInt?
    pure (.combine { exprs := (← parseExprs (n.arg "e")), names := (← parseStrList (n.arg "as")), delim := (← unesc (n.arg "delim")),
                     tol := (← (n.arg "tol").toInt?), max := if mx == 0 then 1000000 else mx })
  | "groupBy" => do
    pure (.groupBy { dims := (← parseStrList (n.arg "dims")), all := n.arg "all" == "1", excl := (← parseStrList (n.arg "excl")), byName := n.arg "byName" == "1" })
  | _ => none

/-! ### rendering (canonical: maps sorted by key) -/

def sortKV {α : Type} (l : List (String × α)) : List (String × α) :=
  (sortStrs (akeys l).eraseDups).filterMap (fun k => (aget l k).map (fun v => (k, v)))

def renderVal : Val → String
  | .int v => s!"i:{v}"
  | .flt b => "f:" ++ hexOfU64 b
  | .str s => "s:" ++ esc s
  | .bool b => if b then "b:1" else "b:0"
  | .missing => "x:missing"

def renderFields (f : Fields) : String :=
  if f.isEmpty then "-" else ",".intercalate ((sortKV f).map (fun kv => esc kv.1 ++ "=" ++ renderVal kv.2))
def renderTags (t : Tags) : String :=
  if t.isEmpty then "-" else ",".intercalate ((sortKV t).map (fun kv => esc kv.1 ++ "=" ++ esc kv.2))
def renderStrs (l : List String) : String := if l.isEmpty then "-" else ",".intercalate (l.map esc)

def renderPoint (p : Point) : String :=
  ";".intercalate ["P", esc p.name, renderStrs p.dims, boolTok p.byName, esc p.gid, renderTags p.tags, renderFields p.fields, toString p.time]
def renderBPoint (p : BPoint) : String := ";".intercalate ["b", renderTags p.tags, renderFields p.fields, toString p.time]
def renderBatch (b : Batch) : String :=
  " ".intercalate ((";".intercalate ["B", esc b.name, renderStrs b.dims, boolTok b.byName, esc b.gid, renderTags b.tags,
    (match b.tmax with | some t => toString t | none => "z"), toString b.points.length]) :: b.points.map renderBPoint)

def renderEdge : Edge → List String
  | .stream ps => ps.map renderPoint
  | .batch bs => bs.map renderBatch

def sortStrings (l : List String) : List String := l.mergeSort (fun a b => decide (a ≤ b))

/-! ### branch coverage of the model (which structural cases a node went through on this input) -/

def histOf (ps : List Point) (i : Nat) : List Point := groupHistory (ps.take i) (ps.getD i default)

def nodeBranches (n : Node) (inp : Edge) (out : Edge) : List String :=
  let mode := match inp with | .stream _ => "s" | .batch _ => "b"
  let inPts : List (List Point) := match inp with
    | .stream ps => [ps]
    | .batch bs => bs.map (fun b => b.points.map (fun p => ({ name := b.name, tags := p.tags, fields := p.fields, time := p.time } : Point)))
  let all := inPts.flatten
  let nOut := match out with | .stream ps => ps.length | .batch bs => (bs.flatMap (·.points)).length
  let groups := match inp with | .stream ps => (ps.map (·.gid)).eraseDups.length | .batch bs => (bs.map (·.gid)).eraseDups.length
  let tag := fun (k : String) (bs : List String) => bs.map (fun b => k ++ "-" ++ mode ++ ":" ++ b)
  let common := (if groups ≥ 2 then ["multi-group"] else []) ++ (if all.isEmpty then ["empty-input"] else [])
  let repeated := inPts.any (fun ps => (List.range ps.length).any (fun i => i > 0 && (histOf ps i).getLast?.map (·.time) == some (ps.getD i default).time))
  match n with
  | .where_ e =>
    let rs := all.map (fun p => evalPred e p.fields p.tags)
    tag "where" ((if rs.contains (some true) then ["pass"] else []) ++ (if rs.contains (some false) then ["fail"] else []) ++
      (if rs.contains none then ["error-drop"] else []) ++ common)
  | .eval c =>
    let rs := all.map (fun p => evalFT c p.fields p.tags)
    tag "eval" ((if rs.any (·.isSome) then ["ok"] else []) ++ (if rs.contains none then ["error-drop"] else []) ++
      (if c.keep then (if c.keepList ≠ [] then ["keep-list"] else ["keep-all"]) else ["no-keep"]) ++
      (if c.tags ≠ [] then ["tags"] else []) ++ (if c.exprs.length ≥ 2 then ["multi-expr"] else []) ++
      (if all.any (fun p => evalShadowed c p.fields p.tags) then ["result-named-like-field-reused"] else []) ++
      (if c.exprs.length ≥ 2 && (c.exprs.drop 1).any (fun e => e.refs.any (fun r => c.as.contains r)) then ["uses-earlier-result"] else []) ++ common)
  | .default_ cf ct =>
    tag "default" ((if all.any (fun p => cf.any (fun kv => (aget p.fields kv.1).isNone)) then ["field-set"] else []) ++
      (if all.any (fun p => cf.any (fun kv => (aget p.fields kv.1).isSome)) then ["field-kept"] else []) ++
      (if all.any (fun p => ct.any (fun kv => (aget p.tags kv.1).isNone)) then ["tag-set"] else []) ++
      (if all.any (fun p => ct.any (fun kv => aget p.tags kv.1 == some "")) then ["tag-empty-set"] else []) ++
      (match inp with
        | .batch bs => if bs.any (fun b => ct.any (fun kv => aget b.tags kv.1 == some "")) then ["begin-tag-empty-set"] else []
        | .stream _ => []) ++
      (if all.any (fun p => ct.any (fun kv => tagOr p.tags kv.1 ≠ "")) then ["tag-kept"] else []) ++ common)
  | .delete df dt =>
    let dimDel := match inp with
      | .stream ps => ps.any (fun p => p.dims.any (fun d => dt.contains d))
      | .batch bs => bs.any (fun b => b.dims.any (fun d => dt.contains d))
    tag "delete" ((if all.any (fun p => df.any (fun k => (aget p.fields k).isSome)) then ["field-deleted"] else []) ++
      (if all.any (fun p => df.any (fun k => (aget p.fields k).isNone)) then ["field-absent"] else []) ++
      (if all.any (fun p => dt.any (fun k => (aget p.tags k).isSome)) then ["tag-deleted"] else []) ++
      (if dimDel then ["dimension-deleted"] else []) ++ common)
  | .shift d => tag "shift" ((if d < 0 then ["negative"] else ["positive"]) ++ common)
  | .sample _ dur =>
    tag "sample" ((if dur ≠ 0 then ["duration"] else ["count"]) ++ (if nOut > 0 then ["kept"] else []) ++
      (if nOut < all.length then ["dropped"] else []) ++
      (if dur > 0 && Kap.C16.zeroOff % dur ≠ 0 then ["duration-not-dividing-go-zero-offset"] else []) ++
      (if dur > 0 && all.any (fun p => onGoBoundary p.time dur && p.time % dur ≠ 0) then ["go-boundary-kept-not-unix-multiple"] else []) ++
      (if dur > 0 && all.any (fun p => !onGoBoundary p.time dur && p.time % dur == 0) then ["unix-multiple-dropped"] else []) ++ common)
  | .derivative c =>
    let cases := inPts.flatMap (fun ps => (List.range ps.length).map (fun i =>
      let p := ps.getD i default
      let h := histOf ps i
      if !isNumeric (aget p.fields c.field) then "non-numeric" else
      match lastNumeric c.field h with
      | none => "no-previous"
      | some prev =>
        if prev.time = p.time then "zero-elapsed" else
        match numToFloat (aget p.fields c.field), numToFloat (aget prev.fields c.field) with
        | some a, some b => if c.nonNeg && a - b < 0 then "negative-dropped" else
            (if a - b < 0 then "emit-negative" else if h.getLast?.map (fun q => isNumeric (aget q.fields c.field)) == some false then "emit-skipping-non-numeric" else "emit")
        | _, _ => "?"))
    tag "derivative" (cases.eraseDups ++ common)
  | .changeDetect fs =>
    let cases := inPts.flatMap (fun ps => (List.range ps.length).map (fun i =>
      let p := ps.getD i default
      let h := histOf ps i
      let prev := (emittedOf fs h).getLast?
      if fs.all (fun f => (aget p.fields f).isNone) then "all-fields-missing" else
      if changed fs (prev.map (·.fields)) p.fields then
        (if prev.isNone then "first" else if prev != h.getLast? then "change-vs-older-emitted" else "change")
      else "same"))
    tag "changeDetect" (cases.eraseDups ++ (if fs.length ≥ 2 then ["multi-field"] else []) ++ common)
  | .stateCount e _ | .stateDuration e _ _ =>
    let k := match n with | .stateCount _ _ => "stateCount" | _ => "stateDuration"
    let cases := inPts.flatMap (fun ps => (List.range ps.length).map (fun i =>
      let p := ps.getD i default
      let h := histOf ps i
      match evalPred e p.fields p.tags with
      | none => "error-drop"
      | some false => if (currentRun e h).isEmpty then "false" else "false-ends-run"
      | some true =>
        if (currentRun e h).isEmpty then "run-start"
        else if h.getLast?.map (fun q => (evalPred e q.fields q.tags).isNone) == some true then "run-continues-over-error"
        else "run-continues"))
    tag k (cases.eraseDups ++ (if repeated then ["repeated-time"] else []) ++ common)
  | .flatten c =>
    let cases := all.map (fun p => if c.on.all (fun t => (aget p.tags t).isSome) then "has-tags"
      else if (c.on.head?.bind (fun t => aget p.tags t)).isSome then "missing-later-tag" else "missing-first-tag")
    tag "flatten" (cases.eraseDups ++ (if c.tol ≠ 0 then ["tolerance"] else []) ++ (if c.tol > 0 && Kap.C16.zeroOff % c.tol ≠ 0 then ["tolerance-not-dividing-go-zero-offset"] else []) ++ (if c.drop then ["drop-name"] else []) ++
      (if nOut > 0 then ["emit"] else []) ++ (if repeated then ["bucket-of-several"] else []) ++
      (if c.on.length ≥ 2 then ["multi-dim"] else []) ++ common)
  | .combine c =>
    let bks : List (List BPoint) := match inp with
      | .stream ps => (ps.map (·.gid)).eraseDups.flatMap (fun g => buckets c.tol ((ps.filter (fun p => p.gid = g)).map BPoint.ofPoint))
      | .batch bs => bs.flatMap (fun b => buckets c.tol b.points)
    tag "combine" ((if bks.any (fun b => b.length < c.exprs.length) then ["n-lt-k"] else []) ++
      (if bks.any (fun b => b.length > c.exprs.length) then ["n-gt-k"] else []) ++
      (if bks.any (fun b => combineGreedyMisses c b) then ["needs-backtracking"] else []) ++
      (if nOut > 0 then ["emit"] else []) ++ (if c.tol ≠ 0 then ["tolerance"] else []) ++ (if c.tol > 0 && Kap.C16.zeroOff % c.tol ≠ 0 then ["tolerance-not-dividing-go-zero-offset"] else []) ++
      (if bks.any (fun b => (choose c.exprs.length b).any (fun s => (assignBT (combMatch c) c.exprs.length 0 s).isNone)) then ["subset-rejected"] else []) ++ common)
  | .groupBy c =>
    tag "groupBy" ((if c.all then ["star"] else ["listed"]) ++ (if c.excl ≠ [] then ["exclude"] else []) ++
      (if c.byName then ["by-measurement"] else []) ++
      (if all.any (fun p => (gbTagNames c p.tags).any (fun d => (aget p.tags d).isNone)) then ["dimension-tag-absent"] else []) ++
      (if nOut > 0 then ["emit"] else []) ++ common)

/-! ### carriers -/

def isCarrier (k : String) : Bool := k == "log" || k == "httpOut" || k == "httpPost" || k == "union"

/-- nodes whose batches leave them as ONE BufferedBatchMessage (a carrier hands such a batch on without touching a buffer) -/
def emitsBuffered (k : String) : Bool := k == "window" || k == "groupBy" || isCarrier k

/-- the messages of one batch as they reach a BatchBuffer behind a per-point node -/
def batchOps (b : Batch) : List (Buf.Op BPoint Batch) :=
  (Buf.Op.begin { b with points := [] } b.points.length :: b.points.map Buf.Op.point) ++ [Buf.Op.end_]

/-- Model of a re-buffering carrier: one `BatchBuffer` per `key`, running the extracted program over the batches in arrival
order; every emitted message is read in the FINAL heap of its buffer. `none`: a message shows a cell nobody wrote. -/
def rebufferLate (prog : Buf.Prog) (key : Batch → String) (bs : List Batch) : Option (List Batch) := Id.run do
  let mut sts : List (String × Buf.St BPoint Batch) := []
  let mut order : List (String × Nat) := []
  for b in bs do
    let k := key b
    let st := ((sts.find? (fun kv => kv.1 == k)).map (·.2)).getD {}
    let st' := Buf.runFrom prog Buf.goGrow st (batchOps b)
    order := order ++ ((List.range (st'.out.length - st.out.length)).map (fun i => (k, st.out.length + i)))
    sts := (sts.filter (fun kv => kv.1 != k)) ++ [(k, st')]
  let mut out : List Batch := []
  for (k, i) in order do
    let some st := (sts.find? (fun kv => kv.1 == k)).map (·.2) | return none
    match (Buf.observeLate st)[i]? with
    | some (some hdr, pts) =>
      if pts.any (·.isNone) then return none
      out := out ++ [{ hdr with points := pts.filterMap id }]
    | _ => return none
  return some out

def carrierKey (kind : String) : Batch → String := if kind == "log" || kind == "union" then fun _ => "" else fun b => b.gid

/-- structural cases of the buffer: per buffer instance, a later batch that fits / does not fit into what the previous left -/
def rebufferBranches (key : Batch → String) (bs : List Batch) : List String :=
  let keys := (bs.map key).eraseDups
  let pairs := keys.flatMap (fun k => let l := bs.filter (fun b => key b == k); l.zip (l.drop 1))
  (if pairs.any (fun (a, b) => b.points.length ≥ 1 && b.points.length ≤ a.points.length && a.points.length ≥ 1) then ["later-batch-fits-earlier-slice"] else []) ++
  (if pairs.any (fun (a, b) => b.points.length > a.points.length) then ["later-batch-larger"] else []) ++
  (if pairs.any (fun (a, b) => b.points.length ≥ 1 && b.points.length < a.points.length) then ["later-batch-shorter"] else []) ++
  (if bs.any (fun b => b.points.isEmpty) then ["empty-batch"] else []) ++
  (if keys.length ≥ 2 then ["several-buffers"] else []) ++ (if pairs.isEmpty then ["single-batch-per-buffer"] else [])

/-! ### judging -/

structure CaseData where
  nodes : Array NodeLine := #[]
  pts : List Point := []
  run : String := ""
  sinks : List (Nat × List String) := []
  snaps : List (Nat × List String) := []

def parseEdge (batch : Bool) (toks : List String) : Option Edge :=
  if batch then (parseBatches toks).map (fun l => .batch (l.map (·.1)))
  else (parseStream toks).map (fun l => .stream (l.map (·.1)))

def edgeIsBatch (nodes : Array NodeLine) : Nat → Nat → Bool
  | 0, _ => false
  | fuel + 1, i =>
    match nodes[i]? with
    | none => false
    | some n =>
      if n.kind == "window" then true
      else if n.kind == "combine" || n.kind == "from" then false
      else match n.parent with
        | some p => edgeIsBatch nodes fuel p
        | none => false

/-- observed group ids and dimensions agree with the ones derived from the data (models.ToGroupID) -/
def gidsOk (batch : Bool) (toks : List String) : Bool :=
  if batch then
    match parseBatches toks with
    | some l => l.all (fun (b, dims, gid) => esc b.gid == gid && renderStrs b.dims == dims)
    | none => false
  else
    match parseStream toks with
    | some l => l.all (fun (p, gid) => esc p.gid == gid)
    | none => false

def edgeEquivB : Edge → Edge → Bool
  | .stream a, .stream b => listEquivB Point.equivB a b
  | .batch a, .batch b => listEquivB Batch.equivB a b
  | _, _ => false

def short (l : List String) : String := " ".intercalate (l.take 6)

/-- The documented function of node `n` applied to the observed input; `none` when the spec gives no single answer
(checked by a predicate instead) or its precondition fails. -/
def specOut (n : Node) (inp : Edge) : Option Edge :=
  match n, inp with
  | .where_ e, .stream ps => some (.stream (specWhere e ps))
  | .where_ e, .batch bs => some (.batch (bs.map (fun b => { b with points := b.points.filter (fun p => evalPred e p.fields p.tags = some true) })))
  | .default_ f t, .stream ps => some (.stream (ps.map (specDefault f t)))
  | .default_ f t, .batch bs => some (.batch (bs.map (specDefaultBatch f t)))
  | .delete f t, .stream ps => some (.stream (ps.map (specDelete f t)))
  | .delete f t, .batch bs => some (.batch (bs.map (specDeleteBatch f t)))
  | .shift d, .stream ps => some (.stream (ps.map (specShift d)))
  | .shift d, .batch bs => some (.batch (bs.map (fun b => { b with tmax := b.tmax.map (· + d), points := b.points.map (fun p => { p with time := p.time + d }) })))
  | .groupBy c, .stream ps => some (.stream (ps.map (specGroupBy c)))
  | .eval c, .stream ps => some (.stream (specEval c ps))
  | .eval c, .batch bs => some (.batch (bs.map (fun b => { b with points := b.points.filterMap (fun p =>
      (specEvalFT c p.fields p.tags).map (fun r => { p with fields := r.1, tags := r.2 })) })))
  | .sample k d, .stream ps => some (.stream (specSample k d ps))
  | .derivative c, .stream ps => some (.stream (specDerivative c ps))
  | .changeDetect f, .stream ps => some (.stream (specChangeDetect f ps))
  | .stateCount e a, .stream ps => some (.stream (specStateCount e a ps))
  | .stateDuration e a u, .stream ps => some (.stream (specStateDuration e a u ps))
  | .flatten c, .stream ps => if groupTimesOrdered c.tol ps then some (.stream (specFlatten c ps)) else none
  | .flatten c, .batch bs => some (.batch (bs.map (specFlattenBatch c)))
  -- batch edges of the per-group nodes: the stream function on the points of each batch with a fresh history
  | n, .batch bs =>
    let asPts := fun (b : Batch) => b.points.map (fun p => ({ name := b.name, tags := p.tags, fields := p.fields, time := p.time } : Point))
    let back := fun (b : Batch) (ps : List Point) => { b with points := ps.map BPoint.ofPoint }
    match n with
    | .sample k d => some (.batch (bs.map (fun b => back b (specSample k d (asPts b)))))
    | .derivative c => some (.batch (bs.map (fun b => back b (specDerivative c (asPts b)))))
    | .changeDetect f => some (.batch (bs.map (fun b => back b (specChangeDetect f (asPts b)))))
    | .stateCount e a => some (.batch (bs.map (fun b => back b (specStateCount e a (asPts b)))))
    | .stateDuration e a u => some (.batch (bs.map (fun b => back b (specStateDuration e a u (asPts b)))))
    | _ => none
  | _, _ => none

/-- combine: check the observed points bucket by bucket against the documented combinations. -/
def combineOk (c : CombineCfg) (inp : Edge) (obs : List Point) : Bool × Bool :=   -- (ok, greedy deviation present)
  -- the units of work in arrival order: (name, dims, byName, bucket) — for a stream the LAST bucket of a group stays buffered
  let units : List (String × List String × Bool × List BPoint) := match inp with
    | .batch bs => bs.flatMap (fun b => (buckets c.tol b.points).map (fun bk => (b.name, b.dims, b.byName, bk)))
    | .stream ps =>
      -- closed buckets in the order in which they are closed: walk the stream
      let rec go (hist : List Point) : List Point → List (String × List String × Bool × List BPoint)
        | [] => []
        | p :: rest =>
          let h := groupHistory hist p
          (match h.head?, h.getLast? with
            | some first, some l =>
              if roundTo p.time c.tol = roundTo l.time c.tol then []
              else [(first.name, first.dims, first.byName, (openBucket c.tol h).map BPoint.ofPoint)]
            | _, _ => []) ++ go (hist ++ [p]) rest
      go [] ps
  let miss := units.any (fun u => combineGreedyMisses c (u.2.2.2.map (fun p => { p with time := roundTo p.time c.tol })))
  -- consume the observed list unit by unit; the number of points a unit takes is the number of admissible subsets
  -- (under the recorded deviation: the number of subsets on which the greedy walk succeeds)
  let rec eat (greedy : Bool) : List (String × List String × Bool × List BPoint) → List Point → Bool
    | [], rest => rest.isEmpty
    | (name, dims, byName, bk) :: us, rest =>
      let k := c.exprs.length
      let rb := bk.map (fun p => { p with time := roundTo p.time c.tol })
      let subsets := (choose k rb).filter (fun s => if greedy then (assign (combMatch c) k 0 s).isSome else assignments (combMatch c) k 0 s ≠ [])
      let mine := rest.take subsets.length
      mine.length == subsets.length &&
      (subsets.zip mine).all (fun (s, o) => (assignments (combMatch c) k 0 s).any (fun sel => (combPoint c name dims byName sel).equivB o)) &&
      eat greedy us (rest.drop subsets.length)
  (eat false units obs, miss)

def flattenAmbiguous (c : FlattenCfg) (inp : Edge) : Bool :=
  -- with dropOriginalFieldName two fields of one point get the same name: Go map order decides
  c.drop && (match inp with
    | .stream ps => ps.any (fun p => p.fields.length ≥ 2)
    | .batch bs => bs.any (fun b => b.points.any (fun p => p.fields.length ≥ 2)))

def judge (_id : String) (lines : Array String) : Verdict := Id.run do
  let mut cd : CaseData := {}
  for l in lines do
    let (opT, obs) := splitObs (tokens l)
    match opT with
    | "node" :: _ =>
      match parseNodeLine opT with
      | some n => cd := { cd with nodes := cd.nodes.push n }
      | none => return .badop l
    | ["pt", name, tags, fields, time] =>
      match (do pure ({ name := (← unesc name), tags := (← parseTags tags), fields := (← parseFields fields), time := (← time.toInt?) } : Point)) with
      | some p => cd := { cd with pts := cd.pts ++ [p] }
      | none => return .badop l
    | ["run"] => cd := { cd with run := " ".intercalate obs }
    | ["sink", id] =>
      if obs == ["none"] then return .badop s!"{l}: no such sink in the task"
      match id.toNat? with
      | some i => cd := { cd with sinks := cd.sinks ++ [(i, obs.drop 1)] }
      | none => return .badop l
    | ["snap", id] =>
      if obs == ["none"] then return .badop s!"{l}: no such sink in the task"
      match id.toNat? with
      | some i => cd := { cd with snaps := cd.snaps ++ [(i, obs)] }
      | none => return .badop l
    | _ => return .badop l
  if cd.run == "err:task" || cd.run == "timeout" then
    return .specfail "task-completes" s!"the task did not run to completion: {cd.run}"
  if cd.run != "ok" then return .badop s!"run {cd.run}"
  let sinkOf := fun (i : Nat) => (cd.sinks.find? (fun s => s.1 == i)).map (·.2)
  -- aliasing, part 1: the final view of every sink equals the private copy taken at ingestion
  for (i, obs) in cd.snaps do
    if obs != ["same"] then
      return .specfail "sibling-sees-original" s!"sink {i}: the messages changed after they were received: now {short ((sinkOf i).getD [])} at ingestion {short (obs.drop 1)}"
  -- aliasing, part 2: the sink under from() shows exactly the written points
  match sinkOf 0 with
  | some toks =>
    match parseStream toks with
    | some obs =>
      if !listEquivB Point.equivB (obs.map (·.1)) cd.pts then
        return .specfail "sibling-sees-original" s!"sink 0 (under from) does not show the written points: {short toks}"
    | none => return .badop "sink 0 unparsable"
  | none => return .badop "sink 0 missing"
  let mut br : List String := []
  let mut nt := false
  let mut knownHit : Option (String × String) := none
  for n in cd.nodes do
    if n.id == 0 then continue
    let some par := n.parent | return .badop s!"node {n.id} without parent"
    let some inToks := sinkOf par | return .badop s!"no sink for node {par}"
    let some outToks := sinkOf n.id | return .badop s!"no sink for node {n.id}"
    let inBatch := edgeIsBatch cd.nodes 64 par
    let outBatch := edgeIsBatch cd.nodes 64 n.id
    let some inp := parseEdge inBatch inToks | return .badop s!"sink {par} unparsable"
    let some obs := parseEdge outBatch outToks | return .badop s!"sink {n.id} unparsable: {short outToks}"
    if !gidsOk outBatch outToks then
      return .specfail "group-id" s!"node {n.id} ({n.kind}): an emitted message carries a group id or dimensions that do not belong to its name/tags: {short outToks}"
    if n.kind == "window" then
      -- not a C10 node (C03): only its points must be points that went in (they share their maps with them)
      let inPts : List BPoint := match inp with | .stream ps => ps.map BPoint.ofPoint | .batch _ => []
      let outPts : List BPoint := match obs with | .batch bs => bs.flatMap (fun (b : Batch) => b.points) | .stream _ => []
      if !outPts.all (fun p => inPts.any (fun q => q.equivB p)) then
        return .specfail "sibling-sees-original" s!"node {n.id} (window) emitted a point that is none of the points it received"
      br := br ++ ["window"]
      continue
    if isCarrier n.kind then
      let parKind := (cd.nodes[par]?.map (·.kind)).getD ""
      let mut inp2 : Option (Edge × String) := none
      if n.kind == "union" then
        let some w := (n.arg "with").toNat? | return .badop s!"node {n.id}: union without with="
        let some wToks := sinkOf w | return .badop s!"no sink for node {w}"
        let some e2 := parseEdge (edgeIsBatch cd.nodes 64 w) wToks | return .badop s!"sink {w} unparsable"
        inp2 := some (e2, (cd.nodes[w]?.map (·.kind)).getD "")
      -- (1) the property: the late consumer finds exactly what entered the carrier
      let ok := match inp2 with
        | some (e2, _) => specUnionOk inp e2 obs
        | none => specPassThrough inp obs
      if !ok then
        return .specfail s!"{n.kind}-spec" s!"node {n.id}: a carrier hands on exactly what entered it (each batch with the points that entered); entered {short inToks} but the late consumer found {short outToks}"
      -- (2) the tie: the extracted BatchBuffer program over a heap, read late
      let mode := if outBatch then "b" else "s"
      let mut cbr : List String := [s!"carrier-{mode}:{n.kind}"]
      match inp, obs with
      | .batch bs, .batch os =>
        let key := carrierKey n.kind
        let side := fun (k : String) (l : List Batch) => if emitsBuffered k then some l else rebufferLate Kap.Gen.C10.bufferProg key l
        let some m1 := side parKind bs | return .mismatch s!"node {n.id} ({n.kind}): the model of edge.BatchBuffer reads a cell nobody wrote"
        cbr := cbr ++ (if emitsBuffered parKind then [s!"carrier-b:{n.kind}:buffered-in"] else
          [s!"carrier-b:{n.kind}:rebuffered"] ++ (rebufferBranches key bs).map (fun b => "rebuffer:" ++ b))
        match inp2 with
        | some (.batch bs2, k2) =>
          let some m2 := side k2 bs2 | return .mismatch s!"node {n.id} ({n.kind}): the model of edge.BatchBuffer reads a cell nobody wrote"
          cbr := cbr ++ (if emitsBuffered k2 then [s!"carrier-b:{n.kind}:buffered-in"] else
            [s!"carrier-b:{n.kind}:rebuffered"] ++ (rebufferBranches key bs2).map (fun b => "rebuffer:" ++ b))
          if !permB Batch.equivB (m1 ++ m2) os then
            return .mismatch s!"node {n.id} ({n.kind}): model {short ((m1 ++ m2).map renderBatch)} observed {short outToks}"
        | some _ => return .badop s!"node {n.id}: union of a batch and a stream edge"
        | none =>
          if !listEquivB Batch.equivB m1 os then
            return .mismatch s!"node {n.id} ({n.kind}): model {short (m1.map renderBatch)} observed {short outToks}"
      | _, _ => pure ()
      br := br ++ cbr.eraseDups.filter (fun b => !br.contains b)
      continue
    let some node := parseNode n | return .badop s!"node {n.id} unparsable"
    -- (1) the property on the observed output
    match node with
    | .combine c =>
      let obsPts := match obs with | .stream ps => ps | .batch _ => []
      let (ok, _) := combineOk c inp obsPts
      if !ok then return .specfail "combine-spec" s!"node {n.id}: observed {short outToks}"
    | .groupBy c =>
      match inp, obs with
      | .batch ins, .batch outs =>
        if !specGroupByBatchOk c ins outs then return .specfail "groupBy-spec" s!"node {n.id}: observed {short outToks}"
      | _, _ =>
        match specOut node inp with
        | some sp => if !edgeEquivB sp obs then return .specfail "groupBy-spec" s!"node {n.id}: documented {short (renderEdge sp)} observed {short outToks}"
        | none => pure ()
    | .flatten c =>
      if flattenAmbiguous c inp then br := br ++ ["flatten:ambiguous-skipped"]; continue
      match specOut node inp with
      | some sp => if !edgeEquivB sp obs then return .specfail "flatten-spec" s!"node {n.id}: documented {short (renderEdge sp)} observed {short outToks}"
      | none => br := br ++ ["flatten:unordered-times-model-only"]
    | _ =>
      match specOut node inp with
      | some sp => if !edgeEquivB sp obs then return .specfail s!"{n.kind}-spec" s!"node {n.id}: documented {short (renderEdge sp)} observed {short outToks}"
      | none => return .badop s!"no spec for node {n.id} {n.kind}"
    -- (2) the tie: model = implementation
    let m := Node.run node inp
    let same := match node, m, obs with
      -- groupBy re-sorts each regrouped batch with sort.Sort, which is NOT stable (pdqsort beyond 12 elements): the order
      -- of points with EQUAL time stamps inside a batch is unspecified (the model's sort is stable). Both sides are
      -- brought into one canonical order inside every run of equal times before they are compared; the spec clause
      -- (sorted by time, same points with multiplicity) was evaluated above.
      | .groupBy _, .batch a, .batch b =>
        let canon (x : Batch) : Batch :=
          { x with points := x.points.mergeSort (fun p q => p.time < q.time || (p.time == q.time && decide (renderBPoint p ≤ renderBPoint q))) }
        sortStrings (a.map (fun x => renderBatch (canon x))) == sortStrings (b.map (fun x => renderBatch (canon x)))
      | _, _, _ => edgeEquivB m obs
    if !same then return .mismatch s!"node {n.id} ({n.kind}): model {short (renderEdge m)} observed {short outToks}"
    br := br ++ (nodeBranches node inp obs).filter (fun b => !br.contains b)
    if (renderEdge obs) != (renderEdge inp) && !(renderEdge obs).isEmpty then nt := true
  match knownHit with
  | some (k, d) => return .known k d
  | none => return .ok nt br

end Kap.C10.Drv

def main : IO Unit := Kap.driverMain Kap.C10.Drv.judge
