/-
Driver for C11: reads the cases produced by the Go harness (which ran the REAL InfluxQL node inside a real
task), and for each case
  * evaluates the SPEC (Kap/Spec/C11.lean) on the inputs and compares it with the OBSERVED output of the real
    code (difference ⇒ SPECFAIL; there is no recorded deviation: every defect found was repaired);
  * runs the MODEL (Kap/Model/C11.lean) on the same inputs and compares it with the observed output
    (difference ⇒ MISMATCH: the tie between model and code is broken).
-/
import Kap.Spec.C11
open Kap Kap.C11

namespace Kap.C11.Drv

def hexToU64 (s : String) : Option UInt64 :=
  if s.length != 16 then none else
  s.toList.foldlM (fun (acc : UInt64) c => (hexVal c).map (fun d => acc * 16 + UInt64.ofNat d)) 0

def hexDigitL (n : Nat) : Char := if n < 10 then Char.ofNat ('0'.toNat + n) else Char.ofNat ('a'.toNat + (n - 10))

def u64ToHex (x : UInt64) : String :=
  String.ofList ((List.range 16).reverse.map (fun i => hexDigitL ((x.toNat >>> (4 * i)) % 16)))

def parseVal (s : String) : Option Val :=
  match s.toList with
  | 'i' :: ':' :: r => (String.ofList r).toInt?.map .int
  | 'f' :: ':' :: r => (hexToU64 (String.ofList r)).map .flt
  | 's' :: ':' :: r => (unesc (String.ofList r)).map .str
  | 'b' :: ':' :: r => some (.bool (String.ofList r == "1"))
  | _ => none

def renderVal : Val → String
  | .int i => s!"i:{i}"
  | .flt b => s!"f:{u64ToHex b}"
  | .str s => s!"s:{esc s}"
  | .bool b => if b then "b:1" else "b:0"

def splitKV (kv : String) : Option (String × String) :=
  match kv.splitOn "=" with
  | [k, v] => some (k, v)
  | _ => none

def parseTags (tok : String) : Option Tags :=
  if tok == "-" then some [] else do
    let kvs ← (tok.splitOn ",").mapM splitKV
    let l ← kvs.mapM (fun (k, v) => do pure ((← unesc k), (← unesc v)))
    pure (l.foldl (fun acc p => upsert p.1 p.2 acc) [])

def parseFields (tok : String) : Option Fields :=
  if tok == "-" then some [] else do
    let kvs ← (tok.splitOn ",").mapM splitKV
    let l ← kvs.mapM (fun (k, v) => do pure ((← unesc k), (← parseVal v)))
    pure (l.foldl (fun acc p => upsert p.1 p.2 acc) [])

def renderTags (t : Tags) : String :=
  if t.isEmpty then "-" else ",".intercalate (t.map (fun p => s!"{esc p.1}={esc p.2}"))
def renderFields (f : Fields) : String :=
  if f.isEmpty then "-" else ",".intercalate (f.map (fun p => s!"{esc p.1}={renderVal p.2}"))
def renderDims (d : List String) : String := if d.isEmpty then "-" else ",".intercalate (d.map esc)

def parsePt (gtags : Tags) (tok : String) : Option Pt :=
  match tok.splitOn "|" with
  | [t, tags, fields] => do
    let extra ← parseTags tags
    pure { time := (← t.toInt?), tags := mergeTags extra gtags, fields := (← parseFields fields) }
  | _ => none

def fnOfName : String → Option Fn
  | "count" => some .count | "sum" => some .sum | "mean" => some .mean | "median" => some .median
  | "mode" => some .mode | "min" => some .min | "max" => some .max | "first" => some .first
  | "last" => some .last | "spread" => some .spread | "stddev" => some .stddev
  | "distinct" => some .distinct | "percentile" => some .percentile | "top" => some .top
  | "bottom" => some .bottom | "elapsed" => some .elapsed | "difference" => some .difference
  | "cumulativeSum" => some .cumulativeSum | "movingAverage" => some .movingAverage
  | _ => none

def parseCfg (ts : List String) : Option (Bool × Cfg) :=
  match ts with
  | ["cfg", mode, fn, as_, pt, arg] => do
    let f ← fnOfName fn
    let asName ← if as_ == "-" then some fn else unesc as_
    let stream ← if mode == "stream" then some true else if mode == "batch" then some false else none
    let base : Cfg := { fn := f, as_ := asName, pointTimes := pt == "1" }
    let cfg ← match arg.toList with
      | ['-'] => some base
      | 'p' :: ':' :: r => (hexToU64 (String.ofList r)).map (fun b => { base with pct := b })
      | 'n' :: ':' :: r =>
        -- n:<n>[/<name>...]: top/bottom's extra fieldsAndTags names only fill `Aux`, which EmitBatch never reads
        (((String.ofList r).splitOn "/").headD "").toInt?.map (fun n => { base with n := n })
      | 'u' :: ':' :: r => (String.ofList r).toInt?.map (fun n => { base with n := n })
      | _ => none
    pure (stream, cfg)
  | _ => none

def parseMsg (ts : List String) : Option Msg :=
  match ts with
  | ["b", g, tmax, pts] => do
    let gt ← parseTags g
    let ps ← if pts == "-" then some [] else (pts.splitOn ";").mapM (parsePt gt)
    pure (.batch { gtags := gt, tmax := (← tmax.toInt?), pts := ps })
  | ["p", g, pt] => do
    let gt ← parseTags g
    pure (.point gt (← parsePt gt pt))
  | _ => none

def renderOutPt (tag : String) (dims : Option (List String)) (p : OutPt) : String :=
  match dims with
  | some d => s!"{tag}|{p.time}|{renderDims d}|{renderTags p.tags}|{renderFields p.fields}"
  | none => s!"{tag}|{p.time}|{renderTags p.tags}|{renderFields p.fields}"

def renderOut : Out → List String
  | .point dims p => [renderOutPt "P" (some dims) p]
  | .batch tmax gtags pts => s!"B|{tmax}|{renderTags gtags}|{pts.length}" :: pts.map (renderOutPt "Q" none)
  | .panic => ["PANIC"]

def renderOuts (os : List Out) : List String := os.flatMap renderOut

/-! ### coverage: which structural cases of the model a case exercises -/

def fnName : Fn → String
  | .count => "count" | .sum => "sum" | .mean => "mean" | .median => "median" | .mode => "mode"
  | .min => "min" | .max => "max" | .first => "first" | .last => "last" | .spread => "spread"
  | .stddev => "stddev" | .distinct => "distinct" | .percentile => "percentile" | .top => "top"
  | .bottom => "bottom" | .elapsed => "elapsed" | .difference => "difference"
  | .cumulativeSum => "cumulativeSum" | .movingAverage => "movingAverage"

def kindName : Kind → String
  | .float => "float" | .int => "int" | .string => "string" | .bool => "bool"

structure Cov where
  br : List String := []
  emitting : Nat := 0
  multi : Bool := false

def Cov.add (c : Cov) (b : String) : Cov := if c.br.contains b then c else { c with br := b :: c.br }

/-- replay the model message by message to see which branches fire -/
def coverage (cfg : Cfg) (ms : List Msg) : Cov := Id.run do
  let mut c : Cov := {}
  let mut n : NodeSt := {}
  c := c.add ("fn-" ++ fnName cfg.fn)
  if cfg.pointTimes then c := c.add (if cfg.fn.isSimpleSelector || cfg.fn == .top || cfg.fn == .bottom then "pointtimes-selector" else "pointtimes-aggregate")
  if cfg.fn.isSimpleSelector then c := c.add (if cfg.as_ == cfg.field then "selector-as-is-field" else "selector-renamed")
  let mut lastKind : Option Kind := none
  let mut lastGroup : Option Tags := none
  for m in ms do
    match m with
    | .batch b =>
      c := c.add "batch"
      if b.pts.isEmpty then c := c.add (if cfg.fn.isEmptyOK then "empty-batch-emits" else "empty-batch-silent")
      match Spec.batchKind cfg b.pts with
      | some k =>
        c := c.add ("kind-" ++ kindName k)
        let xs := Spec.valuesOf cfg k b.pts
        if xs.length ≥ 2 then c := { c with multi := true }
        c := { c with emitting := c.emitting + 1 }
        if xs.length < b.pts.length then c := c.add "points-skipped"
        if b.pts.any (fun p => (lookup cfg.field p.fields).isNone) then c := c.add "missing-field"
        if b.pts.any (fun p => match lookup cfg.field p.fields with | some v => v.kind != k | none => false) then c := c.add "wrong-type-in-batch"
        match b.pts.head? with
        | some p0 => if (Spec.usableKind cfg p0).isNone then c := c.add "first-point-unusable"
        | none => pure ()
        match lastKind with
        | some k' =>
          if k' != k then c := c.add (if lastGroup == some b.gtags then "kind-change-same-group" else "kind-change-other-group")
          else c := c.add "cache-hit"
        | none => pure ()
        lastKind := some k
        if cfg.fn == .percentile && (pctIndex xs.length cfg.pct).isNone then c := c.add "percentile-out-of-range"
        if (cfg.fn == .top || cfg.fn == .bottom) && xs.length < cfg.n.toNat then c := c.add "top-fewer-than-n"
        if cfg.fn == .movingAverage && xs.length < cfg.n.toNat then c := c.add "window-not-full"
      | none =>
        if !b.pts.isEmpty then
          c := c.add "no-usable-point"
          if b.pts.any (fun p => match lookup cfg.field p.fields with | some v => !supported cfg.fn v.kind | none => false) then
            c := c.add "unsupported-kind"
            if n.createFn.isSome then c := c.add "unsupported-kind-after-cached-creator"
        if cfg.fn.isEmptyOK then lastKind := some .float
      lastGroup := some b.gtags
    | .point g p =>
      c := c.add "stream"
      match n.group g with
      | none => c := c.add "new-group"
      | some gs =>
        if cfg.fn.isTransformation then pure ()
        else if gs.time == p.time then c := c.add "same-time-aggregates"
        else
          c := c.add (if gs.rc.isSome then "time-change-emits" else "time-change-nothing-pending")
          if decide (p.time < gs.time) then c := c.add "time-goes-back"
          match gs.rc with
          | some rc =>
            c := { c with emitting := c.emitting + 1 }
            if rc.pts.length ≥ 2 then c := { c with multi := true }
          | none => pure ()
      match lookup cfg.field p.fields with
      | none => c := c.add "missing-field"
      | some v =>
        if !supported cfg.fn v.kind then c := c.add "unsupported-kind"
        else
          c := c.add ("kind-" ++ kindName v.kind)
          match (n.group g).bind (·.rc) with
          | some rc => if rc.kind != v.kind then c := c.add "wrong-type-in-run"
          | none => pure ()
          if n.currentKind.isSome && n.currentKind != some v.kind then c := c.add "kind-change"
      if cfg.fn.isTransformation then
        c := { c with emitting := c.emitting + 1, multi := true }
    n := (step {} cfg n m).1
  if n.groups.length ≥ 2 then c := c.add "several-groups"
  return c

def judge (_id : String) (lines : Array String) : Verdict := Id.run do
  let mut cfg? : Option (Bool × Cfg) := none
  let mut extraArgs := false
  let mut msgs : Array Msg := #[]
  let mut obs? : Option (List String) := none
  for l in lines do
    let (opT, obs) := splitObs (tokens l)
    match opT with
    | "cfg" :: _ =>
      match parseCfg opT with
      | some c =>
        cfg? := some c
        if (opT.getLastD "").startsWith "n:" && ((opT.getLastD "").splitOn "/").length > 1 then extraArgs := true
      | none => return .badop l
    | "b" :: _ | "p" :: _ =>
      match parseMsg opT with
      | some m => msgs := msgs.push m
      | none => return .badop l
    | ["final"] => obs? := some obs
    | _ => return .badop l
  let some (isStream, cfg) := cfg? | return .badop "no cfg line"
  let some obs := obs? | return .badop "no final line"
  let ms := msgs.toList
  -- mode consistency
  if ms.any (fun m => match m with | .batch _ => isStream | .point _ _ => !isStream) then return .badop "message kind does not match the mode"
  let status := obs.headD "none"
  let observed := obs.drop 1
  let specOut := renderOuts (Spec.spec cfg ms)
  let modelOuts := run {} cfg ms
  let modelOut := renderOuts modelOuts
  let cov := coverage cfg ms
  -- 1. the property itself, on what the implementation did
  if status != "ok" then
    return .specfail "node-survives" s!"the task ended with status {status}; spec expects {specOut}"
  if observed != specOut then
    return .specfail "aggregate-equals-definition" s!"spec {specOut} observed {observed}"
  -- 2. the tie
  if observed != modelOut then return .mismatch s!"model {modelOut} observed {observed}"
  let br := if extraArgs then cov.br.reverse ++ ["top-extra-names"] else cov.br.reverse
  return .ok (cov.emitting ≥ 2 && cov.multi) br

end Kap.C11.Drv

def main : IO Unit := Kap.driverMain Kap.C11.Drv.judge
