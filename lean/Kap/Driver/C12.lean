/-
Driver for C12: reads cases of op lines produced by the Go harness (which ran the REAL CircularQueue,
UnionNode, JoinNode and real tasks), replays every case on the model and on the spec, and judges
  * the spec on the OBSERVED output (SPECFAIL: the property itself is false of what the code did), then
  * observed = model (MISMATCH: the transcription no longer matches the code).
-/
import Kap.Basic
import Kap.Spec.C12
import Kap.Model.C12On
import Kap.Proofs.C12CQ
open Kap Kap.C12

namespace Kap.C12.Drv

def renderList (l : List String) : String := if l.isEmpty then "-" else ",".intercalate l
def splitList (s : String) : List String := if s == "-" || s.isEmpty then [] else s.splitOn ","

def kvOf (toks : List String) : List (String × String) :=
  toks.filterMap (fun t => match t.splitOn "=" with
    | k :: v :: rest => some (k, "=".intercalate (v :: rest))
    | _ => none)

def kvGet (m : List (String × String)) (k : String) : Option String := (m.find? (·.1 == k)).map (·.2)

def optT : Option Int → String
  | none => "z"
  | some t => toString t

def sortStrings (l : List String) : List String := l.mergeSort (fun a b => decide (a ≤ b))

/-! ### circular queue -/

def cqRender (q : CQ Nat) : List String :=
  [s!"h={q.head}", s!"t={q.tail}", s!"l={q.len}",
   "d=" ++ renderList (q.data.map (fun s => toString (s.getD 0))),
   "c=" ++ renderList (q.toList.map toString)]

def cqBranches (q : CQ Nat) (op : String) (n : Int) : List String :=
  match op with
  | "enq" =>
    if q.cap > q.len then (if q.tail = q.cap then ["enq-wrap-tail"] else if q.head > q.tail then ["enq-wrapped"] else ["enq-plain"])
    else if q.head < q.tail then ["grow-linear"] else if q.head = q.cap then ["grow-head-at-cap"] else ["grow-wrapped"]
  | "deq" =>
    if n ≤ 0 then ["deq-nonpositive"] else
    let m := if q.len ≤ n.toNat then q.len else n.toNat
    (if q.len ≤ n.toNat then (if q.len < n.toNat then ["deq-more-than-len"] else ["deq-all"]) else ["deq-some"]) ++
    (if q.head > q.tail then (if m > q.cap - q.head then ["deq-clear-across-wrap"] else ["deq-clear-wrapped"])
     else if q.head = q.tail ∧ q.len > 0 then ["deq-full-ring-clears-nothing"] else []) ++
    (if q.head + m = q.cap ∧ q.len > m then ["deq-head-lands-on-cap"] else if q.head + m > q.cap then ["deq-head-wraps"] else [])
  | _ => []

/-! ### union -/

def uRenderOut (o : List (Nat × UMsg)) : String := renderList (o.map (fun p => s!"{p.2.id}:{p.2.time}:{esc p.2.name}"))

def uRenderState (s : UState (WCQ UMsg)) : String :=
  "S;" ++ renderList (s.sources.map (fun q => s!"{q.1.head}.{q.1.tail}.{q.1.len}.{q.1.cap}")) ++ ";" ++ renderList (s.lowMarks.map optT)

/-! ### join -/

def parsePairs (s : String) : Option (List (String × String)) :=
  (splitList s).mapM (fun e => match e.splitOn "=" with
    | k :: v :: rest => do pure ((← unesc k), "=".intercalate (v :: rest))
    | _ => none)

def parseCfg (toks : List String) : Option JCfg := do
  let m := kvOf toks
  let n ← (← kvGet m "n").toNat?
  let tol ← (← kvGet m "tol").toInt?
  let names ← (splitList (← kvGet m "names")).mapM unesc
  let fill : Fill := match kvGet m "fill" with
    | some "null" => .null
    | some "none" => .none
    | some tok => .num tok
    | none => .none
  let delim ← match kvGet m "delim" with
    | some d => unesc d
    | none => some "."
  let sname ← match kvGet m "sname" with
    | some d => unesc d
    | none => some ""
  pure { parents := n, tol := tol, fill := fill, names := names, delim := delim, sname := sname }

def parseMsg (time : Int) (toks : List String) : Option JMsg := do
  let m := kvOf toks
  let name ← unesc (← kvGet m "name")
  let grp ← unesc (← kvGet m "grp")
  let dims ← (splitList ((kvGet m "dims").getD "-")).mapM unesc
  let tags ← parsePairs ((kvGet m "tags").getD "-")
  let tags ← tags.mapM (fun kv => do pure (kv.1, (← unesc kv.2)))
  let fields ← parsePairs ((kvGet m "fields").getD "-")
  pure { time := time, name := name, grp := grp, byName := (kvGet m "byname") == some "1", dims := dims, tags := tags, fields := fields }

def sortPairs (l : List (String × String)) : List (String × String) := l.mergeSort (fun a b => decide (a.1 ≤ b.1))

def renderOut (o : JOut) : String :=
  let dims := renderList (o.dims.map esc)
  let tags := renderList ((sortPairs o.tags).map (fun kv => esc kv.1 ++ "=" ++ esc kv.2))
  let fields := renderList ((sortPairs o.fields).map (fun kv => esc kv.1 ++ "=" ++ kv.2))
  s!"P;{esc o.name};{o.time};{boolTok o.byName};{dims};{tags};{fields}"

def renderBOut (o : JBOut) : String :=
  let tags := renderList ((sortPairs o.tags).map (fun kv => esc kv.1 ++ "=" ++ esc kv.2))
  let dims := renderList ((sortPairs o.tags).map (fun kv => esc kv.1))
  let pts := o.points.map (fun p => s!"{p.1}^{tags}^{renderList ((sortPairs p.2).map (fun kv => esc kv.1 ++ "=" ++ kv.2))}")
  s!"Q;{esc o.name};{o.time};{boolTok o.byName};{dims};{tags};" ++ "!".intercalate (toString pts.length :: pts)

def parsePts (s : String) : Option (List BPt) :=
  if s == "-" || s.isEmpty then some [] else
  (s.splitOn "!").mapM (fun e => match e.splitOn "^" with
    | [t, f] => do pure { time := (← t.toInt?), fields := (← parsePairs f) }
    | _ => none)

def renderGroups (nd : JNode) : List String :=
  let gs := nd.groups.mergeSort (fun a b => decide (a.1 ≤ b.1))
  gs.map (fun (k, g) =>
    let times := (g.sets.map (fun p => (p.1, p.2.length))).mergeSort (fun a b => decide (a.1 ≤ b.1))
    s!"G;{esc k};{optT g.oldest};{renderList (g.head.map optT)};{renderList (times.map (fun p => s!"{p.1}*{p.2}"))}")

def statusTok : Status → String
  | .ok => "ok" | .panic => "panic" | .fuel => "fuel"

/-- A finished run: configuration text, per-parent sequences, the observed output multiset (sorted tokens). -/
structure RunRec where
  cfg : String
  seqs : List (List String)
  out : List String

structure St where
  kind : String := ""
  -- queue
  cq : CQ Nat := CQ.new []
  cqSpec : List Nat := []
  -- union
  un : UState (WCQ UMsg) := Union.init 0
  uN : Nat := 0
  uRename : String := ""
  uArr : List (Nat × UMsg) := []          -- arrivals so far (renamed), reversed
  uObs : List (Nat × UMsg) := []          -- observed output so far (tagged), reversed
  uRaw : List String := []                -- op text of the arrivals (for run comparison), reversed
  -- join
  jcfg : JCfg := { parents := 0, tol := 0, fill := .none, names := [], delim := ".", sname := "" }
  jcfgText : String := ""
  jn : JNode := JNode.init
  jArr : List (Nat × JMsg) := []          -- point arrivals, reversed
  jSteps : List (Nat × String × Int) := []  -- (parent, group, time) of points and barriers, reversed
  jObs : List String := []                -- observed point tokens so far
  jRaw : List (Nat × String) := []        -- (parent, op text) reversed
  jDead : Bool := false
  jBars : Bool := false
  jBatch : Bool := false
  jOnDims : List String := []            -- join.on() dimensions (empty: plain join)
  jOn : JOn := {}
  jOnArr : List Spec.OnArrival := []      -- arrivals of an on() join, reversed
  jDel : Bool := false                    -- a DeleteGroup message occurred: pending sets were dropped by design
  -- real task
  tKind : String := ""
  tDims : List String := []
  tCfgText : String := ""
  tArr : List (Nat × JMsg) := []          -- written points, reversed
  tOn : List Spec.OnArrival := []         -- written points of a real on() task, reversed
  tBin : List (Nat × JMsg) := []          -- batches that entered the join of a batch task, reversed
  runs : List RunRec := []
  branches : List String := []
  nontrivial : Bool := false
  mm : Option String := none              -- first model/implementation difference (the spec is still evaluated on what follows)

def noteMM (st : St) (d : String) : St := if st.mm.isSome then st else { st with mm := some d }
def addBr (st : St) (b : String) : St := if st.branches.contains b then st else { st with branches := b :: st.branches }
def addBrs (st : St) (bs : List String) : St := bs.foldl addBr st

def seqsOf (n : Nat) (raw : List (Nat × String)) : List (List String) :=
  (List.range n).map (fun i => (raw.reverse.filter (·.1 == i)).map (·.2))

/-- Compare a finished run with earlier runs of the case over the same per-parent sequences. -/
def crossCheck (st : St) (r : RunRec) : Option String :=
  match st.runs.find? (fun p => p.cfg == r.cfg && p.seqs == r.seqs) with
  | some p => if p.out == r.out then none else some s!"same parents, other interleaving: {p.out} vs {r.out}"
  | none => none

def joinBranches (_st : St) (g : JGroup JMsg) (src : Nat) (t : Int) : List String :=
  let q := (alookup t g.sets).getD []
  (match alookup t g.sets with
   | none => ["collect-new-time"]
   | some q => match q.findIdx? (fun x => !x.has src) with
     | some 0 => ["collect-first-set"]
     | some _ => ["collect-later-set"]
     | none => ["collect-enqueue-set"]) ++
  (match g.oldest with
   | none => ["oldest-init"]
   | some o => if t < o then ["oldest-lowered"] else if t = o then ["at-oldest"] else []) ++
  (if q.length ≥ 2 then ["queue-ge-2"] else [])

def judgeLine (st : St) (l : String) : Except Verdict St := do
  let (opT, obs) := splitObs (tokens l)
  match opT with
  /- ---------------- circular queue ---------------- -/
  | ["cq", "new", vs] =>
    let some buf := (splitList vs).mapM String.toNat? | throw (.badop l)
    let q : CQ Nat := CQ.new buf
    let st := { st with kind := "cq", cq := q, cqSpec := buf }
    let st := addBr st (if buf.length < 4 then "new-small" else "new-full")
    if obs.getLast? != some ("c=" ++ renderList (buf.map toString)) then throw (.specfail "queue-is-fifo" s!"new: spec {buf} observed {obs}")
    let st := if obs != cqRender q then noteMM st s!"cq new: model {cqRender q} observed {obs}" else st
    pure st
  | ["cq", "enq", v] =>
    let some v := v.toNat? | throw (.badop l)
    let st := addBrs st (cqBranches st.cq "enq" 0)
    let q := st.cq.enqueue v
    let sp := Spec.qStep st.cqSpec (.enq v)
    if obs.getLast? != some ("c=" ++ renderList (sp.map toString)) then throw (.specfail "queue-is-fifo" s!"enq {v}: spec {sp} observed {obs}")
    let st := if obs != cqRender q then noteMM st s!"cq enq: model {cqRender q} observed {obs}" else st
    pure { st with cq := q, cqSpec := sp, nontrivial := st.nontrivial || st.cq.head > 0 }
  | ["cq", "deq", n] =>
    let some n := n.toInt? | throw (.badop l)
    let st := addBrs st (cqBranches st.cq "deq" n)
    let q := st.cq.dequeue n
    let sp := Spec.qStep st.cqSpec (.deq n)
    if obs.getLast? != some ("c=" ++ renderList (sp.map toString)) then throw (.specfail "queue-is-fifo" s!"deq {n}: spec {sp} observed {obs}")
    let st := if obs != cqRender q then noteMM st s!"cq deq: model {cqRender q} observed {obs}" else st
    pure { st with cq := q, cqSpec := sp }
  | ["cq", "peek", i] =>
    let some i := i.toInt? | throw (.badop l)
    let sp := if i < 0 then "panic" else match st.cqSpec[i.toNat]? with | some v => toString v | none => "panic"
    let m := match st.cq.peek i with | none => "panic" | some s => toString (s.getD 0)
    let st := addBr st (if sp == "panic" then "peek-out-of-range" else if st.cq.head + i.toNat ≥ st.cq.cap then "peek-wrapped" else "peek-plain")
    if obs != [sp] then throw (.specfail "queue-is-fifo" s!"peek {i}: spec {sp} observed {obs}")
    let st := if obs != [m] then noteMM st s!"cq peek: model {m} observed {obs}" else st
    pure st
  /- ---------------- union ---------------- -/
  | "union" :: "new" :: rest =>
    let m := kvOf rest
    let some n := (kvGet m "n").bind String.toNat? | throw (.badop l)
    let some rn := (kvGet m "rename").bind unesc | throw (.badop l)
    if obs != ["ok"] then throw (.mismatch s!"union new: observed {obs}")
    pure { st with kind := "union", un := Union.init n, uN := n, uRename := rn, uArr := [], uObs := [], uRaw := [] }
  | ["u", kind, src, t, id] =>
    let some src := src.toNat? | throw (.badop l)
    let some t := t.toInt? | throw (.badop l)
    let some id := id.toNat? | throw (.badop l)
    let k := if kind == "pt" then 0 else if kind == "bat" then 1 else 2
    let msg : UMsg := { time := t, id := id, kind := k, name := if k == 2 then "" else s!"m{src}" }
    if src ≥ st.uN then throw (.badop l)
    let (s', out, ok) := Union.message st.uRename st.un src msg
    let st := { st with uArr := (src, Union.renamed st.uRename msg) :: st.uArr, uRaw := s!"{src} {kind} {t} {id}" :: st.uRaw }
    judgeUnion st l obs s' out ok false
  | ["u", "del", src, id] =>
    -- a DeleteGroupMessage is not a timeMessage: UnionNode.Delete forwards it at once, nothing is buffered
    let some _ := src.toNat? | throw (.badop l)
    let mdl := [s!"{id}:0:%", uRenderState st.un]
    let st := addBr st "u-delete-forwarded"
    if obs == ["panic"] || obs == ["err"] then throw (.specfail "union-total" s!"{l}: the union node failed ({obs})")
    pure (if obs != mdl then noteMM st s!"{l}: model {mdl} observed {obs}" else st)
  | ["u", "fin"] =>
    let (s', out, ok) := Union.finish st.un
    judgeUnion st l obs s' out ok true
  /- ---------------- join ---------------- -/
  | "join" :: "new" :: rest =>
    let some cfg := parseCfg rest | throw (.badop l)
    if obs != ["ok"] then throw (.mismatch s!"join new: observed {obs}")
    pure { st with kind := "join", jcfg := cfg, jcfgText := " ".intercalate rest, jn := JNode.init, jArr := [], jSteps := [], jObs := [], jRaw := [], jDead := false, jDel := false,
                   jOnDims := splitList ((kvGet (kvOf rest) "on").getD "-"), jOn := {}, jOnArr := [],
                   jBatch := (kvGet (kvOf rest) "edge") == some "batch" }
  | "j" :: "pt" :: src :: t :: rest =>
    let some src := src.toNat? | throw (.badop l)
    let some t := t.toInt? | throw (.badop l)
    let some msg := parseMsg t rest | throw (.badop l)
    if src ≥ st.jcfg.parents then throw (.badop l)
    let st := { st with jArr := (src, msg) :: st.jArr, jSteps := (src, msg.grp, t) :: st.jSteps,
                        jRaw := (src, " ".intercalate ("pt" :: t.repr :: rest)) :: st.jRaw }
    if !st.jOnDims.isEmpty then
      -- join.on(): through matchPoints
      let some gg := (kvGet (kvOf rest) "ggrp").bind unesc | throw (.badop l)
      let specific := msg.dims.length > st.jOnDims.length
      let tr := goRound st.jcfg.tol t
      let lowMark := JOn.lowMarkOf st.jcfg.parents gg (JOn.lmUpsert (src, gg) tr st.jOn.lowMarks)
      let st := addBrs st ([if specific then "on-specific-point" else "on-match-point"] ++
        (if !st.jOn.allReported then ["on-before-all-reported"] else []) ++
        (if specific && ((JOn.bufLookup gg st.jOn.matchBuf).getD []).any (fun x => goRound st.jcfg.tol x.2.time == tr) then ["on-option1-cached-match"] else []) ++
        (if !specific && ((JOn.bufLookup gg st.jOn.specBuf).getD []).any (fun x => goRound st.jcfg.tol x.2.time == tr) then ["on-cached-specific-matched"] else []) ++
        (if st.jOn.allReported && ((JOn.bufLookup gg st.jOn.specBuf).getD []).any (fun x => JOn.beforeMark (goRound st.jcfg.tol x.2.time) lowMark) then ["on-purge-specific-alone"] else []) ++
        (if specific && st.jOn.allReported && JOn.beforeMark tr lowMark then ["on-option3-late-specific"] else []))
      let (on', sets, status) := st.jOn.point st.jcfg src msg specific gg
      let st := { st with jOn := on', jOnArr := { src := src, msg := msg, specific := specific, general := gg } :: st.jOnArr }
      let st := addBr st (if on'.specBuf.any (fun p => !p.2.isEmpty) then "on-specific-cached" else "on-nothing-cached")
      return ← judgeJoin st l obs on'.node sets status [] false
    let st := addBrs st (joinBranches st (st.jn.group st.jcfg msg.grp) src (goRound st.jcfg.tol t))
    let (nd, sets, status) := st.jn.point st.jcfg src msg
    judgeJoin st l obs nd sets status [] false
  | "j" :: "bat" :: src :: t :: rest =>
    let some src := src.toNat? | throw (.badop l)
    let some t := t.toInt? | throw (.badop l)
    let some msg0 := parseMsg t rest | throw (.badop l)
    let some pts := parsePts ((kvGet (kvOf rest) "pts").getD "-") | throw (.badop l)
    let msg := { msg0 with points := pts, dims := (sortPairs msg0.tags).map (·.1) }
    if src ≥ st.jcfg.parents then throw (.badop l)
    let st := { st with jArr := (src, msg) :: st.jArr, jSteps := (src, msg.grp, t) :: st.jSteps,
                        jRaw := (src, " ".intercalate ("bat" :: t.repr :: rest)) :: st.jRaw }
    let st := addBrs st (joinBranches st (st.jn.group st.jcfg msg.grp) src (goRound st.jcfg.tol t))
    let st := addBr st "batch-join"
    let (nd, sets, status) := st.jn.point st.jcfg src msg
    judgeJoin st l obs nd sets status [] false
  | "j" :: "bar" :: src :: t :: rest =>
    let some src := src.toNat? | throw (.badop l)
    let some t := t.toInt? | throw (.badop l)
    let some grp := (kvGet (kvOf rest) "grp").bind unesc | throw (.badop l)
    if src ≥ st.jcfg.parents then throw (.badop l)
    let st := { st with jSteps := (src, grp, t) :: st.jSteps, jRaw := (src, " ".intercalate ("bar" :: t.repr :: rest)) :: st.jRaw, jBars := true }
    let st := addBr st "barrier"
    let (nd, sets, status) := st.jn.barrier st.jcfg src grp t
    judgeJoin st l obs nd sets status [s!"B;{t};{esc grp}"] false
  | "j" :: "del" :: src :: rest =>
    let some src := src.toNat? | throw (.badop l)
    let some grp := (kvGet (kvOf rest) "grp").bind unesc | throw (.badop l)
    if src ≥ st.jcfg.parents then throw (.badop l)
    let st := { addBr st (if (JNode.glookup grp st.jn.groups).any (fun g => !g.sets.isEmpty) then "delete-drops-pending-sets" else "delete-idle-group") with
                jDel := true, jRaw := (src, " ".intercalate ("del" :: rest)) :: st.jRaw }
    judgeJoin st l obs (st.jn.delete grp) [] .ok [s!"D;{esc grp}"] false
  | ["j", "fin"] =>
    if !st.jOnDims.isEmpty then
      let st := addBr st (if st.jOn.specBuf.any (fun p => !p.2.isEmpty) then "on-finish-flushes-cached-specific" else "on-finish-nothing-cached")
      let (on', sets, status) := st.jOn.finish st.jcfg
      return ← judgeJoin { st with jOn := on' } l obs on'.node sets status [] true
    let (gs, sets, status) := JNode.finish st.jn.groups
    judgeJoin st l obs { groups := gs } sets status [] true
  /- ---------------- real tasks (multiConsumer decides the interleaving) ---------------- -/
  | "task" :: "new" :: rest =>
    let some cfg := parseCfg rest | throw (.badop l)
    let m := kvOf rest
    let some dims := (splitList ((kvGet m "dims").getD "-")).mapM unesc | throw (.badop l)
    let some rn := unesc ((kvGet m "rename").getD "%") | throw (.badop l)
    if obs != ["ok"] then throw (.mismatch s!"task new: observed {obs}")
    let kind := (kvGet m "kind").getD ""
    -- "live…" = the node's own runF and multiConsumer on channel edges fed by concurrent goroutines (no TaskMaster)
    let st := if kind.startsWith "live" then addBr st s!"task-{kind}" else st
    pure { st with kind := "task", tKind := (if kind.startsWith "live" then (kind.drop 4).toString else kind), jcfg := cfg, tDims := dims, uRename := rn,
                   jOnDims := splitList ((kvGet m "on").getD "-"), tOn := [],
                   tCfgText := " ".intercalate rest, tArr := [], tBin := [] }
  | "task" :: "w" :: src :: t :: rest =>
    let some src := src.toNat? | throw (.badop l)
    let some t := t.toInt? | throw (.badop l)
    let some msg := parseMsg t (s!"name=m{src}" :: (rest ++ ["dims=" ++ renderList (st.tDims.map esc)])) | throw (.badop l)
    if src ≥ st.jcfg.parents || st.kind != "task" then throw (.badop l)
    if st.tKind == "joinon" then
      let some gg := (kvGet (kvOf rest) "ggrp").bind unesc | throw (.badop l)
      return { st with tOn := { src := src, msg := msg, specific := msg.dims.length > st.jOnDims.length, general := gg } :: st.tOn }
    pure { st with tArr := (src, msg) :: st.tArr }
  | "task" :: "bin" :: src :: t :: rest =>
    -- a batch that entered the join of a real batch task (recorded by the sink in front of it)
    let some src := src.toNat? | throw (.badop l)
    let some t := t.toInt? | throw (.badop l)
    let some msg0 := parseMsg t rest | throw (.badop l)
    let some pts := parsePts ((kvGet (kvOf rest) "pts").getD "-") | throw (.badop l)
    if src ≥ st.jcfg.parents || st.kind != "task" then throw (.badop l)
    pure { st with tBin := (src, { msg0 with points := pts, dims := (sortPairs msg0.tags).map (·.1) }) :: st.tBin }
  | ["task", "run"] =>
    if st.kind != "task" then throw (.badop s!"{l}: no task")
    if st.tKind == "joinon" then
      let arr := st.tOn.reverse
      let some k := obs.head?.bind String.toNat? | throw (.specfail "task-total" s!"the on() task failed: {obs}")
      let got := sortStrings (obs.drop 1)
      if k != got.length then throw (.badop l)
      if !decide (Spec.onDomain st.jcfg arr) then throw (.badop s!"{l}: on() task case outside the claimed domain")
      let want := sortStrings ((Spec.joinOnOutput st.jcfg arr).map renderOut)
      if want != got then throw (.specfail "join-on-pairs-specific-with-general" s!"real on() task: spec {want} observed {got}")
      let (_, sets, stt) := JOn.run st.jcfg (arr.map (fun a => (a.src, a.msg, a.specific, a.general)))
      if stt != .ok then throw (.mismatch s!"{l}: model status {statusTok stt}")
      let mdl := sortStrings ((sets.filterMap (joinIntoPoint st.jcfg)).map renderOut)
      let st := if mdl != got then noteMM st s!"real on() task: model {mdl} observed {got}" else st
      let r : RunRec := { cfg := st.tCfgText, seqs := (List.range st.jcfg.parents).map (fun i => (arr.filter (·.src == i)).map (fun a => s!"{a.msg.time} {a.msg.tags} {a.msg.fields}")), out := got }
      match crossCheck st r with
      | some d => throw (.specfail "join-on-interleaving-independent" d)
      | none => pure ()
      let st := addBrs st (["task-join-on"] ++ (if st.runs.any (fun p => p.cfg == r.cfg && p.seqs == r.seqs) then ["task-second-interleaving"] else []))
      return { st with runs := r :: st.runs, tOn := [], nontrivial := st.nontrivial || !got.isEmpty }
    if st.tKind == "joinb" then
      let arrivals := st.tBin.reverse
      let some k := obs.head?.bind String.toNat? | throw (.specfail "task-total" s!"the batch task failed: {obs}")
      let got := sortStrings (obs.drop 1)
      if k != got.length then throw (.badop l)
      let steps := arrivals.map (fun a => (a.1, a.2.grp, a.2.time))
      if !decide (Spec.joinOrdered st.jcfg steps) || !decide (Spec.batchPointsOrdered st.jcfg arrivals) then
        throw (.badop s!"{l}: unordered batches entered the join")
      let want := sortStrings ((Spec.joinBatchOutput st.jcfg arrivals).map renderBOut)
      if want != got then throw (.specfail "join-batches-by-occurrence" s!"real batch task: spec {want} observed {got}")
      let mut nd := JNode.init
      let mut sets : List (JSet JMsg) := []
      for (src, msg) in arrivals do
        let (nd', ss, stt) := nd.point st.jcfg src msg
        if stt != .ok then throw (.mismatch s!"{l}: model status {statusTok stt}")
        nd := nd'; sets := sets ++ ss
      let (_, ss, stt) := JNode.finish nd.groups
      if stt != .ok then throw (.mismatch s!"{l}: model status {statusTok stt}")
      let mdl := sortStrings (((sets ++ ss).filterMap (joinIntoBatch st.jcfg)).map renderBOut)
      let st := if mdl != got then noteMM st s!"real batch task join: model {mdl} observed {got}" else st
      let st := addBrs st (["task-join-batch"] ++ (if got.any (fun t => !(t.endsWith ";0")) then ["task-join-batch-points"] else []))
      return { st with tBin := [], nontrivial := st.nontrivial || !got.isEmpty }
    let arrivals := st.tArr.reverse
    let some k := obs.head?.bind String.toNat? | throw (.specfail "task-total" s!"the task failed: {obs}")
    let toks := obs.drop 1
    if k != toks.length then throw (.badop l)
    let raw := arrivals.map (fun a => (a.1, s!"{a.2.time} {a.2.tags} {a.2.fields}"))
    let seqs := (List.range st.jcfg.parents).map (fun i => (raw.filter (·.1 == i)).map (·.2))
    if st.tKind == "join" then
      let steps := arrivals.map (fun a => (a.1, a.2.grp, a.2.time))
      if !decide (Spec.joinOrdered st.jcfg steps) then throw (.badop s!"{l}: unordered parent in a task case")
      let got := sortStrings toks
      let want := sortStrings ((Spec.joinOutput st.jcfg arrivals).map renderOut)
      if want != got then throw (.specfail "join-pairs-by-occurrence" s!"real task: spec {want} observed {got}")
      -- model on the WRITE order; any interleaving gives the same multiset
      let mut nd := JNode.init
      let mut sets : List (JSet JMsg) := []
      for (src, msg) in arrivals do
        let (nd', ss, stt) := nd.point st.jcfg src msg
        if stt != .ok then throw (.mismatch s!"{l}: model status {statusTok stt}")
        nd := nd'; sets := sets ++ ss
      let (_, ss, stt) := JNode.finish nd.groups
      if stt != .ok then throw (.mismatch s!"{l}: model status {statusTok stt}")
      let mdl := sortStrings (((sets ++ ss).filterMap (joinIntoPoint st.jcfg)).map renderOut)
      let st := if mdl != got then noteMM st s!"real task join: model {mdl} observed {got}" else st
      let r : RunRec := { cfg := st.tCfgText, seqs := seqs, out := got }
      match crossCheck st r with
      | some d => throw (.specfail "join-interleaving-independent" d)
      | none => pure ()
      let st := addBrs st (["task-join"] ++ (if st.runs.any (fun p => p.cfg == r.cfg && p.seqs == r.seqs) then ["task-second-interleaving"] else []))
      pure { st with runs := r :: st.runs, nontrivial := st.nontrivial || !got.isEmpty }
    else
      -- union: identity of a point = its field `id`
      let idOf (m : JMsg) : Nat := ((slookup "id" m.fields).bind (fun v => (v.drop 2).toString.toNat?)).getD 0
      let arrU : List (Nat × UMsg) := arrivals.map (fun a =>
        (a.1, Union.renamed st.uRename { time := a.2.time, id := idOf a.2, kind := 0, name := a.2.name }))
      let mut tagged : List (Nat × UMsg) := []
      for tok in toks do
        match tok.splitOn ";" with
        | ["P", name, t, _, _, _, fields] =>
          let some name := unesc name | throw (.badop l)
          let some t := t.toInt? | throw (.badop l)
          let some fs := parsePairs fields | throw (.badop l)
          let id := ((slookup "id" fs).bind (fun v => (v.drop 2).toString.toNat?)).getD 0
          match arrU.find? (fun a => a.2.id == id) with
          | some a => tagged := tagged ++ [(a.1, { a.2 with time := t, name := name })]
          | none => throw (.specfail "union-exactly-once" s!"real task: emitted a point nobody delivered: {tok}")
        | _ => throw (.badop l)
      if !decide (Spec.unionExactlyOnceInOrder st.jcfg.parents arrU tagged) then
        throw (.specfail "union-exactly-once-in-order-flush" s!"real task: delivered {uRenderOut arrU} emitted {uRenderOut tagged}")
      if decide (Spec.parentsOrdered st.jcfg.parents arrU) && !decide (Spec.unionSorted tagged) then
        throw (.specfail "union-sorted" s!"real task: emitted {uRenderOut tagged}")
      let (_, mo) := (Union.run st.uRename st.jcfg.parents (arrivals.map (fun a =>
        (a.1, ({ time := a.2.time, id := idOf a.2, kind := 0, name := a.2.name } : UMsg)))) : UState (WCQ UMsg) × _)
      let canon (o : List (Nat × UMsg)) := sortStrings (o.map (fun p => s!"{p.1}:{p.2.id}:{p.2.time}:{esc p.2.name}"))
      let st := if canon mo != canon tagged then noteMM st s!"real task union: model {canon mo} observed {canon tagged}" else st
      let st := addBr st "task-union"
      pure { st with nontrivial := st.nontrivial || (tagged.map (·.1)).eraseDups.length ≥ 2 }
  /- ---------------- race detector (thorough tier) ---------------- -/
  | ["race", "check", _] =>
    match obs with
    | ["0"] => pure { addBr st "race-detector-run" with kind := "race" }
    | [k] => if k.toNat?.isSome then throw (.specfail "no-data-race" s!"the Go race detector reported {k} data race(s) in real join/union tasks")
             else throw (.badop s!"{l}: the race run could not be made ({k})")
    | _ => throw (.badop l)
  | _ => throw (.badop l)
where
  judgeUnion (st : St) (l : String) (obs : List String) (s' : UState (WCQ UMsg)) (out : List (Nat × UMsg)) (ok : Bool) (fin : Bool) :
      Except Verdict St := do
    if obs == ["dead"] then throw (.mismatch s!"{l}: union node is dead")
    if obs == ["panic"] || obs == ["err"] then throw (.specfail "union-total" s!"{l}: the union node failed ({obs})")
    let arrivals := st.uArr.reverse
    -- tag what was observed with the parent it came from (identity = the id the harness gave the message)
    let obsToks := match obs with | o :: _ => splitList o | [] => []
    let mut tagged : List (Nat × UMsg) := []
    for tok in obsToks do
      match tok.splitOn ":" with
      | [id, t, name] =>
        match id.toNat?, t.toInt?, unesc name with
        | some id, some t, some name =>
          match arrivals.find? (fun a => a.2.id == id) with
          | some a => tagged := tagged ++ [(a.1, { a.2 with time := t, name := name })]
          | none => throw (.specfail "union-exactly-once" s!"{l}: emitted a message nobody delivered: {tok}")
        | _, _, _ => throw (.badop l)
      | _ => throw (.badop l)
    let obsAll := st.uObs.reverse ++ tagged
    if fin then
      if !decide (Spec.unionExactlyOnceInOrder st.uN arrivals obsAll) then
        throw (.specfail "union-exactly-once-in-order-flush" s!"{l}: delivered {uRenderOut arrivals} emitted {uRenderOut obsAll}")
    else
      if !decide (Spec.unionPrefixInOrder st.uN arrivals obsAll) then
        throw (.specfail "union-exactly-once-in-order" s!"{l}: delivered {uRenderOut arrivals} emitted {uRenderOut obsAll}")
    let ordered := decide (Spec.parentsOrdered st.uN arrivals)
    if ordered && !decide (Spec.unionSorted obsAll) then
      throw (.specfail "union-sorted" s!"{l}: emitted {uRenderOut obsAll}")
    let mdl := [uRenderOut out, uRenderState s']
    if !ok then throw (.mismatch s!"{l}: model ran out of fuel")
    let st := if obs != mdl then noteMM st s!"{l}: model {mdl} observed {obs}" else st
    let mut st := { st with un := s', uObs := tagged.reverse ++ st.uObs }
    st := addBr st (if out.isEmpty then (if st.un.lowMarks.any Option.isNone then "u-wait-for-silent-parent" else "u-nothing-ready") else "u-emit")
    if !ordered then st := addBr st "u-unordered-parent"
    if st.uRename != "" then st := addBr st "u-rename"
    if s'.sources.any (fun q => q.1.head > 0) then st := addBr st "u-queue-head-moved"
    if s'.sources.any (fun q => q.1.cap > 4) then st := addBr st "u-queue-grown"
    if (out.map (·.1)).eraseDups.length ≥ 2 then st := { addBr st "u-emit-from-several" with nontrivial := true }
    if fin then
      st := addBr st (if out.isEmpty then "u-finish-nothing-buffered" else "u-finish-flushes")
      let r : RunRec := { cfg := s!"union {st.uN} {st.uRename}", seqs := (List.range st.uN).map (fun i => (st.uRaw.reverse.filter (fun s => s.startsWith s!"{i} "))),
                          out := sortStrings (obsAll.map (fun p => s!"{p.2.id}:{p.2.time}:{esc p.2.name}")) }
      match crossCheck st r with
      | some d => throw (.specfail "union-interleaving-independent" d)
      | none => pure ()
      if st.runs.any (fun p => p.cfg == r.cfg && p.seqs == r.seqs) then st := addBr st "u-second-interleaving"
      st := { st with runs := r :: st.runs }
    pure st
  judgeJoin (st : St) (l : String) (obs : List String) (nd : JNode) (sets : List (JSet JMsg)) (status : Status) (extra : List String) (fin : Bool) :
      Except Verdict St := do
    if obs == ["dead"] then
      -- the node panicked earlier in this run; nothing more is executed on the implementation
      if st.jDead then return st else throw (.mismatch s!"{l}: implementation dead, model alive")
    if obs == ["panic"] then
      throw (.specfail "join-total" s!"{l}: the join node panicked; everything buffered is lost (model status {statusTok status})")
    if obs == ["err"] then throw (.specfail "join-total" s!"{l}: the join node returned an error")
    let (outToks, stToks) := match obs with
      | _ :: rest => (rest.takeWhile (· != "|"), (rest.dropWhile (· != "|")).drop 1)
      | [] => ([], [])
    let pts := outToks.filter (fun t => t.startsWith (if st.jBatch then "Q;" else "P;"))
    let obsAll := st.jObs ++ pts
    let steps := st.jSteps.reverse
    let arrivals := st.jArr.reverse
    let ordered := decide (Spec.joinOrdered st.jcfg steps)
    let onArr := st.jOnArr.reverse
    let onOk := !st.jOnDims.isEmpty && decide (Spec.onDomain st.jcfg onArr)
    if fin && onOk then
      let want := sortStrings ((Spec.joinOnOutput st.jcfg onArr).map renderOut)
      let got := sortStrings obsAll
      if want != got then throw (.specfail "join-on-pairs-specific-with-general" s!"{l}: spec {want} observed {got}")
    if fin && st.jOnDims.isEmpty && ordered && !st.jDel && (!st.jBatch || decide (Spec.batchPointsOrdered st.jcfg arrivals)) then
      let want := sortStrings (if st.jBatch then (Spec.joinBatchOutput st.jcfg arrivals).map renderBOut
                               else (Spec.joinOutput st.jcfg arrivals).map renderOut)
      let got := sortStrings obsAll
      if want != got then throw (.specfail "join-pairs-by-occurrence" s!"{l}: spec {want} observed {got}")
    -- correspondence
    let mOut := (if st.jBatch then (sets.filterMap (joinIntoBatch st.jcfg)).map renderBOut
                 else (sets.filterMap (joinIntoPoint st.jcfg)).map renderOut) ++ extra
    let mOut := if fin then sortStrings mOut else mOut
    let ma := (st.jOn.matchBuf.map (·.2.length)).sum
    let sp := (st.jOn.specBuf.map (·.2.length)).sum
    let mdl := [toString mOut.length] ++ mOut ++ ["|"] ++ renderGroups nd ++
      (if !st.jOnDims.isEmpty && ma + sp > 0 then [s!"M;{ma};{sp}"] else [])
    if status != .ok then throw (.mismatch s!"{l}: model status {statusTok status}, observed {obs}")
    let st := if obs != mdl then noteMM st s!"{l}: model {mdl} observed {obs}" else st
    ignore stToks
    let mut st := { st with jn := nd, jObs := obsAll }
    if !ordered then st := addBr st "j-unordered-parent"
    for s in sets do
      st := addBr st (if s.ready then "emit-ready-set" else match st.jcfg.fill with
        | .none => "drop-incomplete-set-inner" | .null => "fill-null" | .num _ => "fill-number")
      if s.ready then st := { st with nontrivial := true }
    if st.jBatch then
      for s in sets do
        match joinIntoBatch st.jcfg s with
        | some b =>
          st := addBr st (if b.points.isEmpty then "batch-out-empty" else "batch-out-points")
          if b.points.length ≥ 2 then st := { st with nontrivial := true }
          let allp := s.values.flatMap Spec.batchPoints
          if (allp.map (fun p => goRound st.jcfg.tol p.time)).eraseDups.length < allp.length then st := addBr st "batch-points-same-time"
        | none => pure ()
      if !decide (Spec.batchPointsOrdered st.jcfg arrivals) then st := addBr st "batch-unordered-points"
    if !fin && sets.length ≥ 2 then st := addBr st "emit-several-at-once"
    if !fin && sets.any (fun s => !s.ready) then st := addBr st "emit-nonready-heads-passed"
    if st.jcfg.tol > 0 then st := addBr st "tolerance"
    if st.jcfg.parents ≥ 3 then st := addBr st "three-parents"
    if nd.groups.length ≥ 2 then st := addBr st "several-groups"
    if fin && !st.jOnDims.isEmpty then st := addBr st (if onOk then "on-pairing-oracle-evaluated" else "on-outside-claimed-domain")
    if fin then
      st := addBr st (if sets.isEmpty then "finish-nothing-buffered" else "finish-flushes")
      let r : RunRec := { cfg := st.jcfgText, seqs := seqsOf st.jcfg.parents st.jRaw, out := sortStrings obsAll }
      if (if st.jOnDims.isEmpty then ordered && !st.jDel else onOk) then
        match crossCheck st r with
        | some d => throw (.specfail "join-interleaving-independent" d)
        | none => pure ()
        if st.runs.any (fun p => p.cfg == r.cfg && p.seqs == r.seqs) then st := addBr st "j-second-interleaving"
      st := { st with runs := r :: st.runs }
    pure st
  ignore (_ : List String) : Except Verdict Unit := pure ()

def judge (_id : String) (lines : Array String) : Verdict := Id.run do
  let mut st : St := {}
  -- the property first: a node that panicked lost what it had buffered, whatever the model says before
  for l in lines do
    let (opT, obs) := splitObs (tokens l)
    if obs == ["panic"] then
      match opT with
      | "j" :: _ => return .specfail "join-total" s!"{" ".intercalate opT}: the join node panicked; everything buffered is lost"
      | "u" :: _ => return .specfail "union-total" s!"{" ".intercalate opT}: the union node panicked; everything buffered is lost"
      | _ => pure ()
  for l in lines do
    match judgeLine st l with
    | .ok s => st := s
    | .error v => return v
  match st.mm with
  | some d => return .mismatch d
  | none => return .ok st.nontrivial st.branches.reverse

end Kap.C12.Drv

def main : IO Unit := Kap.driverMain Kap.C12.Drv.judge
