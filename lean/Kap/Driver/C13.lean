/-
Driver for C13: reads the cases printed by harness/c13 (which ran the REAL tick/ast, pipeline and
pipeline/tick code), and per case
  1. evaluates the spec (Kap/Spec/C13.lean) on the OBSERVED events  → SPECFAIL / KNOWN,
  2. replays the expression ops on the model (Kap/Model/C13.lean) and compares every observation → MISMATCH.
Script-level ops are replayed on the statement-level model (Kap/Model/C13Prog.lean); pipeline construction and
pipeline JSON (dot / pjson) have no model: spec only. `pnodes` + `ptick`: every node of the real pipeline (fields
dumped by reflection) is rendered by the model of pipeline/tick (Kap/Model/C13Tick.lean interpreting the Build
bodies extracted from the source) and compared token by token with the chain links of the real rendering.
-/
import Kap.Basic
import Kap.Model.C13
import Kap.Model.C13Prog
import Kap.Proofs.C13Prog
import Kap.Proofs.C13ProgImage
import Kap.Proofs.C13DecodeTree
import Kap.Proofs.C13Tick
import Kap.Gen.C13Tick
import Kap.Spec.C13
open Kap Kap.C13 Kap.C13.Gen

namespace Kap.C13.Drv

/-! reading an expression dump back into a model tree (for `build`) -/

def opOfEsc (s : String) : Option BinOp := (unesc s).bind opOfStr?

mutual
def undump : Nat → List String → Option (Expr × List String)
  | 0, _ => none
  | f + 1, ts =>
    match ts with
    | "num" :: "i" :: b :: v :: rest => do pure (.lit (.num (.int (← b.toNat?) (← v.toInt?))), rest)
    | "num" :: "f" :: v :: rest => some (.lit (.num (.flt v)), rest)
    | "dur" :: ns :: l :: rest => do pure (.lit (.dur (← ns.toInt?) (← unesc l)), rest)
    | "bool" :: b :: rest => some (.lit (.bool (b == "1")), rest)
    | "str" :: t :: l :: rest => do pure (.lit (.str (← unesc l) (t == "1")), rest)
    | "rx" :: re :: l :: rest => do pure (.lit (.rx (← unesc re) (← unesc l)), rest)
    | "ref" :: s :: rest => do pure (.lit (.ref (← unesc s)), rest)
    | "id" :: s :: rest => do pure (.id (← unesc s), rest)
    | "star" :: rest => some (.lit .star, rest)
    | "un" :: o :: rest => do
      let os ← unesc o
      let op ← if os == UnOp.neg.str then some UnOp.neg else if os == UnOp.not.str then some UnOp.not else none
      let (e, rest') ← undump f rest
      pure (.un op e, rest')
    | "bin" :: o :: p :: rest => do
      let op ← opOfEsc o
      let (l, r1) ← undump f rest
      let (r, r2) ← undump f r1
      pure (.bin op l r (p == "1"), r2)
    | "call" :: n :: k :: rest => do
      let (as, rest') ← undumps f (← k.toNat?) rest
      pure (.call (← unesc n) as, rest')
    | _ => none
def undumps : Nat → Nat → List String → Option (List Expr × List String)
  | 0, _, _ => none
  | _ + 1, 0, ts => some ([], ts)
  | f + 1, k + 1, ts => do
    let (e, r1) ← undump f ts
    let (es, r2) ← undumps f k r1
    pure (e :: es, r2)
end

def undumpAll (ts : List String) : Option Expr :=
  match undump (ts.length + 2) ts with
  | some (e, []) => some e
  | _ => none

/-! branch coverage derived from the trees the model went through -/

def hasEsc (q : Char) (s : String) : Bool := s.toList.contains q

/-- value class of a float from its canonical text (what the generator must reach: whole values at and beyond
2^63 where an int64 conversion overflows, beyond 2^53 where digits exceed the mantissa, 16/17 significant digits,
tiny fractions, negative zero, the top of the range) -/
def floatClasses (c : String) : List String :=
  let cs := c.toList
  let neg := cs.head? == some '-'
  let t := if neg then cs.drop 1 else cs
  let ip := t.takeWhile (· ≠ '.')
  let fp := (t.dropWhile (· ≠ '.')).drop 1
  let whole := fp == ['0']
  let n := F64.natOfDigits ip
  let digits := stripLeadingZeros (ip ++ (if whole then [] else fp))
  let sig := (F64.stripTrailingZeros digits).length
  (if neg then ["num-float-negative"] else []) ++
  (if c == "-0.0" then ["num-float-negzero"] else []) ++
  (if whole && n ≥ 9223372036854775808 then ["num-float-whole-ge-2^63"] else []) ++
  (if whole && n ≥ 9007199254740992 && n < 9223372036854775808 then ["num-float-whole-2^53..2^63"] else []) ++
  (if n ≥ 10 ^ 300 then ["num-float-near-max"] else []) ++
  (if sig ≥ 16 then ["num-float-16-17-digits"] else []) ++
  (if n == 0 && !whole && (fp.takeWhile (· == '0')).length ≥ 6 then ["num-float-tiny"] else []) ++
  (if n == 0 && !whole && (fp.takeWhile (· == '0')).length ≥ 300 then ["num-float-subnormal"] else [])

def intClasses (v : Int) : List String :=
  (if v == int64Max then ["num-int-max"] else []) ++
  (if v == -int64Max then ["num-int-min-plus-1"] else []) ++
  (if v.natAbs > 9007199254740992 then ["num-int-beyond-2^53"] else [])

/-- the canonical text of a float VALUE is canonical in the model too (ties strconv.FormatFloat of the harness
dump to `F64.fmt` for values that did not come from a literal) -/
def fltCanonical (c : String) : Bool :=
  let cs := c.toList
  let t := if cs.head? == some '-' then cs.drop 1 else cs
  decide (canonFloat t = .ok (String.ofList t))

/-- number classes met in an observed dump (script level: the expression model is off there) -/
def dumpNumClasses : List String → List String
  | "num" :: "f" :: v :: rest => floatClasses v ++ dumpNumClasses rest
  | "num" :: "i" :: _ :: v :: rest => (match v.toInt? with | some x => intClasses x | none => []) ++ dumpNumClasses rest
  | _ :: rest => dumpNumClasses rest
  | [] => []

/-- all float texts of an observed dump -/
def dumpFloats : List String → List String
  | "num" :: "f" :: v :: rest => v :: dumpFloats rest
  | _ :: rest => dumpFloats rest
  | [] => []

partial def branches : Expr → List String
  | .lit (.num (.int 8 v)) => "num-octal" :: intClasses v
  | .lit (.num (.int _ v)) => (if v < 0 then "num-negative" else "num-int") :: intClasses v
  | .lit (.num (.flt c)) => "num-float" :: floatClasses c
  | .lit (.dur _ l) => if l.isEmpty then ["dur-noliteral"] else ["dur"]
  | .lit (.bool _) => ["bool"]
  | .lit (.str l t) => (if t then ["str-triple"] else ["str-single"]) ++ (if hasEsc '\'' l then ["str-quote-inside"] else []) ++ (if hasEsc '\\' l then ["str-backslash-inside"] else [])
  | .lit (.rx re l) => (if l.isEmpty then ["rx-noliteral"] else ["rx"]) ++ (if hasEsc '/' re then ["rx-slash-inside"] else [])
  | .lit (.ref s) => "ref" :: (if hasEsc '"' s then ["ref-quote-inside"] else [])
  | .lit .star => ["star"]
  | .id _ => ["ident"]
  | .un op e =>
    (match op with | .neg => "un-neg" | .not => "un-not") ::
      (match e with | .bin _ _ _ true => ["un-over-parens"] | .bin _ _ _ false => ["un-over-bare-binary"] | .un _ _ => ["un-un"] | _ => []) ++ branches e
  | .bin o l r p =>
    (if p then ["bin-parens"] else ["bin"]) ++
    (match l with
      | .bin ol _ _ false => if prec ol < prec o then ["left-looser-bare"] else if prec ol = prec o then ["left-assoc-chain"] else ["left-tighter"]
      | _ => []) ++
    (match r with
      | .bin or' _ _ false => if prec or' ≤ prec o then ["right-not-tighter-bare"] else ["right-climb"]
      | _ => []) ++ branches l ++ branches r
  | .call _ args => (if args.isEmpty then "call-0" else "call-n") :: (args.map branches).flatten

mutual
partial def redump : Spec.T → List String
  | .node "program" _ ks =>
    let ks' := ks.filter (fun k => !Spec.isComment k)
    "program" :: toString ks'.length :: redumps ks'
  | .node tag fs ks => tag :: fs ++ redumps ks
partial def redumps : List Spec.T → List String
  | [] => []
  | k :: ks => redump k ++ redumps ks
end

/-- observed program dump without the comment nodes (the token view has no comments) -/
def stripComments (d : List String) : Option (List String) := (Spec.readDump d).map redump

def progBranches (p : Program) : List String :=
  let stmt : Stmt → List String
    | .decl _ (.chain _ _) => ["decl-chain"]
    | .decl _ (.arg (.lambda _)) => ["decl-lambda"]
    | .decl _ (.arg (.list _)) => ["decl-list"]
    | .decl _ (.arg (.expr _)) => ["decl-expr"]
    | .typeDecl _ _ => ["typedecl"]
    | .dbrp _ _ => ["dbrp"]
    | .expr (.chain _ ls) =>
      "stmt-chain" :: (ls.map (fun l => match l.op, l.args with
        | .pipe, _ => "link-pipe" | .dot, some _ => "link-property" | .dot, none => "link-property-ident"
        | .at, _ => "link-udf")) ++
      (ls.map (fun l => match l.args with
        | some as => as.map (fun a => match a with | .lambda _ => "arg-lambda" | .list _ => "arg-list" | .expr _ => "arg-expr")
        | none => [])).flatten
    | .expr (.arg _) => ["stmt-expr"]
  (p.map stmt).flatten


/-! reading the node dumps of `pnodes` (harness/c13: dumpVal) -/

structure PNode where
  typ : String
  name : String
  parents : List String
  val : Tick.Val

mutual
def readVal : Nat → List String → Option (Tick.Val × List String)
  | 0, _ => none
  | f + 1, ts =>
    match ts with
    | "s" :: x :: r => (unesc x).map (fun s => (.str s, r))
    | "i" :: x :: r => x.toInt?.map (fun v => (.int v, r))
    | "f" :: x :: r => some (.flt x, r)
    | "b" :: x :: r => some (.bool (x == "1"), r)
    | "d" :: x :: r => x.toInt?.map (fun v => (.dur v, r))
    | "lam" :: k :: r =>
      match k.toNat? with
      | some n =>
        if r.length < n then none else
        match undumpAll (r.take n) with
        | some e => some (.lambda e, r.drop n)
        | none => some (.other, r.drop n)
      | none => none
    | "lamnil" :: r => some (.lamNil, r)
    | "star" :: r => some (.star, r)
    | "starnil" :: r => some (.starNil, r)
    | "nil" :: r => some (.nil, r)
    | "other" :: r => some (.other, r)
    | "ilist" :: k :: r => k.toNat?.bind (fun n => (readVals f n r).map (fun x => (.ilist x.1, x.2)))
    | "slice" :: k :: r => k.toNat?.bind (fun n => (readVals f n r).map (fun x => (.slice x.1, x.2)))
    | "map" :: k :: r => k.toNat?.bind (fun n => (readKVs f n true r).map (fun x => (.map x.1, x.2)))
    | "struct" :: k :: r => k.toNat?.bind (fun n => (readKVs f n false r).map (fun x => (.struct x.1, x.2)))
    | _ => none
def readVals : Nat → Nat → List String → Option (List Tick.Val × List String)
  | 0, _, _ => none
  | _ + 1, 0, ts => some ([], ts)
  | f + 1, k + 1, ts =>
    match readVal f ts with
    | some (v, r) => (readVals f k r).map (fun x => (v :: x.1, x.2))
    | none => none
def readKVs : Nat → Nat → Bool → List String → Option (List Tick.Val × List String)
  | 0, _, _, _ => none
  | _ + 1, 0, _, ts => some ([], ts)
  | f + 1, k + 1, escKey, ts =>
    match ts with
    | key :: r =>
      match (if escKey then unesc key else some key), readVal f r with
      | some ks, some (v, r') => (readKVs f k escKey r').map (fun x => (.kv ks v :: x.1, x.2))
      | _, _ => none
    | [] => none
end

def readNodes : Nat → List String → Option (List PNode)
  | 0, _ => none
  | _ + 1, [] => some []
  | f + 1, "node" :: typ :: name :: k :: r =>
    match unesc name, k.toNat? with
    | some nm, some n =>
      if r.length < n then none else
      match (r.take n).mapM unesc, readVal (r.length + 2) (r.drop n) with
      | some ps, some (v, r') => (readNodes f r').map (fun ns => { typ := typ, name := nm, parents := ps, val := v } :: ns)
      | _, _ => none
    | _, _ => none
  | _ + 1, _ => none

def statusOf {α} : Res α → String
  | .ok _ => "ok"
  | .err => "err"
  | .na w => "na:" ++ w

structure St where
  cur : Res Expr := .err
  txt : Res String := .err
  modelOff : Option String := none       -- set when the model says "not covered": later ops are spec-only
  evs : Array Spec.Ev := #[]
  br : List String := []
  nt : Bool := false
  mism : Option String := none
  afterPtick : Bool := false
  curP : Res Program := .err
  progOff : Option String := none      -- statement-level model said "not covered"
  pnodes : Option (List PNode) := none -- the nodes of the pipeline that `ptick` renders next
  scriptNums : List String := []       -- number classes of the script the case started from

def addBr (st : St) (bs : List String) : St :=
  { st with br := bs.foldl (fun acc b => if acc.contains b then acc else b :: acc) st.br }

def treeEv (via : String) (obs : List String) : Option Spec.Ev :=
  match obs with
  | "ok" :: d => (Spec.readDump d).map (fun t => .tree via (some t))
  | ["err"] => some (.tree via none)
  | ["panic"] => some (.panic via)
  | _ => none

def noteMism (st : St) (d : String) : St := if st.mism.isSome then st else { st with mism := some d }

/-- compare the statement-level model's parse with the observation of a program-producing op -/
def cmpProg (st : St) (what : String) (obs : List String) : St :=
  match st.progOff with
  | some _ => st
  | none =>
    match st.curP with
    | .na w =>
      if w == "fuel" || w == "lexer-fuel" then noteMism st s!"{what}: program model ran out of fuel"
      else { addBr st ["prog-na:" ++ w] with progOff := some w }
    | .err => if obs == ["err"] then addBr st ["prog-parse-err"] else noteMism st s!"{what}: program model err, observed {obs.take 8}"
    | .ok p =>
      match obs with
      | "ok" :: d =>
        match stripComments d with
        | some d' =>
          if d' == dumpProgram p then addBr st ("prog-model" :: (if progWF p then "prog-wf" else "prog-not-wf") ::
            (if sepOK p then "prog-sep-ok" else "prog-sep-not-ok") :: progBranches p)
          else noteMism st s!"{what}: program model {(dumpProgram p).take 40} observed {d'.take 40}"
        | none => noteMism st s!"{what}: unreadable dump"
      | _ => noteMism st s!"{what}: program model ok, observed {obs.take 4}"

/-! pipeline/tick: the properties a node is rendered with, against the builder order extracted from the source -/

def zeroArg : Arg → Bool
  | .expr (.lit (.str l _)) => l.isEmpty
  | .expr (.lit (.num (.int _ v))) => v == 0
  | .expr (.lit (.num (.flt c))) => c == "0.0"
  | .expr (.lit (.dur ns _)) => ns == 0
  | .expr (.lit (.bool b)) => !b
  | _ => false

/-- embed the emitted property sequence into the builder order (an entry may repeat: loops) -/
def embedProps (table : List (String × String)) : Nat → List Link → Option String
  | _, [] => none
  | i, l :: rest =>
    let cands := (List.range table.length).filter (fun j => j ≥ i && (table.getD j ("", "")).2 == l.name)
    match cands.head? with
    | none => some s!"property .{l.name} is not at or after position {i} of the builder order"
    | some j =>
      let m := (table.getD j ("", "")).1
      let allZero := match l.args with
        | some as => !as.isEmpty && as.all zeroArg
        | none => false
      if m == "Dot" && allZero then some s!"property .{l.name} was emitted with zero-valued arguments although Dot elides them"
      else embedProps table j rest

/-- split a chain into node segments: each `|node(...)` with the `.property` links that follow it -/
def segments : List Link → List (String × List Link)
  | [] => []
  | l :: rest =>
    let props := rest.takeWhile (fun x => x.op != .pipe)
    let more := rest.dropWhile (fun x => x.op != .pipe)
    if l.op == .pipe then (l.name, props) :: segmentsAux more rest.length else segmentsAux more rest.length
where
  segmentsAux : List Link → Nat → List (String × List Link)
    | _, 0 => []
    | [], _ => []
    | l :: rest, n + 1 =>
      let props := rest.takeWhile (fun x => x.op != .pipe)
      let more := rest.dropWhile (fun x => x.op != .pipe)
      (l.name, props) :: segmentsAux more n

/-! pipeline/tick VALUES: the model rendering of every node against the links of the real text -/

/-- split a chain before every `|` link: one list of links per node -/
def segLinks : List Link → List (List Link)
  | [] => []
  | l :: rest =>
    let props := rest.takeWhile (fun x => x.op != .pipe)
    let more := rest.dropWhile (fun x => x.op != .pipe)
    if l.op == .pipe then (l :: props) :: segLinksAux more rest.length else segLinksAux more rest.length
where
  segLinksAux : List Link → Nat → List (List Link)
    | _, 0 => []
    | [], _ => []
    | l :: rest, n + 1 =>
      let props := rest.takeWhile (fun x => x.op != .pipe)
      let more := rest.dropWhile (fun x => x.op != .pipe)
      (l :: props) :: segLinksAux more n

/-- the node kind a Build body pipes, when it is a literal -/
def staticKind (body : List Tick.BStmt) : Option String :=
  body.findSome? (fun s => match s with
    | .call "Pipe" name _ => some name
    | .call "PipeZeroValueOK" name _ => some name
    | _ => none)

def tokStr (ts : List Tok) : String := toString (repr ts)

def checkTickValues (st : St) (p : Program) : St :=
  match st.pnodes with
  | none => st
  | some nodes =>
    let statics := Gen.tickBuild.filterMap (fun e => staticKind e.2.2)
    -- model side
    let rendered := nodes.filterMap (fun n =>
      match Gen.tickBuild.find? (fun e => e.1 == n.typ) with
      | none => none
      | some (_, param, body) =>
        match staticKind body with
        | none => none
        | some kind =>
          let pt := (n.parents.drop 1).map (fun q => Tick.Val.node (.id q))
          some (kind, (Tick.renderNode body param n.val pt).map (fun ls => tokStr (fmtLinks (ls.map Tick.normLink)))))
    let naKinds := rendered.filterMap (fun x => if x.2.isNone then some x.1 else none)
    let model := (rendered.filterMap (fun x => if naKinds.contains x.1 then none else x.2)).mergeSort (· ≤ ·)
    -- implementation side: the links of the real text, node by node
    let chains := p.filterMap (fun s => match s with
      | .decl _ (.chain _ ls) => some ls
      | .expr (.chain _ ls) => some ls
      | _ => none)
    let segs := (chains.map segLinks).flatten
    let real := (segs.filterMap (fun ls =>
      match ls.head? with
      | some l => if statics.contains l.name && !naKinds.contains l.name then some (tokStr (fmtLinks ls)) else none
      | none => none)).mergeSort (· ≤ ·)
    let st := naKinds.foldl (fun st k => addBr st ["tick-values-na:" ++ k]) st
    if model == real then (if model.isEmpty then st else addBr st ["tick-values-ok"])
    else
      let firstDiff := (model.zip real).find? (fun x => x.1 != x.2)
      match firstDiff with
      | some (m, r) => noteMism st s!"pipeline/tick values: model renders {m.take 400} ; real {r.take 400}"
      | none => noteMism st s!"pipeline/tick values: model renders {model.length} static nodes, the real text has {real.length}"

def checkTick (st : St) (txt : String) : St :=
  match parseProgram txt with
  | .ok p =>
    let chains := p.filterMap (fun s => match s with
      | .decl _ (.chain _ ls) => some ls
      | .expr (.chain _ ls) => some ls
      | _ => none)
    let segs := (chains.map segments).flatten
    let st := segs.foldl (fun st (node, props) =>
      match Gen.tickTable.find? (fun e => e.1 == node) with
      | none => addBr st ["tick-dynamic-node"]
      | some (_, table) =>
        match embedProps table 0 props with
        | none => addBr st ["tick-order-ok"]
        | some why => noteMism st s!"pipeline/tick |{node}: {why}") st
    -- the tokens of the real text are the tokens of the parsed program (so the links compared below are the text's)
    let st := match (lex txt.toList).bind decodeAll with
      | .ok ts => if ts == fmtProgram p then st else noteMism st "ptick: tokens of the rendered text differ from fmtProgram of its parse"
      | _ => noteMism st "ptick: the model lexer rejects the rendered script"
    checkTickValues st p
  | .err => noteMism st "ptick: the model parser rejects the rendered script"
  | .na w => addBr st ["tick-na:" ++ w]


/-- the formatted text, token by token (layout-independent), against the model's `fmtProgram` -/
def cmpProgText (st : St) (txt : String) : St :=
  match st.progOff, st.curP with
  | none, .ok p =>
    match (lex txt.toList).bind decodeAll with
    | .ok ts =>
      if ts == fmtProgram p then addBr st ["prog-fmt-tokens"]
      else noteMism st s!"sfmt: tokens of the formatted text differ from fmtProgram: {repr (ts.take 12)} / {repr ((fmtProgram p).take 12)}"
    | .err => noteMism st "sfmt: model lexer rejects the formatted text"
    | .na w => { addBr st ["prog-na:" ++ w] with progOff := some w }
  | _, _ => st


/-- compare a model tree result with the observation of a tree-producing op -/
def cmpTree (st : St) (what : String) (obs : List String) : St :=
  match st.modelOff with
  | some _ => st
  | none =>
    match st.cur with
    | .na w => if w == "fuel" || w == "lexer-fuel" then noteMism st s!"{what}: model ran out of fuel" else { addBr st ["na:" ++ w] with modelOff := some w }
    | .err => if obs == ["err"] then addBr st [what ++ "-err"] else noteMism st s!"{what}: model err observed {obs.take 12}"
    | .ok e =>
      let d := dump e
      let st := addBr st (branches e)
      if obs == "ok" :: d then st else noteMism st s!"{what}: model ok {d.take 24} observed {obs.take 24}"

def cmpText (st : St) (what : String) (obs : List String) : St :=
  match st.modelOff with
  | some _ => st
  | none =>
    match st.txt with
    | .na w => { addBr st ["na:" ++ w] with modelOff := some w }
    | .err => noteMism st s!"{what}: model has no text, observed {obs.take 2}"
    | .ok s => if obs == [esc s] then st else noteMism st s!"{what}: model {esc s} observed {obs.take 2}"

def judge (_id : String) (lines : Array String) : Verdict := Id.run do
  let mut st : St := {}
  for l in lines do
    let (opT, obs) := splitObs (tokens l)
    match opT with
    | ["parse", src] =>
      let some s := unesc src | return .badop l
      let some ev := treeEv "parse" obs | return .badop l
      st := { st with evs := st.evs.push ev, cur := parseLambda s }
      st := cmpTree st "parse" obs
    | "build" :: d =>
      let some t := Spec.readDump d | return .badop l
      match obs with
      | ["ok"] => st := { st with evs := st.evs.push (.tree "build" (some t)) }
      | ["panic"] => st := { st with evs := st.evs.push (.panic "build") }
      | _ => return .badop l
      match undumpAll d with
      | some e =>
        st := addBr { st with cur := .ok e } ("build" :: branches e)
        match (dumpFloats d).find? (fun c => !fltCanonical c) with
        | some c => st := noteMism st s!"build: the float text {c} (strconv.FormatFloat of the value) is not what the model prints for it"
        | none => pure ()
      | none => return .badop l
    | ["fmt"] =>
      match obs with
      | ["panic"] => st := { st with evs := st.evs.push (.panic "fmt") }
      | ["none"] => pure ()
      | [t] =>
        let some s := unesc t | return .badop l
        st := { st with evs := st.evs.push (.text "fmt" s) }
        st := { st with txt := st.cur.bind fmtStr }
        match st.cur with
        | .ok e =>
          st := cmpText st "fmt" obs
          -- the decidable hypotheses of lexer_reads_formatted_all / lexer_decodes_formatted, measured
          if st.modelOff.isNone then
            st := addBr st [if isStar e || lexOK e false false then "lex-ok" else "lex-not-ok",
                            if decOK e then "dec-ok" else "dec-not-ok"]
        | _ => pure ()
      | _ => return .badop l
    | ["reparse"] =>
      let some ev := treeEv "reparse" obs | return .badop l
      st := { st with evs := st.evs.push ev, cur := st.txt.bind parseLambda }
      st := cmpTree st "reparse" obs
    | ["json"] =>
      match obs with
      | ["none"] => pure ()
      | _ =>
        let some ev := treeEv "json" obs | return .badop l
        let before := st.cur
        st := { st with evs := st.evs.push ev, cur := st.cur.bind jsonRT }
        st := cmpTree st "json" obs
        match before, st.cur with
        | .ok a, .ok b => if dump a != dump b then st := addBr st ["json-changes-tree"] else st := addBr st ["json-identity"]
        | _, _ => pure ()
    | ["script", src] =>
      let some ev := treeEv "script" obs | return .badop l
      let some ss := unesc src | return .badop l
      st := addBr { st with evs := (st.evs.push (.source ss)).push ev, modelOff := some "script", curP := parseProgram ss } ["script"]
      let cls := (dumpNumClasses obs).eraseDups
      st := addBr { st with scriptNums := cls } (cls.map ("script-" ++ ·))
      st := cmpProg st "script" obs
    | ["sfmt"] =>
      match obs with
      | ["panic"] => st := { st with evs := st.evs.push (.panic "sfmt") }
      | ["none"] => pure ()
      | [t] =>
        let some s := unesc t | return .badop l
        if (s.splitOn "//").length > 1 then st := addBr st ["script-comments"]
        st := { st with evs := st.evs.push (.text "sfmt" s) }
        st := cmpProgText st s
        st := { st with curP := parseProgram s }
      | _ => return .badop l
    | ["sreparse"] =>
      let some ev := treeEv "sreparse" obs | return .badop l
      st := { st with evs := st.evs.push ev }
      st := cmpProg st "sreparse" obs
    | [op, _edge] =>
      if op == "dot" || op == "pjson" then
        match obs with
        | ["ok", d, j] =>
          let some ds := unesc d | return .badop l
          let some js := unesc j | return .badop l
          let via := if st.afterPtick then "ptick-" ++ op else op
          st := addBr { st with evs := st.evs.push (.pipe via (some (ds, js))), nt := true }
            (("pipeline-" ++ via) :: (if op == "pjson" || st.afterPtick then st.scriptNums.map ((via ++ "-") ++ ·) else []))
        | ["panic"] => st := { st with evs := st.evs.push (.panic op) }
        | _ => st := { st with evs := st.evs.push (.pipe (if st.afterPtick then "ptick-" ++ op else op) none) }
      else if op == "pnodes" then
        match obs with
        | "ok" :: _n :: d =>
          match readNodes (d.length + 2) d with
          | some ns => st := addBr { st with pnodes := some ns } ["pnodes"]
          | none => return .badop l
        | _ => st := { st with pnodes := none }
      else if op == "ptick" then
        match obs with
        | ["panic"] => st := { st with evs := st.evs.push (.panic op) }
        | [t] =>
          if t == "err" || t == "err:build" then st := { st with evs := st.evs.push (.pipe op none) }
          else
            let some s := unesc t | return .badop l
            st := addBr { st with evs := st.evs.push (.text "ptick" s), afterPtick := true } ["pipeline-ptick"]
            st := checkTick st s
        | _ => return .badop l
      else return .badop l
    | _ => return .badop l
  -- 1. the property itself, on what the implementation did
  let (knownKeys, fail) := Spec.specRun st.evs.toList
  match fail with
  | some f => return .specfail f.clause f.detail
  | none => pure ()
  -- 2. the tie
  match st.mism with
  | some d => return .mismatch d
  | none => pure ()
  match knownKeys with
  | k :: _ => return .known k (" ".intercalate knownKeys)
  | [] => pure ()
  let nt := st.nt || st.br.any (fun b => b == "bin-parens" || b == "right-climb" || b == "left-assoc-chain" || b == "un-over-parens" || b == "json-changes-tree")
  return .ok nt st.br.reverse

end Kap.C13.Drv

def main : IO Unit := Kap.driverMain Kap.C13.Drv.judge
