/-
Driver for C14: reads cases of op lines produced by the Go harness (which ran the REAL task_store.Service on a real
Bolt file with a real TaskMaster), replays every case on the model and on the catalogue spec, and judges
  * the spec on the OBSERVED answers and listings (accepted ⇒ declared effect, rejected ⇒ no effect, executing ⇔
    enabled ∧ started, restart restarts every enabled task, template update all-or-none), and
  * observed = model (answer class, number of storage transactions, listings, TaskMaster's executing set);
  * paged / filtered listings (`page tasks|tmpls pat= off= lim= f=`): the spec clause page-is-slice-of-catalogue on the
    OBSERVED page (IDs in order, and the rows when the request asked for them) against `Cat.taskPage` / `Cat.tmplPage`
    of the catalogue adopted at the listing just before (after a recorded deviation whose catalogue only the model
    knows: page-is-slice-of-listing against the unpaged listing the API showed at the same moment); the tie against
    `listTasks` / `listTmpls` (the transcription of DoListFunc); and the glob fragment against the real path.Match.
-/
import Kap.Basic
import Kap.Spec.C14
import Kap.Spec.C14List
import Kap.Model.C14Fault
open Kap Kap.C14

namespace Kap.C14.Drv

def splitTok (s : String) (sep : String) : List String := (s.splitOn sep).filter (fun t => !t.isEmpty)

def kvs (toks : List String) : List (String × String) :=
  toks.filterMap fun t => match t.splitOn "=" with
    | k :: v :: rest => some (k, "=".intercalate (v :: rest))
    | _ => none

def look (m : List (String × String)) (k : String) (d : String := "-") : String :=
  match m.find? (fun p => p.1 == k) with | some p => p.2 | none => d

def undash (s : String) : String := if s == "-" then "" else s
def listTok (s : String) : List String := if s == "-" || s.isEmpty then [] else splitTok s ","

def parseInfo (obs : List String) : ScriptInfo :=
  let m := kvs obs
  let v := (look m "v" "").toList
  let vids := ["v0", "v1", "v2", "v3"]
  { parse := look m "p" == "1", typed := look m "t" == "s" || look m "t" == "b", pdbrps := listTok (look m "d"),
    tmplOk := look m "tv" == "1",
    valid := fun vid => match vids.findIdx? (· == vid) with
      | some i => v.getD i '0' == '1'
      | none => false,
    batch := look m "t" == "b", qdbrps := listTok (look m "q") }

def mkEnv (tab : List (String × ScriptInfo)) : Env := fun s =>
  match tab.find? (fun p => p.1 == s) with
  | some p => p.2
  | none => { parse := false, typed := false, pdbrps := [], tmplOk := false, valid := fun _ => false }

def parseReq (m : List (String × String)) : TaskReq :=
  { newId := undash (look m "id"), tmpl := undash (look m "tm"), script := undash (look m "s"),
    dbrps := listTok (look m "d"),
    status := match look m "st" with | "e" => some true | "d" => some false | _ => none,
    vars := let v := look m "v"; if v == "-" then "v0" else v }

def parseOp (ts : List String) : Option Op :=
  match ts with
  | "create" :: id :: rest => some (.create id (parseReq (kvs rest)))
  | "update" :: id :: rest => some (.update id (parseReq (kvs rest)))
  | "delete" :: id :: _ => some (.delete id)
  | "tcreate" :: id :: rest => some (.tcreate id (undash (look (kvs rest) "s")))
  | "tupdate" :: id :: rest => let m := kvs rest; some (.tupdate id (undash (look m "id")) (undash (look m "s")))
  | "tdelete" :: id :: _ => some (.tdelete id)
  | "restart" :: _ => some .restart
  | "die" :: id :: _ => some (.die id)
  | _ => none

/-- One row of the task listing: ID, definition, executing flag. -/
abbrev Row := String × Task × Bool

def parseRow (s : String) : Option Row :=
  match s.splitOn ";" with
  | [id, _ty, st, ex, tm, sc, v, d] =>
    some (id, { script := sc, vars := v, tmpl := undash tm, dbrps := listTok d, enabled := st == "e" }, ex == "1")
  | _ => none

/-- (type, script) of every row of a task or template listing: the stored Type must be the type of the stored script. -/
def rowTypes (tok : String) (tyIdx scIdx : Nat) : List (String × String) :=
  if tok == "-" then [] else (tok.splitOn "|").map fun s => ((s.splitOn ";").getD tyIdx "?", (s.splitOn ";").getD scIdx "?")

def typesOk (env : Env) (l : List (String × String)) : Bool :=
  l.all fun p => p.1 == (if (env p.2).batch then "batch" else "stream")

/-- `snaps=` of a listing: (id, stored payload, payload the executing task was restored with). -/
def parseSnaps (tok : String) : List (String × String × String) :=
  (listTok tok).filterMap fun s => match s.splitOn ":" with
    | [i, p, r] => some (i, p, r)
    | _ => none

def parseRows (tok : String) : Option (List Row) :=
  if tok == "-" then some [] else (tok.splitOn "|").mapM parseRow

def parseTmplRows (tok : String) : Option (List (String × String)) :=
  if tok == "-" then some [] else (tok.splitOn "|").mapM fun s =>
    match s.splitOn ";" with
    | [id, _ty, sc] => some (id, sc)
    | _ => none

def renderRow (r : Row) : String :=
  s!"{r.1};{if r.2.1.enabled then "e" else "d"};{if r.2.2 then "1" else "0"};{if r.2.1.tmpl.isEmpty then "-" else r.2.1.tmpl};{r.2.1.script};{r.2.1.vars};{if r.2.1.dbrps.isEmpty then "-" else ",".intercalate r.2.1.dbrps}"
def renderRows (l : List Row) : String := if l.isEmpty then "-" else "|".intercalate (l.map renderRow)
def renderTmpls (l : List (String × String)) : String := if l.isEmpty then "-" else "|".intercalate (l.map fun p => s!"{p.1};{p.2}")

def modelRows (w : World) : List Row :=
  w.store.tids.filterMap fun i => (w.store.tasks i).map fun t => (i, t, w.exec i)
def modelTmpls (w : World) : List (String × String) :=
  w.store.mids.filterMap fun i => (w.store.tmpls i).map fun t => (i, t)
def specRows (c : Cat) (ids : List String) : List Row :=
  ids.filterMap fun i => (c.tasks i).map fun t => (i, t, c.executing i)
def specTmpls (c : Cat) (mids : List String) : List (String × String) :=
  mids.filterMap fun i => (c.tmpls i).map fun s => (i, s)

/-- Do two files hold the same task_store data (over the IDs of the case)? -/
def storeEq (ids mids : List String) (a b : Store) : Bool :=
  ids.all (fun i => a.tasks i == b.tasks i) &&
  mids.all (fun m => a.tmpls m == b.tmpls m && ids.all (fun i => a.assoc m i == b.assoc m i))

/-- A pending expectation of the spec for the next listing. -/
structure Pending where
  cands : List Cat := []                       -- catalogues the spec allows (first match is adopted)
  dev : Option (String × Cat) := none          -- a recorded deviation clause that applies, with its output
  devModel : Option String := none             -- deviation whose output is characterised by the model (taints)
  freeExec : List String := []                 -- tasks whose `started` may be either the old value or `startOK`
  tup : Option (String × String × String × String) := none   -- template update: (tid, oldScript, newId, newScript)
  what : String := ""

structure St where
  tab : List (String × ScriptInfo) := []
  w : World := {}
  c : Cat := {}
  ids : List String := []
  mids : List String := []
  fail : List String := []
  pend : Option Pending := none
  before : String → Option Task := fun _ => none     -- tasks shown by the previous listing
  tainted : Bool := false
  known : Option (String × String) := none
  mismatch : Option String := none
  accepted : Nat := 0
  rejected : Nat := 0
  restarts : Nat := 0
  snaps : Snaps := []                    -- stored snapshots the spec expects
  prevExec : List String := []           -- executing set of the previous listing
  allStarted : Bool := false             -- the last request was a process start (every executing task was just started)
  snapsAtReq : Snaps := []               -- the stored snapshots the tasks started by the last request were restored from
  snapsSpec : Option Snaps := none       -- what the spec expects when an interrupted request's prefix leaves something else
  reqsSinceList : Nat := 0               -- requests since the previous listing
  lastRows : List Row := []              -- the previous (unpaged) listing
  lastTmpls : List (String × String) := []
  listed : Bool := false                 -- a listing was shown in this case
  pages : Nat := 0

def St.mm (st : St) (d : String) : St := if st.mismatch.isSome then st else { st with mismatch := some d }
def St.kn (st : St) (k d : String) : St := if st.known.isSome then st else { st with known := some (k, d) }

def rowsFn (rows : List Row) : String → Option Task := fun i => (rows.find? (fun r => r.1 == i)).map (·.2.1)

/-- The definitions of a listing (without the executing flags). -/
def defs (rows : List Row) : List (String × Task) := rows.map fun r => (r.1, r.2.1)

def execOk (c : Cat) (rows : List Row) (exec : List String) (ids : List String) : Bool :=
  rows.all (fun r => r.2.2 == c.executing r.1) && ids.all (fun i => exec.contains i == c.executing i)

/-- Does the observed listing agree with catalogue `c` (tasks, templates, executing)? `free` = tasks whose
executing flag may also be its start oracle outcome (re-attempted by a rolled-back template update). -/
def agrees (env : Env) (fail : List String) (c : Cat) (ids mids : List String) (rows : List Row) (tm : List (String × String))
    (exec : List String) (free : List String) : Option Cat :=
  if defs rows != defs (specRows c ids) then none
  else if tm != specTmpls c mids then none
  else
    -- adopt re-attempt outcomes where the spec leaves them open
    let c' := free.foldl (fun c i =>
      match c.tasks i with
      | some t => if t.enabled && decide (exec.contains i ≠ c.executing i) && (exec.contains i == startOK env fail i t)
                  then setStarted c i (startOK env fail i t) else c
      | none => c) c
    if execOk c' rows exec ids then some c' else none

def judge (_id : String) (lines : Array String) : Verdict := Id.run do
  let mut st : St := {}
  let mut specfail : Option (String × String) := none
  for l in lines do
    if specfail.isSome then break
    let (opT, obs) := splitObs (tokens l)
    let env := mkEnv st.tab
    match opT with
    | ["oracle", sid] => st := { st with tab := (sid, parseInfo obs) :: st.tab }
    | "list" :: _ =>
      let m := kvs obs
      let some rows := parseRows (look m "tasks") | return .badop l
      let some tm := parseTmplRows (look m "tmpls") | return .badop l
      let exec := listTok (look m "exec")
      -- 1. the property on the observed listing
      if !st.tainted then
        let p : Pending := st.pend.getD { cands := [st.c], what := "no-request" }
        -- all-or-none, judged on the two observed listings alone
        match p.tup with
        | some (tid, os, nid, ns) =>
          if !allOrNone env st.ids st.before (rowsFn rows) tid os nid ns && p.devModel.isNone then
            specfail := some ("template-update-all-or-none", s!"{p.what}: shown {renderRows rows}")
        | none => pure ()
        if specfail.isNone then
          match p.cands.findSome? (fun c => agrees env st.fail c st.ids st.mids rows tm exec p.freeExec) with
          | some c => st := { st with c := c }
          | none =>
            let devHit := match p.dev with
              | some (k, c) => (agrees env st.fail c st.ids st.mids rows tm exec []).map (fun c => (k, c))
              | none => none
            match devHit with
            | some (k, c) => st := { (st.kn k p.what) with c := c }
            | none =>
              let viaModel := rows == modelRows st.w && tm == modelTmpls st.w && st.mismatch.isNone
              match p.devModel with
              | some k =>
                if viaModel then st := { (st.kn k p.what) with tainted := true }
                else specfail := some ("catalogue", s!"{p.what}: shown {renderRows rows} tmpls {renderTmpls tm} exec {exec}")
              | none =>
                let exp := match p.cands with | c :: _ => renderRows (specRows c st.ids) ++ " tmpls " ++ renderTmpls (specTmpls c st.mids) | [] => "?"
                let defsOk : Bool := match p.cands with
                  | c :: _ => defs rows == defs (specRows c st.ids) && tm == specTmpls c st.mids
                  | [] => false
                let clause := if defsOk then "executing-iff-enabled-and-started" else "api-shows-last-accepted"
                specfail := some (clause, s!"{p.what}: expected {exp} shown {renderRows rows} tmpls {renderTmpls tm} exec {exec}")
      -- snapshots: stored until the task is deleted; a task started since the previous listing was restored from
      -- the snapshot stored under its ID
      let sn := parseSnaps (look m "snaps")
      if specfail.isNone then
        let stored := (sn.filter (fun x => x.2.1 != "-")).map (fun x => (x.1, x.2.1))
        -- `st.snaps` = what the transaction prefix of the (possibly interrupted) request leaves; `snapsSpec` = what the
        -- spec expects of the request as answered, when that differs (a failed snapshots.Delete): the observation must be
        -- the spec's, or EXACTLY the prefix's (recorded deviation crash-between-transactions); anything else fails
        let expOf := fun (sp : Snaps) => st.ids.filterMap (fun i => (sp.get i).map (fun p => (i, p)))
        let expected := expOf (st.snapsSpec.getD st.snaps)
        if stored != expected && !(st.snapsSpec.isSome && stored == expOf st.snaps) then
          specfail := some ("snapshot-survives", s!"expected {expected} stored {stored}")
        else
          if stored != expected then st := st.kn "crash-between-transactions" "snapshot state left by the transaction prefix of an interrupted delete"
          else st := { st with snaps := st.snapsSpec.getD st.snaps }
          -- exactly one request since the previous listing: a task that executes now and did not before (or any task
          -- after a process start) was started by that request, from the snapshot stored when the request began
          for i in exec do
            if st.reqsSinceList == 1 && (st.allStarted || !st.prevExec.contains i) then
              let restored := match sn.find? (fun x => x.1 == i) with | some x => x.2.2 | none => "-"
              if restored != (st.snapsAtReq.get i).getD "-" && specfail.isNone then
                specfail := some ("snapshot-restored-at-start", s!"task {i} restored with {restored}, stored {(st.snapsAtReq.get i).getD "-"}")
      st := { st with pend := none, before := rowsFn rows, prevExec := exec, allStarted := false, reqsSinceList := 0, snapsSpec := none,
                      lastRows := rows, lastTmpls := tm, listed := true }
      -- the stored Type is the type of the stored script (model header: derived, not stored)
      if !typesOk env (rowTypes (look m "tasks") 1 5) then st := st.mm s!"task type differs from the type of its script: {look m "tasks"}"
      if !typesOk env (rowTypes (look m "tmpls") 1 2) then st := st.mm s!"template type differs from the type of its script: {look m "tmpls"}"
      -- 2. the tie
      if rows != modelRows st.w then st := st.mm s!"list: model {renderRows (modelRows st.w)} observed {renderRows rows}"
      if tm != modelTmpls st.w then st := st.mm s!"templates: model {renderTmpls (modelTmpls st.w)} observed {renderTmpls tm}"
      if !(st.ids.all fun i => exec.contains i == st.w.exec i) then st := st.mm s!"executing: observed {exec}"
    | "page" :: kind :: rest =>
      -- a paged / filtered listing request
      let m := kvs rest
      let some pat := (if look m "pat" == "-" then some "" else unesc (look m "pat")) | return .badop l
      let off := (look m "off").toNat?.getD 0
      let lim := (look m "lim").toNat?.getD defaultLimit
      if obs.head? == some "panic" then return .specfail "no-panic" l
      let what := " ".intercalate opT
      if obs.head? != some "ok" then
        specfail := some ("page-is-slice-of-catalogue", s!"{what}: answered {obs.headD "nothing"}")
      else
        let mo := kvs obs
        let ids := listTok (look mo "ids")
        -- the glob fragment of the model against the real path.Match (oracle cross-check)
        if !((listTok (look mo "pm")).all (matchFn pat)) || (listTok (look mo "pn")).any (matchFn pat) then
          st := st.mm s!"glob fragment differs from path.Match: {l}"
        let byCat := !st.tainted && st.pend.isNone
        let byListing := st.listed && st.reqsSinceList == 0
        if kind == "tasks" then
          let rowsO : Option (List Row) := if look mo "rows" == "na" then none else parseRows (look mo "rows")
          if look mo "rows" != "na" && rowsO.isNone then return .badop l
          let differs := fun (exp : List Row) => ids != exp.map (·.1) || (match rowsO with | some r => r != exp | none => false)
          let shown := match rowsO with | some r => renderRows r | none => ",".intercalate ids
          -- 1. the property on the observed page
          if byCat then
            let exp := st.c.taskPage st.ids pat off lim
            if differs exp then
              specfail := some ("page-is-slice-of-catalogue", s!"{what}: expected {renderRows exp} shown {shown}")
          else if byListing then
            let exp := sliceOf st.lastRows (·.1) pat off lim
            if differs exp then
              specfail := some ("page-is-slice-of-listing", s!"{what}: expected {renderRows exp} shown {shown}")
          -- 2. the tie
          if differs (listTasks st.w pat off lim) then
            st := st.mm s!"{what}: model {renderRows (listTasks st.w pat off lim)} observed {shown}"
          st := { st with w := (pageBranches st.w.store.taskIndex pat off lim).foldl World.note st.w, pages := st.pages + 1 }
        else if kind == "tmpls" then
          let rowsO : Option (List (String × String)) := if look mo "rows" == "na" then none else parseTmplRows (look mo "rows")
          if look mo "rows" != "na" && rowsO.isNone then return .badop l
          let differs := fun (exp : List (String × String)) =>
            ids != exp.map (·.1) || (match rowsO with | some r => r != exp | none => false)
          let shown := match rowsO with | some r => renderTmpls r | none => ",".intercalate ids
          if byCat then
            let exp := st.c.tmplPage st.mids pat off lim
            if differs exp then
              specfail := some ("page-is-slice-of-catalogue", s!"{what}: expected {renderTmpls exp} shown {shown}")
          else if byListing then
            let exp := sliceOf st.lastTmpls (·.1) pat off lim
            if differs exp then
              specfail := some ("page-is-slice-of-listing", s!"{what}: expected {renderTmpls exp} shown {shown}")
          if differs (listTmpls st.w pat off lim) then
            st := st.mm s!"{what}: model {renderTmpls (listTmpls st.w pat off lim)} observed {shown}"
          st := { st with w := ((pageBranches st.w.store.tmplIndex pat off lim).map (· ++ "-tmpl")).foldl World.note st.w,
                          pages := st.pages + 1 }
        else return .badop l
    | ["snap", id, payload] =>
      if obs.head? != some "ok" then return .badop l
      st := { st with snaps := snapSave st.snaps id payload, ids := insId id st.ids }
    | _ =>
      let some op := parseOp opT | return .badop l
      -- a request that was not followed by a listing: adopt what the spec expects (nothing was observed)
      match st.pend with
      | some p =>
        match p.dev, p.devModel with
        | some (_, c), _ => st := { st with c := c }
        | none, some _ => st := { st with tainted := true }
        | none, none => st := { st with c := p.cands.headD st.c }
      | none => pure ()
      let m := kvs opT
      let fail := listTok (look m "fail")
      let cut : Option Nat := (look m "crash" "").toNat?
      let resp : Resp := match obs.head? with
        | some "ok" => .ok | some "bad" => .bad | some "nf" => .nf | some "fail" => .fail
        | _ => .fail
      if obs.head? == some "panic" then return .specfail "no-panic" l
      if op != .restart && !(["ok", "bad", "nf", "fail"].contains (obs.headD "")) then return .badop l
      let ntxObs := (look (kvs obs) "ntx" "").toNat?
      -- ids mentioned
      let (ids, mids) := match op with
        | .create id _ => (insId id st.ids, st.mids)
        | .update id r => (insId id (if r.newId.isEmpty then st.ids else insId r.newId st.ids), st.mids)
        | .tcreate id _ => (st.ids, insId id st.mids)
        | .tupdate id n _ => (st.ids, insId id (if n.isEmpty then st.mids else insId n st.mids))
        | _ => (st.ids, st.mids)
      st := { st with ids := ids, mids := mids, fail := fail }
      -- model
      let wBefore := st.w
      let fault : Option Nat := (look m "fault" "").toNat?
      -- the two semantics must coincide when no transaction fails
      if faultable op && cut.isNone then
        let a := handle Variant.fixed env fail (beginReq st.w none) op
        let b := handleF env fail none (beginReq st.w none) op
        if !(a.2 == b.2 && a.1.ntx == b.1.ntx && storeEq ids mids a.1.store b.1.store && ids.all (fun i => a.1.exec i == b.1.exec i)) then
          st := st.mm s!"fault semantics without fault differs from the model at {l}"
      let (w', mresp) :=
        if fault.isSome && faultable op && cut.isNone then handleF env fail fault (beginReq st.w none) op
        else step Variant.fixed env fail cut st.w op
      if op != .restart then
        if mresp != resp then st := st.mm s!"answer of {l}: model {mresp.str}"
        else if ntxObs != some w'.ntx then st := st.mm s!"transactions of {l}: model {w'.ntx}"
      st := { st with w := w' }
      -- spec expectation for the next listing
      let c := st.c
      let rs := fun (x : Cat) => accept env fail x .restart
      let tup := match op with
        | .tupdate id n s => (c.tmpls id).map fun os => (id, os, if n.isEmpty then id else n, if s.isEmpty then os else s)
        | _ => none
      -- the recorded deviation start-failure-after-commit: the decidable clause `leaves500` of the spec on the
      -- observed answer (theorem answer_500_effects_characterised), with the catalogue `effect500` it characterises
      let isDev := resp == .fail && leaves500 env fail c op
      let multi := (ntxObs.getD 0) > 1
      -- expectation for the request as answered (no crash)
      let p0 : Pending :=
        match op, resp with
        | .tdelete id, _ =>
          -- deleting a template that tasks were created from orphans them (recorded deviation, latent state)
          if ids.any (fun i => match c.tasks i with | some t => t.tmpl == id | none => false) then
            { cands := [], what := l, devModel := some "template-delete-orphans-tasks" }
          else { cands := [specStep env fail c op resp], what := l }
        | .tupdate id _ _, .fail =>
          { cands := [c], tup := tup, what := l,
            freeExec := ids.filter (fun i => match c.tasks i with | some t => t.tmpl == id | none => false),
            devModel := some "template-update-rollback-incomplete" }
        | _, _ =>
          { cands := [specStep env fail c op resp], tup := tup, what := l,
            dev := if isDev then some ("start-failure-after-commit", effect500 env fail c op) else none }
      let sameW := fun (a b : World) => storeEq ids mids a.store b.store && ids.all (fun i => a.exec i == b.exec i)
      let p : Pending :=
        match cut with
        | none =>
          if fault.isSome && faultable op then
            -- a storage fault: either the request had no effect / its full effect (judged as answered), or it
            -- stopped between two transactions (recorded deviation, characterised by the fault model)
            let wA := (handle Variant.fixed env fail (beginReq wBefore none) op).1
            if sameW w' wBefore || sameW w' wA then p0
            else { cands := [], what := l, devModel := some "crash-between-transactions" }
          else p0
        | some k =>
          -- crash: the process restarts on the file as it was after k transactions of the request. The file is
          -- the one before the request, the one after it, or — INSIDE the request — neither.
          let w1 := (handle Variant.fixed env fail (beginReq wBefore cut) op).1
          let file := crashFile w1
          if storeEq ids mids file wBefore.store then { cands := [rs c], what := l }
          else if storeEq ids mids file w1.store || !(multi && 0 < k && k < ntxObs.getD 0) then
            { p0 with cands := p0.cands.map rs, dev := p0.dev.map (fun d => (d.1, rs d.2)), tup := none,
                      freeExec := [],
                      devModel := match p0.devModel with
                        | some key => some key
                        | none => none }
          else { cands := [], what := l, devModel := some "crash-between-transactions" }
      st := { st with pend := some p }
      -- snapshots: the request completed unless its FIRST transaction (deleteTask: snapshots.Delete) failed / the
      -- process came back from the file as it was before the request
      -- snapshots, crash/fault aware: the FIRST transaction of deleteTask is snapshots.Delete (Spec.snapPrefix). A crash
      -- before it = the request never happened; a fault in it = the snapshot is left behind although the delete is
      -- answered as done. After a crash the process restarts on the file: tasks are restored from what the prefix left.
      let firstTx := !(cut == some 0) && !(fault == some 1 && cut.isNone && faultable op)
      let pre := snapPrefix st.snaps op firstTx
      -- what the spec expects: the request as answered — or, after a crash that came before its last transaction
      -- and left the catalogue file as it was, no effect at all (so "task still stored, snapshot gone" is neither)
      let specExp := match cut with
        | none => snapStep st.snaps op
        | some k =>
          if k < ntxObs.getD 0 && storeEq ids mids (crashFile (handle Variant.fixed env fail (beginReq wBefore cut) op).1) wBefore.store
          then st.snaps else snapStep st.snaps op
      st := { st with snapsAtReq := if cut.isSome then pre else st.snaps, reqsSinceList := st.reqsSinceList + 1,
                      snapsSpec := if specExp != pre then some specExp else none, snaps := pre }
      if op == .restart || cut.isSome then st := { st with allStarted := true }
      if op == .restart then st := { st with restarts := st.restarts + 1 }
      else if resp = .ok then st := { st with accepted := st.accepted + 1 }
      else st := { st with rejected := st.rejected + 1 }
  match specfail with
  | some (c, d) => return .specfail c d
  | none => pure ()
  match st.mismatch with
  | some d => return .mismatch d
  | none => pure ()
  match st.known with
  | some (k, d) => return .known k d
  | none => pure ()
  return .ok (st.accepted ≥ 3 && st.rejected + st.restarts ≥ 1) st.w.br.reverse

end Kap.C14.Drv

def main : IO Unit := Kap.driverMain Kap.C14.Drv.judge
