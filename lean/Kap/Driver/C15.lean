/-
Driver for C15: reads cases of op lines produced by the Go harness (which ran the REAL storage.IndexedStore over
a real Bolt file), replays every case on the model (`Kap.C15.step/get/list`, the raw bucket) and on the abstract-map
spec, and judges
  * the spec on the OBSERVED answers (operation results, get, index listings, pages, raw-bucket no-trace), and
  * observed = model (results, get, listings, and the raw bucket content key by key).
Known deviations are recognised only through explicit predicates on the input history (see `classify`).
-/
import Kap.Spec.C15
open Kap Kap.C15

namespace Kap.C15.Drv

def s2l (s : String) : Str := s.toList
def l2s (l : Str) : String := String.ofList l
def escL (l : Str) : String := esc (l2s l)

def parseObj (tok : String) : Option Obj :=
  match tok.splitOn ";" with
  | [i, g, t, d] => do
    pure { id := s2l (← unesc i), grp := s2l (← unesc g), tag := s2l (← unesc t), data := s2l (← unesc d) }
  | _ => none

def renderObj (o : Obj) : String := s!"{escL o.id};{escL o.grp};{escL o.tag};{escL o.data}"
def renderList (l : List String) : String := if l.isEmpty then "-" else ",".intercalate l

def parseSel : String → Option Sel
  | "id" => some .id | "grp" => some .grp | "tag" => some .tag | _ => none

def parseIndex (tok : String) : Option Index :=
  match tok.splitOn ";" with
  | [n, u, s] => do pure { name := s2l (← unesc n), unique := u == "u", sel := ← parseSel s }
  | _ => none

def parseFault (tok : String) : Option Fault :=
  if tok == "-" then some .none
  else if tok == "c" then some .commit
  else if tok.startsWith "w" then (tok.drop 1).toString.toNat?.map Fault.write
  else none

def renderErr : Option Err → String
  | none => "ok"
  | some .exists_ => "err:exists"
  | some .missing => "err:missing"
  | some .io => "err:io"
  | some .other => "err:other"
  | some .conflict => "err:conflict"

def parseRes : String → Option (Option Err)
  | "ok" => some none
  | "err:exists" => some (some .exists_)
  | "err:missing" => some (some .missing)
  | "err:io" => some (some .io)
  | "err:other" => some (some .other)
  | "err:conflict" => some (some .conflict)
  | _ => none

def parseOp (ts : List String) : Option Op :=
  match ts with
  | ["create", i, g, t, d, f] => do
    pure (.create { id := s2l (← unesc i), grp := s2l (← unesc g), tag := s2l (← unesc t), data := s2l (← unesc d) } (← parseFault f))
  | ["put", i, g, t, d, f] => do
    pure (.put { id := s2l (← unesc i), grp := s2l (← unesc g), tag := s2l (← unesc t), data := s2l (← unesc d) } (← parseFault f))
  | ["replace", i, g, t, d, f] => do
    pure (.replace { id := s2l (← unesc i), grp := s2l (← unesc g), tag := s2l (← unesc t), data := s2l (← unesc d) } (← parseFault f))
  | ["delete", i, f] => do pure (.delete (s2l (← unesc i)) (← parseFault f))
  | ["rebuild", f] => do pure (.rebuild (← parseFault f))
  | ["reopen"] => some .reopen
  | _ => none

def renderDump (kv : KV) : String :=
  renderList (kv.map (fun e => match e.2 with
    | .obj o => s!"{escL e.1}=o;{renderObj o}"
    | .ref r => s!"{escL e.1}=r;{escL r}"
    | .bucket => s!"{escL e.1}=b"))

def renderGet : Except Err Obj → String
  | .ok o => s!"ok {renderObj o}"
  | .error e => renderErr (some e)

def renderObjs : Except Err (List Obj) → String
  | .ok os => s!"ok {renderList (os.map renderObj)}"
  | .error e => renderErr (some e)

structure St where
  cfg : Cfg := { pfx := ['p'], indexes := [⟨['i', 'd'], true, .id⟩, ⟨['g', 'r', 'p'], false, .grp⟩] }
  kv : KV := []
  m : Abs := []
  illFormed : Bool := false     -- an ill-formed object (or configuration) has been stored
  prevDump : Option String := none
  dumpValid : Bool := false     -- no successful mutation since `prevDump`
  maxStored : Nat := 0
  interesting : Bool := false
  branches : List String := []
  foreign : Bool := false       -- a nested bucket was created by a foreign write: the abstract-map spec no longer applies, the tie does
  mm : Option String := none    -- first model/implementation disagreement (the scan goes on: a later SPECFAIL wins)

def addBr (st : St) (b : String) : St := if st.branches.contains b then st else { st with branches := b :: st.branches }
def addBrs (st : St) (bs : List String) : St := bs.foldl addBr st

/-- Explain a spec failure on the observed output: only by a recorded deviation whose input predicate holds AND
whose predicted (model) output is exactly what was observed. -/
def classify (st : St) (clause detail : String) (modelAgrees0 : Bool) (orderOnly : Bool) : Verdict :=
  let modelAgrees := modelAgrees0 && st.mm.isNone
  if modelAgrees && st.illFormed then .known "path-clean-keys" s!"{clause} {detail}"
  else if modelAgrees && orderOnly then .known "index-order-separator" s!"{clause} {detail}"
  else .specfail clause detail

def opBranches (st : St) (op : Op) (res : Option Err) : List String :=
  let c := st.cfg
  let putBr (name : String) (o : Obj) : List String :=
    match getTx c st.kv o.id with
    | .ok old =>
      [s!"{name}-existing"] ++
      (c.indexes.map (fun i =>
        if indexKey c i.name (i.valueOf old) != indexKey c i.name (i.valueOf o) then "idx-key-changed" else "idx-key-same"))
    | .error .missing => [s!"{name}-absent"]
    | .error _ => [s!"{name}-undecodable"]
  -- the uniqueness check of putTx (reached only past the exists/replace rules)
  let uniqBr (o : Obj) : List String :=
    if res == some .exists_ || res == some .missing then [] else
    let sec := c.indexes.filter (fun i => i.unique && i.sel != .id)
    (if uniqueConflict c st.kv o then ["unique-conflict"] else []) ++
    (if sec.any (fun i => kvGet st.kv (indexKey c i.name (i.valueOf o)) == some (.ref o.id)) then ["unique-secondary-own-entry"] else []) ++
    (if sec.any (fun i => kvGet st.kv (indexKey c i.name (i.valueOf o)) == none) then ["unique-secondary-free"] else []) ++
    (if sec.any (fun i => heldByOther (kvGet st.kv (indexKey c i.name (i.valueOf o))) o.id) then ["unique-secondary-held-by-other"] else [])
  let f := match op.fault, res with
    | .none, _ => []
    | .write n, some .io => [s!"fault-write-hit-{min n 4}"]
    | .commit, some .io => ["fault-commit-hit"]
    | _, _ => ["fault-not-reached"]
  f ++ match op with
  | .create o _ => putBr "create" o ++ uniqBr o
  | .put o _ => putBr "put" o ++ uniqBr o
  | .replace o _ => putBr "replace" o ++ uniqBr o
  | .delete id _ => (match getTx c st.kv id with | .ok _ => ["delete-present"] | .error .missing => ["delete-absent"] | _ => ["delete-undecodable"])
  | .rebuild _ => [if st.kv.isEmpty then "rebuild-empty" else "rebuild-nonempty"]
  | .reopen => ["reopen"]

def listBranches (st : St) (i : Index) (pat : Str) (off lim : Int) (rev : Bool) : List String :=
  let n : Int := (indexIds st.cfg st.kv i.name false).length
  let matched : Int := ((indexIds st.cfg st.kv i.name false).filterMap id |>.filter (matchFn pat)).length
  let dir := indexDir st.cfg i.name
  [if i.unique then "list-unique-index" else "list-composite-index"] ++
  (if rev then ["list-reverse"] else []) ++
  (if pat != [] then ["list-pattern"] else []) ++
  (if pat.contains '/' then [if rev then "list-slash-pattern-reverse" else "list-slash-pattern"] else []) ++
  (if pat.contains '/' && matched > 0 then ["list-slash-pattern-matches"] else []) ++
  (if (pat.contains '*' || pat.contains '?') && !pat.contains '/' &&
      ((indexIds st.cfg st.kv i.name false).filterMap id).any (fun x => x.contains '/' && !matchFn pat x) then ["list-wildcard-stops-at-slash"] else []) ++
  (if rev && ((indexIds st.cfg st.kv i.name false).filterMap id).any (fun x => x.contains '/') then ["list-reverse-multiseg-ids"] else []) ++
  (if lim < 0 then ["list-nolimit"] else if lim == 0 then ["list-limit0"] else []) ++
  (if lim ≥ 0 && off + lim > n then ["list-upper-clamped"] else []) ++
  (if lim > 0 && matched > off + lim then ["list-page-cut"] else []) ++
  (if off > 0 && matched > 0 then ["list-offset-skip"] else []) ++
  (if off ≥ matched && matched > 0 then ["list-offset-beyond"] else []) ++
  (if (st.kv.dropWhile (fun e => decide (e.1 < dir))).length < st.kv.length then ["kvlist-seek-skips"] else []) ++
  (if (kvList st.kv dir).length < (st.kv.dropWhile (fun e => decide (e.1 < dir))).length then ["kvlist-stops-early"] else [])

def stateBranches (st : St) : List String :=
  (if st.m.any (fun a => st.m.any (fun b => a.id != b.id && a.id.isPrefixOf b.id)) then ["id-prefix-of-id"] else []) ++
  (if st.cfg.indexes.any (fun i => lowSepDev i st.m) then ["low-separator-values"] else []) ++
  (if st.illFormed then ["ill-formed-stored"] else []) ++
  (if st.m.length ≥ 2 && st.cfg.indexes.any (fun i => i.unique && i.sel != .id) then ["unique-secondary-two-stored"] else [])

def judge (_id : String) (lines : Array String) : Verdict := Id.run do
  let mut st : St := {}
  for l in lines do
    let (opT, obs) := splitObs (tokens l)
    let obsS := " ".intercalate obs
    match opT with
    | ["cfg", p, specs] =>
      let some p := unesc p | return .badop l
      let some idx := (specs.splitOn ",").mapM parseIndex | return .badop l
      st := { st with cfg := { pfx := s2l p, indexes := idx } }
      if !st.cfg.wf then st := { st with illFormed := true }
    | ["get", i] =>
      let some i := unesc i | return .badop l
      let id := s2l i
      let model := renderGet (get st.cfg st.kv id)
      let sp := match absGet st.m id with | some o => s!"ok {renderObj o}" | none => "err:missing"
      st := addBr st (if (absGet st.m id).isSome then "get-stored" else "get-absent")
      if obsS != sp && !st.foreign then return classify st "get-returns-last-stored" s!"get {esc i}: spec {sp} observed {obsS}" (obsS == model) false
      if obsS != model && st.mm.isNone then st := { st with mm := some s!"get {esc i}: model {model} observed {obsS}" }
    | ["list", ix, pat, off, lim, rev] =>
      let some ix := unesc ix | return .badop l
      let some pat := unesc pat | return .badop l
      let some off := off.toInt? | return .badop l
      let some lim := lim.toInt? | return .badop l
      let pat := s2l pat
      if pat.any (fun ch => ch == '[' || ch == '\\') then return .badop s!"pattern outside the modelled glob subset: {l}"
      let rev := rev == "1"
      let some i := st.cfg.indexes.find? (fun i => i.name == s2l ix) | return .badop s!"unknown index {l}"
      st := addBrs st (listBranches st i pat off lim rev)
      let model := renderObjs (list st.cfg st.kv i.name pat off lim rev)
      let spL := specList i.sel st.m (matchFn pat) off lim rev
      let sp := s!"ok {renderList (spL.map renderObj)}"
      let full := pat == [] && off == 0 && (lim < 0 || lim ≥ 1000)
      let clause := if full then "index-lists-exactly-stored-in-order" else "page-is-slice-of-listing"
      if st.foreign && obsS != sp then st := addBr st "foreign-bucket-visible-in-list"
      if obsS != sp && !st.foreign then
        -- order-only deviation: the low-separator predicate holds and the page computed from the listing in
        -- composite-key order is what was observed (= model)
        let orderOnly := lowSepDev i st.m
        return classify st clause s!"list {esc ix} {escL pat} {off} {lim} {rev}: spec {sp} observed {obsS}" (obsS == model) orderOnly
      if obsS != model && st.mm.isNone then st := { st with mm := some s!"list {esc ix}: model {model} observed {obsS}" }
    | ["dump"] =>
      if st.dumpValid then
        if st.prevDump != some obsS then
          return .specfail "failed-op-leaves-no-trace" s!"raw bucket changed without a committed operation: before {st.prevDump.getD "?"} after {obsS}"
      let model := renderDump st.kv
      if obsS != model && st.mm.isNone then
        st := { st with mm := some s!"dump: model {model} observed {obsS}" }
      st := { st with prevDump := some obsS, dumpValid := true }
    | ["mkbucket", k] =>
      let some k := unesc k | return .badop l
      let (kv', r) := mkBucket st.kv (s2l k)
      if obsS != renderErr r && st.mm.isNone then
        st := { st with mm := some s!"mkbucket {esc k}: model {renderErr r} observed {obsS}" }
      if r == none then
        st := addBr { st with kv := kv', foreign := true, dumpValid := false } "foreign-bucket-created"
      else st := addBr st "foreign-bucket-key-taken"
    | _ =>
      match parseOp opT with
      | some op =>
        let some res := (match obs with | [r] => parseRes r | [] => (if opT == ["reopen"] then some none else none) | _ => none)
          | return (if obs == ["panic"] then .specfail "no-panic" l else .badop l)
        st := addBrs st (opBranches st op res)
        let (kv', mres) := step st.cfg st.kv op
        let hadBucket := st.kv.any (fun e => e.2 == .bucket)
        match (if st.foreign then some (if res == none then (specApply st.cfg st.m op).1 else st.m) else specStep st.cfg st.m op res) with
        | none =>
          let (_, r) := specApply st.cfg st.m op
          -- the object handed in by THIS call may be the ill-formed one (e.g. its cleaned index key is the entry of
          -- another object: the uniqueness check rejects it although the values differ)
          let opIll := match op.obj? with | some o => !st.cfg.wfObj o | none => false
          return classify { st with illFormed := st.illFormed || opIll } "operation-result" s!"{" ".intercalate opT}: spec {renderErr r} observed {renderErr res}" (res == mres) false
        | some m' =>
          if res != mres && st.mm.isNone then
            st := { st with mm := some s!"{" ".intercalate opT}: model {renderErr mres} observed {renderErr res}" }
          let committed := res == none && opT != ["reopen"]
          if committed then
            match op.obj? with
            | some o => if !st.cfg.wfObj o then st := { st with illFormed := true }
            | none => pure ()
          if res == none then
            match op with
            | .delete _ _ => if (absGet st.m (match op with | .delete id _ => id | _ => [])).isSome then st := { st with interesting := true }
            | _ => pure ()
          if (opBranches st op res).any (fun b => b == "idx-key-changed" || b.startsWith "fault-write-hit" || b == "fault-commit-hit" || b == "unique-conflict") then
            st := { st with interesting := true }
          if st.foreign && mres == some .other then st := addBr st "foreign-bucket-blocks-write"
          if hadBucket && !(kv'.any (fun e => e.2 == .bucket)) then st := addBr st "foreign-bucket-deleted-by-store"
          st := { st with kv := kv', m := m', dumpValid := st.dumpValid && !committed,
                          maxStored := max st.maxStored m'.length }
          -- the spec's own successor state keeps the unique indexes unique (theorem unique_indexes_stay_unique);
          -- checked here on every run as well
          if !uniqueOK st.cfg st.m then return .specfail "unique-index-stays-unique" s!"{" ".intercalate opT}: two stored objects share a value of a unique index"
          st := addBrs st (stateBranches st)
      | none => return .badop l
  match st.mm with
  | some d => return .mismatch d
  | none => return .ok (st.maxStored ≥ 2 && st.interesting) st.branches.reverse

end Kap.C15.Drv

def main : IO Unit := Kap.driverMain Kap.C15.Drv.judge
