/-
Driver for C16: reads cases of op lines produced by the Go harness (which ran the REAL kapacitor code and
re-parsed every issued query text with the real influxql parser), and for every line judges
  * the property itself on the OBSERVED output (Kap/Spec/C16.lean)  → SPECFAIL, checked first;
  * observed = model (Kap/Model/C16.lean)                            → MISMATCH.
`sched` ops carry the host's zone (`tz=`, seconds east of UTC; the harness assigns time.Local) and may name hours /
minutes / seconds (`cz=`): the model evaluates them with `cronZoneNext`. `cronlive` ops ran the REAL cronTicker.Start for
one second in a fixed zone: the historical texts of the span must be the live texts (`histIsLive`), the live ticks must
be the seconds at which the shape is due (`liveFollows`), and both must be what `cronLiveTicks` / `histTicks` give.
`now` of the machine is not on the wire: spans are generated before 2026 or after 2100 and the model
runs with `nowAssumed` (2080), which gives the same answers as any real clock in between.
-/
import Kap.Spec.C16
open Kap Kap.C16

namespace Kap.C16

def Cond.hasOr : Cond → Bool
  | .atom _ => false
  | .bin .or _ _ => true
  | .bin .and l r => hasOr l || hasOr r
  | .paren e => hasOr e

def Cond.hasParen : Cond → Bool
  | .atom _ => false
  | .bin _ l r => hasParen l || hasParen r
  | .paren _ => true

def Cond.depth : Cond → Nat
  | .atom _ => 0
  | .bin _ l r => max (depth l) (depth r) + 1
  | .paren e => depth e + 1

end Kap.C16

namespace Kap.C16.Drv

def nowAssumed : Int := 3500000000 * 1000000000

def parseTOp : String → Option TOp
  | "ge" => some .ge | "lt" => some .lt | "gt" => some .gt | "le" => some .le | "eq" => some .eq | "ne" => some .ne
  | _ => none

def parseAtom (t : String) : Option Atom :=
  if t.startsWith "A" then (t.drop 1).toString.toNat?.map Atom.opq
  else if t.startsWith "T" then do
    let op ← parseTOp ((t.drop 1).take 2).toString
    let v ← (t.drop 3).toString.toInt?
    pure (.time op v false)
  else none

def parseTok (t : String) : Option Tok :=
  match t with
  | "and" => some (.op .and)
  | "or" => some (.op .or)
  | "lp" => some .lp
  | "rp" => some .rp
  | _ => (parseAtom t).map Tok.atom

/-- `-` = no WHERE clause. -/
def parseToks (s : String) : Option (Option (List Tok)) :=
  if s == "-" then some none else ((s.splitOn ",").mapM parseTok).map some

partial def parseTree : List String → Option (Cond × List String)
  | "and" :: rest => do
    let (l, r1) ← parseTree rest; let (r, r2) ← parseTree r1; pure (.bin .and l r, r2)
  | "or" :: rest => do
    let (l, r1) ← parseTree rest; let (r, r2) ← parseTree r1; pure (.bin .or l r, r2)
  | "P" :: rest => do
    let (e, r1) ← parseTree rest; pure (.paren e, r1)
  | t :: rest => (parseAtom t).map (fun a => (.atom a, rest))
  | [] => none

/-- Observed tree: `-` = no condition; `none` = not a tree the model can express. -/
def parseObsTree (s : String) : Option (Option Cond) :=
  if s == "-" then some none else
  match parseTree (s.splitOn ",") with
  | some (c, []) => some (some c)
  | _ => none

def kvGet (kvs : List String) (k : String) : Option String :=
  kvs.findSome? (fun t => if t.startsWith (k ++ "=") then some (t.drop (k.length + 1)).toString else none)

def kvInt (kvs : List String) (k : String) : Option Int := (kvGet kvs k).bind String.toInt?

structure Acc where
  br : List String := []
  nt : Bool := false

def Acc.add (a : Acc) (b : String) : Acc := if a.br.contains b then a else { a with br := b :: a.br }
def Acc.addIf (a : Acc) (c : Bool) (b : String) : Acc := if c then a.add b else a

def userTimeish (c : Cond) : Bool := !c.timeLits.isEmpty || c.opqIds.any (· ≥ 100)

def shapeBranches (a : Acc) (user : Option Cond) : Acc :=
  match user with
  | none => a.add "no-where"
  | some c =>
    let a := match c with
      | .bin .or _ _ => a.add "top-or-gets-paren"
      | .bin .and _ _ => a.add "top-and"
      | .atom _ => a.add "top-atom"
      | .paren _ => a.add "top-paren"
    let a := a.addIf (userTimeish c) "user-time-predicate"
    let a := a.addIf c.hasParen "user-paren"
    let a := a.addIf (c.depth ≥ 3) "deep"
    a.addIf (match c with | .bin .and l r => (l.hasOr || r.hasOr) | _ => false) "or-under-and"

abbrev J := Except Verdict

def bad (l : String) : J α := .error (.badop l)

/-! ### splice -/

def judgeSplice (a : Acc) (l : String) (op obs : List String) : J Acc := do
  let [_, toksS, s, e, s2, e2] := op | bad l
  let some s := s.toInt? | bad l
  let some e := e.toInt? | bad l
  let some s2 := s2.toInt? | bad l
  let some e2 := e2.toInt? | bad l
  let some toks := parseToks toksS | bad l
  let some nq := kvGet obs "nq" | bad l
  -- the model's reading of the user's text
  let userM : Option (Option Cond) := match toks with
    | none => some none
    | some ts => (parse ts).map some
  match userM with
  | none =>
    if nq != "err" then .error (.mismatch s!"the model parser rejects {toksS}, NewQuery accepted it")
    pure (a.add "parse-reject")
  | some user =>
    if nq != "ok" then .error (.mismatch s!"the model parser accepts {toksS}, NewQuery said {nq}")
    let some ucS := kvGet obs "uc" | bad l
    let some uc := parseObsTree ucS | .error (.mismatch s!"user condition re-parsed by influxql is outside the model: {ucS}")
    if uc != user then .error (.mismatch s!"user condition: influxql parsed {ucS}, the model parser differs")
    let some q1S := kvGet obs "q1" | bad l
    let q1? := parseObsTree q1S
    -- (1) on the observed text
    match q1? with
    | some (some q1) =>
      if !rangeHolds uc q1 s e then
        .error (.specfail "time-bound-and-user-condition" s!"issued {q1S} for [{s},{e}) is not (user condition) AND range; user {ucS}")
    | _ => .error (.specfail "time-bound-and-user-condition" s!"issued condition is not readable: {q1S}")
    -- what influxdb's own time-range extraction makes of it
    let some trS := kvGet obs "tr" | bad l
    let timeish := match user with | some c => userTimeish c | none => false
    match trS.splitOn ":" with
    | [mn, mx] =>
      let some mn := mn.toInt? | bad l
      let some mx := mx.toInt? | bad l
      if !(decide (s ≤ mn) && decide (mx < e)) then
        .error (.specfail "influx-time-range" s!"influxql.ConditionExpr range [{mn},{mx}] exceeds [{s},{e})")
      if !timeish && !(mn == s && mx == e - 1) then
        .error (.specfail "influx-time-range" s!"influxql.ConditionExpr range [{mn},{mx}] is not [{s},{e})")
    | _ => if !timeish then .error (.specfail "influx-time-range" s!"influxql.ConditionExpr rejects the issued condition")
    -- model
    let q := (newQuery user none false).setRange (s, e)
    if q.issue.cond != (q1?.bind id) then .error (.mismatch s!"issued condition {q1S} differs from the model's")
    let some cl := kvGet obs "cl" | bad l
    if cl != "ok" then .error (.specfail "clone-usable" s!"Clone of a fresh query answered {cl}")
    let some qc := q.clone | .error (.mismatch "model Clone fails, real Clone succeeded")
    let some q2S := kvGet obs "q2" | bad l
    match parseObsTree q2S with
    | some (some q2) =>
      if !rangeHolds uc q2 s2 e2 then
        .error (.specfail "clone-time-bound" s!"clone issued {q2S} for [{s2},{e2}); user {ucS}")
      if (qc.setRange (s2, e2)).issue.cond != some q2 then .error (.mismatch s!"clone's condition {q2S} differs from the model's")
    | _ => .error (.specfail "clone-time-bound" s!"clone's condition is not readable: {q2S}")
    if kvGet obs "orig" != some "1" then
      .error (.specfail "clone-independent" "setting the clone's times changed the original query")
    let a := shapeBranches a user
    let a := a.addIf (decide (e ≤ s)) "empty-range"
    let nt := match user with | some c => c.hasOr && c.natoms ≥ 2 | none => false
    pure { a with nt := a.nt || nt }

/-! ### tick / livereal -/

def judgeTick (a : Acc) (l : String) (op obs : List String) : J Acc := do
  let [_, d, al, now] := op | bad l
  let some d := d.toInt? | bad l
  let some now := now.toInt? | bad l
  let al := al == "1"
  let [nx] := obs | bad l
  let some nx := nx.toInt? | .error (.specfail "tick-next" s!"timeTicker.Next answered {obs}")
  if al then
    if !(decide (now < nx) && decide ((nx + zeroOff) % d = 0) && decide (nx - d ≤ now)) then
      .error (.specfail "tick-aligned-next" s!"every {d} aligned: Next({now}) = {nx} is not the first multiple after it")
  else if nx != now + d then
    .error (.specfail "tick-next" s!"every {d}: Next({now}) = {nx}")
  if tickerNext d al now != nx then .error (.mismatch s!"Next({now}) every {d} align {al}: model {tickerNext d al now} observed {nx}")
  let r := (now + zeroOff) % d
  let a := if !al then a.add "unaligned" else
    if r = 0 then a.add "phase-0" else if r + r < d then a.add "phase-below-half"
    else if r + r = d || r + r = d + 1 then a.add "phase-half" else a.add "phase-above-half"
  let a := a.addIf (al && (86400000000000 : Int) % d ≠ 0) "every-not-dividing-day"
  let a := a.addIf (al && now < 0) "before-1970"
  pure { a with nt := a.nt || (al && r ≠ 0) }

def judgeLiveReal (a : Acc) (l : String) (op obs : List String) : J Acc := do
  let [_, msS, nS] := op | bad l
  let some msV := msS.toInt? | bad l
  let some n := nS.toNat? | bad l
  let d := msV * 1000000
  let some relS := kvGet obs "rel" | bad l
  let want : List Int := (List.range n).map (fun (k : Nat) => ((k : Int) + 1) * d)
  let model := (List.range n).map (fun k => liveTick d true 0 k - goTruncate 0 d)
  let got := if relS == "-" then some [] else (relS.splitOn ",").mapM String.toInt?
  if got != some want then
    .error (.specfail "live-aligned-ticks" s!"aligned ticker every {d}: ticks relative to Truncate(start) {relS}, expected the next {n} multiples")
  if got != some model then .error (.mismatch s!"aligned live ticks {relS} differ from the model")
  pure ({ a with nt := true }.add "live-real-aligned")

/-! ### dims -/

def parseGb (s : String) : Option (Option (Int × Int)) :=
  if s == "-" then some none else
  match s.splitOn ":" with
  | [a, b] => do let a ← a.toInt?; let b ← b.toInt?; pure (some (a, b))
  | _ => none


def judgeDims (a : Acc) (l : String) (op obs : List String) : J Acc := do
  let [_, lenS, offS, agS, sS] := op | bad l
  let some len := lenS.toInt? | bad l
  let some off := offS.toInt? | bad l
  let some s := sS.toInt? | bad l
  let ag := agS == "1"
  let [o] := obs | bad l
  if o == "panic" then
    .error (.specfail "no-crash-on-settings" s!"group by time({len}, {off}) alignGroup={ag}: Dimensions/SetStartTime panicked")
  if !validDims (some (len, off)) then
    if o != "err" then .error (.mismatch s!"time dimension {len}: the model refuses it, Dimensions answered {o}")
    return ({ a with nt := true }.add (if len = 0 then "dims-zero-rejected" else "dims-negative-rejected"))
  let q := ((newQuery none (some (len, off)) ag).setStartTime s).setStopTime (s + 1000000000)
  let some g := (if o.startsWith "gb=" then parseGb (o.drop 3).toString else none) | .error (.mismatch s!"Dimensions answered {o}")
  match g with
  | some og =>
    if ag && !(og.1 == len && gbAligned s og) then
      .error (.specfail "group-by-aligned" s!"group by time{og} is not aligned with the start {s}")
    if !ag && og != (len, off) then .error (.specfail "group-by-kept" s!"group by {og}, configured ({len}, {off})")
  | none => .error (.specfail "group-by-kept" "the time dimension is gone")
  if q.gb != g then .error (.mismatch s!"group by {o} differs from the model's {q.gb}")
  pure ((a.add (if ag then "dims-aligngroup" else "dims-plain")).addIf (s < 0) "dims-before-1970")

/-! ### sched -/

structure ObsQ where
  cond : Option Cond
  gb : Option (Int × Int)
  extra : String
  raw : String
deriving Inhabited

def parseObsQ (s : String) : Option ObsQ :=
  match s.splitOn ";" with
  | [tree, gb, extra, _crc] => do
    let c ← parseObsTree tree
    let g ← parseGb gb
    pure { cond := c, gb := g, extra := extra, raw := s }
  | _ => none

def parseObsQs (s : String) : Option (List ObsQ) :=
  if s == "-" then some [] else (s.splitOn "|").mapM parseObsQ

def parseDBRPs (s : String) : List DBRP :=
  if s == "-" || s.isEmpty then [] else
  (s.splitOn ",").filterMap (fun x => match x.splitOn "." with
    | [d, r] => some (d, r)
    | _ => none)

def sameIssued (o : ObsQ) (m : Issued) : Bool := o.cond == m.cond && o.gb == m.gb && o.extra == m.extra

def sameList (os : List ObsQ) (ms : List Issued) : Bool :=
  os.length == ms.length && (os.zip ms).all (fun p => sameIssued p.1 p.2)

/-- final state of the node's own query after the live ticks -/
def liveFinal (offset period : Int) : Query → List Int → Query
  | q, [] => q
  | q, t :: ts => liveFinal offset period (doQuery offset period q t).1 ts

def judgeSched (a : Acc) (l : String) (op obs : List String) : J Acc := do
  let kv := op.drop 1
  let some toksS := kvGet kv "toks" | bad l
  let some toks := parseToks toksS | bad l
  let user : Option Cond ← match toks with
    | none => pure none
    | some ts => match parse ts with
      | some c => pure (some c)
      | none => bad l
  let some per := kvInt kv "per" | bad l
  let some off := kvInt kv "off" | bad l
  let some ev := kvInt kv "ev" | bad l
  let some cron := kvInt kv "cron" | bad l
  let some gb := kvInt kv "gb" | bad l
  let some gbo := kvInt kv "gbo" | bad l
  let some start := kvInt kv "start" | bad l
  let some stopS := kvGet kv "stop" | bad l
  let stop : Option Int := if stopS == "z" then none else stopS.toInt?
  let al := kvGet kv "al" == some "1"
  let ag := kvGet kv "ag" == some "1"
  let lt := kvGet kv "lt" == some "1"
  -- rel ≠ 0: the case's origin is `rel` ns before the wall clock's now, all times on the wire are relative to it
  let rel := (kvInt kv "rel").getD 0
  let nowA : Int := if rel != 0 then rel else nowAssumed
  let gbz := kvGet kv "gbz" == some "1"
  let ptMax : Option Int := (kvGet kv "pt").bind String.toInt?
  let fires : List Int := match kvGet kv "fires" with
    | some f => (f.splitOn ",").filterMap String.toInt?
    | none => []
  -- the host's zone for this op (seconds east of UTC), and a cron naming hours;minutes;seconds on the host's clock
  let tzOff : Int := ((kvInt kv "tz").getD 0) * 1000000000
  let tod : List Int ← match kvGet kv "cz" with
    | none => pure []
    | some cz => match (cz.splitOn ";").mapM (fun f => (f.splitOn "+").mapM String.toInt?) with
      | some [hs, ms, ss] =>
        pure (hs.flatMap (fun h => ms.flatMap (fun m => ss.map (fun x => (h * 3600 + m * 60 + x) * 1000000000))))
      | _ => bad l
  if cron == -2 && !(!tod.isEmpty && tod.all (fun x => decide (0 ≤ x) && decide (x < dayNs)) &&
      (tod.zip (tod.drop 1)).all (fun p => decide (p.1 < p.2))) then bad s!"cz is not an ascending list of times of day: {l}"
  -- fill option and tag dimensions as configured, in the rendering the harness uses for issued texts
  let fillCfg := match (kvGet kv "fill").getD "-" with
    | "-" => "null" | "null" => "null" | "0" => "number:0" | f => f
  let tagsCfg := match (kvGet kv "tags").getD "0" with
    | "1" => "host" | "2" => "*" | _ => "-"
  let extraCfg := fillCfg ++ "/" ++ tagsCfg
  let some ticksS := kvGet kv "ticks" | bad l
  let some ticks := (if ticksS == "-" then some [] else (ticksS.splitOn ",").mapM String.toInt?) | bad l
  let decl := parseDBRPs ((kvGet kv "decl").getD "")
  let nodes := (((kvGet kv "from").getD "").splitOn "/").map parseDBRPs
  let some st := kvGet obs "st" | bad l
  -- schedule selection
  match chooseSched ev al (cron != 0) with
  | none =>
    if st != "err:sched" then .error (.mismatch s!"every={ev} cron={cron}: the model rejects the schedule, the node said {st}")
    pure (a.add (if ev < 0 then "sched-reject-negative" else if ev = 0 then "sched-reject-none" else "sched-reject-both"))
  | some sch =>
    let K := cron * 1000000000
    let next : Int → Option Int := match sch with
      | .every d x => fun t => some (tickerNext d x t)
      | .cron => if cron == -2 then cronZoneNext tod tzOff else if cron < 0 then cronListNext fires else cronNext K
    let specSch : Schedule := match sch with
      | .every d x => .every d x
      | .cron => if cron == -2 then .cronZone tod tzOff else if cron < 0 then .cronList fires else .cronEvery K
    let gbCfg : Option (Int × Int) := if gbz then some (0, gbo) else if gb != 0 then some (gb, gbo) else none
    -- Query.Dimensions refuses a non-positive time dimension (before: accepted, and alignGroup divided by zero)
    if !validDims gbCfg then
      if st == "ok" then
        .error (.specfail "no-crash-on-settings" s!"group by time({gbCfg}) was accepted; with alignGroup the first tick divides by zero")
      if st != "err:dims" then .error (.mismatch s!"time dimension {gbCfg}: the model refuses it, the node said {st}")
      return ({ a with nt := true }.add "dims-rejected-task")
    if st != "ok" then
      if st == "err:sched" then .error (.mismatch s!"every={ev} cron={cron}: the model accepts the schedule, the node rejected it")
      else bad s!"task did not start ({st}): {l}"
    let q0 := newQuery user gbCfg ag extraCfg
    -- (6) sources
    let hsrc := parseDBRPs ((kvGet obs "hsrc").getD "")
    let lsrc := parseDBRPs ((kvGet obs "lsrc").getD "")
    if !onlyDeclared decl hsrc then .error (.specfail "only-declared-dbrps" s!"historical queries read {hsrc}, declared {decl}")
    if !onlyDeclared decl lsrc then .error (.specfail "only-declared-dbrps" s!"live queries read {lsrc}, declared {decl}")
    let some h := kvGet obs "h" | bad l
    let some lS := kvGet obs "l" | bad l
    match startBatching decl nodes with
    | none =>
      if h != "err:dbrp" then .error (.mismatch s!"undeclared source: BatchQueries answered {h}")
      if lS != "err:dbrp" then .error (.mismatch s!"undeclared source: StartBatching answered {lS}")
      pure ({ a with nt := true }.add (if nodes.length > 1 then "dbrp-refused-multi-node" else "dbrp-refused"))
    | some _ =>
      if h != "ok" then .error (.mismatch s!"declared sources: BatchQueries answered {h}")
      if lS != "ok" then .error (.mismatch s!"declared sources: StartBatching answered {lS}")
      let some H := (kvGet obs "H").bind parseObsQs | bad l
      let some L := (kvGet obs "L").bind parseObsQs | bad l
      let some H2 := (kvGet obs "H2").bind parseObsQs | bad l
      if kvGet obs "h2" != some "ok" then .error (.mismatch s!"second BatchQueries answered {kvGet obs "h2"}")
      -- every live source must be the union of the declared nodes' sources
      -- (1)(2)(5) on the live queries
      if L.length != ticks.length then
        .error (.specfail "one-query-per-tick" s!"{ticks.length} ticks, {L.length} queries")
      for (o, T) in L.zip ticks do
        let r := rangeOfTick off per T
        match o.cond with
        | some c =>
          if !rangeHolds user c r.1 r.2 then
            .error (.specfail "live-range-exact" s!"tick {T}: issued {o.raw}, expected the user condition on [{r.1},{r.2})")
        | none => .error (.specfail "live-range-exact" s!"tick {T}: issued text has no readable condition: {o.raw}")
        match gbCfg with
        | some g =>
          if ag then
            match o.gb with
            | some og =>
              if og.1 != g.1 || !gbAligned r.1 og then
                .error (.specfail "group-by-aligned" s!"tick {T}: group by time{og} is not aligned with the range start {r.1}")
            | none => .error (.specfail "group-by-kept" s!"tick {T}: the time dimension is gone")
          else if o.gb != some g then .error (.specfail "group-by-kept" s!"tick {T}: group by {o.gb}, configured {g}")
        | none => if o.gb.isSome then .error (.specfail "group-by-kept" s!"tick {T}: unexpected time dimension")
        if !extraKept extraCfg o.extra then
          .error (.specfail "fill-and-dimensions-kept" s!"tick {T}: issued fill/dimensions {o.extra}, configured {extraCfg}")
      -- the batches handed downstream carry the window's end
      let some btS := kvGet obs "bt" | bad l
      let some bts := (if btS == "-" then some [] else (btS.splitOn ",").mapM String.toInt?) | bad l
      if bts.length != ticks.length then
        .error (.specfail "one-batch-per-tick" s!"{ticks.length} ticks, {bts.length} batches reached the next node")
      for (bt, T) in bts.zip ticks do
        let stopT := (rangeOfTick off per T).2
        if !batchTimeHolds gbCfg.isSome ptMax stopT bt then
          .error (.specfail "batch-time-is-window-end" s!"tick {T}: batch time {bt}, window end {stopT}, grouped by time {gbCfg.isSome}, latest point {ptMax}")
        if bt != batchTime gbCfg.isSome ptMax (tickRange off per T).2 then
          .error (.mismatch s!"tick {T}: batch time {bt} differs from the model")
      -- (4) history = live
      let s' := effStop stop nowA
      if lt then
        if !ticksExact specSch start s' start ticks then bad s!"the injected ticks are not the live ticks of the span: {l}"
        let expect := (L.zip ticks).filter (fun p => decide (p.2 - off ≤ nowA)) |>.map (·.1.raw)
        if H.map (·.raw) != expect then
          .error (.specfail "historical-equals-live" s!"span ({start},{s'}]: historical {H.map (·.raw)} live {expect}")
        if H2.map (·.raw) != expect then
          .error (.specfail "historical-after-live" s!"span ({start},{s'}] after the live ticks: historical {H2.map (·.raw)} live {expect}")
      -- model
      let some Hm := queries next off per q0 start stop nowA | .error (.mismatch "model Clone failed")
      if !sameList H Hm then .error (.mismatch s!"historical list differs from the model: observed {H.map (·.raw)}")
      if !sameList L (liveRun off per q0 ticks) then .error (.mismatch s!"live list differs from the model: observed {L.map (·.raw)}")
      let qf := liveFinal off per q0 ticks
      let some H2m := queries next off per qf start stop nowA | .error (.mismatch "model Clone failed")
      if !sameList H2 H2m then .error (.mismatch s!"historical list after live ticks differs from the model: observed {H2.map (·.raw)}")
      -- coverage
      let a := shapeBranches a user
      let phase := match sch with | .every d true => (start + zeroOff) % d | _ => 0
      let a := match sch with
        | .every d true => if phase = 0 then a.add "aligned-phase-0" else if phase + phase < d then a.add "aligned-phase-below-half" else a.add "aligned-phase-half-or-above"
        | .every _ false => a.add "every-unaligned"
        | .cron => a.add "cron"
      let a := a.addIf (lt && H.isEmpty) "hist-empty"
      let a := a.addIf (lt && ticks.getLast? == some s') "hist-stop-on-tick"
      let a := a.addIf (lt && !ticks.isEmpty && H.isEmpty) "hist-now-cutoff"
      let a := a.addIf (rel != 0 && H.length < ticks.length) "now-cutoff-mid-span"
      let a := a.addIf (rel != 0 && off < 0 && H.length < ticks.length) "now-cutoff-stop-after-now-tick-before"
      let a := a.addIf (rel != 0 && off > 0) "now-cutoff-offset-positive"
      let a := a.addIf (rel != 0 && stop.isNone) "stop-zero-is-now"
      let a := a.addIf (decide (off > per)) "offset-above-period"
      let a := a.addIf (decide (off < 0)) "offset-negative"
      let a := a.addIf (per == 0) "period-0"
      let a := a.addIf (ag && gbCfg.isSome) "aligngroup"
      let a := a.addIf (ag && gbCfg.isNone) "aligngroup-without-time"
      let a := a.addIf (gbCfg.isSome && gbo != 0) "group-by-user-offset"
      let a := a.addIf (!lt) "arbitrary-ticks"
      let a := a.addIf (nodes.length > 1) "multi-node"
      let a := a.addIf (start < 0) "before-1970"
      let a := a.addIf (cron == -1) "cron-ending"
      let a := a.addIf (cron == -1 && tzOff != 0) "cron-ending-host-not-utc"
      let a := a.addIf (cron == -2) "cron-names-hours"
      let a := a.addIf (cron == -2 && tzOff > 0) "cron-host-east-of-utc"
      let a := a.addIf (cron == -2 && tzOff < 0) "cron-host-west-of-utc"
      let a := a.addIf (cron == -2 && tzOff == 0) "cron-host-utc"
      let a := a.addIf (cron == -2 && tzOff % 3600000000000 != 0) "cron-host-fractional-hour-zone"
      -- a tick taken from the clock's NEXT day (the `none` branch of cronZoneNext), and a span over UTC's midnight only
      let a := a.addIf (cron == -2 && ((start :: ticks).zip ticks).any (fun p => (p.1 + tzOff) / dayNs != (p.2 + tzOff) / dayNs)) "cron-next-day-on-host-clock"
      let a := a.addIf (cron == -2 && ((start :: ticks).zip ticks).any (fun p => (p.1 + tzOff) / dayNs == (p.2 + tzOff) / dayNs)) "cron-later-same-host-day"
      let a := a.addIf (cron == -2 && ((start :: ticks).zip ticks).any (fun p => p.1 / dayNs != p.2 / dayNs && (p.1 + tzOff) / dayNs == (p.2 + tzOff) / dayNs)) "cron-over-utc-midnight-same-host-day"
      let a := a.addIf (cron == -1 && lt && (firstLiveAfter specSch start (ticks.getLast?.getD start)).isNone) "cron-ended-before-stop"
      let a := a.addIf (!ticks.isEmpty && gbCfg.isSome && ptMax.isSome) "batch-time-from-points"
      let a := a.addIf (!ticks.isEmpty && gbCfg.isSome && ptMax.isNone) "batch-time-grouped-no-points"
      let a := a.addIf (!ticks.isEmpty && gbCfg.isNone && ptMax.isSome) "batch-time-stop-despite-points"
      let a := a.addIf (!ticks.isEmpty && gbCfg.isNone && ptMax.isNone) "batch-time-stop"
      let a := a.add ("fill-" ++ fillCfg)
      let a := a.add ("tags-" ++ tagsCfg)
      pure { a with nt := a.nt || H.length ≥ 2 || (!lt && L.length ≥ 2) }

/-! ### cronlive: the real cron ticker in a fixed zone, one second of wall clock -/

def obsTick (o : ObsQ) : Option Int := o.cond.bind (fun c => c.timeLits.getLast?)

def judgeCronLive (a : Acc) (l : String) (op obs : List String) : J Acc := do
  let kv := op.drop 1
  let some tz := kvInt kv "tz" | bad l
  let some per := kvInt kv "per" | bad l
  let some t0 := kvInt kv "from" | bad l
  let some t1 := kvInt kv "to" | bad l
  let some shapesS := kvGet kv "shapes" | bad l
  let shapes := shapesS.splitOn ","
  if obs == ["panic"] then .error (.specfail "no-crash-on-settings" s!"a cron task panicked: {l}")
  if kvGet obs "st" != some "ok" || kvGet obs "l" != some "ok" || kvGet obs "h" != some "ok" then
    bad s!"cron tasks did not run ({obs.take 3}): {l}"
  if kvGet obs "stray" != some "0" then .error (.mismatch s!"queries that belong to no query node of the task: {kvGet obs "stray"}")
  let mut a := a
  let mut nt := false
  let mut i := 0
  for sh in shapes do
    let some fS := kvGet obs s!"F{i}" | bad l
    let some F := (if fS == "-" then some [] else (fS.splitOn ",").mapM String.toInt?) | bad l
    let some L := (kvGet obs s!"L{i}").bind parseObsQs | bad l
    let some H := (kvGet obs s!"H{i}").bind parseObsQs | bad l
    let what := s!"host {tz} s east of UTC, cron shape {sh}, watched ({t0},{t1}] after a whole second"
    -- (4) on the observed texts: the historical list of the span is the list the live ticks of the span issued
    if !histIsLive (H.map (·.raw)) (L.map (·.raw)) then
      .error (.specfail "historical-equals-live" s!"{what}: historical {(H.map (·.raw)).take 4} live {(L.map (·.raw)).take 4} ({L.length} live queries)")
    -- (3) the live ticks are the scheduled times of the span
    let some ticks := L.mapM obsTick | .error (.specfail "live-range-exact" s!"{what}: an issued text has no readable time bound")
    if !liveFollows F t0 t1 ticks then
      .error (.specfail "live-ticks-follow-cron" s!"{what}: live ticks {ticks.take 6} ({ticks.length}), due {F.filter (fun T => decide (t0 < T) && decide (T ≤ t1))}")
    -- (1)(2) each live query covers [tick − period, tick)
    for (o, T) in L.zip ticks do
      let r := rangeOfTick 0 per T
      match o.cond with
      | some c =>
        if !rangeHolds none c r.1 r.2 then .error (.specfail "live-range-exact" s!"{what}: tick {T}: issued {o.raw}")
      | none => .error (.specfail "live-range-exact" s!"{what}: tick {T}: no readable condition")
    -- model: cronTicker.Start and Queries walk the same chain of Next answers (the schedule goes on after the window)
    let next := cronListNext (F ++ [t1 + dayNs])
    let liveM := (cronLiveTicks next 8 t0).takeWhile (fun c => decide (c ≤ t1))
    if liveM != ticks then .error (.mismatch s!"{what}: live ticks {ticks} differ from the model's {liveM}")
    let histM := histTicks next t1 (t1 + 1) 0 8 t0
    if H.mapM obsTick != some histM then .error (.mismatch s!"{what}: historical ticks differ from the model's {histM}")
    a := a.add (s!"cronlive-{sh}-" ++ (if ticks.isEmpty then "silent" else "fires"))
    nt := nt || !ticks.isEmpty
    i := i + 1
  a := a.add (if tz > 0 then "cronlive-host-east-of-utc" else if tz < 0 then "cronlive-host-west-of-utc" else "cronlive-host-utc")
  a := a.addIf (tz % 3600 != 0) "cronlive-host-fractional-hour-zone"
  pure { a with nt := a.nt || nt }

def judge (_id : String) (lines : Array String) : Verdict :=
  let r : J Acc := lines.foldlM (init := ({} : Acc)) (fun a l =>
    let (op, obs) := splitObs (tokens l)
    match op.head? with
    | some "splice" => judgeSplice a l op obs
    | some "tick" => judgeTick a l op obs
    | some "livereal" => judgeLiveReal a l op obs
    | some "dims" => judgeDims a l op obs
    | some "sched" => judgeSched a l op obs
    | some "cronlive" => judgeCronLive a l op obs
    | _ => bad l)
  match r with
  | .ok a => .ok a.nt a.br.reverse
  | .error v => v

end Kap.C16.Drv

def main : IO Unit := Kap.driverMain Kap.C16.Drv.judge
