/-
Driver for C17: reads cases of op lines produced by the Go harness (which ran the REAL scheduler.TreeScheduler),
and judges each case:
  * SPEC on the OBSERVED output first: the observed executor / checkpoint events, in the order they happened, are fed
    to the property monitor of Kap/Spec/C17.lean (every clause: released-is-silent, no-overlap,
    consecutive-in-order-once, never-early with the EXACT offset in ms, checkpoint-…), the quiescent liveness clause `dueIdle` is evaluated after
    every op, and Schedule/Release/clock moves must have returned (returns-promptly);
  * then observed = model: events per task id, the btree contents, the uniqueness index, `s.when`, the pending tick.
-/
import Kap.Basic
import Kap.Spec.C17
open Kap Kap.C17

namespace Kap.C17.Drv

/-- Occurrence table of one schedule object: `(from, next)` pairs; `none` = Next fails. -/
structure Tbl where
  sc : Nat
  pairs : List (Int × Option Int)
  truncatedAt : Option Int      -- the last listed occurrence when the table was cut (its successor is unknown)

def parseTbl (sc : Nat) (last : Int) (tok : String) : Option Tbl := do
  let parts := tok.splitOn ","
  let nums := parts.dropLast
  let endTok := parts.getLast?.getD ""
  let occ ← nums.mapM (fun s => s.toInt?)
  let froms := last :: occ
  -- strictly increasing (the trusted contract of the cron library, validated on every table)
  let rec incr : List Int → Bool
    | a :: b :: r => decide (a < b) && incr (b :: r)
    | _ => true
  if !incr froms then none
  let rec mk : List Int → List (Int × Option Int)
    | a :: b :: r => (a, some b) :: mk (b :: r)
    | [a] => if endTok == "!" then [(a, none)] else []
    | [] => []
  let trunc := if endTok == "~" then froms.getLast? else none
  if endTok != "!" && endTok != "~" then none
  pure { sc := sc, pairs := mk froms, truncatedAt := trunc }

def lookupPair (l : List (Int × Option Int)) (t : Int) : Option Int :=
  match l with
  | [] => none
  | (a, b) :: r => if a = t then b else lookupPair r t

def mkEnv (tbls : List Tbl) (wks : List (Nat × Nat)) : Env :=
  { nx := fun sc t => match tbls.find? (fun x => x.sc == sc) with
                      | some tb => lookupPair tb.pairs t
                      | none => none
    wk := fun id => (aget wks id).getD 0 }

def field (pre : String) (toks : List String) : Option String :=
  (toks.find? (fun t => t.startsWith pre)).map (fun t => (t.drop pre.length).toString)

def brIf (p : Bool) (b : String) : List String := if p then [b] else []

def renderList (l : List String) : String := if l.isEmpty then "-" else ",".intercalate l

def renderQueue (q : List Item) : String :=
  renderList (q.map (fun it => s!"{it.whn}:{it.id}:{it.next}:{secUp it.off}"))   -- `Item.Offset`

def renderIndex (ix : List (Nat × Int)) : String :=
  renderList ((ix.mergeSort (fun a b => decide (a.1 ≤ b.1))).map (fun p => s!"{p.1}:{p.2}"))

def renderWhen : Option Int → String
  | none => "z"
  | some w => toString w

def evId : Ev → Nat
  | .sched id .. | .schedErr id | .rel id | .start id .. | .finish id .. | .ckpt id .. | .onErr id => id
  | .clock _ => 0

/-- Ordered per-id rendering of executor/checkpoint events. (The clock value the harness reads inside Execute is
not compared: the worker reads it outside the scheduler mutex, concurrently with the harness's `Add(0)` kicks,
during which the mock clock transiently shows the deadline of a timer re-armed in the past.) -/
def renderEv (_now : Int) : Ev → Option String
  | .start id n r => some s!"s:{id}:{n}:{r}"
  | .finish id n => some s!"f:{id}:{n}"
  | .ckpt id t => some s!"c:{id}:{t}"
  | _ => none

def stableById (l : List Ev) : List Ev := l.mergeSort (fun a b => decide (evId a ≤ evId b))

def parseEv (tok : String) : Option (Ev × Option Int) :=
  match tok.splitOn ":" with
  | ["s", i, n, r, c] => do pure (.start (← i.toNat?) (← n.toInt?) (← r.toInt?), some (← c.toInt?))
  | ["f", i, n] => do pure (.finish (← i.toNat?) (← n.toInt?), none)
  | ["c", i, t] => do pure (.ckpt (← i.toNat?) (← t.toInt?), none)
  | ["e", i] => do pure (.onErr (← i.toNat?), none)
  | _ => none

def errCounts (l : List Ev) : List (Nat × Nat) :=
  let ids := (l.filterMap (fun e => match e with | .onErr id => some id | _ => none))
  let uniq := ids.eraseDups.mergeSort (fun a b => decide (a ≤ b))
  uniq.map (fun i => (i, (ids.filter (· == i)).length))

structure Ctx where
  env : Env
  tbls : List Tbl
  model : St := {}
  mon : Mon := {}
  branches : List String := []
  starts : Nat := 0
  interesting : Nat := 0

def addBr (c : Ctx) (b : String) : Ctx := if c.branches.contains b then c else { c with branches := b :: c.branches }
def addBrIf (c : Ctx) (p : Bool) (b : String) : Ctx := if p then addBr c b else c

def parseRes : String → Option Res
  | "ok" => some .ok | "err" => some .err | "panic" => some .panic | _ => none

def parseOp (ts : List String) : Option Op :=
  match ts with
  | "sched" :: id :: sc :: off :: last :: rest => do
    let fr := ((field "frac=" rest).bind (·.toInt?)).getD 0
    pure (.sched (← id.toNat?) (← sc.toNat?) (← off.toInt?) (← last.toInt?) fr)
  | ["rel", id] => do pure (.rel (← id.toNat?))
  | ["adv", d] => do pure (.adv (← d.toNat?))
  | ["done", id, r, cp] => do
    let cpok ← (if cp == "cpok" then some true else if cp == "cperr" then some false else none)
    pure (.done (← id.toNat?) (← parseRes r) cpok)
  | _ => none

/-- Branch coverage of the model for one op (looked up on the states before/after). -/
def opBranches (E : Env) (op : Op) (s : St) : List String :=
  match op with
  | .sched id sc off last frac =>
    match E.nx sc last with
    | none => ["sched-next-error"]
    | some nt =>
      let o := off * 1000 + frac
      [if (aget s.index id).isSome then "sched-replace" else "sched-new",
       (match s.swhen with
        | none => "sched-arm-when-zero"
        | some w => if w > nt * 1000 + o then "sched-rearm-earlier" else "sched-no-rearm")] ++
      brIf (nt + secUp o ≤ s.now) "sched-already-due" ++
      brIf (early o == 1) "subsecond-offset-positive-rounded-up" ++
      brIf (frac < 0) "subsecond-offset-negative" ++
      brIf ((aget s.busy (E.wk id)).any (fun it => it.id == id && nt < it.next)) "resched-in-flight-earlier-next" ++
      brIf ((aget s.busy (E.wk id)).any (fun it => it.id == id && nt == it.next)) "resched-in-flight-same-next" ++
      brIf (off < 0) "negative-offset" ++
      brIf ((aget s.busy (E.wk id)).any (fun it => it.id == id)) "resched-while-in-flight" ++
      brIf (s.queue.any (fun it => it.whn == nt + secUp o && it.id != id)) "equal-when-tie" ++
      brIf s.spinning "sched-while-spinning"
  | .rel id =>
    [if (aget s.index id).isSome then "release-scheduled" else "release-absent"] ++
    brIf ((aget s.busy (E.wk id)).any (fun it => it.id == id)) "release-while-in-flight" ++
    brIf (s.tick && (aget s.index id).isSome) "release-between-fire-and-dispatch" ++
    brIf (s.queue.head?.any (fun it => it.id == id) && s.queue.length ≥ 2) "release-head-leaves-stale-timer"
  | .adv d =>
    if s.tick then ["adv-refused-tick-stuck"] else
    brIf (d == 0) "adv-zero" ++
    (match s.queue.head? with
     | some it =>
       brIf (it.whn == s.now + d && d > 0) "adv-exactly-due" ++
       brIf (it.whn == s.now + d + 1) "adv-one-short" ++
       brIf (match E.nx it.sc it.next with | some n => n + secUp it.off ≤ s.now + d | none => false) "adv-jumps-over-occurrences"
     | none => ["adv-empty-queue"])
  | .done id res cpok =>
    match aget s.busy (E.wk id) with
    | some it =>
      if it.id == id then
        [match res with | .ok => "done-ok" | .err => "done-err" | .panic => "done-panic"] ++ brIf (!cpok) "checkpoint-error"
      else ["done-not-in-flight"]
    | none => ["done-not-in-flight"]

def isStart : Ev → Bool
  | .start .. => true
  | _ => false

/-- newest first: an ErrorFunc call directly after the start of the same id = `updateNext` failed, item dropped. -/
def dropped : List Ev → Bool
  | .onErr i :: .start j n r :: rest => i == j || dropped (.start j n r :: rest)
  | _ :: rest => dropped rest
  | [] => false

def loopBranches (E : Env) (s s' : St) (newEvs : List Ev) : List String :=
  let nStarts := (newEvs.filter isStart).length
  brIf (nStarts ≥ 1) "dispatch" ++
  brIf (nStarts ≥ 2) "dispatch-several-in-one-op" ++
  brIf s'.spinning "loop-spins-on-busy-worker" ++
  brIf (s'.spinning && s'.queue.any (fun it => it.whn ≤ s'.now && (aget s'.busy (E.wk it.id)).any (fun b => b.id != it.id))) "blocked-by-other-task-on-worker" ++
  brIf (s'.spinning && s'.queue.any (fun it => it.whn ≤ s'.now && (aget s'.busy (E.wk it.id)).any (fun b => b.id == it.id))) "blocked-by-own-run" ++
  brIf s'.tick "tick-stuck" ++
  brIf (s.spinning && !s'.spinning) "spin-ends" ++
  brIf (s'.swhen.isNone && s.swhen.isSome) "loop-empty-when-zero" ++
  brIf (match s'.timer with | some d => d < s'.now * 1000 | none => false) "timer-rearmed-in-the-past" ++
  brIf (match s'.swhen, s'.queue.head? with | some w, some it => w < it.whn * 1000 | _, _ => false) "when-stale" ++
  brIf (s.tick && !s'.tick && nStarts == 0) "fired-tick-finds-nothing-to-dispatch" ++
  brIf (dropped newEvs) "drop-schedule-exhausted"

def noteBranches (c : Ctx) (op : Op) (s s' : St) : Ctx :=
  let newEvs := s'.trace.take (s'.trace.length - s.trace.length)
  let nStarts := (newEvs.filter isStart).length
  let c := (opBranches c.env op s ++ loopBranches c.env s s' newEvs).foldl addBr c
  { c with starts := c.starts + nStarts,
           interesting := c.interesting + (if s'.spinning || nStarts ≥ 2 then 1 else 0) }

/-! ### coordinator lines: `coord <new|up|del> id sc offms from= to= ls= lc= every= cron= [wk= tbl=] => status fwd=… …` -/

structure Desug where
  opT : List String
  obs : List String
  skip : Bool := false            -- nothing reached the scheduler (or the line is not executable in this build)
  mism : Option String := none    -- the coordinator model forwards something else than the real coordinator did
  /-- the real coordinator handed the scheduler another offset than the task's: runs can then start before
  occurrence + (the task's) offset, which is the property's never-early clause at its source -/
  spec : Option String := none
  brs : List String := []

def optTime (s : String) : Option (Option Int) :=
  if s == "z" || s == "" then some none else s.toInt?.map some

def renderFwd (offms : Int) : Fwd → String
  | .sched last => s!"sched:{offms}:{last}"
  | .rel => "rel"
  | .err => "none"
  | .unknown => "unknown"

def desugar (opT obs : List String) : Option Desug :=
  match opT with
  | "coord" :: kind :: id :: sc :: offms :: rest => do
    let status := obs.head?.getD ""
    if status == "unsupported" then return { opT := opT, obs := obs, skip := true }
    if status == "blocked" || status == "dead" || status == "panic" || status == "harnesserr" then return { opT := ["rel", id], obs := obs }
    let offN ← offms.toInt?
    let k ← (match kind with | "new" => some CKind.created | "up" => some CKind.updated | "del" => some CKind.deleted | _ => none)
    let get := fun (key : String) => (field (key ++ "=") rest).getD ""
    let ls ← optTime (get "ls")
    let lc ← optTime (get "lc")
    let ev := get "every"
    let every : Option Int := if ev == "-" || ev == "" then none else ev.toInt?
    let hasS := !(ev == "-" || ev == "") || !(get "cron" == "-" || get "cron" == "")
    let mk := fun (st : String) => ({ hasSchedule := hasS, every := every, active := st != "i", ls := ls, lc := lc } : CTask)
    let frm := mk (get "from")
    let to := mk (get "to")
    let expect := coordFwd k frm to
    let fwdTok ← field "fwd=" obs
    let obsRest := (obs.drop 1).filter (fun t => !t.startsWith "fwd=")
    let mism := if renderFwd offN expect == fwdTok then none
                else some s!"coordinator forwards: model {renderFwd offN expect} observed {fwdTok}"
    let brs := [match k with | .created => "coord-created" | .updated => "coord-updated" | .deleted => "coord-deleted"] ++
      (match expect with
       | .sched last => brIf (k == .updated && !to.active) "coord-update-of-inactive-task-schedules-it" ++
                        brIf (every.isSome && (match pickTs to with | some (some ts) => ts != last | _ => false)) "coord-every-aligns-last-scheduled" ++
                        brIf (match to.ls, to.lc with | some a, some b => a < b | _, _ => false) "coord-picks-latest-completed"
       | .rel => brIf (k == .updated) "coord-update-releases-deactivated-task"
       | .err => ["coord-no-schedule-error"]
       | .unknown => [])
    match fwdTok.splitOn ":" with
    | ["sched", o, l] =>
      let oN ← o.toInt?
      let spec := if oN == offN then none
                  else some s!"the coordinator scheduled the task with offset {oN} ms, the task's offset is {offN} ms"
      pure { opT := ["sched", id, sc, toString (oN.tdiv 1000), l, s!"frac={oN.tmod 1000}"] ++ rest.filter (fun t => t.startsWith "wk=" || t.startsWith "tbl="),
             obs := status :: obsRest, mism := mism, brs := brs, spec := spec }
    | ["rel"] => pure { opT := ["rel", id], obs := status :: obsRest, mism := mism, brs := brs }
    | ["none"] => pure { opT := opT, obs := obs, skip := true, mism := mism, brs := brs }
    | _ => pure { opT := opT, obs := obs, skip := true, mism := some s!"coordinator forwarded {fwdTok}", brs := brs }
  | _ => some { opT := opT, obs := obs }

/-- The comparator case: `less wa ia wb ib => 0|1` lines from the real `Item.Less`. -/
def judgeLess (lines : Array String) : Verdict := Id.run do
  for l in lines do
    let (opT, obs) := splitObs (tokens l)
    match opT with
    | ["cfg", _] => continue
    | ["less", wa, ia, wb, ib] =>
      let some wa := wa.toInt? | return .badop l
      let some ia := ia.toNat? | return .badop l
      let some wb := wb.toInt? | return .badop l
      let some ib := ib.toNat? | return .badop l
      let m := boolTok (less (key ia wa) (key ib wb))
      if obs != [m] then return .mismatch s!"Item.Less ({wa},{ia}) ({wb},{ib}): model {m} observed {obs}"
    | _ => return .badop l
  return .ok true ["less-grid"]

def judge (_id : String) (lines : Array String) : Verdict := Id.run do
  if lines.any (fun l => (tokens l).head? == some "less") then return judgeLess lines
  -- pre-pass: the oracles of the whole case
  let mut tbls : List Tbl := []
  let mut wks : List (Nat × Nat) := []
  for l in lines do
    let (opTr, obsr) := splitObs (tokens l)
    let some dz := desugar opTr obsr | return .badop l
    if dz.skip then continue
    let opT := dz.opT
    let obs0 := dz.obs
    -- ops after the scheduler stopped answering carry no oracle tokens; pass 1 stops at the `blocked` op before them
    if obs0.head? == some "dead" then continue
    match opT with
    | "sched" :: id :: sc :: _ :: last :: rest =>
      let some idn := id.toNat? | return .badop l
      let some scn := sc.toNat? | return .badop l
      let some lastn := last.toInt? | return .badop l
      match field "wk=" rest, field "tbl=" rest with
      | some w, some t =>
        let some wn := w.toNat? | return .badop l
        let some tb := parseTbl scn lastn t | return .badop s!"bad or non-increasing schedule table: {l}"
        if tbls.any (fun x => x.sc == scn) then return .badop s!"schedule number reused: {l}"
        tbls := tb :: tbls
        wks := aset wks idn wn
      | _, _ => return .badop s!"missing oracle tokens: {l}"
    | _ => pure ()
  let env := mkEnv tbls wks
  -- PASS 1: the property on the OBSERVED output of the whole case (independent of the model)
  let mut mon : Mon := {}
  for l in lines do
    let (opTr, obsr) := splitObs (tokens l)
    if opTr.head? == some "cfg" then continue
    let some dz := desugar opTr obsr | return .badop l
    if dz.skip then continue
    let opT := dz.opT
    let obs := dz.obs
    let some op := parseOp opT | return .badop l
    let status := obs.head?.getD ""
    if status == "badcron" || status == "badline" || status == "" then return .badop l
    -- the HARNESS gave up (a wait outlasted its hard deadline without the call having returned or being provably
    -- blocked): no verdict about the implementation, the check has not run
    if status == "harnesserr" || status == "unsettled" then
      return .badop s!"harness error: no quiescence / no return within the hard deadline at `{" ".intercalate opT}`"
    if status == "blocked" then return .specfail "returns-promptly" s!"{" ".intercalate opT} did not return"
    if status == "panic" then return .specfail "no-panic" s!"{" ".intercalate opT} panicked"
    if status == "dead" then return .badop l
    let some evTok := field "ev=" obs | return .badop l
    let evToks := if evTok == "-" then [] else evTok.splitOn ","
    if evToks.any (fun t => t.startsWith "o:") then return .specfail "no-overlap" s!"{" ".intercalate opT}: two Execute calls of one task at once ({evTok})"
    let some obsEvs := evToks.mapM parseEv | return .badop l
    let callEv : List Ev := match op with
      | .sched id sc off last fr => if status == "ok" then [.sched id sc (off * 1000 + fr) last] else [.schedErr id]
      | .rel id => [.rel id]
      | .adv d => if status == "refused" then [] else [.clock (mon.now + d)]
      | .done .. => []
    match monRun env.nx mon (callEv ++ obsEvs.map (·.1)) with
    | .error clause => return .specfail clause s!"at `{" ".intercalate opT}` observed {evTok}"
    | .ok m' => mon := m'
    let idle := dueIdle env.wk mon
    if !idle.isEmpty then
      return .specfail "due-run-dispatched" s!"after `{" ".intercalate opT}` task(s) {idle} have a due occurrence, an idle worker and no run"
  -- PASS 2: observed = model, op by op
  let mut c : Ctx := { env := env, tbls := tbls }
  for l in lines do
    let (opTr, obsr) := splitObs (tokens l)
    if opTr.head? == some "cfg" then continue
    let some dz := desugar opTr obsr | return .badop l
    match dz.spec with
    | some d => return .specfail "never-early-offset-forwarded" s!"`{" ".intercalate opTr}`: {d}"
    | none => pure ()
    match dz.mism with
    | some d => return .mismatch s!"`{" ".intercalate opTr}`: {d}"
    | none => pure ()
    c := dz.brs.foldl addBr c
    if dz.skip then continue
    let opT := dz.opT
    let obs := dz.obs
    let some op := parseOp opT | return .badop l
    let status := obs.head?.getD ""
    let some evTok := field "ev=" obs | return .badop l
    let evToks := if evTok == "-" then [] else evTok.splitOn ","
    let some obsEvs := evToks.mapM parseEv | return .badop l
    let s := c.model
    let callEv : List Ev := match op with
      | .sched id sc off last fr => if status == "ok" then [.sched id sc (off * 1000 + fr) last] else [.schedErr id]
      | .rel id => [.rel id]
      | .adv d => if status == "refused" then [] else [.clock (c.mon.now + d)]
      | .done .. => []
    match monRun c.env.nx c.mon (callEv ++ obsEvs.map (·.1)) with
    | .error clause => return .specfail clause s!"at `{" ".intercalate opT}` observed {evTok}"
    | .ok m' => c := { c with mon := m' }
    -- (2) observed = model
    let expStatus : String := match op with
      | .sched _ sc _ last _ => if (c.env.nx sc last).isSome then "ok" else "err"
      | .rel _ => "ok"
      | .adv _ => if s.tick then "refused" else "ok"
      | .done id _ _ => if (aget s.busy (c.env.wk id)).any (fun it => it.id == id) then "ok" else "noinflight"
    let oSorted := obsEvs.mergeSort (fun a b => decide (evId a.1 ≤ evId b.1))
    let oEvs := renderList (oSorted.filterMap (fun (p : Ev × Option Int) => renderEv 0 p.1))
    let diff (s' : St) : Option String :=
      let newEvs := (s'.trace.take (s'.trace.length - s.trace.length)).reverse
      let mEvs := renderList ((stableById newEvs).filterMap (renderEv s'.now))
      if mEvs != oEvs then some s!"events model {mEvs} observed {oEvs}"
      else if errCounts newEvs != errCounts (obsEvs.map (·.1)) then
        some s!"ErrorFunc calls model {errCounts newEvs} observed {errCounts (obsEvs.map (·.1))}"
      else
        ([("q", renderQueue s'.queue), ("ix", renderIndex s'.index), ("w", renderWhen s'.swhen), ("tick", boolTok s'.tick)].findSome?
          (fun (p : String × String) => match field (p.1 ++ "=") obs with
            | some o => if o == p.2 then none else some s!"{p.1} model {p.2} observed {o}"
            | none => some s!"missing {p.1}"))
    let s0 := step c.env [] s op
    -- A worker that finishes its run in the middle of an Ascend pass: the items of that worker visited before that
    -- instant were skipped although they come first. Only a `done` op frees a worker; the alternative is taken from
    -- the observed starts and replayed on the model (`skip`), everything else must still agree.
    let (s', raced) : St × Bool := match diff s0, op with
      | some _, .done id _ _ =>
        let w := c.env.wk id
        let started := obsEvs.filterMap (fun p => match p.1 with | .start i _ _ => some i | _ => none)
        let skip := (s.queue.filter (fun it => c.env.wk it.id == w && !started.contains it.id)).map (·.id)
        let s1 := step c.env skip s op
        if (diff s1).isNone then (s1, true) else (s0, false)
      | _, _ => (s0, false)
    if !decide (Quiescent c.env s') then
      return .badop s!"the model did not reach a quiescent state after `{" ".intercalate opT}` (loop fuel exhausted)"
    c := noteBranches c op s s'
    c := addBrIf c raced "worker-freed-mid-pass"
    c := { c with model := s' }
    -- the oracle tables must cover what the model looked up
    for it in s'.queue do
      if c.tbls.any (fun tb => tb.sc == it.sc && tb.truncatedAt == some it.next) then
        return .badop s!"schedule table too short for {l}"
    if status == "unsettled" then return .mismatch s!"the implementation did not become quiescent after `{" ".intercalate opT}`"
    if status != expStatus then return .mismatch s!"`{" ".intercalate opT}`: status model {expStatus} observed {status}"
    match diff s' with
    | some d => return .mismatch s!"`{" ".intercalate opT}`: {d}"
    | none => pure ()
    if s'.now != c.mon.now then return .mismatch "clock"
  let nt := c.starts ≥ 3 && c.interesting ≥ 1
  return .ok nt c.branches.reverse

end Kap.C17.Drv

def main : IO Unit := Kap.driverMain Kap.C17.Drv.judge
